SPECIFICATION Spec
CONSTANTS
  Loc = {"AU", "BE", "unknown"}
  Fam = {"v4", "v6"}
  Quest = {"qs", "qu"}
  Scoped = {"qs"}
  ScopedShared = FALSE
  ForwardClient = FALSE
INVARIANTS UpstreamSubnetIsCoarse DeclinedGetsZero RegionalAnswers EchoIffValidECS MalformedIsFORMERR
CHECK_DEADLOCK FALSE
