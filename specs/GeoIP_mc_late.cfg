SPECIFICATION Spec
CONSTANTS
  FilesSrc <- MCFiles
  MConfs <- MCConfs
  UseRegister = FALSE
  Refreshers = {"r1", "r2"}
  InvalidCountries = {"A1", "ZZZ"}
  InvalidContinents = {"ZZ"}
  Serial = TRUE
  Defect = "late"
  KeepHist = FALSE
  MaxPut = 2
  MaxRefresh = 2
  MaxData = 1
VIEW view
INVARIANTS TypeOK LocationsAreValues CacheAgreesWithDB CachedIsLookup ReadersSeeOneVersion FailedRefreshKeepsOld QuiescentConsistent SubnetContract SubnetInCountry UnknownIsNone SharedByKey MapsNeverAhead
CHECK_DEADLOCK FALSE
