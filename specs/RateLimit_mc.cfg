SPECIFICATION Spec
CONSTANTS
  KeepHist = FALSE
  Buckets = {"s1", "s2"}
  L = 2
  I = 2
  B = 2
  Dur = 3
  Per = 3
  MaxTime = 7
  MaxEvents = 5
  ForgetWindow = FALSE
INVARIANTS ExactWindow AllowlistNeverDropped AnyAlwaysDropped BackoffSound
PROPERTY SubnetIsolation
CHECK_DEADLOCK FALSE
