SPECIFICATION Spec
CONSTANTS
  KeepHist = FALSE
  Dev = {"d1", "d2"}
  Ref = {"r1", "r2"}
  MaxRecords = 5
  RemergeKeepsNewest = TRUE
  MaxRefreshes = 3
VIEW view
INVARIANTS TypeOK Conservation QuiescentConservation MetaBounded BatchMetaLatest
PROPERTY NoDoubleCount
CHECK_DEADLOCK FALSE
