SPECIFICATION Spec
CONSTANTS
  KeepHist = FALSE
  Lsn = {"l1", "l2"}
  MaxStop = 3
  MaxConns = 3
  MaxAccepts = 4
  BroadcastOnDec = TRUE
  CheckClosedFirst = TRUE
INVARIANTS TypeOK CounterExact Bound SatMatches NoLostWakeup CloseReleasesWaiters
PROPERTY Hysteresis Progress
CHECK_DEADLOCK FALSE
