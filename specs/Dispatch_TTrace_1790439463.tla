---- MODULE Dispatch_TTrace_1790439463 ----
EXTENDS Sequences, TLCExt, Toolbox, Dispatch, Naturals, TLC

_expression ==
    LET Dispatch_TEExpression == INSTANCE Dispatch_TEExpression
    IN Dispatch_TEExpression!expression
----

_trace ==
    LET Dispatch_TETrace == INSTANCE Dispatch_TETrace
    IN Dispatch_TETrace!trace
----

_inv ==
    ~(
        TLCGet("level") = Len(_TETrace)
        /\
        pc = ("Done")
        /\
        t = ("dot")
        /\
        pending = (0)
        /\
        h = ("-")
        /\
        k = (1)
        /\
        cls = ([qr |-> TRUE, op |-> "OTHER", qd |-> 0, an |-> 0, ns |-> 0, wire |-> "dec"])
        /\
        up = (TRUE)
        /\
        out = (<<[k |-> "resp", rc |-> "NOTIMP", id |-> TRUE, q |-> TRUE]>>)
        /\
        base = ("NOTIMP")
    )
----

_init ==
    /\ h = _TETrace[1].h
    /\ k = _TETrace[1].k
    /\ out = _TETrace[1].out
    /\ t = _TETrace[1].t
    /\ pc = _TETrace[1].pc
    /\ cls = _TETrace[1].cls
    /\ pending = _TETrace[1].pending
    /\ base = _TETrace[1].base
    /\ up = _TETrace[1].up
----

_next ==
    /\ \E i,j \in DOMAIN _TETrace:
        /\ \/ /\ j = i + 1
              /\ i = TLCGet("level")
        /\ h  = _TETrace[i].h
        /\ h' = _TETrace[j].h
        /\ k  = _TETrace[i].k
        /\ k' = _TETrace[j].k
        /\ out  = _TETrace[i].out
        /\ out' = _TETrace[j].out
        /\ t  = _TETrace[i].t
        /\ t' = _TETrace[j].t
        /\ pc  = _TETrace[i].pc
        /\ pc' = _TETrace[j].pc
        /\ cls  = _TETrace[i].cls
        /\ cls' = _TETrace[j].cls
        /\ pending  = _TETrace[i].pending
        /\ pending' = _TETrace[j].pending
        /\ base  = _TETrace[i].base
        /\ base' = _TETrace[j].base
        /\ up  = _TETrace[i].up
        /\ up' = _TETrace[j].up

\* Uncomment the ASSUME below to write the states of the error trace
\* to the given file in Json format. Note that you can pass any tuple
\* to `JsonSerialize`. For example, a sub-sequence of _TETrace.
    \* ASSUME
    \*     LET J == INSTANCE Json
    \*         IN J!JsonSerialize("Dispatch_TTrace_1790439463.json", _TETrace)

=============================================================================

 Note that you can extract this module `Dispatch_TEExpression`
  to a dedicated file to reuse `expression` (the module in the 
  dedicated `Dispatch_TEExpression.tla` file takes precedence 
  over the module `Dispatch_TEExpression` below).

---- MODULE Dispatch_TEExpression ----
EXTENDS Sequences, TLCExt, Toolbox, Dispatch, Naturals, TLC

expression == 
    [
        \* To hide variables of the `Dispatch` spec from the error trace,
        \* remove the variables below.  The trace will be written in the order
        \* of the fields of this record.
        h |-> h
        ,k |-> k
        ,out |-> out
        ,t |-> t
        ,pc |-> pc
        ,cls |-> cls
        ,pending |-> pending
        ,base |-> base
        ,up |-> up
        
        \* Put additional constant-, state-, and action-level expressions here:
        \* ,_stateNumber |-> _TEPosition
        \* ,_hUnchanged |-> h = h'
        
        \* Format the `h` variable as Json value.
        \* ,_hJson |->
        \*     LET J == INSTANCE Json
        \*     IN J!ToJson(h)
        
        \* Lastly, you may build expressions over arbitrary sets of states by
        \* leveraging the _TETrace operator.  For example, this is how to
        \* count the number of times a spec variable changed up to the current
        \* state in the trace.
        \* ,_hModCount |->
        \*     LET F[s \in DOMAIN _TETrace] ==
        \*         IF s = 1 THEN 0
        \*         ELSE IF _TETrace[s].h # _TETrace[s-1].h
        \*             THEN 1 + F[s-1] ELSE F[s-1]
        \*     IN F[_TEPosition - 1]
    ]

=============================================================================



Parsing and semantic processing can take forever if the trace below is long.
 In this case, it is advised to uncomment the module below to deserialize the
 trace from a generated binary file.

\*
\*---- MODULE Dispatch_TETrace ----
\*EXTENDS IOUtils, Dispatch, TLC
\*
\*trace == IODeserialize("Dispatch_TTrace_1790439463.bin", TRUE)
\*
\*=============================================================================
\*

---- MODULE Dispatch_TETrace ----
EXTENDS Dispatch, TLC

trace == 
    <<
    ([pc |-> "Recv",t |-> "dot",pending |-> 0,h |-> "-",k |-> 1,cls |-> [qr |-> FALSE, op |-> "QUERY", qd |-> 0, an |-> 0, ns |-> 0, wire |-> "dec"],up |-> TRUE,out |-> <<>>,base |-> "-"]),
    ([pc |-> "Unpack",t |-> "dot",pending |-> 1,h |-> "-",k |-> 1,cls |-> [qr |-> FALSE, op |-> "QUERY", qd |-> 0, an |-> 0, ns |-> 0, wire |-> "dec"],up |-> TRUE,out |-> <<>>,base |-> "-"]),
    ([pc |-> "Accept",t |-> "dot",pending |-> 1,h |-> "-",k |-> 1,cls |-> [qr |-> TRUE, op |-> "OTHER", qd |-> 0, an |-> 0, ns |-> 0, wire |-> "dec"],up |-> TRUE,out |-> <<>>,base |-> "-"]),
    ([pc |-> "Write",t |-> "dot",pending |-> 1,h |-> "-",k |-> 1,cls |-> [qr |-> TRUE, op |-> "OTHER", qd |-> 0, an |-> 0, ns |-> 0, wire |-> "dec"],up |-> TRUE,out |-> <<>>,base |-> "NOTIMP"]),
    ([pc |-> "Done",t |-> "dot",pending |-> 0,h |-> "-",k |-> 1,cls |-> [qr |-> TRUE, op |-> "OTHER", qd |-> 0, an |-> 0, ns |-> 0, wire |-> "dec"],up |-> TRUE,out |-> <<[k |-> "resp", rc |-> "NOTIMP", id |-> TRUE, q |-> TRUE]>>,base |-> "NOTIMP"])
    >>
----


=============================================================================

---- CONFIG Dispatch_TTrace_1790439463 ----
CONSTANTS
    Transports = { "udp" , "tcp" , "dot" , "doh-post" , "doh-get" , "doh-json" , "doq" , "dnscrypt-udp" , "dnscrypt-tcp" }
    MaxInputs = 3
    Defect = "answer_qr"
    DCRecover = TRUE

INVARIANT
    _inv

CHECK_DEADLOCK
    \* CHECK_DEADLOCK off because of PROPERTY or INVARIANT above.
    FALSE

INIT
    _init

NEXT
    _next

CONSTANT
    _TETrace <- _trace

ALIAS
    _expression
=============================================================================
\* Generated on Sat Sep 26 16:17:44 UTC 2026