SPECIFICATION Spec
CONSTANTS
  Lists = {"ridx", "rl1", "rl2", "sidx"}
  Faults = {"ok", "refused", "timeout", "status", "empty", "oversize", "trunc", "cancel", "inv", "invown"}
  MaxRounds = 2
  CrashAnywhere = TRUE
  Defects = {}
  KeepHist = FALSE
VIEW view
INVARIANTS TypeOK FaultyKeepsPrevious OthersPreviousOrNew ValidIndexEntriesApplied AllOkInstallsNew DiskAlwaysComplete RestartUsable
CHECK_DEADLOCK FALSE
