SPECIFICATION Spec
CONSTANTS
  KeepHist = FALSE
  Ids = {"a"}
  KnownIfaces = {"eth1"}
  UnknownIface = "nx"
  Ports = {53}
  W = 2
  BufInit = 1
  MaxReg = 3
  MaxItems = 3
  Kinds = {"tcp"}
  Defect = "none"
VIEW view
INVARIANTS TypeOK RegistrationSound DecisionConsistent DispatchBySubnet NoStrayDelivery NoLeak QueuesExact HoldExact NoLostWakeup WriteBackSource
PROPERTY ClosedGetsNothing
CHECK_DEADLOCK FALSE
