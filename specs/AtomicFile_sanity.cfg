SPECIFICATION Spec
CONSTANTS
  Chunks = 3
  Direct = TRUE
  InitiallyAbsent = FALSE
INVARIANTS DiskAlwaysComplete DoneMeansNew
CHECK_DEADLOCK FALSE
