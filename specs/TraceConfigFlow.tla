-------------------------- MODULE TraceConfigFlow --------------------------
(* Per-line validation of the EXT8 recorder (harness/internal/cmd/ext8_test.go,
   normalised by tools/checks/ext8.py) against the relation of ConfigFlow.

   Line 1 (kind "base") is the distributed example carried through the real
   glue:
     leaves   leaf instance (Key) -> canonical value
     lv       the same as a sequence <<[k, p, i, v]>>
     targets  target instance (Key) -> canonical value
     tinst    target pattern -> the index tuples of its instances
   Every other line is one variant of the example in which only the leaves of
   `set` differ:
     leafp, cls, op   the varied leaf (pattern), its value class, set/drop/add/swap
     accepted         parseConfig, validate and validateFromValidConfig returned nil
     set              <<[k, p, i, v]>>: leaf instance, pattern, index, new value
                      ("<absent>" for a removed list element)
     chg              <<[k, p, i, old, new, pre]>>: every flattened target whose
                      value differs from the base run; pre = the prefixes of p
     unobs            targets a builder step that failed only in this variant
                      would have produced (not judged)
   A line is judged clause by clause; a non-conforming line does not block the
   trace (NONCONF <<clause, leaf pattern, target pattern>>).  Lines whose leaves
   the relation declares undocumented are OBSERVED. *)
EXTENDS ConfigFlow, Json

VARIABLE l
Trace == ndJsonDeserialize("trace.ndjson")
B == Trace[1]
tvars == <<vars, l>>

Idx(s) == {j \in 1..Len(s) : TRUE}
IsPrefix(a, b) == Len(a) <= Len(b) /\ SubSeq(b, 1, Len(a)) = a

SetKeys(e) == {e.set[j].k : j \in Idx(e.set)}
CurT(e, k) == IF k \in SetKeys(e) THEN e.set[CHOOSE j \in Idx(e.set) : e.set[j].k = k].v
              ELSE IF k \in DOMAIN B.leaves THEN B.leaves[k] ELSE Absent
ChgKeys(e) == {e.chg[j].k : j \in Idx(e.chg)}
After(e, tk) == IF tk \in ChgKeys(e) THEN e.chg[CHOOSE j \in Idx(e.chg) : e.chg[j].k = tk].new
                ELSE IF tk \in DOMAIN B.targets THEN B.targets[tk] ELSE Absent
Unobs(e, tk) == \E j \in Idx(e.unobs) : e.unobs[j] = tk
\* the instances of a target pattern, in the base run or in this variant
Inst(e, p) == (IF p \in DOMAIN B.tinst THEN {B.tinst[p][j] : j \in Idx(B.tinst[p])} ELSE {})
              \cup {e.chg[j].i : j \in {x \in Idx(e.chg) : e.chg[x].p = p}}

TargetsOf(e, ent, s) ==
    CASE ent.idx = "none" -> {<<>>}
      [] ent.idx = "same" -> {s.i}
      [] ent.idx = "all" -> Inst(e, ent.tgt)
      [] ent.idx = "pre" -> {ti \in Inst(e, ent.tgt) : IsPrefix(s.i, ti)}
      [] OTHER -> Inst(e, ent.tgt)

\* entry ent holds for the changed leaf instance s of line e
OK(e, ent, s) ==
    LET exp == Expected(ent, s.v, LAMBDA k : CurT(e, k))
        keys == {Key(ent.tgt, ti) : ti \in TargetsOf(e, ent, s)}
    IN IF s.v = Absent
       THEN \* a removed list element: its own targets are gone
            \* (an absent list is recorded like an empty one: length 0)
            ent.idx \notin {"same", "pre"} \/ \A tk \in keys : Unobs(e, tk) \/ After(e, tk) \in {Absent, "0"}
       ELSE IF ent.idx = "mem"
       THEN (\E tk \in keys : After(e, tk) = exp) \/ (\E tk \in keys : Unobs(e, tk)) \/ (exp = Absent)
       ELSE \A tk \in keys : Unobs(e, tk) \/ After(e, tk) = exp
            \* an instance that does not exist in this variant (the listener of
            \* another protocol) has nothing to carry
            \/ (ent.idx \in {"all", "pre"} /\ After(e, tk) = Absent /\ exp # Absent /\ tk \notin DOMAIN B.targets)

Clause(e, ent, s) ==
    IF GateOff(ent, s.v, LAMBDA k : CurT(e, k)) THEN "GatedByOwnFlag"
    ELSE IF e.op \in {"drop", "add"} THEN "PartitionExact"
    ELSE IF e.op = "swap" THEN "OrderPreserved"
    ELSE IF e.cls \in {"zero", "small"} /\ s.p = e.leafp THEN "ZeroIsMeaningful"
    ELSE "Reaches"

Unreached(e) ==
    UNION { { <<Clause(e, ent, e.set[j]), e.set[j].p, ent.tgt>> :
              ent \in {x \in Flow : x.leaf = e.set[j].p /\ Judged(x) /\ Applies(x, e.set[j].v) /\ ~OK(e, x, e.set[j])} }
            : j \in Idx(e.set) }

IdxOK(mode, li, ti) == IF mode \in {"same", "pre"} THEN IsPrefix(li, ti) ELSE TRUE
Matches(ent, c) == ent.tgt = c.p \/ \E j \in Idx(c.pre) : ent.tgt = c.pre[j] \o ".*"
AllowedChange(e, c) ==
    \/ \E j \in Idx(e.set) : \E ent \in Flow :
          ent.leaf = e.set[j].p /\ Matches(ent, c) /\ IdxOK(ent.idx, e.set[j].i, c.i)
    \* a switch owns what it gates
    \/ \E ent \in Flow : Judged(ent) /\ ent.tgt = c.p /\ ent.gate \in SetKeys(e)
CrossTalk(e) == { <<"NoCrossTalk", e.leafp, e.chg[j].p>> : j \in {x \in Idx(e.chg) : ~AllowedChange(e, e.chg[x])} }

\* the base run itself: every documented leaf of the example has reached its targets
BaseLine == [id |-> 0, leafp |-> "", cls |-> "base", op |-> "set", accepted |-> TRUE, set |-> <<>>, chg |-> <<>>, unobs |-> <<>>]
BaseUnreached ==
    UNION { LET s == B.lv[j] IN
            { <<(IF GateOff(ent, s.v, LAMBDA k : CurT(BaseLine, k)) THEN "GatedByOwnFlag" ELSE "Reaches"), s.p, ent.tgt>> :
              ent \in {x \in Flow : x.leaf = s.p /\ Judged(x) /\ Applies(x, s.v) /\ ~OK(BaseLine, x, s)} }
            : j \in Idx(B.lv) }

Documented(e) == \E j \in Idx(e.set) : e.set[j].p \in FlowLeaves
Cells == {<<x.leaf>> : x \in Flow}

TraceInit == /\ Init /\ l = 2
             /\ PrintT(<<"MUSTLEAVES", MustLeaves>>) /\ PrintT(<<"FLOWLEAVES", FlowLeaves>>)
             /\ PrintT(<<"UNDOCUMENTED", Undocumented>>)
             /\ PrintT(<<"XFBYLEAF", {<<x.leaf, x.xf>> : x \in {y \in Flow : Judged(y)}}>>)
             /\ (IF BaseUnreached = {} THEN TRUE ELSE PrintT(<<"NONCONF", 1, BaseUnreached>>))
TraceNext ==
    /\ l <= Len(Trace) /\ l' = l + 1 /\ UNCHANGED vars
    /\ LET e == Trace[l] IN
       IF ~e.accepted THEN TRUE
       ELSE IF ~Documented(e)
       THEN (IF Len(e.chg) > 0 THEN PrintT(<<"OBSERVED", l, {e.chg[j].p : j \in Idx(e.chg)}>>) ELSE TRUE)
       ELSE LET r == Unreached(e) \cup CrossTalk(e) IN
            IF r = {} THEN TRUE ELSE PrintT(<<"NONCONF", l, r>>)
TraceSpec == TraceInit /\ [][TraceNext]_tvars
TraceAccepted == LET d == TLCGet("stats").diameter IN
    IF d = Len(Trace) THEN TRUE ELSE PrintT(<<"STUCK", d, Len(Trace)>>) /\ FALSE
=============================================================================
