SPECIFICATION TableSpec
CONSTANTS
  Keys = {"k1"}
  RowSets = {{"ra"}}
  Rec = {"p1"}
  Dmp = {"d1"}
  MaxSize = 1
  MaxRecords = 1
  MaxDumps = 1
  KeepHist = FALSE
  Variant = "code"
INVARIANTS OnlySuccessfulResponses OnlySingleQuestion OnlyAddressQuestions AndroidMetricsNeverRecorded ClassAndAnswersIrrelevant RowTypesAreAddressOrCNAME SomethingIsRecorded
CHECK_DEADLOCK FALSE
