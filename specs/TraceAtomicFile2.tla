-------------------------- MODULE TraceAtomicFile2 --------------------------
(* C13: observations of the cache file of one refreshable while two of its
   refreshes overlap (harness c13overlap_test.go): after the second refresh
   has completed with the first one held half-way, and after both have ended.
   DiskAlwaysComplete of AtomicFile2.tla: what is on disk is a complete
   version -- the previous one, or one of the two being downloaded.           *)
EXTENDS Naturals, Sequences, TLC, Json

VARIABLE l
Trace == ndJsonDeserialize("trace.ndjson")
CompleteVersion(s) == s \in {"old", "va", "vb"}
Reasons(e) ==
    (IF CompleteVersion(e.after_b) THEN {} ELSE {"DiskAlwaysComplete (second refresh done, first one half-way)"})
    \cup (IF CompleteVersion(e.final) THEN {} ELSE {"DiskAlwaysComplete (both refreshes ended)"})
TraceInit == l = 1
TraceNext == /\ l <= Len(Trace) /\ l' = l + 1
             /\ LET r == Reasons(Trace[l]) IN IF r = {} THEN TRUE ELSE PrintT(<<"NONCONF", l, r>>)
TraceSpec == TraceInit /\ [][TraceNext]_l
TraceAccepted == LET d == TLCGet("stats").diameter IN
    IF d - 1 = Len(Trace) THEN TRUE ELSE PrintT(<<"STUCK", d, Len(Trace)>>) /\ FALSE
=============================================================================
