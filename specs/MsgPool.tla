------------------------------ MODULE MsgPool ------------------------------
(* C07.  Ownership of pooled objects (dnsmsg.Cloner: dns.Msg, A, AAAA, CNAME,
   HTTPS+SVCB values, MX, PTR, SRV, TXT, SOA, OPT+options) across
   Clone / Dispose / cache store / write.

   Objects are cells of a finite heap.  A live message owns a set of objects.
   Clone(src) builds a new message from objects taken out of the free list or
   freshly allocated; Dispose(m) returns m's objects to the free list and ends
   m's life.  ShareOnClone = TRUE is a defective cloner that lets the clone keep
   one object of its source (a shallow copy of one record).
   DisposeTwice = TRUE lets a message be disposed again after its death.      *)
EXTENDS Naturals, FiniteSets, TLC

CONSTANTS Obj, Msgs, ShareOnClone, DisposeTwice

VARIABLES owns,      \* [Msgs -> SUBSET Obj]   objects of each message (live or dead)
          live,      \* SUBSET Msgs
          dead,      \* SUBSET Msgs            disposed messages
          free,      \* SUBSET Obj             objects in the pools
          puts       \* [Obj -> Nat]           how many times an object sits in a pool
vars == <<owns, live, dead, free, puts>>

Init == /\ owns = [m \in Msgs |-> {}] /\ live = {} /\ dead = {} /\ free = {}
        /\ puts = [o \in Obj |-> 0]

Used == UNION {owns[m] : m \in live}
Fresh == Obj \ (Used \cup free \cup UNION {owns[m] : m \in dead})

\* a message that did not come from the cloner (an upstream reply, a request)
New(m, S) == /\ m \notin live \cup dead /\ S # {} /\ S \subseteq Fresh
             /\ owns' = [owns EXCEPT ![m] = S] /\ live' = live \cup {m}
             /\ UNCHANGED <<dead, free, puts>>

Clone(src, m, S) ==
    /\ src \in live /\ m \notin live \cup dead
    /\ S # {} /\ S \subseteq (free \cup Fresh)
    /\ LET shared == IF ShareOnClone THEN {CHOOSE o \in owns[src] : TRUE} ELSE {} IN
       owns' = [owns EXCEPT ![m] = S \cup shared]
    /\ live' = live \cup {m}
    /\ free' = free \ S
    /\ puts' = [o \in Obj |-> IF o \in S THEN 0 ELSE puts[o]]
    /\ UNCHANGED dead

Dispose(m) ==
    /\ m \in live \/ (DisposeTwice /\ m \in dead)
    /\ free' = free \cup owns[m]
    /\ puts' = [o \in Obj |-> IF o \in owns[m] THEN puts[o] + 1 ELSE puts[o]]
    /\ live' = live \ {m} /\ dead' = dead \cup {m}
    /\ UNCHANGED owns

Next == \/ \E m \in Msgs, S \in SUBSET Obj : New(m, S)
        \/ \E src, m \in Msgs, S \in SUBSET Obj : Clone(src, m, S)
        \/ \E m \in Msgs : Dispose(m)
Spec == Init /\ [][Next]_vars

\* two live messages share no object: releasing or rewriting one never alters another
NoAlias == \A a, b \in live : a # b => owns[a] \cap owns[b] = {}
\* no message that is still in use contains an object that is back in a pool
NoUseAfterFree == Used \cap free = {}
\* an object is in a pool at most once
NoDoublePut == \A o \in Obj : puts[o] <= 1
=============================================================================
