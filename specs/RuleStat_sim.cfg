SPECIFICATION Spec
CONSTANTS
  Lists = {"adguard", "other"}
  Counted = "adguard"
  Texts = {"t1", "t2", "t3"}
  Ref = {"r1", "r2"}
  MaxCollects = 14
  MaxRefreshes = 6
  KeepHist = TRUE
  Variant = "code"
CONSTRAINT EmitHist
CHECK_DEADLOCK FALSE
