---------------------------- MODULE ConnLimiter ----------------------------
(* C18, connection part.  internal/connlimiter: several limitListeners share
   one counter {current, stop, resume, isAccepting} and one sync.Cond.

   One action per lock region / blocking point of the Go code:
     CallAccept(l)     Accept is called                      (no shared state yet)
     TryInc(l)         one evaluation of the loop condition of limitListener.increment
                       under counterCond.L: take a slot, park in Cond.Wait, or give up
     InnerOK(l)        the wrapped listener's Accept returned a connection
     InnerErr(l)       it returned an error; limitListener.decrement
     CloseConn(c)      first limitConn.Close: decrement (+ wake-up)
     CloseConnAgain(c) any later Close of the same conn: nothing (atomic flag)
     CloseListener(l)  limitListener.Close: isClosed, Broadcast
   The condition variable is explicit: pc[l] = "parked" is a goroutine inside
   Cond.Wait, "woken" one that was signalled and has yet to re-take the lock.

   BroadcastOnDec / CheckClosedFirst select between the pinned tree (FALSE,
   FALSE: Signal in decrement; the slot is taken before isClosed is looked at)
   and the repaired code (TRUE, TRUE).                                         *)
EXTENDS Naturals, FiniteSets, Sequences, TLC, Json

CONSTANTS Lsn,              \* listener ids (strings)
          MaxStop,          \* thresholds range over all 1 <= stop <= MaxStop, 0 <= resume <= stop
          MaxConns,         \* bound on connections ever created
          MaxAccepts,       \* bound on Accept calls (keeps the graph finite)
          BroadcastOnDec, CheckClosedFirst,
          KeepHist          \* TRUE only for behaviour generation

VARIABLES stop, resume,     \* counter.stop, counter.resume (fixed after Init)
          cur, accepting,   \* counter.current, counter.isAccepting
          pc,               \* [Lsn -> {"idle","try","parked","woken","inner"}]
          lclosed,          \* [Lsn -> BOOLEAN] limitListener.isClosed
          open,             \* connection ids handed out and not yet closed
          closed,           \* connection ids closed at least once
          nconn, nacc,      \* counters bounding the exploration
          sat,              \* ghost: saturated -- stop was reached and resume not yet
          hist

vars == <<stop, resume, cur, accepting, pc, lclosed, open, closed, nconn, nacc, sat, hist>>
view == <<stop, resume, cur, accepting, pc, lclosed, open, closed, nconn, nacc, sat>>

Thresholds == {t \in (1..MaxStop) \X (0..MaxStop) : t[2] <= t[1]}

Init == /\ \E t \in Thresholds : stop = t[1] /\ resume = t[2]
        /\ cur = 0 /\ accepting = TRUE
        /\ pc = [l \in Lsn |-> "idle"]
        /\ lclosed = [l \in Lsn |-> FALSE]
        /\ open = {} /\ closed = {} /\ nconn = 0 /\ nacc = 0
        /\ sat = FALSE
        /\ hist = <<>>

H(a, l, c) == /\ hist' = IF KeepHist THEN Append(hist, [a |-> a, l |-> l, c |-> c, stop |-> stop, resume |-> resume]) ELSE hist
              /\ UNCHANGED <<stop, resume>>

Parked == {l \in Lsn : pc[l] = "parked"}

\* counter.decrement + the wake-up that follows it, given the pc function to start from.
DecFrom(p) ==
    /\ cur' = cur - 1
    /\ accepting' = (accepting \/ cur - 1 <= resume)
    /\ sat' = IF cur - 1 <= resume THEN FALSE ELSE sat
    /\ IF BroadcastOnDec
       THEN pc' = [l \in Lsn |-> IF p[l] = "parked" THEN "woken" ELSE p[l]]
       ELSE \/ /\ {l \in Lsn : p[l] = "parked"} = {} /\ pc' = p
            \/ \E w \in {l \in Lsn : p[l] = "parked"} : pc' = [p EXCEPT ![w] = "woken"]

CallAccept(l) ==
    /\ pc[l] = "idle" /\ nacc < MaxAccepts
    /\ pc' = [pc EXCEPT ![l] = "try"]
    /\ nacc' = nacc + 1
    /\ H("Accept", l, 0)
    /\ UNCHANGED <<cur, accepting, lclosed, open, closed, nconn, sat>>

TryInc(l) ==
    /\ pc[l] \in {"try", "woken"}
    /\ IF CheckClosedFirst /\ lclosed[l]
       THEN /\ pc' = [pc EXCEPT ![l] = "idle"]            \* Accept returns net.ErrClosed
            /\ UNCHANGED <<cur, accepting, sat>>
       ELSE IF accepting
       THEN /\ cur' = cur + 1
            /\ accepting' = (cur + 1 < stop)
            /\ sat' = (cur + 1 >= stop)
            /\ pc' = [pc EXCEPT ![l] = IF lclosed[l] THEN "idle" ELSE "inner"]   \* pinned tree: slot leaked
       ELSE /\ pc' = [pc EXCEPT ![l] = IF lclosed[l] THEN "idle" ELSE "parked"]
            /\ UNCHANGED <<cur, accepting, sat>>
    /\ H("TryInc", l, 0)
    /\ UNCHANGED <<lclosed, open, closed, nconn, nacc>>

InnerOK(l) ==
    /\ pc[l] = "inner" /\ ~lclosed[l] /\ nconn < MaxConns
    /\ nconn' = nconn + 1
    /\ open' = open \cup {nconn + 1}
    /\ pc' = [pc EXCEPT ![l] = "idle"]
    /\ H("InnerOK", l, nconn + 1)
    /\ UNCHANGED <<cur, accepting, lclosed, closed, nacc, sat>>

InnerErr(l) ==
    /\ pc[l] = "inner"
    /\ DecFrom([pc EXCEPT ![l] = "idle"])
    /\ H("InnerErr", l, 0)
    /\ UNCHANGED <<lclosed, open, closed, nconn, nacc>>

CloseConn(c) ==
    /\ c \in open
    /\ open' = open \ {c} /\ closed' = closed \cup {c}
    /\ DecFrom(pc)
    /\ H("CloseConn", "", c)
    /\ UNCHANGED <<lclosed, nconn, nacc>>

CloseConnAgain(c) ==
    /\ c \in closed
    /\ H("CloseConnAgain", "", c)
    /\ UNCHANGED <<cur, accepting, pc, lclosed, open, closed, nconn, nacc, sat>>

CloseListener(l) ==
    /\ ~lclosed[l]
    /\ lclosed' = [lclosed EXCEPT ![l] = TRUE]
    /\ pc' = [k \in Lsn |-> IF pc[k] = "parked" THEN "woken" ELSE pc[k]]   \* Broadcast
    /\ H("CloseListener", l, 0)
    /\ UNCHANGED <<cur, accepting, open, closed, nconn, nacc, sat>>

Next == \/ \E l \in Lsn : CallAccept(l) \/ TryInc(l) \/ InnerOK(l) \/ InnerErr(l) \/ CloseListener(l)
        \/ \E c \in 1..MaxConns : CloseConn(c) \/ CloseConnAgain(c)

Spec == Init /\ [][Next]_vars /\ \A l \in Lsn : WF_vars(TryInc(l))

-----------------------------------------------------------------------------
Inner == {l \in Lsn : pc[l] = "inner"}

TypeOK == /\ cur \in Nat /\ accepting \in BOOLEAN
          /\ pc \in [Lsn -> {"idle", "try", "parked", "woken", "inner"}]

\* the counter is exactly the number of slots in use ...
CounterExact == cur = Cardinality(open) + Cardinality(Inner)
\* ... which never exceeds the stop threshold (C18, first clause).
Bound == Cardinality(open) + Cardinality(Inner) <= stop
\* once stop was reached nothing is accepted until the number fell to resume
SatMatches == accepting = ~sat
Hysteresis == [][/\ (cur' > cur => ~sat)
                 /\ (sat /\ ~sat' => cur' <= resume)
                 /\ (~sat /\ sat' => cur' >= stop)]_vars
\* "after which waiting accepts proceed": no goroutine stays parked while the
\* limiter is accepting (every waiter has been woken and will re-evaluate).
NoLostWakeup == accepting => \A l \in Lsn : pc[l] # "parked"
\* "closing a listener releases its waiters"
CloseReleasesWaiters == \A l \in Lsn : lclosed[l] => pc[l] # "parked"
\* liveness form: a woken or trying accept eventually gets a slot, parks again or returns
Progress == \A l \in Lsn : pc[l] \in {"try", "woken"} ~> pc[l] \notin {"try", "woken"}

EmitHist == PrintT(<<"BEH", ToJson(hist)>>)
=============================================================================
