SPECIFICATION Spec
CONSTANTS
  Servers = {"adult", "safe"}
  MaxV = 2
  AnyConf = FALSE
  Defect = "abort_on_fail"
  KeepHist = FALSE
  Atomic = FALSE
VIEW view
INVARIANTS TypeOK
PROPERTIES RefreshIsTotal
CHECK_DEADLOCK FALSE
