----------------------------- MODULE TLSManager -----------------------------
(* EXT6, second component.  internal/tlsconfig.DefaultManager: the one store
   of certificate/key pairs behind every tls.Config of the process (DoT, DoH,
   DoQ servers: CloneWithMetrics; web service binds: Clone), re-read by
   Refresh, and the session-ticket keys re-read by RotateTickets.

   What the package and doc/configuration.md say:
     Add      "saves an initialized TLS certificate using the provided paths";
              certStorage.add: "Certificate paths must only be added once"
              (Add skips a pair that is already stored)
     certs    certStorage.certs: "All elements must not be nil"
     Refresh  agdservice.Refresher: returns the error of the refresh; the
              error is also sent to the error collector; the range function
              goes on with the other pairs after a failing one
     tickets  session_keys: "the array of file paths from which the each
              server's TLS session keys are updated.  Session ticket key files
              must contain at least 32 bytes."  RotateTickets "rereads and
              resets TLS session tickets"; on an error the rotation-status
              metric is set to false and the error is collected
     Clone    "returns the TLS configuration that contains saved TLS
              certificates"

   Where these are silent the code's reading is the model (assumptions of the
   check): selection is "the first stored pair, in the order of Add, whose
   leaf certificate supports the ClientHello" with no default certificate (an
   SNI that no stored certificate covers fails the handshake; a ClientHello
   without SNI gets the first pair); a configuration cloned after a rotation
   has its own automatic ticket keys until the next rotation.

   Abstraction.  A certificate is an identifier whose *kind* says which server
   names it covers (Covers); "A1" and "A2" are two issues of the same kind.
   A pair file holds a certificate id or is unusable ("none" missing,
   "garbage", "mismatch": the key belongs to another certificate).  A ticket
   file holds a key number k > 0 (10 + k: the same 32 bytes followed by more),
   0 when missing, 9 when shorter than 32 bytes.  The ticket keys of a
   configuration are a sequence of key numbers; <<>> stands for crypto/tls's
   own automatic keys, which are private to the configuration (AutoKey(i)).
   A session remembers the key its ticket was sealed with; it resumes on a
   configuration iff that key is among the configuration's current keys.

   Actions (one per critical section of manager.go):
     WriteFile, WriteTicket       the environment (operator, certbot)
     Add(p)                       m.mu: contains / load / add
     Refresh                      m.mu: rangeFn(load, update)
     Clone(kind)                  m.mu: original.Clone, append
     RotateRead                   no lock: readSessionTicketKey per path
     RotateFail                   the deferred error path, nothing was set
     RotateLock                   m.mu.Lock
     RotateApply(i)               conf.SetSessionTicketKeys (the config's own lock)
     RotateDone                   metrics, unlock
     Handshake(i, sni)            getCertificate under m.mu
     Issue(i)                     a full handshake that leaves a ticket with the client
     Resume(s, i)                 a ticket presented to configuration i (no m.mu)

   Defect (CONSTANT) selects a faulty variant:
     "refresh_nil"     a pair that cannot be loaded is replaced by nothing and
                       Refresh returns nil            (the pinned tree does this)
     "refresh_abort"   Refresh stops at the first pair that cannot be loaded
     "refresh_stale"   Refresh does not replace the stored certificate
     "add_dup"         Add does not skip a pair that is already stored
     "add_bad"         Add stores a pair although loading failed
     "select_last"     the last matching pair wins
     "select_any"      an unknown SNI gets the first pair
     "rotate_partial"  keys read before the failing file are installed
     "rotate_clones"   only configurations from Clone get the keys
     "rotate_first"    only the first file is used
     "clone_leaks"     a new configuration does not share the store (snapshot)   *)
EXTENDS Integers, Sequences, FiniteSets, TLC, Json

CONSTANTS Pairs, CertIds, BadContents, NTP, TicketContents, MaxCfg, MaxSess, SNIs, Defect, KeepHist, Atomic,
          AllowRefreshFail   \* generation of behaviours only: may a Refresh meet an unusable pair

KindOf(c) == CASE c \in {"A1", "A2"} -> "A"
               [] c \in {"B1", "B2"} -> "B"
               [] c = "AB1" -> "AB"
               [] c = "W1" -> "W"
               [] c = "N1" -> "N"
               [] OTHER -> "?"

\* SNI classes: "a" a.example, "aU" A.EXAMPLE, "adot" a.example. (the client
\* strips the dot), "b" b.example, "xw" x.w.example, "xyw" x.y.w.example,
\* "w" w.example, "unk" a name nobody has, "empty" no SNI extension, "ip" the
\* client was given an IP literal as server name (clients send no SNI then).
NoSNI == {"empty", "ip"}
CoverSet(k) == NoSNI \cup (CASE k = "A" -> {"a", "aU", "adot"}
                             [] k = "B" -> {"b"}
                             [] k = "AB" -> {"a", "aU", "adot", "b"}
                             [] k = "W" -> {"xw"}
                             [] OTHER -> {})
Covers(c, s) == IF Defect = "select_any" /\ s = "unk" THEN TRUE ELSE s \in CoverSet(KindOf(c))

Contents == CertIds \cup BadContents \cup {"none"}
Loadable(x) == x \in CertIds
KeyOf(t) == IF t > 10 THEN t - 10 ELSE t
GoodTicket(t) == t \in 1..8 \/ t > 10
AutoKey(i) == 100 + i

VARIABLES files,    \* [Pairs -> Contents]
          tfiles,   \* [1..NTP -> ticket file content]
          stored,   \* sequence of [p |-> pair, c |-> certificate id or "nil"]
          cfgs,     \* sequence of [kind, keys, snap]
          sess,     \* sequence of keys (the key each issued session was sealed with)
          rot,      \* the rotation in progress
          last,     \* the last completed manager call: [op, ret, arg, coll, status, loads]
          hist,
          dice      \* generation of behaviours only: the kind of the next step (constant otherwise)

vars == <<files, tfiles, stored, cfgs, sess, rot, last, hist, dice>>
view == <<files, tfiles, stored, cfgs, sess, rot, last>>

NoRot == [pc |-> "idle", keys |-> <<>>, pending |-> {}]
NoLast == [op |-> "", ret |-> "", arg |-> "", coll |-> FALSE, status |-> "", loads |-> 0, tick |-> 0]
\* every manager call flips last.tick, so that two equal calls in a row are still two steps
L(op, ret, arg, coll, status, loads) ==
    last' = [op |-> op, ret |-> ret, arg |-> arg, coll |-> coll, status |-> status, loads |-> loads, tick |-> 1 - last.tick]
Did(op) == last'.tick # last.tick /\ last'.op = op

H(a, p, c, i, k) == hist' = IF KeepHist THEN Append(hist, [a |-> a, p |-> p, c |-> c, i |-> i, k |-> k]) ELSE hist

Init == /\ files = [p \in Pairs |-> "none"]
        /\ tfiles = [i \in 1..NTP |-> 0]
        /\ stored = <<>> /\ cfgs = <<>> /\ sess = <<>>
        /\ rot = NoRot /\ last = NoLast /\ hist = <<>> /\ dice = 1

\* m.mu is free (nobody is inside RotateLock..RotateDone)
MuFree == rot.pc \in {"idle", "read"}
\* the replayed behaviours run every manager call to completion
Quiet == Atomic => rot.pc = "idle"

StoredPairs(st) == {st[j].p : j \in 1..Len(st)}
IndexOf(st, p) == CHOOSE j \in 1..Len(st) : st[j].p = p

-----------------------------------------------------------------------------
WriteFile(p, x) ==
    /\ Quiet /\ files[p] # x
    /\ files' = [files EXCEPT ![p] = x]
    /\ H("WriteFile", p, x, 0, 0)
    /\ UNCHANGED <<tfiles, stored, cfgs, sess, rot, last>>

WriteTicket(i, t) ==
    /\ Quiet /\ tfiles[i] # t
    /\ tfiles' = [tfiles EXCEPT ![i] = t]
    /\ H("WriteTicket", "", "", i, t)
    /\ UNCHANGED <<files, stored, cfgs, sess, rot, last>>

Add(p) ==
    /\ Quiet /\ MuFree
    /\ IF p \in StoredPairs(stored) /\ Defect # "add_dup"
       THEN /\ stored' = stored
            /\ L("Add", "ok", p, FALSE, "", 0)
       ELSE IF Loadable(files[p])
            THEN /\ stored' = Append(stored, [p |-> p, c |-> files[p]])
                 /\ L("Add", "ok", p, FALSE, "", 1)
            ELSE /\ stored' = IF Defect = "add_bad" THEN Append(stored, [p |-> p, c |-> "nil"]) ELSE stored
                 /\ L("Add", "err", p, FALSE, "", 0)
    /\ H("Add", p, "", 0, 0)
    /\ UNCHANGED <<files, tfiles, cfgs, sess, rot>>

\* the pairs Refresh looks at: all of them, or (defect) those before the first
\* one that cannot be loaded
RefreshReach ==
    LET bad == {j \in 1..Len(stored) : ~Loadable(files[stored[j].p])} IN
    IF Defect = "refresh_abort" /\ bad # {}
    THEN LET f == CHOOSE j \in bad : \A k \in bad : j <= k IN 1..f
    ELSE 1..Len(stored)

Refresh ==
    /\ Quiet /\ MuFree
    /\ LET failed == {j \in RefreshReach : ~Loadable(files[stored[j].p])} IN
       /\ stored' = [j \in 1..Len(stored) |->
                       IF j \notin RefreshReach \/ Defect = "refresh_stale" THEN stored[j]
                       ELSE IF Loadable(files[stored[j].p]) THEN [p |-> stored[j].p, c |-> files[stored[j].p]]
                       ELSE IF Defect = "refresh_nil" THEN [p |-> stored[j].p, c |-> "nil"]
                       ELSE stored[j]]
       /\ L("Refresh", IF failed # {} /\ Defect # "refresh_nil" THEN "err" ELSE "ok", "", (failed # {} /\ Defect # "refresh_nil"), "", Cardinality(RefreshReach \ failed))
    /\ H("Refresh", "", "", 0, 0)
    /\ UNCHANGED <<files, tfiles, cfgs, sess, rot>>

Clone(kind) ==
    /\ Quiet /\ MuFree /\ Len(cfgs) < MaxCfg
    /\ cfgs' = Append(cfgs, [kind |-> kind, keys |-> <<>>,
                             snap |-> IF Defect = "clone_leaks" THEN stored ELSE <<>>])
    /\ L("Clone", "ok", kind, FALSE, "", 0)
    /\ H("Clone", kind, "", 0, 0)
    /\ UNCHANGED <<files, tfiles, stored, sess, rot>>

-----------------------------------------------------------------------------
\* RotateTickets.  With no configured path it returns nil at once.
FirstBadTicket == CHOOSE j \in 1..NTP : ~GoodTicket(tfiles[j]) /\ \A k \in 1..NTP : ~GoodTicket(tfiles[k]) => j <= k
ReadKeys == IF Defect = "rotate_first" THEN <<KeyOf(tfiles[1])>> ELSE [j \in 1..NTP |-> KeyOf(tfiles[j])]

RotateNoop ==
    /\ rot.pc = "idle" /\ NTP = 0
    /\ L("Rotate", "ok", "", FALSE, "", 0)
    /\ H("Rotate", "", "", 0, 0)
    /\ UNCHANGED <<files, tfiles, stored, cfgs, sess, rot>>

RotateRead ==
    /\ rot.pc = "idle" /\ NTP > 0
    /\ \A j \in 1..NTP : GoodTicket(tfiles[j])
    /\ rot' = [pc |-> "read", keys |-> ReadKeys, pending |-> {}]
    /\ H("Rotate", "", "", 0, 0)
    /\ UNCHANGED <<files, tfiles, stored, cfgs, sess, last>>

RotateFail ==
    /\ rot.pc = "idle" /\ NTP > 0
    /\ \E j \in 1..NTP : ~GoodTicket(tfiles[j])
    /\ cfgs' = IF Defect = "rotate_partial" /\ FirstBadTicket > 1
               THEN [i \in 1..Len(cfgs) |-> [cfgs[i] EXCEPT !.keys = [j \in 1..(FirstBadTicket - 1) |-> KeyOf(tfiles[j])]]]
               ELSE cfgs
    /\ L("Rotate", "err", "", TRUE, "false", 0)
    /\ H("Rotate", "", "", 0, 0)
    /\ UNCHANGED <<files, tfiles, stored, sess, rot>>

RotateLock ==
    /\ rot.pc = "read"
    /\ rot' = [rot EXCEPT !.pc = "apply",
                          !.pending = {i \in 1..Len(cfgs) : Defect = "rotate_clones" => cfgs[i].kind = "clone"}]
    /\ H("RotateLock", "", "", 0, 0)
    /\ UNCHANGED <<files, tfiles, stored, cfgs, sess, last>>

RotateApply(i) ==
    /\ rot.pc = "apply" /\ i \in rot.pending
    /\ cfgs' = [cfgs EXCEPT ![i].keys = rot.keys]
    /\ rot' = [rot EXCEPT !.pending = @ \ {i}]
    /\ H("RotateApply", "", "", i, 0)
    /\ UNCHANGED <<files, tfiles, stored, sess, last>>

RotateDone ==
    /\ rot.pc = "apply" /\ rot.pending = {}
    /\ rot' = NoRot
    /\ L("Rotate", "ok", "", FALSE, "true", 0)
    /\ H("RotateDone", "", "", 0, 0)
    /\ UNCHANGED <<files, tfiles, stored, cfgs, sess>>

-----------------------------------------------------------------------------
\* Certificate selection of a configuration.
Matching(st, s) == {j \in 1..Len(st) : st[j].c # "nil" /\ Covers(st[j].c, s)}
Pick(st, s) ==
    IF Len(st) = 0 THEN "fail"
    ELSE IF \E j \in 1..Len(st) : st[j].c = "nil" THEN "panic"
    ELSE LET ms == Matching(st, s) IN
         IF ms = {} THEN "fail"
         ELSE IF Defect = "select_last" THEN st[CHOOSE j \in ms : \A k \in ms : k <= j].c
         ELSE st[CHOOSE j \in ms : \A k \in ms : j <= k].c
\* (the operators take the state explicitly so that the trace specification can
\* apply them to the state a call has left)
HSIn(cf, st, i, s) == Pick(IF Defect = "clone_leaks" THEN cf[i].snap ELSE st, s)
HS(i, s) == HSIn(cfgs, stored, i, s)

EncKeyIn(cf, i) == IF cf[i].keys = <<>> THEN AutoKey(i) ELSE cf[i].keys[1]
KeySetIn(cf, i) == IF cf[i].keys = <<>> THEN {AutoKey(i)} ELSE {cf[i].keys[j] : j \in 1..Len(cf[i].keys)}
EncKey(i) == EncKeyIn(cfgs, i)
KeySet(i) == KeySetIn(cfgs, i)
Resumes(s, i) == sess[s] \in KeySet(i)

Handshake(i, s) ==
    /\ Quiet /\ MuFree /\ i \in 1..Len(cfgs)
    /\ L("Handshake", HS(i, s), s, FALSE, "", 0)
    /\ H("Handshake", s, "", i, 0)
    /\ UNCHANGED <<files, tfiles, stored, cfgs, sess, rot>>

Issue(i) ==
    /\ Quiet /\ MuFree /\ i \in 1..Len(cfgs) /\ Len(sess) < MaxSess
    /\ HS(i, "empty") \notin {"fail", "panic"}
    /\ sess' = Append(sess, EncKey(i))
    /\ L("Issue", "ok", "", FALSE, "", 0)
    /\ H("Issue", "", "", i, 0)
    /\ UNCHANGED <<files, tfiles, stored, cfgs, rot>>

\* a resumed handshake needs no certificate and therefore no m.mu: it may run
\* in the middle of a rotation
Resume(s, i) ==
    /\ Quiet /\ s \in 1..Len(sess) /\ i \in 1..Len(cfgs)
    /\ HS(i, "empty") \notin {"fail", "panic"}   \* the fall-back to a full handshake must be possible
    /\ L("Resume", IF Resumes(s, i) THEN "resumed" ELSE "full", "", FALSE, "", 0)
    /\ H("Resume", "", "", i, s)
    /\ UNCHANGED <<files, tfiles, stored, cfgs, sess, rot>>

Step == \/ \E p \in Pairs, x \in Contents : WriteFile(p, x)
        \/ \E i \in 1..NTP, t \in TicketContents : WriteTicket(i, t)
        \/ \E p \in Pairs : Add(p)
        \/ Refresh
        \/ \E k \in {"clone", "metrics"} : Clone(k)
        \/ RotateNoop \/ RotateRead \/ RotateFail \/ RotateLock \/ RotateDone
        \/ \E i \in 1..MaxCfg : RotateApply(i)
        \/ \E i \in 1..MaxCfg, s \in SNIs : Handshake(i, s)
        \/ \E i \in 1..MaxCfg : Issue(i)
        \/ \E s \in 1..MaxSess, i \in 1..MaxCfg : Resume(s, i)

Next == Step /\ UNCHANGED dice
Spec == Init /\ [][Next]_vars

\* For the generation of behaviours only (TLC -simulate picks uniformly among the
\* successor states, which are dominated by the many file contents): draw the
\* kind of step first.
SimRefresh == (AllowRefreshFail \/ \A j \in 1..Len(stored) : Loadable(files[stored[j].p])) /\ Refresh
SimAny == \/ \E p \in Pairs, x \in Contents : WriteFile(p, x)
          \/ \E i \in 1..NTP, t \in TicketContents : WriteTicket(i, t)
          \/ \E p \in Pairs : Add(p)
          \/ \E kd \in {"clone", "metrics"} : Clone(kd)
          \/ RotateNoop \/ RotateRead \/ RotateFail
          \/ \E i \in 1..MaxCfg, sn \in SNIs : Handshake(i, sn)
Class(k) == CASE k \in {1, 2} -> \E p \in Pairs, x \in CertIds : WriteFile(p, x)
              [] k = 3 -> \E p \in Pairs, x \in BadContents \cup {"none"} : WriteFile(p, x)
              [] k = 4 -> \E i \in 1..NTP, t \in TicketContents : GoodTicket(t) /\ WriteTicket(i, t)
              [] k = 5 -> \E i \in 1..NTP, t \in TicketContents : ~GoodTicket(t) /\ WriteTicket(i, t)
              [] k \in {6, 7} -> \E p \in Pairs : Loadable(files[p]) /\ Add(p)
              [] k = 8 -> \E p \in Pairs : Add(p)
              [] k \in {9, 10} -> SimRefresh
              [] k = 11 -> \E kd \in {"clone", "metrics"} : Clone(kd)
              [] k \in {12, 13, 14} -> RotateNoop \/ RotateRead \/ RotateFail
              [] k \in {15, 16} -> \E i \in 1..MaxCfg, sn \in SNIs : Handshake(i, sn)
              [] k \in {17, 18} -> \E i \in 1..MaxCfg : Issue(i)
              [] OTHER -> \E sn \in 1..MaxSess, i \in 1..MaxCfg : Resume(sn, i)
RotRest == RotateLock \/ RotateDone \/ \E i \in 1..MaxCfg : RotateApply(i)
SimNext == /\ IF rot.pc # "idle" THEN RotRest
              ELSE IF ENABLED Class(dice) THEN Class(dice) ELSE SimAny
           /\ dice' = RandomElement(1..21)
SimSpec == Init /\ [][SimNext]_vars

-----------------------------------------------------------------------------
TypeOK == /\ \A p \in Pairs : files[p] \in Contents
          /\ \A j \in 1..Len(stored) : stored[j].p \in Pairs
          /\ Len(cfgs) <= MaxCfg /\ Len(sess) <= MaxSess
          /\ rot.pc \in {"idle", "read", "apply"}

\* certStorage: "All elements must not be nil"
StoredNeverNil == \A j \in 1..Len(stored) : stored[j].c \in CertIds
\* "Certificate paths must only be added once"
NoDuplicatePairs == \A j, k \in 1..Len(stored) : stored[j].p = stored[k].p => j = k
\* pairs are never removed or reordered
PairsOnlyGrow == [][/\ Len(stored') >= Len(stored)
                    /\ \A j \in 1..Len(stored) : stored'[j].p = stored[j].p]_vars

\* a refresh leaves a pair that cannot be loaded as it was and says so
FailedRefreshKeepsOld ==
    [][Did("Refresh") =>
         \A j \in 1..Len(stored) :
            ~Loadable(files[stored[j].p]) => /\ stored'[j] = stored[j]
                                             /\ last'.ret = "err" /\ last'.coll]_vars
\* ... and brings every other pair up to date, also behind a failing one
RefreshIsTotal ==
    [][Did("Refresh") =>
         /\ Len(stored') = Len(stored)
         /\ \A j \in 1..Len(stored) : Loadable(files[stored[j].p]) => stored'[j].c = files[stored[j].p]
         /\ ((\A j \in 1..Len(stored) : Loadable(files[stored[j].p])) => last'.ret = "ok" /\ ~last'.coll)]_vars
\* a failed Add changes nothing
FailedAddKeepsOld == [][Did("Add") /\ last'.ret = "err" => stored' = stored]_vars
AddStoresTheFile ==
    [][Did("Add") /\ last'.ret = "ok" /\ last'.arg \notin StoredPairs(stored) =>
         stored' = Append(stored, [p |-> last'.arg, c |-> files[last'.arg]])]_vars

\* a handshake is answered from the certificates loaded now: the first stored
\* pair covering the name, whatever configuration was used
HandshakeSeesLoadedCert ==
    last.op = "Handshake" =>
        LET ms == {j \in 1..Len(stored) : stored[j].c \in CertIds /\ last.arg \in CoverSet(KindOf(stored[j].c))} IN
        /\ last.ret # "panic"
        /\ (ms = {} <=> last.ret = "fail")
        /\ ms # {} => last.ret = stored[CHOOSE j \in ms : \A k \in ms : j <= k].c

\* between rotations all configurations that existed at the last successful
\* one have exactly the keys of the files, in the order of the paths: whenever
\* a configuration has file keys, every older configuration has the same ones
Bound(i) == cfgs[i].keys # <<>>
AllConfigsSameTickets ==
    rot.pc = "idle" => \A i, j \in 1..Len(cfgs) : i < j /\ Bound(j) => cfgs[i].keys = cfgs[j].keys
RotationIsTotal ==
    [][/\ (rot.pc = "idle" /\ rot'.pc = "read" => rot'.keys = [j \in 1..NTP |-> KeyOf(tfiles[j])])
       /\ (Did("Rotate") /\ last'.ret = "ok" /\ NTP > 0 => \A i \in 1..Len(cfgs') : cfgs'[i].keys = rot.keys)]_vars
FailedRotateKeepsOld ==
    [][Did("Rotate") /\ last'.ret = "err" =>
         cfgs' = cfgs /\ last'.coll /\ last'.status = "false"]_vars
\* a configuration never holds a mixture: its keys are automatic or one
\* complete read of the files
KeysAreOneRead == \A i \in 1..Len(cfgs) : cfgs[i].keys = <<>> \/ Len(cfgs[i].keys) = NTP
\* a ticket is worth the same on every configuration the rotation reached
SessionsPortable ==
    rot.pc = "idle" => \A s \in 1..Len(sess), i, j \in 1..Len(cfgs) :
        i < j /\ Bound(j) => (Resumes(s, i) <=> Resumes(s, j))

EmitHist == PrintT(<<"BEH", ToJson(hist)>>)
=============================================================================
