SPECIFICATION Spec
CONSTANTS
  Callers = {"a", "b"}
  MaxConn = 2
  CapSet = {1}
  TmoSet = {1}
  MaxTime = 3
  MaxOps = 5
  Defect = "get_after_close"
  KeepHist = FALSE
VIEW view
INVARIANTS ClosedMeansErrClosed
CHECK_DEADLOCK FALSE
