SPECIFICATION Spec
CONSTANTS
  Domains <- McDomains
  Alphabet = {"a"}
  MaxName = 0
  MinId = 4
  MaxId = 63
  QTypes = {"A"}
  Nodes = {"A", "B"}
  Ids = {"x", "y", "z"}
  CacheExp = 60
  TTLs = {30, 90}
  Caps = {1, 2}
  Ticks = {1, 29, 30, 31}
  MaxTime = 100000
  MaxOps = 60
  WebCaseSensitive = FALSE
  WebSkipsSuffix = FALSE
  SharedKey = FALSE
  KeepOldLocal = FALSE
  NoLocalExpiry = FALSE
  NoNamespace = FALSE
  SplitDNS = FALSE
  KeepHist = TRUE
CONSTRAINT EmitHist
CHECK_DEADLOCK FALSE
