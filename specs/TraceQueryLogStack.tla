------------------------ MODULE TraceQueryLogStack ------------------------
(* C15, stack level (binding of the wiring in dnssvc.NewHandlers to the
   decision table of QueryLog.tla): each line is one request served by the
   handler of one server of one server group, with the query-log entries and
   billing records written while it was processed.

     LoggedIff                 one entry iff the request is attributed to a
                               profile whose query log is on, none otherwise
     BilledIff                 one billing record iff it is attributed to a
                               profile, none otherwise
     EntryDescribesOwnRequest  entry and billing record carry the protocol of
                               the server that served the request, its own
                               name and type, its own device and profile
     IPIffIPLog                the client address is in the entry iff the
                               profile's IP log is on                         *)
EXTENDS Naturals, Sequences, FiniteSets, TLC, Json

VARIABLE l
Trace == ndJsonDeserialize("trace.ndjson")

Profile(e) == e.attr = "profile"
WantLogs(e) == IF Profile(e) /\ e.qlog THEN 1 ELSE 0
WantBills(e) == IF Profile(e) THEN 1 ELSE 0

OwnLog(e, x) == /\ x.proto = e.proto /\ x.name = e.name /\ x.qt = e.qt
                /\ x.dev = e.dev /\ x.prof = e.prof
OwnBill(e, b) == b.proto = e.proto /\ b.dev = e.dev

Reasons(e) ==
    (IF Len(e.logs) # WantLogs(e) THEN {"LoggedIff"} ELSE {})
    \cup (IF Len(e.bills) # WantBills(e) THEN {"BilledIff"} ELSE {})
    \cup (IF \E i \in 1..Len(e.logs) : ~OwnLog(e, e.logs[i]) THEN {"EntryDescribesOwnRequest"} ELSE {})
    \cup (IF \E i \in 1..Len(e.bills) : ~OwnBill(e, e.bills[i]) THEN {"EntryDescribesOwnRequest (billing)"} ELSE {})
    \cup (IF \E i \in 1..Len(e.logs) : e.logs[i].hasip # e.iplog THEN {"IPIffIPLog"} ELSE {})

TraceInit == l = 1
TraceNext == /\ l <= Len(Trace) /\ l' = l + 1
             /\ LET r == Reasons(Trace[l]) IN IF r = {} THEN TRUE ELSE PrintT(<<"NONCONF", l, r>>)
TraceSpec == TraceInit /\ [][TraceNext]_l
TraceAccepted == LET d == TLCGet("stats").diameter IN
    IF d - 1 = Len(Trace) THEN TRUE ELSE PrintT(<<"STUCK", d, Len(Trace)>>) /\ FALSE
=============================================================================
