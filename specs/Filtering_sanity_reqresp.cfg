SPECIFICATION Spec
CONSTANTS
  Part = "rules"
  Variant = "resp_over_req"
INVARIANTS RequestBeatsResponse
