SPECIFICATION Spec
CONSTANTS
  Part = "small"
  Variant = "resp_over_req"
INVARIANTS RequestBeatsResponse
