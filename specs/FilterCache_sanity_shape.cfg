SPECIFICATION Spec
CONSTANTS
  Req = {"r1", "r2"}
  MaxVer = 2
  Listed <- Listed2
  Locking = "rw"
  Reshape = FALSE
  MaxRounds = 3
INVARIANTS TransparentShape NoStaleAfterRefresh
CHECK_DEADLOCK FALSE
