SPECIFICATION Spec
CONSTANTS
  IntsValidated = TRUE
  PrefixBounded = FALSE
  EcsSizeChecked = TRUE
  MaxMut = 1
  TripleFields = {}
INVARIANTS AcceptedImpliesSafe
CHECK_DEADLOCK FALSE
