\* sanity: one buffer shared by all writers -> lost / duplicated entries
SPECIFICATION Spec
CONSTANTS
  Writers = {1, 2, 3}
  MaxPerWriter = 2
  TwoWrites = FALSE
  SharedBuffer = TRUE
INVARIANTS OnePerLogged
CHECK_DEADLOCK FALSE
