--------------------------- MODULE TraceRateLimit ---------------------------
(* Trace validation for C09: decisions recorded from the real RequestCounter,
   Backoff (virtual clock) and ratelimitmw are replayed through the contract
   operators of RateLimit.tla with the parameters of each run.
   Events: Reset{par{v4{L,I}, v6{L,I}, prof{L,I}, B, Dur}}
           Q{t, bucket, fam, kind, extra, drop, written, next}
   bucket is the client's subnet (address masked to the family's key length,
   computed by the harness with net/netip) or "prof:<id>" when the profile's own
   limiter applies; kind q | any | allow; extra = floor(response size / estimate)
   for a passed query.  written / next: a response was written / the next
   handler ran (both always equal ~drop: "dropped without any response").     *)
EXTENDS RateLimit

VARIABLES l, st, par, tprev
Trace == ndJsonDeserialize("trace.ndjson")
E == Trace[l]
tvars == <<vars, l, st, par, tprev>>
TKeys == {Trace[i].bucket : i \in {j \in 1..Len(Trace) : Trace[j].ev = "Q"}}
Fresh == [k \in TKeys |-> [log |-> <<>>, hit |-> NoHit]]
PFor(e) == [L |-> par[e.fam].L, I |-> par[e.fam].I, B |-> IF e.fam = "prof" THEN 0 ELSE par.B, Dur |-> par.Dur]

Step(e) == l <= Len(Trace) /\ E.ev = e /\ l' = l + 1
TReset == Step("Reset") /\ st' = Fresh /\ par' = E.par /\ tprev' = 0 /\ UNCHANGED vars
TQ == /\ Step("Q") /\ E.t >= tprev /\ tprev' = E.t
      /\ LET d == Decide(st[E.bucket], E.t, PFor(E), E.kind, E.extra) IN
         /\ d.drop = E.drop                      \* exact window / back-off / allowlist / ANY
         /\ E.written = ~E.drop /\ E.next = ~E.drop   \* a drop is silent and reaches no later stage
         /\ st' = [st EXCEPT ![E.bucket] = d.b]  \* other buckets untouched (isolation)
      /\ UNCHANGED <<vars, par>>

TraceInit == Init /\ l = 1 /\ st = Fresh /\ par = <<>> /\ tprev = 0
TraceNext == TReset \/ TQ
TraceSpec == TraceInit /\ [][TraceNext]_tvars
TraceAccepted == LET d == TLCGet("stats").diameter IN
    IF d - 1 = Len(Trace) THEN TRUE ELSE PrintT(<<"STUCK", d, Len(Trace)>>) /\ FALSE
=============================================================================
