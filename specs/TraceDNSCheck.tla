--------------------------- MODULE TraceDNSCheck ---------------------------
(* EXT3: trace validation of the real dnscheck.RemoteKV (Check and ServeHTTP)
   driven by harness/internal/dnscheck/ext3_test.go: two nodes (two RemoteKV
   objects with their own local caches) sharing one store behind the real
   remotekv.KeyNamespace (TTL store: the harness's fake of Consul/Redis with a
   virtual clock) or the real remotekv.Cache (LRU store), a fault injector
   between namespace and store, a second namespace writing under the same ids.

   Events:
     Reset{par{ttl, cap}, domains, prefix, ipv4, ipv6, nodes{A{name, loc}, B{..}}}
     T{d}                                      the virtual clock advances d seconds
     Q{node, name, qt, inp{...}, setFail,      Check(ctx, req, ri) with ri.Host = the lower-cased name
       kind, rcode, ans, hdrok, raw}           -> nil / error / message; addresses answered; the key
                                                  the store was handed ("" if none)
     W{node, host, path, gm,                   ServeHTTP; host is the Host header without its port
       status, ctype, acao, body, bodyok,      -> status, headers, the nine JSON fields,
       nget}                                      how often the store was read
     F{id}                                     the other namespace writes under the same id
     SQ{node, name, inp, kind} / SW{node, host, status, body, bodyok}
                                               queries and reads of the free-running phase
   name, host and id are arrays of one-character strings.

   The model state follows the spec; what the code returned is compared with
   the model's result, with the decision of part 1 for the real name, and the
   properties of part 2 are evaluated on the observed response.  A line that
   does not conform is reported (NONCONF) and does not block the rest.        *)
EXTENDS DNSCheck

VARIABLES l, tp
Trace == ndJsonDeserialize("trace.ndjson")
E == Trace[l]
tvars == <<vars, l, tp>>

Consume(e) == l <= Len(Trace) /\ E.ev = e /\ l' = l + 1
Report(rs) == IF rs = {} THEN TRUE ELSE PrintT(<<"NONCONF", l, rs>>)
R(cond, msg) == IF cond THEN {} ELSE {msg}

NoTP == [domains |-> <<>>, prefix |-> "", ipv4 |-> <<>>, ipv6 |-> <<>>,
         nodes |-> [A |-> [name |-> "", loc |-> ""], B |-> [name |-> "", loc |-> ""]]]

\* the documented protocol names (doc/http.md)
ProtoName(p) == CASE p = "ProtoDNS" -> "dns" [] p = "ProtoDNSCrypt" -> "dnscrypt" [] p = "ProtoDoH" -> "doh"
                  [] p = "ProtoDoQ" -> "doq" [] p = "ProtoDoT" -> "dot"
\* the record a web client is shown for a DNS query with the inputs inp handled by node nd
InfoOf(inp, nd) ==
    [client_ip |-> inp.ip,
     device_id |-> IF inp.rec THEN inp.dev ELSE "",
     profile_id |-> IF inp.rec THEN inp.prof ELSE "",
     server_group_name |-> inp.grp,
     server_name |-> inp.srv,
     server_type |-> IF inp.private THEN "private" ELSE "public",
     protocol |-> ProtoName(inp.proto),
     node_location |-> nd.loc,
     node_name |-> nd.name]

TReset == /\ Consume("Reset")
          /\ now' = 0 /\ local' = [n \in Nodes |-> EmptyMap] /\ store' = <<>>
          /\ latest' = EmptyMap /\ seen' = EmptyMap /\ res' = NoRes /\ pend' = {} /\ nops' = 0 /\ hist' = <<>>
          /\ par' = E.par /\ v' = NoVec
          /\ tp' = [domains |-> E.domains, prefix |-> E.prefix, ipv4 |-> E.ipv4, ipv6 |-> E.ipv6, nodes |-> E.nodes]

TT == /\ Consume("T") /\ now' = now + E.d /\ res' = NoRes
      /\ UNCHANGED <<v, par, local, store, latest, seen, pend, nops, hist, tp>>

TQ == /\ Consume("Q")
      /\ LET c == Classify(tp.domains, E.name)
             d == DNSDecision(c, E.qt)
             want == IF d.ans = "ipv4" THEN tp.ipv4 ELSE IF d.ans = "ipv6" THEN tp.ipv6 ELSE <<>>
         IN /\ IF d.store THEN DoDNS(E.node, c.id, InfoOf(E.inp, tp.nodes[E.node]), ~E.setFail)
               ELSE UNCHANGED <<v, now, par, local, store, latest, seen, res, pend>>
            /\ Report(R(E.kind = d.kind, "the query was " \o E.kind \o ", the contract says " \o d.kind)
                      \cup R(d.kind # "answer" \/ E.kind # "answer" \/ (E.rcode = 0 /\ E.ans = want),
                             "answered with other addresses than the configured ones for this question type")
                      \cup R(E.kind # "answer" \/ E.hdrok, "an answer record has a wrong name, class, type or TTL")
                      \cup R(E.raw = (IF d.store THEN tp.prefix \o Join(c.id) ELSE ""),
                             "the store was handed another key than prefix + lower-cased id, or was written for a name that stores nothing")
                      \cup R(ImplDNS(tp.domains, E.name) = c, "implementation-shaped rule and contract disagree on this name"))
      /\ UNCHANGED <<nops, hist, tp>>

TW == /\ Consume("W")
      /\ LET c == Classify(tp.domains, E.host)
             hc == IF WebLooksUp(c) /\ E.path = "/dnscheck/test" THEN "check" ELSE "foreign"
             w == WebResult(E.node, hc, c.id, E.gm)
             obs == [op |-> "web", node |-> E.node, id |-> c.id, hc |-> hc, status |-> E.status,
                     val |-> IF E.status = 200 THEN E.body ELSE NoVal, gm |-> E.gm, t |-> now]
             others == {k \in DOMAIN seen : k # c.id /\ E.status = 200 /\ E.body \in seen[k]}
         IN /\ DoWeb(E.node, hc, c.id, E.gm)
            /\ Report(R(E.status = w.status, "status differs from the contract's: expected " \o ToString(w.status))
                      \cup R(E.status # 200 \/ w.status # 200 \/ E.body = w.val, "the body is not the record the contract reports")
                      \cup R(E.status # 200 \/ (E.bodyok /\ E.ctype = "application/json" /\ E.acao = "*"),
                             "a 200 response is not the documented JSON object with its headers")
                      \cup R(others = {} \/ E.body \in Seen(seen, c.id), "the body is another identifier's record")
                      \cup R(E.nget = w.reads, "the store was read " \o ToString(E.nget) \o " times, the contract says " \o ToString(w.reads))
                      \cup R(PWebSeesOwnDNS(obs, seen), "WebSeesOwnDNS")
                      \cup R(PWebOnlyCheckHosts(obs), "WebOnlyCheckHosts")
                      \cup R(PFreshOnSameNode(obs, latest), "FreshOnSameNode")
                      \cup R(PVisibleLocal(obs, latest), "VisibleLocal")
                      \cup R(PVisibleStore(obs, latest, par), "VisibleStore")
                      \cup R(PGoneAfterExpiry(obs, latest, par), "GoneAfterExpiry"))
      /\ UNCHANGED <<nops, hist, tp>>

TF == /\ Consume("F")
      /\ DoForeign(E.id, [q |-> 1000 + l])
      /\ UNCHANGED <<nops, hist, tp>>

\* free-running phase (harness TestVerifEXT3Stress): the inputs of all concurrent
\* queries first, then what the concurrent reads returned; every id was
\* recorded before the phase, the clock stands still
TSQ == /\ Consume("SQ")
       /\ LET c == Classify(tp.domains, E.name) IN
          IF c.kind = "id"
          THEN /\ seen' = Put(seen, c.id, Seen(seen, c.id) \cup {InfoOf(E.inp, tp.nodes[E.node])})
               /\ Report(R(E.kind = "answer", "a concurrent check query was not answered"))
          ELSE /\ seen' = seen
               /\ Report(R((E.kind = "answer") = (c.kind = "bare"), "a concurrent query for a name that is not a check name was answered"))
       /\ UNCHANGED <<v, now, par, local, store, latest, res, pend, nops, hist, tp>>
TSW == /\ Consume("SW")
       /\ LET c == Classify(tp.domains, E.host)
              obs == [op |-> "web", node |-> E.node, id |-> c.id, hc |-> IF c.kind = "id" THEN "check" ELSE "foreign",
                      status |-> E.status, val |-> IF E.status = 200 THEN E.body ELSE NoVal, gm |-> "ok", t |-> now]
          IN Report(R(c.kind # "id" \/ (E.status = 200 /\ E.bodyok), "a recorded id was not reported during concurrent use")
                    \cup R(PWebOnlyCheckHosts(obs), "WebOnlyCheckHosts")
                    \cup R(PWebSeesOwnDNS(obs, seen), "WebSeesOwnDNS"))
       /\ UNCHANGED <<vars, tp>>

TraceInit == StateInit /\ par = [ttl |-> Inf, cap |-> Inf] /\ v = NoVec /\ l = 1 /\ tp = NoTP
TraceNext == TReset \/ TT \/ TQ \/ TW \/ TF \/ TSQ \/ TSW
TraceSpec == TraceInit /\ [][TraceNext]_tvars
TraceAccepted == LET d == TLCGet("stats").diameter IN
    IF d - 1 = Len(Trace) THEN TRUE ELSE PrintT(<<"STUCK", d, Len(Trace)>>) /\ FALSE
=============================================================================
