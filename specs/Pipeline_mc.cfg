SPECIFICATION Spec
CONSTANTS
  K = 2
  N = 6
INVARIANTS PipelineBound EachOnce
PROPERTY AllServed
CHECK_DEADLOCK FALSE
