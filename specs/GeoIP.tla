------------------------------- MODULE GeoIP -------------------------------
(* EXT9 (extension, not a listed property).  The GeoIP database of AdGuard DNS,
   internal/geoip: File.Data, File.SubnetByLocation, File.Refresh.

   What callers rely on (geoip.go, file.go, filescanner.go, location.go):

     Data(host, ip)   "returns the GeoIP data for ip.  It may use host to get
                      cached GeoIP data if ip is netip.Addr{}".  The ASN comes
                      from the ASN database, country / continent / first
                      subdivision from the country database.  IPv4-mapped IPv6
                      addresses are looked up as IPv4 ("Normalize here").  The
                      IP cache key "is a three-byte array (/24 network) for IPv4
                      addresses (including the IPv4-in-IPv6 ones) and a
                      seven-byte (/56 network) for IPv6 ones": every address of
                      one key gets the *Location of the first one looked up
                      since the cache was last cleared (documented granularity).
                      An address neither database knows gets a non-nil Location
                      with no country and ASN 0; nil is returned only for a
                      host-only question whose host is not cached.
     SubnetByLocation "3. If asn is found within the list of the most used
                      ASNs, its subnet is returned.  If not, the top ASN for the
                      provided country is chosen and its subnet is returned.
                      If the information about the most used ASNs is not
                      available, the first subnet from the country that is
                      broad enough is chosen"; else "an unspecified subnet"
                      (the zero prefix of the family).  "Do not write the top
                      ASN into l, since l is shared with the IP cache".
                      replaceSubnet: "Don't add the subnet if it's not broad
                      enough"; "Don't add the subnet if the current subnet's
                      length is closer to the desired one than that of the new
                      subnet"; the hacks "make sure that all items in subnets
                      have the desired length for their protocol" (24 / 56) and
                      give ASN 25159 the network 178.176.72.0/24.
     Refresh          "reopens the GeoIP database files"; mu "protects asn,
                      country, country subnet maps, and caches against
                      simultaneous access during a refresh".

   Invariants
     LocationsAreValues    what a Data call returned never changes afterwards,
                           whoever else was given the same pointer and whatever
                           was called with it
     CacheAgreesWithDB     every cached answer was computed from the databases
                           in force (the swap and the clearing of both caches
                           are one critical section)
     CachedIsLookup        an answer is the data of ONE address of its cache key
     ReadersSeeOneVersion  the two databases an answer was computed from were
                           published together by one refresh
     FailedRefreshKeepsOld a refresh that returns an error leaves databases and
                           derived maps as they were
     QuiescentConsistent   with no refresh running, the derived maps were built
                           from the databases in force
     SubnetContract / SubnetInCountry / DesiredLength / UnknownIsNone

   Representation.  Everything is concrete: an address is its sequence of 4 or
   16 octets, a prefix [b, n], a database version a record of the constant
   sequence Files ([kind, mode, nets]; nets = the disjoint networks of the
   search tree with their record, in the order of the library's traversal).
   The model configurations define a small Files by hand; the trace
   specification reads the versions the harness wrote / the repository ships.

   Steps of Refresh, as the code orders them (one action per critical section):
     RStart     both files are read and checked (a failure ends the refresh,
                nothing touched); the location maps and the country maps are
                computed by two goroutines
     RSwapLoc   goroutine 1:  Lock; location maps := built; Unlock
     RSwapCtry  goroutine 2:  Lock; country maps := built; Unlock
     RJoin      wg.Wait; an error of either scan ends the refresh
     RSwapDB    Lock; asn, country := new; both caches cleared; Unlock

   Defect  "noclear"      RSwapDB leaves the caches alone
           "swap2"        RSwapDB swaps the ASN database and the country database in two critical sections
           "fail_clears"  a failed scan publishes what it has (nil for the failed part); a failed load drops the maps
           "mutate"       SubnetByLocation writes the top ASN into the location it was given
           "foreign_top"  the fall-back takes the top ASN of some other country
           "late"         (not a defect) the derived maps are published by RSwapDB, together with the databases
           "any"          (trace validation) at the publication points the contract, the code's reading, or "late"
   Serial  TRUE: a refresh does not start while another one runs (what
           QuiescentConsistent needs); FALSE: as the code, no exclusion.     *)
EXTENDS Integers, FiniteSets, Sequences, TLC, Json

CONSTANTS FilesSrc,     \* the database versions of the run (see Files)
          UseRegister,  \* TRUE in trace validation
          Refreshers, InvalidCountries, InvalidContinents, Serial, Defect, KeepHist,
          MConfs,       \* the worlds of a model run: [id, hostcap, ipcap, tops, alltop, versA, versC, addrs, hosts, locs]
          MaxPut, MaxRefresh, MaxData

\* The versions are read through a TLC register, which Init fills from the constant FilesSrc: TLC evaluates a
\* constant that is produced by a Java module (the JSON reader of the trace specification) anew at every use.
Files == IF UseRegister THEN TLCGet(2) ELSE FilesSrc
LoadFiles == UseRegister => TLCSet(2, FilesSrc)

Special == {"RU", "US", "CN", "IN"}
HackASN == 25159
HackPfx == [b |-> <<178, 176, 72, 0>>, n |-> 24]
NoneLoc == [ctry |-> "", cont |-> "", sub |-> "", asn |-> 0]
Loadable(v) == v # 0 /\ Files[v].mode \in {"ok", "shipped"}

-----------------------------------------------------------------------------
(* addresses, prefixes, look-ups *)
Mapped(a) == Len(a) = 16 /\ (\A i \in 1..10 : a[i] = 0) /\ a[11] = 255 /\ a[12] = 255
Unmap(a) == IF Mapped(a) THEN SubSeq(a, 13, 16) ELSE a
CacheKey(ua) == IF Len(ua) = 4 THEN SubSeq(ua, 1, 3) ELSE SubSeq(ua, 1, 7)
\* IPv4 lives below ::/96 in the search tree
TreeAddr(a) == IF Len(a) = 16 /\ (\A i \in 1..12 : a[i] = 0) THEN SubSeq(a, 13, 16) ELSE a
Pow2(k) == CASE k = 0 -> 1 [] k = 1 -> 2 [] k = 2 -> 4 [] k = 3 -> 8 [] k = 4 -> 16 [] k = 5 -> 32 [] k = 6 -> 64
             [] k = 7 -> 128 [] OTHER -> 256
Contains(p, a) ==
    /\ Len(p.b) = Len(a)
    /\ \A i \in 1..(p.n \div 8) : p.b[i] = a[i]
    /\ LET r == p.n % 8
           j == (p.n \div 8) + 1
       IN  r = 0 \/ (a[j] \div Pow2(8 - r)) = (p.b[j] \div Pow2(8 - r))
\* index of the network that holds a (h: a hint that is verified, 0 = search)
NetOf(nets, a, h) ==
    LET ta == TreeAddr(a)
    IN  IF h > 0 /\ h <= Len(nets) /\ Contains(nets[h], ta) THEN h
        ELSE LET S == {i \in 1..Len(nets) : Contains(nets[i], ta)}
             IN  IF S = {} THEN 0 ELSE CHOOSE i \in S : TRUE
CtryRec(cv, a, h) == LET i == NetOf(Files[cv].nets, a, h)
                     IN  IF i = 0 THEN NoneLoc ELSE Files[cv].nets[i]
AsnOf(av, a, h) == LET i == NetOf(Files[av].nets, a, h)
                   IN  IF i = 0 THEN 0 ELSE Files[av].nets[i].asn
\* File.Data on a cache miss, for the unmapped address ua
Lookup(av, cv, ua, ha, hc) ==
    LET c == CtryRec(cv, ua, hc)
    IN  IF c.ctry \in InvalidCountries THEN [err |-> "converting country", loc |-> NoneLoc]
        ELSE IF c.cont \in InvalidContinents THEN [err |-> "converting continent", loc |-> NoneLoc]
        ELSE [err |-> "", loc |-> [ctry |-> c.ctry, cont |-> c.cont, sub |-> c.sub, asn |-> AsnOf(av, ua, ha)]]

-----------------------------------------------------------------------------
(* derived maps: sets of entries [k: key, p: prefix, c: country of the chosen network (ghost)] *)
LocKey(asn, ctry, sub) == IF ctry \in Special THEN [asn |-> asn, ctry |-> ctry, sub |-> sub]
                          ELSE [asn |-> asn, ctry |-> "", sub |-> ""]
CKey(ctry) == [asn |-> 0, ctry |-> ctry, sub |-> ""]
Desired(fam) == IF fam = 4 THEN 24 ELSE 56
FamLen(fam) == IF fam = 4 THEN 4 ELSE 16
Dist(a, b) == IF a >= b THEN a - b ELSE b - a
\* replaceSubnet folded over the networks s[i] with ok[i], in order; 0 = nothing chosen
RECURSIVE Pick(_, _, _, _, _)
Pick(s, ok, i, cur, d) ==
    IF i > Len(s) THEN cur
    ELSE IF ~ok[i] THEN Pick(s, ok, i + 1, cur, d)
    ELSE Pick(s, ok, i + 1,
              IF cur = 0 THEN (IF s[i].n <= d THEN i ELSE 0)
              ELSE IF Dist(s[cur].n, d) < Dist(s[i].n, d) THEN cur ELSE i, d)
Narrow(x, d) == [b |-> x.b, n |-> IF x.n < d THEN d ELSE x.n]

LocScanFails(av, cv) ==
    \/ \E i \in 1..Len(Files[av].nets) : Files[av].nets[i].astr
    \/ /\ \E j \in 1..Len(Files[cv].nets) : Files[cv].nets[j].ctry \in InvalidCountries
       /\ \E i \in 1..Len(Files[av].nets) : CtryRec(cv, Files[av].nets[i].b, 0).ctry \in InvalidCountries
CtryScanFails(cv) == \E j \in 1..Len(Files[cv].nets) : Files[cv].nets[j].ctry \in InvalidCountries

BuildLoc(av, cv, alltop, fam) ==
    LET s == SelectSeq(Files[av].nets, LAMBDA x : x.asn \in alltop /\ Len(x.b) = FamLen(fam))
        cr == [i \in 1..Len(s) |-> CtryRec(cv, s[i].b, 0)]
        k == [i \in 1..Len(s) |-> LocKey(s[i].asn, cr[i].ctry, cr[i].sub)]
        keys == {k[i] : i \in 1..Len(s)}
        raw == {LET j == Pick(s, [i \in 1..Len(s) |-> k[i] = key], 1, 0, Desired(fam))
                IN  IF j = 0 THEN [k |-> key, p |-> [b |-> <<>>, n |-> -1], c |-> ""]
                    ELSE [k |-> key, p |-> Narrow(s[j], Desired(fam)), c |-> cr[j].ctry] : key \in keys}
        m == {e \in raw : e.p.n >= 0}
        hk == [asn |-> HackASN, ctry |-> "", sub |-> ""]
    IN  IF fam = 4 THEN {e \in m : e.k # hk} \cup {[k |-> hk, p |-> HackPfx, c |-> ""]} ELSE m

BuildCtry(cv, fam) ==
    LET s == SelectSeq(Files[cv].nets, LAMBDA x : x.ctry # "" /\ Len(x.b) = FamLen(fam))
        cs == {s[i].ctry : i \in 1..Len(s)}
        raw == {LET j == Pick(s, [i \in 1..Len(s) |-> s[i].ctry = c], 1, 0, Desired(fam))
                IN  IF j = 0 THEN [k |-> CKey(c), p |-> [b |-> <<>>, n |-> -1], c |-> c]
                    ELSE [k |-> CKey(c), p |-> Narrow(s[j], Desired(fam)), c |-> c] : c \in cs}
    IN  {e \in raw : e.p.n >= 0}

-----------------------------------------------------------------------------
(* SubnetByLocation *)
ZeroPfx(fam) == [b |-> IF fam = 4 THEN <<0, 0, 0, 0>> ELSE <<0, 0, 0, 0, 0, 0, 0, 0, 0, 0, 0, 0, 0, 0, 0, 0>>, n |-> 0]
Ents(m, key) == {e \in m : e.k = key}
\* the decision as documented: [step, set of admissible entries]
Decide(loc, ctry, tops, l, fam) ==
    LET e1 == Ents(loc, LocKey(l.asn, l.ctry, l.sub))
        hasTop == l.ctry \in DOMAIN tops
        top == IF hasTop THEN tops[l.ctry] ELSE -1
        eT == Ents(loc, LocKey(top, "", ""))
        \* the top ASN's networks in that very country (keys of the special countries carry country and subdivision)
        eTin == {e \in loc : e.k.asn = top /\ e.k.ctry = l.ctry}
        eC == Ents(ctry, CKey(l.ctry))
        z == {[k |-> CKey(""), p |-> ZeroPfx(fam), c |-> ""]}
    IN  IF fam = 4 /\ l.asn = HackASN /\ Ents(loc, LocKey(HackASN, "", "")) # {}
        THEN [step |-> "hack", set |-> Ents(loc, LocKey(HackASN, "", ""))]
        ELSE IF e1 # {} THEN [step |-> "exact", set |-> e1]
        ELSE IF hasTop /\ eT # {} THEN [step |-> "top", set |-> eT]
        ELSE IF hasTop /\ eTin # {} THEN [step |-> "top", set |-> eTin]
        ELSE IF eC # {} THEN [step |-> "country", set |-> eC]
        ELSE [step |-> "zero", set |-> z]
\* the decision as file.go takes it (the top ASN is only looked for under the key without a country)
DecideCode(loc, ctry, tops, l, fam) ==
    LET e1 == Ents(loc, LocKey(l.asn, l.ctry, l.sub))
        hasTop == l.ctry \in DOMAIN tops
        eT == IF hasTop THEN Ents(loc, LocKey(tops[l.ctry], "", "")) ELSE {}
        eC == Ents(ctry, CKey(l.ctry))
    IN  IF e1 # {} THEN [step |-> "exact", set |-> e1]
        ELSE IF eT # {} THEN [step |-> "top", set |-> eT]
        ELSE IF eC # {} THEN [step |-> "country", set |-> eC]
        ELSE [step |-> "zero", set |-> {[k |-> CKey(""), p |-> ZeroPfx(fam), c |-> ""]}]

-----------------------------------------------------------------------------
VARIABLES conf,          \* [hostcap, ipcap, tops, alltop] (+ the parameter sets of Next in a model run)
          disk,          \* [A, C]: the version each path holds (0: no file)
          dbA, dbC,      \* versions in force (0: not refreshed yet)
          loc4, loc6, c4, c6,
          locTag, ctryTag,   \* ghost: the versions the maps in force were built from (<<0, 0>> / 0: none, -1: dropped)
          ipc, hostc,    \* LRU caches, most recently used first: sequences of [k, p]
          heap,          \* answers ever returned: [a, av, cv, orig, cur]
          rf,            \* [Refreshers -> refresh in progress]
          snaps,         \* ghost: pairs of versions published by RSwapDB
          lastr, lastd, lasts,
          nput, nref,
          hist

vars == <<conf, disk, dbA, dbC, loc4, loc6, c4, c6, locTag, ctryTag, ipc, hostc, heap, rf, snaps, lastr, lastd, lasts,
          nput, nref, hist>>
view == <<conf, disk, dbA, dbC, loc4, loc6, c4, c6, locTag, ctryTag, ipc, hostc, heap, rf, snaps, lastr, lastd, lasts,
          nput, nref>>

IdleRf == [pc |-> "idle", la |-> 0, lc |-> 0, b4 |-> {}, b6 |-> {}, bc4 |-> {}, bc6 |-> {}, lerr |-> FALSE, cerr |-> FALSE,
           swl |-> FALSE, swc |-> FALSE, latel |-> FALSE, latec |-> FALSE, alone |-> TRUE, pre |-> <<>>]
NoR == [res |-> "", err |-> "", r |-> "", alone |-> TRUE, pre |-> <<>>]
NoD == [kind |-> "", p |-> 0, err |-> "", a |-> <<>>, host |-> ""]
NoS == [l |-> NoneLoc, fam |-> 4, got |-> ZeroPfx(4), step |-> "", c |-> "", ok |-> TRUE]
Pre == <<dbA, dbC, loc4, loc6, c4, c6>>

H(a, r, kind, v, host, ip, zero, l, lp, fam) ==
    hist' = IF KeepHist THEN Append(hist, [w |-> conf.id, a |-> a, r |-> r, kind |-> kind, v |-> v, host |-> host, ip |-> ip, zero |-> zero,
                                           l |-> l, lp |-> lp, fam |-> fam])
            ELSE hist
HR(a, r) == H(a, r, "", 0, "", <<>>, FALSE, NoneLoc, 0, 4)

Fresh(c) == /\ conf = c /\ disk = (IF "disk0" \in DOMAIN c THEN c.disk0 ELSE [A |-> 0, C |-> 0]) /\ dbA = 0 /\ dbC = 0
            /\ loc4 = {} /\ loc6 = {} /\ c4 = {} /\ c6 = {} /\ locTag = <<0, 0>> /\ ctryTag = 0
            /\ ipc = <<>> /\ hostc = <<>> /\ heap = <<>> /\ rf = [r \in Refreshers |-> IdleRf] /\ snaps = {}
            /\ lastr = NoR /\ lastd = NoD /\ lasts = NoS /\ nput = 0 /\ nref = 0

Init == LoadFiles /\ (\E c \in MConfs : Fresh(c)) /\ hist = <<>>

-----------------------------------------------------------------------------
(* caches *)
IdxOf(c, k) == LET S == {i \in 1..Len(c) : c[i].k = k} IN IF S = {} THEN 0 ELSE CHOOSE i \in S : TRUE
Without(c, i) == SubSeq(c, 1, i - 1) \o SubSeq(c, i + 1, Len(c))
Touch(c, i) == <<c[i]>> \o Without(c, i)
Put(c, e, cap) == LET i == IdxOf(c, e.k)
                  IN  IF cap = 0 THEN <<>>
                      ELSE IF i > 0 THEN <<e>> \o Without(c, i)
                      ELSE IF Len(c) >= cap THEN <<e>> \o SubSeq(c, 1, cap - 1)
                      ELSE <<e>> \o c

-----------------------------------------------------------------------------
(* the environment replaces a database file *)
PutFile(kind, v) ==
    /\ nput < MaxPut
    /\ disk' = [disk EXCEPT ![kind] = v] /\ nput' = nput + 1
    /\ H("Put", "", kind, v, "", <<>>, FALSE, NoneLoc, 0, 4)
    /\ UNCHANGED <<conf, dbA, dbC, loc4, loc6, c4, c6, locTag, ctryTag, ipc, hostc, heap, rf, snaps, lastr, lastd, lasts, nref>>

(* Data(host, ip), ip # netip.Addr{}.  The cache look-up happens outside f.mu and the
   fill inside the read lock: with respect to RSwapDB (write lock) the call is atomic. *)
DataIP(h, a, ha, hc) ==
    /\ dbA # 0 /\ dbC # 0
    /\ LET ua == Unmap(a)
           k == CacheKey(ua)
           i == IdxOf(ipc, k)
       IN  IF i > 0
           THEN /\ ipc' = Touch(ipc, i)
                /\ lastd' = [kind |-> "hit", p |-> ipc[i].p, err |-> "", a |-> ua, host |-> h]
                /\ UNCHANGED <<hostc, heap>>
           ELSE LET res == Lookup(dbA, dbC, ua, ha, hc)
                    p == Len(heap) + 1
                IN  IF res.err # ""
                    THEN /\ lastd' = [kind |-> "err", p |-> 0, err |-> res.err, a |-> ua, host |-> h]
                         /\ UNCHANGED <<ipc, hostc, heap>>
                    ELSE /\ heap' = Append(heap, [a |-> ua, av |-> dbA, cv |-> dbC, orig |-> res.loc, cur |-> res.loc])
                         /\ ipc' = Put(ipc, [k |-> k, p |-> p], conf.ipcap)
                         /\ hostc' = IF h = "" THEN hostc ELSE Put(hostc, [k |-> h, p |-> p], conf.hostcap)
                         /\ lastd' = [kind |-> "miss", p |-> p, err |-> "", a |-> ua, host |-> h]
    /\ H("Data", "", "", 0, h, a, FALSE, NoneLoc, 0, 4)
    /\ UNCHANGED <<conf, disk, dbA, dbC, loc4, loc6, c4, c6, locTag, ctryTag, rf, snaps, lastr, lasts, nput, nref>>

(* Data(host, netip.Addr{}) *)
DataHost(h) ==
    /\ LET i == IdxOf(hostc, h)
       IN  IF i > 0 THEN /\ hostc' = Touch(hostc, i)
                         /\ lastd' = [kind |-> "host", p |-> hostc[i].p, err |-> "", a |-> <<>>, host |-> h]
           ELSE /\ lastd' = [kind |-> "hostmiss", p |-> 0, err |-> "", a |-> <<>>, host |-> h]
                /\ UNCHANGED hostc
    /\ H("Data", "", "", 0, h, <<>>, TRUE, NoneLoc, 0, 4)
    /\ UNCHANGED <<conf, disk, dbA, dbC, loc4, loc6, c4, c6, locTag, ctryTag, ipc, heap, rf, snaps, lastr, lasts, nput, nref>>

(* SubnetByLocation(l, fam); lp > 0: l is the pointer an earlier Data returned *)
Subnet(l, lp, fam) ==
    /\ LET loc == IF fam = 4 THEN loc4 ELSE loc6
           ctry == IF fam = 4 THEN c4 ELSE c6
           tops == IF Defect = "foreign_top" /\ DOMAIN conf.tops # {} /\ l.ctry \in DOMAIN conf.tops
                   THEN [c \in DOMAIN conf.tops |->
                            LET o == DOMAIN conf.tops \ {c} IN IF o = {} THEN conf.tops[c] ELSE conf.tops[CHOOSE x \in o : TRUE]]
                   ELSE conf.tops
           d == Decide(loc, ctry, tops, l, fam)
           e == CHOOSE x \in d.set : TRUE
       IN  /\ lasts' = [l |-> l, fam |-> fam, got |-> e.p, step |-> d.step, c |-> e.c,
                        ok |-> e \in Decide(loc, ctry, conf.tops, l, fam).set]
           /\ heap' = IF Defect = "mutate" /\ lp > 0 /\ d.step \notin {"exact", "hack"}
                      THEN [heap EXCEPT ![lp].cur.asn = IF l.ctry \in DOMAIN conf.tops THEN conf.tops[l.ctry] ELSE 0]
                      ELSE heap
    /\ H("Subnet", "", "", 0, "", <<>>, FALSE, l, lp, fam)
    /\ UNCHANGED <<conf, disk, dbA, dbC, loc4, loc6, c4, c6, locTag, ctryTag, ipc, hostc, rf, snaps, lastr, lastd, nput, nref>>

-----------------------------------------------------------------------------
(* Refresh *)
Busy == {r \in Refreshers : rf[r].pc # "idle"}

RStart(r) ==
    /\ rf[r].pc = "idle" /\ nref < MaxRefresh
    /\ Serial => Busy = {}
    /\ nref' = nref + 1
    /\ LET la == disk.A
           lc == disk.C
       IN  IF ~Loadable(la) \/ ~Loadable(lc)
           THEN /\ lastr' = [res |-> "err", err |-> IF ~Loadable(la) THEN "reading asn geoip" ELSE "reading country geoip",
                             r |-> r, alone |-> Busy = {}, pre |-> Pre]
                /\ IF Defect = "fail_clears"
                   THEN /\ loc4' = {} /\ loc6' = {} /\ c4' = {} /\ c6' = {} /\ locTag' = <<-1, -1>> /\ ctryTag' = -1
                   ELSE UNCHANGED <<loc4, loc6, c4, c6, locTag, ctryTag>>
                /\ rf' = [x \in Refreshers |-> IF x \in Busy THEN [rf[x] EXCEPT !.alone = FALSE] ELSE rf[x]]
           ELSE /\ rf' = [x \in Refreshers |->
                           IF x \in Busy THEN [rf[x] EXCEPT !.alone = FALSE]
                           ELSE IF x # r THEN rf[x]
                           ELSE [pc |-> "built", la |-> la, lc |-> lc,
                                            b4 |-> BuildLoc(la, lc, conf.alltop, 4), b6 |-> BuildLoc(la, lc, conf.alltop, 6),
                                            bc4 |-> BuildCtry(lc, 4), bc6 |-> BuildCtry(lc, 6),
                                            lerr |-> LocScanFails(la, lc), cerr |-> CtryScanFails(lc),
                                            swl |-> FALSE, swc |-> FALSE, latel |-> FALSE, latec |-> FALSE, alone |-> Busy = {}, pre |-> Pre]]
                /\ lastr' = NoR
                /\ UNCHANGED <<loc4, loc6, c4, c6, locTag, ctryTag>>
    /\ HR("RStart", r)
    /\ UNCHANGED <<conf, disk, dbA, dbC, ipc, hostc, heap, snaps, lastd, lasts, nput>>

\* what a goroutine publishes: the contract (nothing unless the whole refresh is good) or the code's reading
\* (its own result, nil after its own error, whatever the other scan says)
AsContract(r) == ~rf[r].lerr /\ ~rf[r].cerr
\* or, "late": nothing now, the maps are published by RSwapDB together with the databases
Readings == CASE Defect = "fail_clears" -> {"code"} [] Defect = "any" -> {"contract", "code", "late"} [] Defect = "late" -> {"late"}
              [] OTHER -> {"contract"}

RSwapLoc(r) ==
    /\ rf[r].pc = "built" /\ ~rf[r].swl
    /\ \E rd \in Readings :
         /\ IF rd = "late" \/ (rd = "contract" /\ ~AsContract(r)) THEN UNCHANGED <<loc4, loc6, locTag>>
            ELSE IF rf[r].lerr THEN loc4' = {} /\ loc6' = {} /\ locTag' = <<-1, -1>>
            ELSE loc4' = rf[r].b4 /\ loc6' = rf[r].b6 /\ locTag' = <<rf[r].la, rf[r].lc>>
         /\ rf' = [rf EXCEPT ![r].swl = TRUE, ![r].latel = (rd = "late")]
    /\ HR("RSwapLoc", r)
    /\ UNCHANGED <<conf, disk, dbA, dbC, c4, c6, ctryTag, ipc, hostc, heap, snaps, lastr, lastd, lasts, nput, nref>>

RSwapCtry(r) ==
    /\ rf[r].pc = "built" /\ ~rf[r].swc
    /\ \E rd \in Readings :
         /\ IF rd = "late" \/ (rd = "contract" /\ ~AsContract(r)) THEN UNCHANGED <<c4, c6, ctryTag>>
            ELSE IF rf[r].cerr THEN c4' = {} /\ c6' = {} /\ ctryTag' = -1
            ELSE c4' = rf[r].bc4 /\ c6' = rf[r].bc6 /\ ctryTag' = rf[r].lc
         /\ rf' = [rf EXCEPT ![r].swc = TRUE, ![r].latec = (rd = "late")]
    /\ HR("RSwapCtry", r)
    /\ UNCHANGED <<conf, disk, dbA, dbC, loc4, loc6, locTag, ipc, hostc, heap, snaps, lastr, lastd, lasts, nput, nref>>

RJoin(r) ==
    /\ rf[r].pc = "built" /\ rf[r].swl /\ rf[r].swc
    /\ IF AsContract(r)
       THEN rf' = [rf EXCEPT ![r].pc = "joined"] /\ UNCHANGED lastr
       ELSE /\ rf' = [rf EXCEPT ![r] = IdleRf]
            /\ lastr' = [res |-> "err", err |-> IF rf[r].cerr THEN "country subnet data" ELSE "location subnet data", r |-> r,
                         alone |-> rf[r].alone, pre |-> rf[r].pre]
    /\ HR("RJoin", r)
    /\ UNCHANGED <<conf, disk, dbA, dbC, loc4, loc6, c4, c6, locTag, ctryTag, ipc, hostc, heap, snaps, lastd, lasts, nput, nref>>

RSwapDB(r) ==
    /\ rf[r].pc = "joined" /\ Defect # "swap2"
    /\ dbA' = rf[r].la /\ dbC' = rf[r].lc
    /\ IF rf[r].latel THEN loc4' = rf[r].b4 /\ loc6' = rf[r].b6 /\ locTag' = <<rf[r].la, rf[r].lc>>
       ELSE UNCHANGED <<loc4, loc6, locTag>>
    /\ IF rf[r].latec THEN c4' = rf[r].bc4 /\ c6' = rf[r].bc6 /\ ctryTag' = rf[r].lc
       ELSE UNCHANGED <<c4, c6, ctryTag>>
    /\ IF Defect = "noclear" THEN UNCHANGED <<ipc, hostc>> ELSE ipc' = <<>> /\ hostc' = <<>>
    /\ snaps' = snaps \cup {<<rf[r].la, rf[r].lc>>}
    /\ lastr' = [res |-> "ok", err |-> "", r |-> r, alone |-> rf[r].alone, pre |-> rf[r].pre]
    /\ rf' = [rf EXCEPT ![r] = IdleRf]
    /\ HR("RSwapDB", r)
    /\ UNCHANGED <<conf, disk, heap, lastd, lasts, nput, nref>>

\* the defective swap in two critical sections
RSwapDBa(r) ==
    /\ rf[r].pc = "joined" /\ Defect = "swap2"
    /\ dbA' = rf[r].la /\ rf' = [rf EXCEPT ![r].pc = "halfswapped"]
    /\ HR("RSwapDBa", r)
    /\ UNCHANGED <<conf, disk, dbC, loc4, loc6, c4, c6, locTag, ctryTag, ipc, hostc, heap, snaps, lastr, lastd, lasts, nput, nref>>
RSwapDBc(r) ==
    /\ rf[r].pc = "halfswapped"
    /\ dbC' = rf[r].lc /\ ipc' = <<>> /\ hostc' = <<>>
    /\ snaps' = snaps \cup {<<rf[r].la, rf[r].lc>>}
    /\ lastr' = [res |-> "ok", err |-> "", r |-> r, alone |-> rf[r].alone, pre |-> rf[r].pre]
    /\ rf' = [rf EXCEPT ![r] = IdleRf]
    /\ HR("RSwapDBc", r)
    /\ UNCHANGED <<conf, disk, dbA, loc4, loc6, c4, c6, locTag, ctryTag, heap, lastd, lasts, nput, nref>>

Next == \/ \E v \in conf.versA : PutFile("A", v)
        \/ \E v \in conf.versC : PutFile("C", v)
        \/ \E r \in Refreshers : RStart(r) \/ RSwapLoc(r) \/ RSwapCtry(r) \/ RJoin(r) \/ RSwapDB(r) \/ RSwapDBa(r) \/ RSwapDBc(r)
        \/ Len(heap) < MaxData /\ \E h \in conf.hosts, a \in conf.addrs : DataIP(h, a, 0, 0)
        \/ \E h \in conf.hosts : DataHost(h)
        \/ \E l \in conf.locs, fam \in {4, 6} : Subnet(l, 0, fam)
        \/ \E p \in 1..Len(heap), fam \in {4, 6} : Subnet(heap[p].cur, p, fam)

Spec == Init /\ [][Next]_vars

\* the same actions with ONE randomly chosen parameter per kind of step (behaviour generation: the steps of a
\* refresh are then taken about as often as look-ups)
One(S) == IF S = {} THEN {} ELSE {RandomElement(S)}
SimNext == \/ \E v \in One(conf.versA) : PutFile("A", v)
           \/ \E v \in One(conf.versC) : PutFile("C", v)
           \/ \E r \in Refreshers : RStart(r) \/ RSwapLoc(r) \/ RSwapCtry(r) \/ RJoin(r) \/ RSwapDB(r)
           \/ Len(heap) < MaxData /\ \E h \in One(conf.hosts), a \in One(conf.addrs) : DataIP(h, a, 0, 0)
           \/ \E h \in One(conf.hosts) : DataHost(h)
           \/ \E l \in One(conf.locs), fam \in One({4, 6}) : Subnet(l, 0, fam)
           \/ \E p \in One(1..Len(heap)), fam \in One({4, 6}) : Subnet(heap[p].cur, p, fam)
SimSpec == Init /\ [][SimNext]_vars

-----------------------------------------------------------------------------
MapOK(m, fam) == \A e \in m : /\ Len(e.p.b) = FamLen(fam) /\ e.p.n >= 0 /\ e.p.n <= 8 * FamLen(fam)
TypeOK == /\ dbA \in 0..Len(Files) /\ dbC \in 0..Len(Files)
          /\ MapOK(loc4, 4) /\ MapOK(loc6, 6) /\ MapOK(c4, 4) /\ MapOK(c6, 6)
          /\ Len(ipc) <= conf.ipcap /\ Len(hostc) <= conf.hostcap
          /\ \A i \in 1..Len(ipc) : ipc[i].p \in 1..Len(heap)
          /\ \A i \in 1..Len(hostc) : hostc[i].p \in 1..Len(heap)
          /\ \A r \in Refreshers : rf[r].pc \in {"idle", "built", "joined", "halfswapped"}

LocationsAreValues == \A p \in 1..Len(heap) : heap[p].cur = heap[p].orig
CacheAgreesWithDB == /\ \A i \in 1..Len(ipc) : heap[ipc[i].p].av = dbA /\ heap[ipc[i].p].cv = dbC
                     /\ \A i \in 1..Len(hostc) : heap[hostc[i].p].av = dbA /\ heap[hostc[i].p].cv = dbC
CachedIsLookup == /\ \A p \in 1..Len(heap) : heap[p].orig = Lookup(heap[p].av, heap[p].cv, heap[p].a, 0, 0).loc
                  /\ \A i \in 1..Len(ipc) : CacheKey(heap[ipc[i].p].a) = ipc[i].k
                  /\ \A i, j \in 1..Len(ipc) : i # j => ipc[i].k # ipc[j].k
ReadersSeeOneVersion == \A p \in 1..Len(heap) : <<heap[p].av, heap[p].cv>> \in snaps
\* (alone: no other refresh ran at any time between its start and its end)
FailedRefreshKeepsOld == (lastr.res = "err" /\ lastr.alone) => Pre = lastr.pre
Quiescent == Busy = {}
QuiescentConsistent == (Quiescent /\ dbA # 0 /\ locTag[1] >= 0 /\ ctryTag >= 0) => (locTag = <<dbA, dbC>> /\ ctryTag = dbC)
\* stronger than the code: the maps never run ahead of the databases (checked only to show the window)
MapsNeverAhead == dbA # 0 => (locTag = <<dbA, dbC>> /\ ctryTag = dbC)
SubnetContract == lasts.ok
SubnetInCountry == (lasts.step \in {"country"} \/ (lasts.step = "exact" /\ lasts.l.ctry \in Special))
                   => lasts.c = lasts.l.ctry
DesiredLength == /\ \A e \in loc4 \cup c4 : e.p.n = 24
                 /\ \A e \in loc6 \cup c6 : e.p.n = 56
\* an address no database knows: a non-nil empty location; nil only for an uncached host
UnknownIsNone == /\ lastd.kind = "miss" =>
                      LET x == heap[lastd.p]
                      IN  (NetOf(Files[x.av].nets, x.a, 0) = 0 /\ NetOf(Files[x.cv].nets, x.a, 0) = 0) => x.orig = NoneLoc
                 /\ lastd.kind \in {"miss", "hit", "host"} => lastd.p > 0
                 /\ lastd.kind \in {"hostmiss", "err"} => lastd.p = 0
\* the same cache key, the same answer while nothing was refreshed: hits return the pointer that is cached
SharedByKey == lastd.kind = "hit" => CacheKey(heap[lastd.p].a) = CacheKey(lastd.a)

EmitHist == PrintT(<<"BEH", ToJson(hist)>>)
=============================================================================
