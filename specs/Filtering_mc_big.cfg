SPECIFICATION Spec
CONSTANTS
  Part = "full"
  Variant = "correct"
INVARIANTS ContractNonEmpty ImplWithinContract RewriteWinsOutright AllowBeatsBlock BlockBlocks SafetyOrder CustomAllowSkipsSafety NothingFromNothing RespAllowBeatsBlock RequestBeatsResponse DisabledMeansUnfiltered EffectAgrees
