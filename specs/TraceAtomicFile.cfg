SPECIFICATION TraceSpec
CONSTANTS
  Chunks = 1
  Direct = FALSE
  InitiallyAbsent = FALSE
INVARIANT TraceComplete
POSTCONDITION TraceAccepted
CHECK_DEADLOCK FALSE
