---- MODULE FilterRefresh_TTrace_1790436289 ----
EXTENDS Sequences, TLCExt, Toolbox, FilterRefresh, Naturals, TLC

_expression ==
    LET FilterRefresh_TEExpression == INSTANCE FilterRefresh_TEExpression
    IN FilterRefresh_TEExpression!expression
----

_trace ==
    LET FilterRefresh_TETrace == INSTANCE FilterRefresh_TETrace
    IN FilterRefresh_TETrace!trace
----

_inv ==
    ~(
        TLCGet("level") = Len(_TETrace)
        /\
        phase = ("run")
        /\
        dprev = ([ridx |-> 1, rl1 |-> 1, rl2 |-> 1, sidx |-> 1])
        /\
        alive = (TRUE)
        /\
        prev = ([ridx |-> 1, rl1 |-> 1, rl2 |-> 1, sidx |-> 1])
        /\
        pending = ([ridx |-> 0, rl1 |-> 0, rl2 |-> 0, sidx |-> 0])
        /\
        fault = ([ridx |-> "trunc", rl1 |-> "ok", rl2 |-> "ok", sidx |-> "ok"])
        /\
        remote = ([ridx |-> 2, rl1 |-> 2, rl2 |-> 2, sidx |-> 2])
        /\
        got = ("none")
        /\
        svcBad = ({})
        /\
        disk = ([ridx |-> -1, rl1 |-> 1, rl2 |-> 1, sidx |-> 1])
        /\
        hist = (<<[l |-> "", f |-> "", a |-> "Init", up |-> TRUE]>>)
        /\
        pc = ([i |-> 2, s |-> "fetch"])
        /\
        ownBad = ({})
        /\
        served = ([ridx |-> -1, rl1 |-> 1, rl2 |-> 1, sidx |-> 1])
        /\
        rounds = (1)
    )
----

_init ==
    /\ phase = _TETrace[1].phase
    /\ alive = _TETrace[1].alive
    /\ prev = _TETrace[1].prev
    /\ pc = _TETrace[1].pc
    /\ fault = _TETrace[1].fault
    /\ disk = _TETrace[1].disk
    /\ dprev = _TETrace[1].dprev
    /\ pending = _TETrace[1].pending
    /\ hist = _TETrace[1].hist
    /\ remote = _TETrace[1].remote
    /\ served = _TETrace[1].served
    /\ got = _TETrace[1].got
    /\ ownBad = _TETrace[1].ownBad
    /\ svcBad = _TETrace[1].svcBad
    /\ rounds = _TETrace[1].rounds
----

_next ==
    /\ \E i,j \in DOMAIN _TETrace:
        /\ \/ /\ j = i + 1
              /\ i = TLCGet("level")
        /\ phase  = _TETrace[i].phase
        /\ phase' = _TETrace[j].phase
        /\ alive  = _TETrace[i].alive
        /\ alive' = _TETrace[j].alive
        /\ prev  = _TETrace[i].prev
        /\ prev' = _TETrace[j].prev
        /\ pc  = _TETrace[i].pc
        /\ pc' = _TETrace[j].pc
        /\ fault  = _TETrace[i].fault
        /\ fault' = _TETrace[j].fault
        /\ disk  = _TETrace[i].disk
        /\ disk' = _TETrace[j].disk
        /\ dprev  = _TETrace[i].dprev
        /\ dprev' = _TETrace[j].dprev
        /\ pending  = _TETrace[i].pending
        /\ pending' = _TETrace[j].pending
        /\ hist  = _TETrace[i].hist
        /\ hist' = _TETrace[j].hist
        /\ remote  = _TETrace[i].remote
        /\ remote' = _TETrace[j].remote
        /\ served  = _TETrace[i].served
        /\ served' = _TETrace[j].served
        /\ got  = _TETrace[i].got
        /\ got' = _TETrace[j].got
        /\ ownBad  = _TETrace[i].ownBad
        /\ ownBad' = _TETrace[j].ownBad
        /\ svcBad  = _TETrace[i].svcBad
        /\ svcBad' = _TETrace[j].svcBad
        /\ rounds  = _TETrace[i].rounds
        /\ rounds' = _TETrace[j].rounds

\* Uncomment the ASSUME below to write the states of the error trace
\* to the given file in Json format. Note that you can pass any tuple
\* to `JsonSerialize`. For example, a sub-sequence of _TETrace.
    \* ASSUME
    \*     LET J == INSTANCE Json
    \*         IN J!JsonSerialize("FilterRefresh_TTrace_1790436289.json", _TETrace)

=============================================================================

 Note that you can extract this module `FilterRefresh_TEExpression`
  to a dedicated file to reuse `expression` (the module in the 
  dedicated `FilterRefresh_TEExpression.tla` file takes precedence 
  over the module `FilterRefresh_TEExpression` below).

---- MODULE FilterRefresh_TEExpression ----
EXTENDS Sequences, TLCExt, Toolbox, FilterRefresh, Naturals, TLC

expression == 
    [
        \* To hide variables of the `FilterRefresh` spec from the error trace,
        \* remove the variables below.  The trace will be written in the order
        \* of the fields of this record.
        phase |-> phase
        ,alive |-> alive
        ,prev |-> prev
        ,pc |-> pc
        ,fault |-> fault
        ,disk |-> disk
        ,dprev |-> dprev
        ,pending |-> pending
        ,hist |-> hist
        ,remote |-> remote
        ,served |-> served
        ,got |-> got
        ,ownBad |-> ownBad
        ,svcBad |-> svcBad
        ,rounds |-> rounds
        
        \* Put additional constant-, state-, and action-level expressions here:
        \* ,_stateNumber |-> _TEPosition
        \* ,_phaseUnchanged |-> phase = phase'
        
        \* Format the `phase` variable as Json value.
        \* ,_phaseJson |->
        \*     LET J == INSTANCE Json
        \*     IN J!ToJson(phase)
        
        \* Lastly, you may build expressions over arbitrary sets of states by
        \* leveraging the _TETrace operator.  For example, this is how to
        \* count the number of times a spec variable changed up to the current
        \* state in the trace.
        \* ,_phaseModCount |->
        \*     LET F[s \in DOMAIN _TETrace] ==
        \*         IF s = 1 THEN 0
        \*         ELSE IF _TETrace[s].phase # _TETrace[s-1].phase
        \*             THEN 1 + F[s-1] ELSE F[s-1]
        \*     IN F[_TEPosition - 1]
    ]

=============================================================================



Parsing and semantic processing can take forever if the trace below is long.
 In this case, it is advised to uncomment the module below to deserialize the
 trace from a generated binary file.

\*
\*---- MODULE FilterRefresh_TETrace ----
\*EXTENDS IOUtils, FilterRefresh, TLC
\*
\*trace == IODeserialize("FilterRefresh_TTrace_1790436289.bin", TRUE)
\*
\*=============================================================================
\*

---- MODULE FilterRefresh_TETrace ----
EXTENDS FilterRefresh, TLC

trace == 
    <<
    ([phase |-> "start",dprev |-> [ridx |-> 1, rl1 |-> 1, rl2 |-> 1, sidx |-> 1],alive |-> TRUE,prev |-> [ridx |-> 1, rl1 |-> 1, rl2 |-> 1, sidx |-> 1],pending |-> [ridx |-> 0, rl1 |-> 0, rl2 |-> 0, sidx |-> 0],fault |-> [ridx |-> "ok", rl1 |-> "ok", rl2 |-> "ok", sidx |-> "ok"],remote |-> [ridx |-> 1, rl1 |-> 1, rl2 |-> 1, sidx |-> 1],got |-> "none",svcBad |-> {},disk |-> [ridx |-> 1, rl1 |-> 1, rl2 |-> 1, sidx |-> 1],hist |-> <<[l |-> "", f |-> "", a |-> "Init", up |-> TRUE]>>,pc |-> [i |-> 0, s |-> "fetch"],ownBad |-> {},served |-> [ridx |-> 1, rl1 |-> 1, rl2 |-> 1, sidx |-> 1],rounds |-> 0]),
    ([phase |-> "run",dprev |-> [ridx |-> 1, rl1 |-> 1, rl2 |-> 1, sidx |-> 1],alive |-> TRUE,prev |-> [ridx |-> 1, rl1 |-> 1, rl2 |-> 1, sidx |-> 1],pending |-> [ridx |-> 0, rl1 |-> 0, rl2 |-> 0, sidx |-> 0],fault |-> [ridx |-> "ok", rl1 |-> "ok", rl2 |-> "ok", sidx |-> "ok"],remote |-> [ridx |-> 2, rl1 |-> 2, rl2 |-> 2, sidx |-> 2],got |-> "none",svcBad |-> {},disk |-> [ridx |-> 1, rl1 |-> 1, rl2 |-> 1, sidx |-> 1],hist |-> <<[l |-> "", f |-> "", a |-> "Init", up |-> TRUE]>>,pc |-> [i |-> 1, s |-> "fetch"],ownBad |-> {},served |-> [ridx |-> 1, rl1 |-> 1, rl2 |-> 1, sidx |-> 1],rounds |-> 1]),
    ([phase |-> "run",dprev |-> [ridx |-> 1, rl1 |-> 1, rl2 |-> 1, sidx |-> 1],alive |-> TRUE,prev |-> [ridx |-> 1, rl1 |-> 1, rl2 |-> 1, sidx |-> 1],pending |-> [ridx |-> 0, rl1 |-> 0, rl2 |-> 0, sidx |-> 0],fault |-> [ridx |-> "trunc", rl1 |-> "ok", rl2 |-> "ok", sidx |-> "ok"],remote |-> [ridx |-> 2, rl1 |-> 2, rl2 |-> 2, sidx |-> 2],got |-> "fullpart",svcBad |-> {},disk |-> [ridx |-> 1, rl1 |-> 1, rl2 |-> 1, sidx |-> 1],hist |-> <<[l |-> "", f |-> "", a |-> "Init", up |-> TRUE]>>,pc |-> [i |-> 1, s |-> "write"],ownBad |-> {},served |-> [ridx |-> 1, rl1 |-> 1, rl2 |-> 1, sidx |-> 1],rounds |-> 1]),
    ([phase |-> "run",dprev |-> [ridx |-> 1, rl1 |-> 1, rl2 |-> 1, sidx |-> 1],alive |-> TRUE,prev |-> [ridx |-> 1, rl1 |-> 1, rl2 |-> 1, sidx |-> 1],pending |-> [ridx |-> 0, rl1 |-> 0, rl2 |-> 0, sidx |-> 0],fault |-> [ridx |-> "trunc", rl1 |-> "ok", rl2 |-> "ok", sidx |-> "ok"],remote |-> [ridx |-> 2, rl1 |-> 2, rl2 |-> 2, sidx |-> 2],got |-> "fullpart",svcBad |-> {},disk |-> [ridx |-> -1, rl1 |-> 1, rl2 |-> 1, sidx |-> 1],hist |-> <<[l |-> "", f |-> "", a |-> "Init", up |-> TRUE]>>,pc |-> [i |-> 1, s |-> "compile"],ownBad |-> {},served |-> [ridx |-> 1, rl1 |-> 1, rl2 |-> 1, sidx |-> 1],rounds |-> 1]),
    ([phase |-> "run",dprev |-> [ridx |-> 1, rl1 |-> 1, rl2 |-> 1, sidx |-> 1],alive |-> TRUE,prev |-> [ridx |-> 1, rl1 |-> 1, rl2 |-> 1, sidx |-> 1],pending |-> [ridx |-> 0, rl1 |-> 0, rl2 |-> 0, sidx |-> 0],fault |-> [ridx |-> "trunc", rl1 |-> "ok", rl2 |-> "ok", sidx |-> "ok"],remote |-> [ridx |-> 2, rl1 |-> 2, rl2 |-> 2, sidx |-> 2],got |-> "fullpart",svcBad |-> {},disk |-> [ridx |-> -1, rl1 |-> 1, rl2 |-> 1, sidx |-> 1],hist |-> <<[l |-> "", f |-> "", a |-> "Init", up |-> TRUE]>>,pc |-> [i |-> 1, s |-> "swap"],ownBad |-> {},served |-> [ridx |-> 1, rl1 |-> 1, rl2 |-> 1, sidx |-> 1],rounds |-> 1]),
    ([phase |-> "run",dprev |-> [ridx |-> 1, rl1 |-> 1, rl2 |-> 1, sidx |-> 1],alive |-> TRUE,prev |-> [ridx |-> 1, rl1 |-> 1, rl2 |-> 1, sidx |-> 1],pending |-> [ridx |-> 0, rl1 |-> 0, rl2 |-> 0, sidx |-> 0],fault |-> [ridx |-> "trunc", rl1 |-> "ok", rl2 |-> "ok", sidx |-> "ok"],remote |-> [ridx |-> 2, rl1 |-> 2, rl2 |-> 2, sidx |-> 2],got |-> "none",svcBad |-> {},disk |-> [ridx |-> -1, rl1 |-> 1, rl2 |-> 1, sidx |-> 1],hist |-> <<[l |-> "", f |-> "", a |-> "Init", up |-> TRUE]>>,pc |-> [i |-> 2, s |-> "fetch"],ownBad |-> {},served |-> [ridx |-> -1, rl1 |-> 1, rl2 |-> 1, sidx |-> 1],rounds |-> 1])
    >>
----


=============================================================================

---- CONFIG FilterRefresh_TTrace_1790436289 ----
CONSTANTS
    Lists = { "ridx" , "rl1" , "rl2" , "sidx" }
    Faults = { "ok" , "refused" , "timeout" , "status" , "empty" , "oversize" , "trunc" , "inv" , "invown" }
    MaxRounds = 2
    CrashAnywhere = TRUE
    Defects = { "len_ignored" }
    KeepHist = FALSE

INVARIANT
    _inv

CHECK_DEADLOCK
    \* CHECK_DEADLOCK off because of PROPERTY or INVARIANT above.
    FALSE

INIT
    _init

NEXT
    _next

CONSTANT
    _TETrace <- _trace

ALIAS
    _expression
=============================================================================
\* Generated on Sat Sep 26 15:24:50 UTC 2026