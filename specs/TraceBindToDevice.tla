------------------------- MODULE TraceBindToDevice -------------------------
(* Trace validation for EXT4 (bindtodevice).  The stepper harness executes one
   action at a time on a real Manager (fake interface storage), its real
   interfaceListeners (processConn with recording connections, readUDP on a
   loop-back socket with IP_RECVORIGDSTADDR), chanListeners and
   chanPacketConns, waits until every goroutine it started has finished or is
   parked (goroutine states from runtime.Stack), and records the outcome and
   the observable state:

     Reset         buf (channel_buffer_size)
     Add           id, ifn, port, res ("ok" or the class of the error text)
     ListenConfig  id, pfx, masked, res
     Start / Shutdown (res)
     Dispatch      k, id, dst, item; res "returned" / "blocked" (the loop waits in
                   the channel send); cl: the dispatcher closed the connection;
                   woke: parked receivers that returned, with what (got, ok, laddr);
                   err: anything else the harness could not make sense of (must be empty)
     Recv          k, id, pfx; got: item number, 0 = parked, -1 = error;
                   laddr: abstract LocalAddr of what was received; bodyok
                   cdone: pending Close calls that returned, with their result
     Close         k, id, pfx; res "ok" / "err" / "blocked"; woke
     WriteBack     item; wsrc: abstract source address the client saw
     obs / hold    per endpoint: len(channel), isClosed, receiver parked, Close
                   pending; per read loop: the item it is blocked with
     E2E           one line per connection / datagram sent through the REAL
                   Manager.Start loops over loop-back sockets (judged line by
                   line, NONCONF)
     End                                                                       *)
EXTENDS BindToDevice

VARIABLE l
Trace == ndJsonDeserialize("trace.ndjson")
tvars == <<vars, l>>
E == Trace[l]
SetOf(s) == {s[j] : j \in 1..Len(s)}

Mark == TLCSet(1, IF l + 1 > TLCGet(1) THEN l + 1 ELSE TLCGet(1))
Consume(e) == l <= Len(Trace) /\ E.ev = e /\ l' = l + 1

TraceInit == Init /\ l = 1 /\ TLCSet(1, 1)

TraceReset ==
    /\ Consume("Reset")
    /\ ifl' = [i \in Ids |-> NoIfl] /\ lcorder' = <<>> /\ nreg' = 0
    /\ started' = FALSE /\ shut' = 0 /\ buf' = E.buf
    /\ q' = [e \in EP |-> <<>>] /\ closed' = {} /\ parked' = {} /\ cpend' = {}
    /\ hold' = [x \in Ids \X Kinds |-> 0]
    /\ item' = <<>> /\ wire' = [i |-> 0, src |-> None]
    /\ last' = L("Init", 0, {}, {}) /\ hist' = hist /\ Mark

TraceEnd == Consume("End") /\ UNCHANGED vars /\ Mark

\* the state the harness observed after the event equals the state of the model
HoldOf(e, x) == LET S == {h \in SetOf(e.hold) : h.id = x[1] /\ h.k = x[2]}
                IN IF S = {} THEN 0 ELSE (CHOOSE h \in S : TRUE).item
ObsOK(e) ==
    /\ {<<o.id, o.pfx>> : o \in SetOf(e.obs)} = {lcorder'[j] : j \in 1..Len(lcorder')}
    /\ \A j \in 1..Len(e.obs) :
          LET o == e.obs[j]
              ep == <<o.id, o.pfx, o.k>>
          IN /\ Len(q'[ep]) = o.qlen
             /\ (ep \in closed') = o.closed
             /\ (ep \in parked') = o.parked
             /\ (ep \in cpend') = o.cpend
    /\ \A x \in Ids \X Kinds : hold'[x] = HoldOf(e, x)
WokeOK(e) == /\ last'.woke = {<<<<w.id, w.pfx, w.k>>, w.got>> : w \in SetOf(e.woke)}
             /\ \A w \in SetOf(e.woke) : w.got > 0 => (w.ok /\ w.laddr = item'[w.got].dst)

TraceAdd == /\ Consume("Add")
            /\ IF E.res = "ok" THEN AddOK(E.id, E.ifn, E.port)
               ELSE AddErr(E.id, E.ifn, E.port) /\ E.res \in AddReasons(E.id, E.ifn, E.port) \cup {"other"}
            /\ Mark

TraceLC == /\ Consume("ListenConfig")
           /\ IF E.res = "ok" THEN LCOK(E.id, E.pfx, E.masked)
              ELSE LCErr(E.id, E.pfx, E.masked) /\ E.res \in LCReasons(E.id, E.pfx, E.masked) \cup {"other"}
           /\ Mark

TraceStart == Consume("Start") /\ Start /\ E.res = "ok" /\ Mark
TraceShutdown == Consume("Shutdown") /\ Shutdown /\ (E.res = "ok") = (last'.res = 1) /\ Mark

TraceDispatch ==
    /\ Consume("Dispatch") /\ Dispatch(E.k, E.id, E.dst)
    /\ Len(item') = E.item
    /\ item'[E.item].cl = E.cl
    /\ (E.res = "blocked") = (item'[E.item].st = "held")
    /\ WokeOK(E) /\ ObsOK(E) /\ E.err = "" /\ Mark

TraceRecv ==
    /\ Consume("Recv") /\ Recv(E.k, E.id, E.pfx)
    /\ last'.res = E.got
    /\ (E.got > 0 => E.laddr = item[E.got].dst /\ E.bodyok)
    /\ {<<c.id, c.pfx, c.k>> : c \in SetOf(E.cdone)} = cpend \ cpend'
    /\ \A c \in SetOf(E.cdone) : c.res = "ok"
    /\ ObsOK(E) /\ E.err = "" /\ Mark

TraceClose ==
    /\ Consume("Close") /\ Close(E.k, E.id, E.pfx)
    /\ last'.res = (CASE E.res = "ok" -> 1 [] E.res = "err" -> 0 [] E.res = "blocked" -> 2 [] OTHER -> 9)
    /\ WokeOK(E) /\ ObsOK(E) /\ E.err = "" /\ Mark

TraceWriteBack ==
    /\ Consume("WriteBack") /\ WriteBack(E.item)
    /\ E.wsrc = wire'.src /\ E.err = "" /\ Mark

-----------------------------------------------------------------------------
(* Lines from the real read loops. *)
TargetIn(S, d) == LET C == {p \in S : Contains(p, d)}
                  IN IF C = {} THEN None ELSE CHOOSE p \in C : \A p2 \in C : Len(p2) <= Len(p)
If(c, s) == IF c THEN {s} ELSE {}
E2EReasons(e) ==
    LET want == TargetIn(SetOf(e.lcs), e.dst)
        got == IF e.has THEN e.pfx ELSE None
    IN If(got # want /\ want = None, "an item for an address in no registered subnet was delivered")
       \cup If(got # want /\ want # None /\ got # None, "delivered to a listener other than the narrowest subnet containing the destination")
       \cup If(got # want /\ got = None, "not delivered to the listener that owns the destination")
       \cup If(e.has /\ e.laddr # e.dst, "the local address of the delivered item is not the original destination")
       \cup If(e.has /\ ~e.echo, "payload damaged or connection not usable")
       \cup If(e.k = "tcp" /\ ~e.has /\ ~e.closed, "a connection that was not delivered was left open")
       \cup If(e.k = "tcp" /\ e.has /\ e.closed, "a delivered connection was closed by the dispatcher")
       \cup If(e.k = "udp" /\ e.has /\ e.src # e.dst, "the response did not leave with the original destination as its source")

TraceE2E == /\ l <= Len(Trace) /\ E.ev = "E2E" /\ l' = l + 1 /\ Mark /\ UNCHANGED vars
            /\ LET r == E2EReasons(E) IN IF r = {} THEN TRUE ELSE PrintT(<<"NONCONF", l, r>>)

\* Manager.Shutdown: nil the first time, net.ErrClosed afterwards
TraceE2EEnd == /\ l <= Len(Trace) /\ E.ev = "E2EEnd" /\ l' = l + 1 /\ Mark /\ UNCHANGED vars
               /\ IF E.first /\ E.second THEN TRUE
                  ELSE PrintT(<<"NONCONF", l, {"Shutdown must succeed once and report net.ErrClosed afterwards"}>>)

TraceNext == \/ TraceReset \/ TraceEnd \/ TraceAdd \/ TraceLC \/ TraceStart \/ TraceShutdown
             \/ TraceDispatch \/ TraceRecv \/ TraceClose \/ TraceWriteBack \/ TraceE2E \/ TraceE2EEnd
TraceSpec == TraceInit /\ [][TraceNext]_tvars

TraceAccepted ==
    IF TLCGet(1) = Len(Trace) + 1 THEN TRUE
    ELSE PrintT(<<"STUCK", TLCGet(1), Len(Trace)>>) /\ FALSE
=============================================================================
