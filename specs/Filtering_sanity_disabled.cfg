SPECIFICATION Spec
CONSTANTS
  Part = "rules"
  Variant = "ignore_device_switch"
INVARIANTS DisabledMeansUnfiltered
