SPECIFICATION Spec
CONSTANTS
  Part = "small"
  Variant = "ignore_device_switch"
INVARIANTS DisabledMeansUnfiltered
