\* sanity: the defective variant "log_dropped" must violate NothingForDropped
SPECIFICATION Spec
CONSTANTS
  Defect = "log_dropped"
INVARIANTS NothingForDropped
