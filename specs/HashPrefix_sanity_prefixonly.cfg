SPECIFICATION Spec
CONSTANTS
  Alphabet = {"a", "blogspot", "com", "co", "uk"}
  MaxLabels = 3
  IcannSuffix <- McIcann
  PrivateSuffix <- McPrivate
  ListIds = {"sb"}
  ListNames <- McListNames
  MaxList = 2
  Hosts <- Names
  QTypes = {"A", "HTTPS", "TXT"}
  PrefixStrs <- McPrefixStrs
  MaxStrs = 1
  H <- McH
  Variant = "prefix_only"
  KeepHist = FALSE
VIEW view
INVARIANTS MatchIffListed
CHECK_DEADLOCK FALSE
