SPECIFICATION Spec
CONSTANTS
  FilesSrc <- MCFiles
  MConfs <- MCConfsSmall
  UseRegister = FALSE
  Refreshers = {"r1", "r2"}
  InvalidCountries = {"A1", "ZZZ"}
  InvalidContinents = {"ZZ"}
  Serial = FALSE
  Defect = "none"
  KeepHist = FALSE
  MaxPut = 3
  MaxRefresh = 2
  MaxData = 0
VIEW view
INVARIANTS QuiescentConsistent
CHECK_DEADLOCK FALSE
