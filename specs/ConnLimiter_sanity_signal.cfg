SPECIFICATION Spec
CONSTANTS
  KeepHist = FALSE
  Lsn = {"l1", "l2"}
  MaxStop = 3
  MaxConns = 4
  MaxAccepts = 6
  BroadcastOnDec = FALSE
  CheckClosedFirst = TRUE
VIEW view
INVARIANTS TypeOK CounterExact Bound SatMatches NoLostWakeup CloseReleasesWaiters
PROPERTY Hysteresis
CHECK_DEADLOCK FALSE
