------------------------- MODULE TraceRuleStat -------------------------
(* Trace validation for EXT2, part 1: events recorded from the real
   rulestat.HTTP (harness/internal/rulestat/ext2_test.go) are replayed through
   the actions of RuleStat.tla; after every action the model state must equal
   the state observed in the code (s.stats, s.recordedHits, the gauge, the JSON
   body the upload endpoint received, what it answered), and all invariants
   of RuleStat are evaluated on it.                                          *)
EXTENDS RuleStat

VARIABLE l
Trace == ndJsonDeserialize("trace.ndjson")
tvars == <<vars, l>>
E == Trace[l]

TraceInit == Init /\ l = 1

Has(f) == f \in DOMAIN E
ToSet(a) == {a[j] : j \in 1..Len(a)}

Observed == /\ cur' = E.cur
            /\ hits' = E.hits
            /\ gauge' = E.gauge
            /\ delivered' = E.delivered
            /\ dropped' = E.dropped
            /\ E.foreign = 0          \* nothing but the known texts under the legacy id anywhere

Consume(e) == l <= Len(Trace) /\ E.ev = e /\ l' = l + 1

TraceReset == /\ Consume("Reset")
              /\ cur' = Empty /\ hits' = 0 /\ gauge' = E.gauge
              /\ inflight' = [r \in Ref |-> Idle]
              /\ counted' = Empty /\ ignored' = 0 /\ delivered' = Empty /\ dropped' = Empty
              /\ ncol' = 0 /\ nref' = 0 /\ hist' = <<>>

TraceCollect == Consume("Collect") /\ Collect(E.l, E.t) /\ Observed
\* the body the endpoint received is the set taken; it is keyed by the legacy id only
TraceRefreshSwap == /\ Consume("RefreshSwap") /\ RefreshSwap(E.r) /\ Observed
                    /\ inflight'[E.r].m = E.taken
                    /\ ToSet(E.ids) \subseteq {"15"}
TraceUploadOK == Consume("UploadOK") /\ UploadOK(E.r) /\ Observed /\ ~E.err
TraceDropFailed == Consume("DropFailed") /\ DropFailed(E.r) /\ Observed /\ E.err
\* Free-running stress: only the quiescent totals are observable.
TraceSummary == /\ Consume("Summary")
                /\ \A t \in Texts : E.counted[t] = E.cur[t] + E.delivered[t] + E.dropped[t]
                /\ E.foreign = 0
                /\ E.hits = Total(E.cur)
                /\ UNCHANGED vars

TraceNext == TraceReset \/ TraceCollect \/ TraceRefreshSwap \/ TraceUploadOK \/ TraceDropFailed \/ TraceSummary
TraceSpec == TraceInit /\ [][TraceNext]_tvars

TraceAccepted ==
    LET d == TLCGet("stats").diameter IN
    IF d - 1 = Len(Trace) THEN TRUE ELSE Print(<<"STUCK", d, Len(Trace)>>, FALSE)
=============================================================================
