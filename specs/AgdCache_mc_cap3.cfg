SPECIFICATION Spec
CONSTANTS
  Keys = {"k1", "k2", "k3", "k4"}
  Vals = {"v1"}
  Cap1 = 3
  Cap2 = 2
  Ids = {"a", "b"}
  MaxOps = 5
  KeepHist = FALSE
  Variant = "code"
VIEW view
INVARIANTS TypeOK LenBound Coherent KeptIsLatest EmptyIsEmpty GetContract LenContract SetContract
PROPERTIES EvictsLRU LossOnlyByEvictOrClear ClearExactly ClearByIDExactly AddReplaces ReadsDontWrite SetIsLocal
CHECK_DEADLOCK FALSE
