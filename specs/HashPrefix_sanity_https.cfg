SPECIFICATION Spec
CONSTANTS
  Alphabet = {"a", "blogspot", "com", "co", "uk"}
  MaxLabels = 5
  IcannSuffix <- McIcann
  PrivateSuffix <- McPrivate
  ListIds = {"sb"}
  ListNames <- McListNames
  MaxList = 1
  Hosts <- Names
  QTypes = {"A", "HTTPS", "TXT"}
  PrefixStrs <- McPrefixStrs
  MaxStrs = 1
  H <- McH
  Variant = "no_https"
  KeepHist = FALSE
VIEW view
INVARIANTS MatchIffListed
CHECK_DEADLOCK FALSE
