------------------------- MODULE TraceAgdCache -------------------------
(* Trace validation for EXT11 (a): events recorded from the real agdcache.LRU /
   Empty / DefaultManager (harness/internal/agdcache/ext11_test.go) are replayed
   through the actions of AgdCache.tla.  After every action the model state must
   equal what was observed on the real objects: for each cache the recency order
   (most recently used first, read from the eviction list), the values, Len();
   the registry of the manager; and the result of the call itself.  A "Drain"
   event is the recency order as the PUBLIC interface shows it: fresh keys are
   set one by one and the key that disappears each time is recorded.  Events of
   the concurrent leg (a linearisation found for a history of overlapping calls)
   carry only the results of the calls ("st" absent).                         *)
EXTENDS AgdCache

VARIABLE l
Trace == ndJsonDeserialize("trace.ndjson")
tvars == <<vars, l>>
E == Trace[l]

TraceInit == Init /\ l = 1
Has(f) == f \in DOMAIN E
Consume(e) == l <= Len(Trace) /\ E.ev = e /\ l' = l + 1

Observed ==
    IF ~Has("st") THEN TRUE
    ELSE /\ \A c \in Caches : /\ E.st[c].noorder \/ order'[c] = E.st[c].order
                              /\ ToSet(order'[c]) = ToSet(E.st[c].keys)
                              /\ val'[c] = E.st[c].vals
                              /\ E.st[c].len = Len(order'[c])
         /\ reg' = E.reg
         /\ {E.ids[j] : j \in 1..Len(E.ids)} = {i \in Ids : reg'[i] # None}

TraceReset == /\ Consume("Reset")
              /\ E.cap1 = Cap1 /\ E.cap2 = Cap2
              /\ order' = [c \in Caches |-> <<>>]
              /\ val' = [c \in Caches |-> NoVals]
              /\ reg' = [i \in Ids |-> None] /\ stale' = [i \in Ids |-> None]
              /\ latest' = [c \in Caches |-> NoVals]
              /\ status' = [c \in Caches |-> [k \in Keys |-> "never"]]
              /\ stamp' = [c \in Caches |-> [k \in Keys |-> 0]]
              /\ res' = NoRes /\ nops' = 0 /\ hist' = <<>>

TraceSet == Consume("Set") /\ Set(E.c, E.k, E.v, E.exp) /\ Observed
TraceGet == Consume("Get") /\ Get(E.c, E.k) /\ Observed /\ res'.ok = E.ok /\ res'.v = E.got
TraceLen == Consume("Len") /\ LenCall(E.c) /\ Observed /\ res'.n = E.n
TraceClear == Consume("Clear") /\ Clear(E.c) /\ Observed
TraceAdd == Consume("Add") /\ Add(E.id, E.c) /\ Observed
TraceClearByID == Consume("ClearByID") /\ ClearByID(E.id) /\ Observed
\* the order in which fresh keys push the old ones out is the reverse of the
\* recency order; the harness clears the cache afterwards
TraceDrain == /\ Consume("Drain")
              /\ E.evicted = Rev(order[E.c])
              /\ Clear(E.c) /\ Observed

TraceNext == \/ TraceReset \/ TraceSet \/ TraceGet \/ TraceLen \/ TraceClear
             \/ TraceAdd \/ TraceClearByID \/ TraceDrain
TraceSpec == TraceInit /\ [][TraceNext]_tvars

\* (a Reset starts a new object: not a loss)
TraceLossOnlyByEvictOrClear == [][res'.op = "none" \/ LossStep]_tvars

TraceAccepted ==
    LET d == TLCGet("stats").diameter IN
    IF d - 1 = Len(Trace) THEN TRUE ELSE Print(<<"STUCK", d, Len(Trace)>>, FALSE)
=============================================================================
