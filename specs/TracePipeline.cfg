SPECIFICATION TraceSpec
CONSTANTS
  K = 1
  N = 1
INVARIANT TraceBound
POSTCONDITION TraceAccepted
CHECK_DEADLOCK FALSE
