--------------------------- MODULE TraceFiltering ---------------------------
(* C02: per-line validation of what the real filtering code did.

   Every line of trace.ndjson is one query:
     h     "flt"   the filter.Interface returned by a REAL filterstorage.Default
                   (ForConfig with the client configuration of the vector):
                   results of FilterRequest and FilterResponse
           "full"  the REAL ratelimitmw + mainmw around the same kind of
                   storage, a scripted upstream and a recording query log:
                   the verdicts the middleware acted on and the written message
     v     the abstract verdict vector (Filtering!Vec)
     mode, qt, ups  the shape vector (blocking mode, qtype, upstream class)
     conc  the concrete input: host, rule texts per slot, configured list
           order, $dnsrewrite values, replacement hosts, profile TTL, custom
           block addresses, ... (replay information, and the concrete values
           the observation is compared with)
     req, resp  observed verdicts: type none|blocked|allowed|modresp|modreq,
           list id, slot of that list (src), rule text, rcode, value
     msg   the written message: rcode, answer records (type, owner, value,
           TTL), AdGuard SOA present / its TTL, marker (records obtained from
           upstream appear), sameups (equals the upstream message), restups

   A line that does not conform is reported with PrintT(<<"NONCONF", l, r>>)
   and does not stop the run. *)
EXTENDS Filtering, Json

VARIABLE l
Trace == ndJsonDeserialize("trace.ndjson")
tvars == <<vars, l>>

ToSet(a) == {a[i] : i \in 1..Len(a)}
If(c, s) == IF c THEN {s} ELSE {}

RuleSlotSet == {"custom", "rl1", "rl2", "svc"}
RwSlotSet   == {"custom", "rl1", "rl2"}
SafetySet   == {"dangerous", "adult", "ssgen", "ssyt", "newreg"}

VecOf(e) == Vec(e.v.c, e.v.r1, e.v.r2, e.v.s, [k \in 1..5 |-> e.v.sf[k]], e.v.rc, e.v.rr, e.v.pen, e.v.den)
WellFormed(e) ==
    /\ e.v.c \in RuleClasses /\ e.v.r1 \in RuleClasses /\ e.v.r2 \in RuleClasses /\ e.v.s \in SvcClasses
    /\ Len(e.v.sf) = 5 /\ \A k \in 1..5 : e.v.sf[k] \in SafetyStates
    /\ e.v.rc \in RespClasses /\ e.v.rr \in RespClasses
    /\ e.mode \in Modes /\ e.qt \in QTypes /\ e.ups \in UpsCls /\ e.h \in {"flt", "full"}

SlotRules(e, src) ==
    CASE src = "custom" -> e.conc.rules.custom [] src = "rl1" -> e.conc.rules.rl1
      [] src = "rl2" -> e.conc.rules.rl2 [] src = "svc" -> e.conc.rules.svc
RSlotRules(e, src) == IF src = "custom" THEN e.conc.rrules.custom ELSE e.conc.rrules.rl1
RwVal(e, src) == CASE src = "custom" -> e.conc.rwv.custom [] src = "rl1" -> e.conc.rwv.rl1 [] src = "rl2" -> e.conc.rwv.rl2
RwFam(e, src) == CASE src = "custom" -> e.conc.rwfam.custom [] src = "rl1" -> e.conc.rwfam.rl1 [] src = "rl2" -> e.conc.rwfam.rl2
ReplOf(e, n) ==
    CASE n = "dangerous" -> e.conc.repl.dangerous [] n = "adult" -> e.conc.repl.adult
      [] n = "ssgen" -> e.conc.repl.ssgen [] n = "ssyt" -> e.conc.repl.ssyt [] n = "newreg" -> e.conc.repl.newreg
FamMatch(e, src) == (e.qt = "A" /\ RwFam(e, src) = "4") \/ (e.qt = "AAAA" /\ RwFam(e, src) = "6")

\* abstraction of an observed result to a decision of Filtering
ObsKind(o) ==
    CASE o.type = "none" -> "none" [] o.type = "blocked" -> "blocked" [] o.type = "allowed" -> "allowed"
      [] o.type = "modresp" -> (IF o.rcode = 0 THEN "rw_ip" ELSE "rw_rcode")
      [] o.type = "modreq" -> (IF o.src \in SafetySet THEN "safety" ELSE "rw_cname")
      [] OTHER -> "error"
ObsD(o) == [kind |-> ObsKind(o), src |-> o.src]
RcodeStr(n) == CASE n = 0 -> "0" [] n = 1 -> "1" [] n = 2 -> "2" [] n = 3 -> "3" [] n = 4 -> "4" [] n = 5 -> "5" [] OTHER -> "?"

\* the concrete details of a request verdict
ReqDetail(e, o) ==
    LET k == ObsKind(o) IN
    If(k \in {"blocked", "allowed"} /\ o.src \in RuleSlotSet /\ o.rule \notin ToSet(SlotRules(e, o.src)),
       "the reported rule text is not a rule of the reported source for this host")
    \cup If(k = "rw_ip" /\ o.src \in RwSlotSet /\ o.val # (IF FamMatch(e, o.src) THEN RwVal(e, o.src) ELSE ""),
            "the rewritten answer is not the address of the deciding $dnsrewrite rule")
    \cup If(k = "rw_ip" /\ o.nans > 0 /\ o.attl # e.conc.ttl, "the rewritten answer does not carry the profile's TTL")
    \cup If(k = "rw_rcode" /\ o.src \in RwSlotSet /\ (o.val # RwVal(e, o.src) \/ o.nans # 0),
            "the rewritten response is not the rcode of the deciding $dnsrewrite rule")
    \cup If(k = "rw_cname" /\ o.src \in RwSlotSet /\ o.val # RwVal(e, o.src),
            "the rewritten question is not the CNAME target of the deciding $dnsrewrite rule")
    \cup If(k = "safety" /\ o.val # ReplOf(e, o.src), "the safety filter did not redirect to its replacement host")
    \cup If(k \in {"rw_ip", "rw_rcode"} /\ o.qname2 # e.conc.qname, "the synthesised response answers another question")

ReqReasons(e, x, d) ==
    If(d \notin ReqContract(x), "request verdict is not the documented one")
    \cup If(~RewriteWinsOutrightP(x, d), "RewriteWinsOutright")
    \cup If(~AllowBeatsBlockP(x, d), "AllowBeatsBlock")
    \cup If(~BlockBlocksP(x, d), "BlockBlocks")
    \cup If(~SafetyOrderP(x, d), "SafetyOrder")
    \cup If(~CustomAllowSkipsSafetyP(x, d), "CustomAllowSkipsSafety")
    \cup If(~NothingFromNothingP(x, d), "verdict attributed to a source that has no such rule")
    \* `ctie`: the profile's own allow rule is at least as specific (number of modifiers) as every
    \* shared allow rule for the name; then it is the deciding one ("custom rules first", the
    \* documented order of composite.Filter) and the safety filters must not apply
    \cup If(e.ctie /\ Enabled(x) /\ RewriteSlots(x) = {} /\ d # D("allowed", 1),
            "the profile's own allow rule ties with (or outranks) the shared allow rules but did not decide")
    \cup ReqDetail(e, e.req)

RespReasons(e, x, r) ==
    If(r \notin RespContract(x), "response verdict is not the documented one")
    \cup If(~RespAllowBeatsBlockP(x, r), "AllowBeatsBlock (response)")
    \cup If(r.kind \in {"blocked", "allowed"} /\ r.src \in {"custom", "rl1"} /\ e.resp.rule \notin ToSet(RSlotRules(e, r.src)),
            "the reported response rule text is not a rule of the reported source")

-----------------------------------------------------------------------------
\* the written message
Msg(e) == e.msg
AnsVals(e) == {Msg(e).ans[i].v : i \in 1..Len(Msg(e).ans)}
AllAns(e, P(_)) == \A i \in 1..Len(Msg(e).ans) : P(Msg(e).ans[i])
CustomIPs(e) == IF e.qt = "A" THEN e.conc.cip4 ELSE IF e.qt = "AAAA" THEN e.conc.cip6 ELSE <<>>

\* the redirect target of a request decision
TargetOf(e, d) == IF d.kind = "safety" THEN ReplOf(e, d.src)
                  ELSE IF d.src \in RwSlotSet THEN RwVal(e, d.src) ELSE "?"

ObsAns(e, d) ==
    LET m == Msg(e) IN
    IF m.sameups THEN "upstream"
    ELSE IF Len(m.ans) = 0 THEN "empty"
    ELSE IF e.conc.nullip # "" /\ Len(m.ans) = 1 /\ m.ans[1].v = e.conc.nullip /\ m.ans[1].t = e.qt THEN "null_ip"
    ELSE IF Len(CustomIPs(e)) > 0 /\ AnsVals(e) = ToSet(CustomIPs(e)) /\ Len(m.ans) = Len(CustomIPs(e))
            /\ AllAns(e, LAMBDA a : a.t = e.qt) THEN "custom_ip"
    ELSE IF m.ans[1].t = "CNAME" /\ m.restups /\ m.ans[1].v = TargetOf(e, d) /\ m.upsq = m.ans[1].v \o "." THEN "cname_then_upstream"
    ELSE IF d.kind = "rw_ip" /\ d.src \in RwSlotSet /\ Len(m.ans) = 1 /\ m.ans[1].v = RwVal(e, d.src) /\ m.ans[1].t = e.qt
         THEN "rewrite_ip"
    ELSE "other"
ObsRcode(e, d) ==
    LET m == Msg(e) IN
    CASE m.rcode = 0 -> "NOERROR" [] m.rcode = 3 -> "NXDOMAIN" [] m.rcode = 5 -> "REFUSED" [] OTHER -> "other"
\* TTL source of the synthesised records (for a redirect: of the CNAME)
ObsTTL(e, a) ==
    LET m == Msg(e)
        ttls == (IF a = "cname_then_upstream" THEN {m.ans[1].ttl}
                 ELSE IF a \in {"null_ip", "custom_ip", "rewrite_ip", "other"} THEN {m.ans[i].ttl : i \in 1..Len(m.ans)}
                 ELSE {})
                \cup (IF m.soa THEN {m.soattl} ELSE {})
    IN IF a = "upstream" THEN "upstream"
       ELSE IF ttls \subseteq {e.conc.ttl} THEN "profile"
       ELSE IF ttls \subseteq {e.conc.defttl} THEN "default"
       ELSE IF ttls \subseteq {e.conc.upsttl} THEN "upstream" ELSE "other"
ObsShape(e, d) ==
    LET a == ObsAns(e, d) IN
    [rcode |-> ObsRcode(e, d), ans |-> a, ttl |-> ObsTTL(e, a), soa |-> IF Msg(e).soa THEN "required" ELSE "any",
     upsdata |-> Msg(e).marker]

ShapeVecOf(e, d, fk) ==
    [fk |-> IF fk = "rw_ip" THEN (IF d.src \in RwSlotSet /\ RwFam(e, d.src) = "6" THEN "rw_ip6" ELSE "rw_ip4") ELSE fk,
     mode |-> e.mode, qt |-> e.qt, ups |-> e.ups]

ShapeReasons(e, d, fk) ==
    LET s == ShapeVecOf(e, d, fk)
        exp == ShapeContract(s)
        o == ObsShape(e, d)
        m == Msg(e)
    IN
    If(~m.written, "no message was written")
    \cup If(m.written /\ (~m.idok \/ m.qname # e.conc.qname), "the written message does not answer the request's question")
    \cup If(exp.rcode \in {"NOERROR", "NXDOMAIN", "REFUSED"} /\ o.rcode # exp.rcode, "rcode differs from the documented shape")
    \cup If(exp.rcode = "upstream" /\ m.rcode # m.upsrcode, "rcode differs from upstream's")
    \cup If(exp.rcode = "rewrite" /\ (d.src \notin RwSlotSet \/ RcodeStr(m.rcode) # RwVal(e, d.src)),
            "rcode is not the one of the $dnsrewrite rule")
    \cup If(o.ans # exp.ans, "answer section differs from the documented shape")
    \cup If(exp.ttl = "profile" /\ o.ttl # "profile", "synthesised records do not carry the profile's TTL")
    \cup If(exp.soa = "required" /\ o.soa # "required", "negative answer without the SOA for negative caching")
    \cup If(~exp.upsdata /\ o.upsdata, "records obtained from upstream in a synthesised answer")
    \cup If(~ShapeFollowsModeP(s, o), "ShapeFollowsMode")
    \cup If(~TTLIsProfilesP(s, o), "TTLIsProfiles")
    \cup If(~NoUpstreamDataWhenBlockedP(s, o), "NoUpstreamDataWhenBlocked")

Reasons(e) ==
    IF ~WellFormed(e) THEN {"malformed line"}
    ELSE LET x == VecOf(e)
             d == ObsD(e.req)
             r == ObsD(e.resp)
         IN IF d.kind = "error" \/ r.kind = "error" THEN {"the filter returned an error or an unknown result"}
            ELSE IF e.h = "flt"
            THEN ReqReasons(e, x, d) \cup RespReasons(e, x, r)
            ELSE LET fk == IF r.kind \in {"none", "blocked", "allowed"} THEN Effect(d, r) ELSE "pass"
                     respOnly == IF r.kind = "blocked" THEN "blocked" ELSE "pass"
                     shape == ShapeReasons(e, d, fk)
                 IN ReqReasons(e, x, d)
                    \* the response is not filtered after a redirect (the answer is for another name)
                    \cup (IF d.kind \in {"rw_cname", "safety"} /\ r.kind = "none" THEN {} ELSE RespReasons(e, x, r))
                    \cup If(~Enabled(x) /\ (d # NoneD \/ r # NoneD), "DisabledMeansUnfiltered")
                    \cup If(~Enabled(x) /\ shape # {}, "DisabledMeansUnfiltered (answer is not upstream's)")
                    \cup If(d.kind # "none" /\ shape # {} /\ respOnly # fk /\ ShapeReasons(e, d, respOnly) = {},
                            "RequestBeatsResponse")
                    \cup shape

TraceInit == v = DummyV /\ sv = DummyS /\ l = 1
TraceNext == /\ l <= Len(Trace) /\ l' = l + 1 /\ UNCHANGED vars
             /\ LET r == Reasons(Trace[l]) IN IF r = {} THEN TRUE ELSE PrintT(<<"NONCONF", l, r>>)
TraceSpec == TraceInit /\ [][TraceNext]_tvars
TraceAccepted == LET d == TLCGet("stats").diameter IN
    IF d - 1 = Len(Trace) THEN TRUE ELSE PrintT(<<"STUCK", d, Len(Trace)>>) /\ FALSE
=============================================================================
