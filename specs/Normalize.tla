------------------------------ MODULE Normalize ------------------------------
(* C08.  Response normalisation of internal/dnsserver (normalize.go,
   tcpResponseWriter.addTCPKeepAlive, packWithPrefix) as a decision over
   (transport, request EDNS, configured maximum, handler response).

   Sizes are integers.  In the exhaustive configs they are abstract units
   (MIN = 4 stands for 512 bytes, MAX = 12 for 65535): the header with the
   question is one unit, every record is one unit, the OPT record is one unit
   and the padding and keep-alive options are one unit each.  In the trace
   spec the same operators are instantiated with MIN = 512, MAX = 65535 and
   applied to measured byte counts.

   The contract (Limit and the clause operators C_Len, C_Trunc, ...) is written from the
   property statement:
     UDP (plain or DNSCrypt): on the wire <= max(512, min(advertised, configured))
     stream transports:       on the wire <= 65535
     records dropped          => TC set and answer section empty
     query with OPT           => reply with OPT, the client's UDP size, version 0
     padding                  only on encrypted transports, only when asked
     TCP keep-alive           only to a client that sent it
   Impl is the implementation-shaped normalisation (the order of the steps of
   normalize.go and tcpResponseWriter.WriteMsg); Defects selects known or
   seeded deviations; Defects = {} is the repaired code.                      *)
EXTENDS Integers, FiniteSets, TLC

CONSTANTS MIN,        \* smallest UDP limit (512)
          MAX,        \* largest message (65535)
          ReqSizes,   \* advertised EDNS sizes that are enumerated
          CfgMaxes,   \* configured maxima of the plain-DNS server that are enumerated
          MaxAn, MaxNs, MaxEx,   \* records per section of the handler response
          Defects     \* subset of DefectNames

DefectNames == {"optsize0",   \* OPT added by normalize carries size 0 and no DO (pinned tree)
                "padafter",   \* padding appended after truncation (pinned tree)
                "kaafter",    \* keep-alive appended after truncation (pinned tree)
                "ignorecfg",  \* UDP limit ignores the configured maximum
                "keepanswer", \* TC set but the answer section kept
                "kaalways",   \* keep-alive returned to clients that did not send it
                "padplain",   \* padding on plain TCP
                "dcpartial"}  \* DNSCrypt/TCP: only the library truncates near MAX and keeps a partial answer (pinned tree)

Min2(a, b) == IF a < b THEN a ELSE b
Max2(a, b) == IF a > b THEN a ELSE b

Protos == {"dns-udp", "dns-tcp", "dot", "doh", "doq", "dnscrypt-udp", "dnscrypt-tcp"}
Udp(p) == p \in {"dns-udp", "dnscrypt-udp"}
StdEnc(p) == p \in {"dot", "doh", "doq"}                 \* RFC 7858 / 8484 / 9250
Encrypted(p) == StdEnc(p) \/ p \in {"dnscrypt-udp", "dnscrypt-tcp"}
KAProto(p) == p \in {"dns-tcp", "dot"}                   \* RFC 7828: DNS over TCP and TLS
\* Only the plain DNS server has a configured maximum (ConfigDNS.MaxUDPRespSize);
\* ConfigDNSCrypt has none, i.e. its configured maximum is MAX.
HasCfg(p) == p = "dns-udp"
DNSCrypt(p) == p \in {"dnscrypt-udp", "dnscrypt-tcp"}
\* The DNSCrypt library keeps DCReserve bytes (64) of the transport's limit for
\* its encryption header when it truncates, so a DNSCrypt reply may be
\* truncated although it is up to DCReserve below the limit (in the traces the
\* harness passes this as the field slack: 64 over UDP, 65 over TCP, where a
\* message of exactly MAX - 64 bytes no longer fits a frame once encrypted).
DCReserve == IF MIN >= 512 THEN 64 ELSE 1

-----------------------------------------------------------------------------
\* The contract.  sz is the advertised size (0 when the query has no OPT).
Limit(p, sz, cfg) == IF Udp(p) THEN Max2(MIN, Min2(sz, cfg)) ELSE MAX

(* An observation o (abstract or measured) has the fields
     p, qopt, qsize, qdo, qpad, qka, cfg          request and configuration
     hrec, htc, hdo                               handler response: records (without OPT), TC, OPT with DO
     full        wire length the reply would have with every handler record and
                 the OPT/options the reply actually carries
     slack       bytes below the limit that the transport may keep free
     sent, wire  the handler's reply (possibly truncated) was written; its packed length
     tc, an, rec TC bit, answer count, records kept in all sections (without OPT)
     opt, osize, over, odo, pad, ka               OPT of the reply                  *)
OLimit(o) == Limit(o.p, IF o.qopt THEN o.qsize ELSE 0, o.cfg)

C_Replied(o) == o.sent
C_Len(o) == o.sent => o.wire <= OLimit(o)
C_Trunc(o) == o.sent => /\ o.tc => o.an = 0
                        /\ o.rec <= o.hrec
                        /\ o.rec < o.hrec => o.tc
                        /\ o.htc => o.tc
\* records are dropped only when needed
C_NoNeedless(o) == (o.sent /\ ~o.htc /\ o.full <= OLimit(o) - o.slack) => (o.rec = o.hrec /\ ~o.tc)
C_OPT(o) == (o.sent /\ o.qopt) => /\ o.opt
                                  /\ o.osize = o.qsize
                                  /\ o.over = 0
                                  /\ o.qdo => o.odo
                                  /\ (~o.qdo /\ ~o.hdo) => ~o.odo
C_Pad(o) == o.sent => /\ o.pad => (Encrypted(o.p) /\ o.qopt /\ o.qpad)
                      /\ (StdEnc(o.p) /\ o.qopt /\ o.qpad) => o.pad
C_KA(o) == o.sent => /\ o.ka => (KAProto(o.p) /\ o.qopt /\ o.qka)
                     /\ (KAProto(o.p) /\ o.qopt /\ o.qka) => o.ka

Reasons(o) ==
    (IF C_Replied(o) THEN {} ELSE {"no reply to a valid handler response"})
    \cup (IF C_Len(o) THEN {} ELSE {"reply larger than the transport's limit"})
    \cup (IF C_Trunc(o) THEN {} ELSE {"records dropped without TC, or TC with a non-empty answer section"})
    \cup (IF C_NoNeedless(o) THEN {} ELSE {"records dropped although the complete reply fits"})
    \cup (IF C_OPT(o) THEN {} ELSE {"query OPT not echoed with the client's size, version 0 and DO"})
    \cup (IF C_Pad(o) THEN {} ELSE {"padding not exactly when asked on an encrypted transport"})
    \cup (IF C_KA(o) THEN {} ELSE {"keep-alive not exactly when asked on TCP/DoT"})

-----------------------------------------------------------------------------
\* The implementation-shaped normalisation.
\* request q: [opt, size, do, pad, ka, nsid]; handler h: [an, ns, ex, opt, tc]
\* with h.opt \in {"none", "v0", "v1do"} (no OPT, a clean OPT, an OPT with
\* version 1 and DO set).
D(x) == x \in Defects

MaxDNSSize(p, sz, cfg) ==
    IF ~Udp(p) THEN MAX
    ELSE IF D("ignorecfg") THEN Max2(sz, MIN) ELSE Max2(Min2(sz, cfg), MIN)

\* dns.Msg.Truncate followed by "drop the answers of a truncated message":
\* fixed = units that are always kept besides the header (the OPT record with
\* its options); keep = the answers of a truncated message are NOT dropped.
TruncK(h, fixed, limit, keep) ==
    LET B  == Max2(limit - 1 - fixed, 0)
        fits == h.an + h.ns + h.ex <= B
        ka == Min2(h.an, B)
        kn == IF ka = h.an THEN Min2(h.ns, B - ka) ELSE 0
        ke == IF ka = h.an /\ kn = h.ns THEN Min2(h.ex, B - ka - kn) ELSE 0
        tc == h.tc \/ ~fits
    IN [tc |-> tc,
        an |-> IF fits THEN (IF tc /\ ~keep THEN 0 ELSE h.an)
               ELSE (IF keep THEN ka ELSE 0),
        ns |-> IF fits THEN h.ns ELSE kn,
        ex |-> IF fits THEN h.ex ELSE ke]
\* truncate() of normalize.go
Trunc(h, fixed, limit) == TruncK(h, fixed, limit, D("keepanswer"))
\* normalize() of the DNSCrypt library, applied to what the server hands to it:
\* limit minus the reserve; only over UDP it empties the answer section.
LibTrunc(p, t, fixed, limit) ==
    IF DNSCrypt(p) THEN TruncK(t, fixed, limit - DCReserve, p = "dnscrypt-tcp") ELSE t

B2N(b) == IF b THEN 1 ELSE 0

Impl(p, q, cfg, h) ==
    IF ~q.opt
    THEN \* the handler's reply is truncated as it is (its own OPT, if any, stays)
         LET lim == MaxDNSSize(p, 0, cfg)
             own == IF p = "dnscrypt-tcp" /\ ~D("dcpartial") THEN lim - DCReserve ELSE lim
             t   == LibTrunc(p, Trunc(h, B2N(h.opt # "none"), own), B2N(h.opt # "none"), lim) IN
         [sent |-> TRUE, tc |-> t.tc, an |-> t.an, ns |-> t.ns, ex |-> t.ex,
          opt |-> h.opt # "none", osize |-> IF h.opt = "none" THEN 0 ELSE MAX,
          over |-> IF h.opt = "v1do" THEN 1 ELSE 0, odo |-> h.opt = "v1do",
          pad |-> FALSE, ka |-> FALSE, nsid |-> FALSE]
    ELSE LET added == h.opt = "none"
             osize == IF added /\ D("optsize0") THEN 0 ELSE q.size
             odo   == IF added THEN (IF D("optsize0") THEN FALSE ELSE q.do)
                      ELSE (q.do \/ h.opt = "v1do")
             pad   == q.pad /\ (StdEnc(p) \/ (D("padplain") /\ p = "dns-tcp"))
             ka    == KAProto(p) /\ (q.ka \/ D("kaalways"))
             lim   == MaxDNSSize(p, q.size, cfg)
             \* options that are already in the OPT when the message is truncated
             pre   == 1 + (IF D("padafter") THEN 0 ELSE B2N(pad)) + (IF D("kaafter") THEN 0 ELSE B2N(ka))
             \* repaired: the DNSCrypt/TCP writer truncates to the library's size itself
             own   == IF p = "dnscrypt-tcp" /\ ~D("dcpartial") THEN lim - DCReserve ELSE lim
             t     == LibTrunc(p, Trunc(h, pre, own), pre, lim)
             wire  == 1 + t.an + t.ns + t.ex + 1 + B2N(pad) + B2N(ka)
             \* packWithPrefix refuses more than MAX bytes (TCP, DoT, DoQ);
             \* DoH and UDP pack without that guard.
             sent  == wire <= MAX \/ p \in {"doh", "dns-udp", "dnscrypt-udp", "dnscrypt-tcp"}
         IN [sent |-> sent, tc |-> t.tc, an |-> t.an, ns |-> t.ns, ex |-> t.ex,
             opt |-> TRUE, osize |-> osize, over |-> 0, odo |-> odo,
             pad |-> pad, ka |-> ka, nsid |-> q.nsid /\ added]

Wire(r) == 1 + r.an + r.ns + r.ex + B2N(r.opt) + B2N(r.pad) + B2N(r.ka)

\* The observation that corresponds to an abstract vector and result.
Obs(p, q, cfg, h, r) ==
    [p |-> p, qopt |-> q.opt, qsize |-> q.size, qdo |-> q.do, qpad |-> q.pad, qka |-> q.ka, cfg |-> cfg,
     hrec |-> h.an + h.ns + h.ex, htc |-> h.tc, hdo |-> h.opt = "v1do",
     full |-> 1 + h.an + h.ns + h.ex + B2N(r.opt) + B2N(r.pad) + B2N(r.ka),
     slack |-> IF DNSCrypt(p) THEN DCReserve ELSE 0,
     sent |-> r.sent, wire |-> Wire(r), tc |-> r.tc, an |-> r.an, rec |-> r.an + r.ns + r.ex,
     opt |-> r.opt, osize |-> r.osize, over |-> r.over, odo |-> r.odo, pad |-> r.pad, ka |-> r.ka]

-----------------------------------------------------------------------------
\* Exhaustive enumeration of the abstract product: one state per vector.
VARIABLES p, q, cfg, h, ready
vars == <<p, q, cfg, h, ready>>

NoOpt == [opt |-> FALSE, size |-> 0, do |-> FALSE, pad |-> FALSE, ka |-> FALSE, nsid |-> FALSE]
Requests == {NoOpt} \cup [opt : {TRUE}, size : ReqSizes, do : BOOLEAN, pad : BOOLEAN, ka : BOOLEAN, nsid : BOOLEAN]
Handlers == [an : 0..MaxAn, ns : 0..MaxNs, ex : 0..MaxEx, opt : {"none", "v0", "v1do"}, tc : BOOLEAN]
NoHandler == [an |-> 0, ns |-> 0, ex |-> 0, opt |-> "none", tc |-> FALSE]

\* Two levels so that TLC's workers share the enumeration: an initial state per
\* (transport, configured maximum, request), a successor per handler response.
Init == /\ p \in Protos
        /\ q \in Requests
        /\ cfg \in (IF HasCfg(p) THEN CfgMaxes ELSE {MAX})
        /\ h = NoHandler
        /\ ready = FALSE
Next == /\ ~ready
        /\ ready' = TRUE
        /\ h' \in Handlers
        /\ UNCHANGED <<p, q, cfg>>
Spec == Init /\ [][Next]_vars

cur == Obs(p, q, cfg, h, Impl(p, q, cfg, h))

Replied == ready => C_Replied(cur)
WireLenWithinLimit == ready => C_Len(cur)
TruncatedMeansEmptyAnswerAndTC == ready => C_Trunc(cur)
DroppedOnlyWhenNeeded == ready => C_NoNeedless(cur)
OPTEchoed == ready => C_OPT(cur)
PaddingOnlyWhenAsked == ready => C_Pad(cur)
KeepAliveOnlyWhenAsked == ready => C_KA(cur)
\* the whole contract
Normalized == ready => Reasons(cur) = {}

\* the limit itself: never below MIN, never above MAX, monotone in both inputs
LimitSane == ready =>
             /\ Limit(p, q.size, cfg) >= (IF Udp(p) THEN MIN ELSE MAX)
             /\ Limit(p, q.size, cfg) <= MAX
             /\ Udp(p) => Limit(p, q.size, cfg) <= Max2(MIN, cfg)
             /\ Udp(p) => Limit(p, q.size, cfg) <= Max2(MIN, q.size)
=============================================================================
