SPECIFICATION Spec
CONSTANTS
  IntsValidated = TRUE
  PrefixBounded = TRUE
  EcsSizeChecked = FALSE
  MaxMut = 2
  TripleFields = {}
INVARIANTS AcceptedImpliesSafe
CHECK_DEADLOCK FALSE
