SPECIFICATION Spec
CONSTANTS
  Alphabet = {"a", "blogspot", "com", "co", "uk"}
  MaxLabels = 6
  IcannSuffix <- McIcann
  PrivateSuffix <- McPrivate
  ListIds = {"sb"}
  ListNames <- McListNames
  MaxList = 2
  Hosts <- Names
  QTypes = {"A", "AAAA", "HTTPS", "TXT", "MX"}
  PrefixStrs <- McPrefixStrs
  MaxStrs = 3
  H <- McH
  Variant = "ok"
  KeepHist = FALSE
VIEW view
INVARIANTS TypeOK MatchIffListed PrefixQueryExact MalformedRefused ResetIsTotal
CHECK_DEADLOCK FALSE
