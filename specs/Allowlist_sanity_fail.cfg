SPECIFICATION Spec
CONSTANTS
  KeepHist = FALSE
  U = {1, 2}
  Readers = {"r1"}
  MaxRefresh = 2
  MaxReads = 2
  ModesUsed = {"ok", "http500", "noaddr"}
  Defect = "fail_clears"
VIEW view
INVARIANTS FailedRefreshKeepsOld
CHECK_DEADLOCK FALSE
