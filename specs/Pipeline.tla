------------------------------ MODULE Pipeline ------------------------------
(* C18, pipeline part.  internal/dnsserver/serverdnstcp.go: one connection,
   the read loop reads a query, acquires the per-connection semaphore (size K
   when pipeline limiting is on), hands the query to the worker pool; the
   worker releases the semaphore when the handler has returned.

     Send(q)     the client writes query q on the connection
     Read(q)     the read loop took q off the wire (readTCPMsg)   -- in order
     Acquire(q)  msgSema.Acquire succeeded; the handler starts    -- only if < K active
     Exit(q)     the handler returned, response written, Release                *)
EXTENDS Naturals, FiniteSets, Sequences, TLC

CONSTANTS K, N           \* pipeline limit, number of queries in the burst
VARIABLES sent, rd, active, done
vars == <<sent, rd, active, done>>

Init == sent = 0 /\ rd = 0 /\ active = {} /\ done = {}
Send == sent < N /\ sent' = sent + 1 /\ UNCHANGED <<rd, active, done>>
\* Read and Acquire are one step of the loop from the point of view of the
\* handler: query rd+1 enters the handler only when a slot is free.
Enter(q) == /\ q = rd + 1 /\ q <= sent /\ Cardinality(active) < K
            /\ rd' = q /\ active' = active \cup {q} /\ UNCHANGED <<sent, done>>
Exit(q) == /\ q \in active /\ active' = active \ {q} /\ done' = done \cup {q} /\ UNCHANGED <<sent, rd>>
Next == Send \/ \E q \in 1..N : Enter(q) \/ Exit(q)
Spec == Init /\ [][Next]_vars /\ WF_vars(Next)

PipelineBound == Cardinality(active) <= K
EachOnce == active \cap done = {}
AllServed == <>(done = 1..N)
=============================================================================
