SPECIFICATION Spec
CONSTANTS
  KeepHist = FALSE
  Dev = {"d1", "d2"}
  Ref = {"r1"}
  MaxRecords = 6
  RemergeKeepsNewest = TRUE
  MaxRefreshes = 4
VIEW view
INVARIANTS TypeOK Conservation QuiescentConservation MetaBounded BatchMetaLatest PendingMetaLatestStrict
PROPERTY NoDoubleCount
CHECK_DEADLOCK FALSE
