--------------------------- MODULE TraceProfileDB ---------------------------
(* Trace validation for C14.  Events come from the real profiledb.Default
   (harness/internal/profiledb/c14_test.go).  The ghost backend and the model
   of the six maps are advanced by the spec's own actions; after every event
   the probes of all four look-ups over the whole key universe, taken from the
   real database, must equal the owner in the last synchronised backend data
   (LookupCorrect evaluated on the OBSERVATION), the harness's backend must
   equal the spec's ghost backend, and a restart must have restored every
   profile and device setting.                                               *)
EXTENDS ProfileDB

VARIABLE l
Trace == ndJsonDeserialize("trace.ndjson")
tvars == <<vars, l>>
E == Trace[l]
ToSet(a) == {a[j] : j \in 1..Len(a)}

Consume == l <= Len(Trace) /\ l' = l + 1
Is(e) == l <= Len(Trace) /\ E.ev = e

TReset == /\ Is("Reset") /\ Consume
          /\ tProf' = [p \in Prof |-> TProf0] /\ tDev' = [d \in Dev |-> TDev0] /\ dirty' = {}
          /\ seenProf' = [p \in Prof |-> NoProf] /\ seenDev' = [d \in Dev |-> NoDev] /\ seenOwner' = [d \in Dev |-> None] /\ quiet' = {}
          /\ profiles' = [p \in Prof |-> NoProf] /\ devices' = [d \in Dev |-> NoDev]
          /\ dev2prof' = [d \in Dev |-> None] /\ linked2dev' = [i \in Linked |-> None]
          /\ ded2dev' = [e \in Ded |-> None] /\ human2dev' = [k \in Human \X Prof |-> None]
          /\ pending' = {}
          /\ file' = [present |-> FALSE, prof |-> [p \in Prof |-> NoProf], dev |-> [d \in Dev |-> NoDev]]
          /\ nmut' = 0 /\ nsync' = 0 /\ hist' = <<>>

TGhost == /\ Consume
          /\ \/ Is("Attach") /\ Attach(E.d, E.p)
             \/ Is("Detach") /\ Detach(E.d)
             \/ Is("Move") /\ Move(E.d, E.p)
             \/ Is("MoveQuiet") /\ MoveQuiet(E.d, E.p)
             \/ Is("SetLinked") /\ SetLinked(E.d, E.k)
             \/ Is("SwapLinked") /\ SwapLinked(E.d, E.k)
             \/ Is("ToggleDed") /\ ToggleDed(E.d, E.k)
             \/ Is("SetHuman") /\ SetHuman(E.d, E.k)
             \/ Is("SetDeleted") /\ SetDeleted(E.p)
TSync == /\ Consume
         /\ \/ Is("FullSync") /\ Sync(TRUE)
            \/ Is("PartialSync") /\ Sync(FALSE)
            \/ Is("Restart") /\ Restart
\* look-ups: the model's pending set grows by what the code would spawn
TLook(S) == pending' = pending \cup S /\ UNCHANGED <<ghost, maps, file, nmut, nsync, hist>>
TLookup == /\ Consume
           /\ \/ Is("LookupDev") /\ TLook(ByDev(E.d).spawn)
              \/ Is("LookupLinked") /\ TLook(ByLinked(E.k).spawn)
              \/ Is("LookupDed") /\ TLook(ByDed(E.k).spawn)
              \/ Is("LookupHuman") /\ TLook(ByHuman(E.k, E.p).spawn)
TRunCleanup ==
    /\ Is("RunCleanup") /\ Consume
    /\ LET cs == {c \in pending : c.kind = E.d /\ c.key = E.k /\ c.p = E.p}
           st == {c \in cs : ~c.fresh} IN
       IF cs = {} THEN PrintT(<<"DRIFT", l, "clean-up not predicted by the model">>) /\ UNCHANGED vars
       ELSE RunCleanup(IF st # {} THEN CHOOSE c \in st : TRUE ELSE CHOOSE c \in cs : TRUE)

TraceInit == Init /\ l = 1
\* the real database asked its storage for another kind of sync (full / partial) than its own
\* sync times -- as written to, and restored from, the file cache -- call for
TDiverged == Is("Diverged") /\ Consume /\ UNCHANGED vars
TraceNext == TReset \/ TGhost \/ TSync \/ TLookup \/ TRunCleanup \/ TDiverged
TraceSpec == TraceInit /\ [][TraceNext]_tvars

-----------------------------------------------------------------------------
ResEq(obs, own) ==
    IF ~own.found THEN ~obs.found
    ELSE /\ obs.found /\ obs.p = own.p /\ obs.d = own.d
         /\ obs.deleted = own.prec.deleted /\ ToSet(obs.devs) = own.prec.devs
         /\ obs.linked = own.drec.linked /\ ToSet(obs.ded) = own.drec.ded /\ obs.human = own.drec.human

O == Trace[l - 1]    \* the event whose post-state is the current state

\* C14 on the observation: every probe equals the owner in the last synced data
ProbesCorrect ==
    l > 1 =>
    /\ \A d \in Dev : ResEq(O.pdev[d], OwnerDev(d))
    /\ \A i \in Linked : ResEq(O.plinked[i], OwnerLinked(i))
    /\ \A x \in Ded : ResEq(O.pded[x], OwnerDed(x))
    /\ \A h \in Human, p \in Prof : ResEq(O.phuman[h \o "|" \o p], OwnerHuman(h, p))

\* "with every profile and device setting preserved"
RestorePreserves == /\ (l > 1 /\ O.ev = "Restart" => O.restore = "ok")
                    /\ (l > 1 => O.ev # "Diverged")       \* ... the sync times included

\* binding of the ghost: the harness's backend is the spec's backend
GhostAgrees ==
    l > 1 =>
    /\ \A p \in Prof : ToSet(O.tprof[p].devs) = tProf[p].devs /\ O.tprof[p].deleted = tProf[p].deleted
    /\ \A d \in Dev : /\ O.tdev[d].linked = tDev[d].linked /\ ToSet(O.tdev[d].ded) = tDev[d].ded
                      /\ O.tdev[d].human = tDev[d].human

\* binding of the implementation-shaped part (soft): the model predicts the
\* same look-up results and the same set of queued clean-ups as the code
ModelAgrees ==
    l > 1 =>
    /\ \A d \in Dev : ResEq(O.pdev[d], ByDev(d).r)
    /\ \A i \in Linked : ResEq(O.plinked[i], ByLinked(i).r)
    /\ {c.kind \o ":" \o c.key \o (IF c.kind = "human" THEN "|" \o c.p ELSE "") : c \in pending} = ToSet(O.pending)

TraceAccepted == LET d == TLCGet("stats").diameter IN
    IF d - 1 = Len(Trace) THEN TRUE ELSE PrintT(<<"STUCK", d, Len(Trace)>>) /\ FALSE
=============================================================================
