SPECIFICATION Spec
CONSTANTS
  KeepHist = FALSE
  U = {1, 2}
  Readers = {"r1"}
  MaxRefresh = 2
  MaxReads = 2
  ModesUsed = {"ok", "http500", "noaddr"}
  Defect = "none"
VIEW view
INVARIANTS TypeOK RefreshIsTotal FailedRefreshKeepsOld ModeOutcome PersistentKept VersionsExact ReadersSeeOldOrNew PersistentAlwaysAllowed
CHECK_DEADLOCK FALSE
