---------------------------- MODULE TraceConfig ----------------------------
(* Per-line validation of the C20 recorder (harness/internal/cmd/c20_test.go).
   Each line is one rendered configuration:
     mut       sequence of [f |-> field, c |-> class, v |-> concrete YAML value]
     accepted  parseConfig, configuration.validate and
               environment.validateFromValidConfig all returned nil
     stage     "parse" / "validate" / "env" / "accepted"
     crashed   one of them panicked
     err       the error text
     named     the mutated fields the error text names (property name, or the
               line number for YAML type errors)
     unsafe    for an accepted configuration: the panics / unserviceable
               limits observed while the real conversions and constructors
               were exercised with representative queries
   The property clauses are asserted directly on the observation; the class
   vector is judged by Doc of module Config.  A non-conforming line does not
   block the trace (NONCONF), a line the model cannot interpret is BADLINE. *)
EXTENDS Config, Json

VARIABLE l
Trace == ndJsonDeserialize("trace.ndjson")
tvars == <<vars, l>>

MutFields(e) == {e.mut[i].f : i \in 1..Len(e.mut)}
MutOf(e) == [f \in MutFields(e) |-> e.mut[CHOOSE i \in 1..Len(e.mut) : e.mut[i].f = f].c]

WellFormed(e) ==
    /\ MutFields(e) \subseteq FieldNames
    /\ Cardinality(MutFields(e)) = Len(e.mut)
    /\ \A i \in 1..Len(e.mut) : e.mut[i].c \in Classes(e.mut[i].f)

Reasons(e) ==
    LET v == Vec(MutOf(e)) IN
    IF e.accepted
    THEN (IF Len(e.unsafe) = 0 THEN {} ELSE {<<"unsafe", "">>})
         \cup {<<"forbidden", k>> : k \in DocFailing(v)}
    ELSE (IF e.crashed THEN {<<"crash", "">>} ELSE {})
         \cup (IF ~e.crashed /\ Len(e.named) = 0 THEN {<<"unnamed", "">>} ELSE {})

Cells == UNION {{<<f, c>> : c \in Classes(f)} : f \in FieldNames}
TraceInit == m = <<>> /\ last = 0 /\ l = 1 /\ PrintT(<<"CELLS", Cardinality(Cells)>>)
TraceNext ==
    /\ l <= Len(Trace) /\ l' = l + 1 /\ UNCHANGED vars
    /\ LET e == Trace[l] IN
       IF e.section # ""
       THEN \* a whole section of the example null or removed: any verdict, but a verdict
            LET r == (IF e.crashed THEN {<<"crash", "section">>} ELSE {})
                     \cup (IF ~e.accepted /\ ~e.crashed /\ Len(e.named) = 0 THEN {<<"unnamed", "section">>} ELSE {})
            IN IF r = {} THEN TRUE ELSE PrintT(<<"NONCONF", l, r>>)
       ELSE IF ~WellFormed(e) THEN PrintT(<<"BADLINE", l>>)
       ELSE LET r == Reasons(e) v == Vec(MutOf(e)) IN
            /\ IF r = {} THEN TRUE ELSE PrintT(<<"NONCONF", l, r>>)
            \* informational: stricter than documented / model expected a failure
            /\ IF ~e.accepted /\ ~e.crashed /\ Validate(v) THEN PrintT(<<"STRICT", l>>) ELSE TRUE
            /\ IF e.accepted /\ Len(e.unsafe) = 0 /\ Unsafe(v) # {} THEN PrintT(<<"MISSED", l, Unsafe(v)>>) ELSE TRUE
TraceSpec == TraceInit /\ [][TraceNext]_tvars
TraceAccepted == LET d == TLCGet("stats").diameter IN
    IF d - 1 = Len(Trace) THEN TRUE ELSE PrintT(<<"STUCK", d, Len(Trace)>>) /\ FALSE
=============================================================================
