SPECIFICATION TraceSpec
CONSTANTS
  Defect = "none"
POSTCONDITION TraceAccepted
CHECK_DEADLOCK FALSE
