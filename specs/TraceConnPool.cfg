SPECIFICATION TraceSpec
CONSTANTS
  Callers = {"a", "b"}
  MaxConn = 24
  CapSet = {1}
  TmoSet = {1}
  MaxTime = 1000000
  MaxOps = 1000000
  Defect = "none"
  KeepHist = FALSE
INVARIANTS TypeOK Ledger QueuedAreMade NoDoubleHandout NoClosedHandout NoExpiredHandout StampOnGet CapacityBound CloseOnce ClosedForGood ClosedMeansErrClosed
POSTCONDITION TraceAccepted
CHECK_DEADLOCK FALSE
