------------------------------ MODULE Initial ------------------------------
(* Extension (not one of the listed properties): the request pipeline of
   dnssvc.NewHandlers and the special-domain decisions of the initial
   middleware (internal/dnssvc/internal/initial), the pre-service stage
   (dnscheck, safe-browsing TXT hash queries) and the pre-upstream stage
   (Android metric names, DNSDB).

   A request is abstracted to
     qclass  IN | CH                 qtype  A | AAAA | SVCB | TXT | OTHER
     host    normal | ddr (_dns.resolver.arpa) | ddrpub (_dns.<public target>)
             | ddrdev (_dns.<device id>.<device target>) | ddrforeign (_dns.<other id>.<device target>)
             | arpa (any other name under resolver.arpa)
             | relay (mask.icloud.com ...) | chrome | firefox | android | check | sbtxt | blocked
     dev     none | ok | dohonly | authfail          (device recognition result)
     ddrOn, pRelay/pChrome/pFirefox (profile's switches), gRelay/gChrome/gFirefox (filtering group's)
   Decide yields the stage that answers, the rcode class, the kind of answer
   and the set of pipeline effects.  Written from doc/ (DDR, special domains)
   and the doc comments of the handlers.                                      *)
EXTENDS Naturals, FiniteSets, TLC

QClasses == {"IN", "CH"}
QTypes == {"A", "AAAA", "SVCB", "TXT", "OTHER"}
Hosts == {"normal", "ddr", "ddrpub", "ddrdev", "ddrforeign", "arpa", "relay", "chrome", "firefox", "android", "check", "sbtxt", "blocked"}
Devs == {"none", "ok", "dohonly", "authfail"}

HasProfile(v) == v.dev \in {"ok", "dohonly"}
Switch(v, p, g) == IF HasProfile(v) THEN p ELSE g

IsDDR(v) == v.qtype = "SVCB" /\ (v.host \in {"ddr", "ddrpub"} \/ (v.host = "ddrdev" /\ HasProfile(v)))
UnderARPA(v) == v.host \in {"ddr", "arpa"}

Local(stage, rcode, ans) == [stage |-> stage, rcode |-> rcode, ans |-> ans, eff |-> {"written"}]

Decide(v) ==
    IF v.qclass # "IN" THEN [stage |-> "main", rcode |-> "any", ans |-> "any", eff |-> {"written", "filtered"}]
    ELSE IF IsDDR(v) THEN
         IF ~v.ddrOn THEN Local("ddr", "NXDOMAIN", "empty")
         ELSE IF v.dev \in {"authfail", "dohonly"} THEN Local("ddr", "NOERROR", "empty")      \* no designation for DoH-only devices
         ELSE Local("ddr", "NOERROR", IF HasProfile(v) THEN "device-templates" ELSE "public-templates")
    ELSE IF UnderARPA(v) THEN Local("arpa", "NOERROR", "empty")
    ELSE IF v.qtype \in {"A", "AAAA"} /\ v.host = "relay" /\ Switch(v, v.pRelay, v.gRelay) THEN Local("relay", "NXDOMAIN", "empty")
    ELSE IF v.qtype \in {"A", "AAAA"} /\ v.host = "chrome" /\ Switch(v, v.pChrome, v.gChrome) THEN Local("chrome", "NXDOMAIN", "empty")
    ELSE IF v.qtype \in {"A", "AAAA"} /\ v.host = "firefox" /\ Switch(v, v.pFirefox, v.gFirefox) THEN Local("firefox", "REFUSED", "empty")
    ELSE IF v.qtype = "TXT" /\ v.host = "sbtxt" THEN [stage |-> "hashes", rcode |-> "NOERROR", ans |-> "txt", eff |-> {"written", "hashmatch"}]
    ELSE IF v.qtype # "TXT" /\ v.host = "check" THEN [stage |-> "check", rcode |-> "NOERROR", ans |-> "check", eff |-> {"written", "dnscheck"}]
    \* the main middleware resolves every request it sees (the response is filtered too, and
    \* recorded); a name blocked by the request filter is answered in the blocking mode's shape
    \* (null IP here: an address record for A/AAAA, NODATA otherwise); Android metric names are
    \* resolved under a replacement name and are not recorded in the DNS database
    ELSE LET pre == IF v.qtype = "TXT" THEN {"hashmatch"} ELSE {"dnscheck"} IN
         IF v.host = "blocked"
         THEN [stage |-> "main", rcode |-> "NOERROR", ans |-> IF v.qtype \in {"A", "AAAA"} THEN "blocked" ELSE "empty",
               eff |-> {"written", "filtered", "resolved", "dnsdb"} \cup pre]
         ELSE IF v.host = "android"
         THEN [stage |-> "upstream", rcode |-> "NOERROR", ans |-> "renamed", eff |-> {"written", "filtered", "resolved"} \cup pre]
         ELSE [stage |-> "upstream", rcode |-> "NOERROR", ans |-> "upstream", eff |-> {"written", "filtered", "resolved", "dnsdb"} \cup pre]

-----------------------------------------------------------------------------
VARIABLE v
Vectors == [qclass : QClasses, qtype : QTypes, host : Hosts, dev : Devs, ddrOn : BOOLEAN,
            pRelay : BOOLEAN, pChrome : BOOLEAN, pFirefox : BOOLEAN, gRelay : BOOLEAN, gChrome : BOOLEAN, gFirefox : BOOLEAN]
Init == v \in Vectors
Next == UNCHANGED v
Spec == Init /\ [][Next]_v

D == Decide(v)
\* a request answered by a special handler reaches no later stage
SpecialStopsPipeline == D.stage \in {"ddr", "arpa", "relay", "chrome", "firefox"} => D.eff = {"written"}
\* device-specific designations only for recognised devices that may use every protocol
DeviceTemplatesOnlyForDevices == D.ans = "device-templates" => v.dev = "ok" /\ v.ddrOn
NoDesignationForDoHOnly == D.stage = "ddr" /\ v.dev \in {"dohonly", "authfail"} => D.ans = "empty"
\* the profile's switch overrides the filtering group's
ProfileSwitchWins ==
    /\ (HasProfile(v) /\ v.host = "relay" /\ v.qtype \in {"A", "AAAA"} /\ v.qclass = "IN" => ((D.stage = "relay") <=> v.pRelay))
    /\ (HasProfile(v) /\ v.host = "firefox" /\ v.qtype \in {"A", "AAAA"} /\ v.qclass = "IN" => ((D.stage = "firefox") <=> v.pFirefox))
\* nothing under resolver.arpa is ever forwarded
ARPANeverForwarded == v.qclass = "IN" /\ v.host \in {"ddr", "arpa"} => "resolved" \notin D.eff
\* special handling is for class IN only
OnlyINIsSpecial == v.qclass # "IN" => D.stage = "main"
=============================================================================
