SPECIFICATION TraceSpec
CONSTANTS
  Part = "trace"
  Variant = "correct"
POSTCONDITION TraceAccepted
CHECK_DEADLOCK FALSE
