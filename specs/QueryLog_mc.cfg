SPECIFICATION Spec
CONSTANTS
  Defect = "none"
INVARIANTS LoggedIff BilledIff IPIffIPLog EntryDescribesOwnRequest BillDescribesOwnRequest NothingForDropped NeverAnonymous
