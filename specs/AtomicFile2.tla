---------------------------- MODULE AtomicFile2 ----------------------------
(* C13, the on-disk clause with TWO replacements of one cache file in flight
   at once (the periodic refresh worker and a refresh asked for through the
   debug API are serialised by nothing).  Files are inodes; names point to
   inodes.  A writer creates its temporary file, writes its version in two
   chunks, and renames the temporary name over the target.

   SharedTmp = FALSE   every replacement has a temporary name of its own
                       (renameio.TempFile): the pinned tree
   SharedTmp = TRUE    defect: one fixed temporary name per target, opened with
                       O_CREATE|O_TRUNC -- the second writer truncates the
                       inode the first one is still writing, renames it over
                       the target, and the first writer's next chunk lands in
                       the live file                                          *)
EXTENDS Naturals, Sequences, FiniteSets, TLC

CONSTANTS W,          \* writers, e.g. {"a", "b"}
          SharedTmp

VARIABLES inode,      \* [inode id -> sequence of chunks written, each <<writer, k>>]
          names,      \* [name -> inode id], names: "target", "tmp_<w>" / "tmp"
          fd,         \* [writer -> inode id it has open, 0 = none]
          pc,         \* [writer -> "idle" | "open" | "w1" | "w2" | "done"]
          next        \* next free inode id

vars == <<inode, names, fd, pc, next>>
Tmp(w) == IF SharedTmp THEN "tmp" ELSE "tmp_" \o w
Old == <<<<"old", 1>>, <<"old", 2>>>>
Complete(c) == c = Old \/ \E w \in W : c = <<<<w, 1>>, <<w, 2>>>>

Init == /\ inode = (1 :> Old) /\ names = ("target" :> 1) /\ fd = [w \in W |-> 0]
        /\ pc = [w \in W |-> "idle"] /\ next = 2

\* open(tmp, O_CREATE|O_TRUNC) -- an existing name keeps its inode, emptied; a private name is always fresh
Open(w) == /\ pc[w] = "idle"
           /\ IF Tmp(w) \in DOMAIN names
              THEN /\ inode' = [inode EXCEPT ![names[Tmp(w)]] = <<>>]
                   /\ fd' = [fd EXCEPT ![w] = names[Tmp(w)]] /\ UNCHANGED <<names, next>>
              ELSE /\ inode' = inode @@ (next :> <<>>) /\ names' = names @@ (Tmp(w) :> next)
                   /\ fd' = [fd EXCEPT ![w] = next] /\ next' = next + 1
           /\ pc' = [pc EXCEPT ![w] = "open"]
Write(w, k, from, to) == /\ pc[w] = from
                         /\ inode' = [inode EXCEPT ![fd[w]] = Append(@, <<w, k>>)]
                         /\ pc' = [pc EXCEPT ![w] = to] /\ UNCHANGED <<names, fd, next>>
\* rename(tmp, target): the target name now points to whatever inode the temporary NAME points to
Rename(w) == /\ pc[w] = "w2" /\ Tmp(w) \in DOMAIN names
             /\ names' = [n \in (DOMAIN names \ {Tmp(w)}) |-> IF n = "target" THEN names[Tmp(w)] ELSE names[n]]
             /\ pc' = [pc EXCEPT ![w] = "done"] /\ UNCHANGED <<inode, fd, next>>
\* a writer whose temporary name has been renamed away by the other one fails its own rename
RenameFails(w) == /\ pc[w] = "w2" /\ Tmp(w) \notin DOMAIN names
                  /\ pc' = [pc EXCEPT ![w] = "done"] /\ UNCHANGED <<inode, names, fd, next>>

Next == \E w \in W : Open(w) \/ Write(w, 1, "open", "w1") \/ Write(w, 2, "w1", "w2") \/ Rename(w) \/ RenameFails(w)
Spec == Init /\ [][Next]_vars

\* C13: the on-disk copy is at every instant a complete version
DiskAlwaysComplete == Complete(inode[names["target"]])
=============================================================================
