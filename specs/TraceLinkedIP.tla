--------------------------- MODULE TraceLinkedIP ---------------------------
(* Per-line validation of raw HTTP requests sent to the real linkedIPHandler
   with a recording backend behind it.  Each line:
     method, segs (decoded path segments as the server sees them), peer,
     status, contacted, bsegs (decoded path segments the backend received),
     xconn (values of X-Connecting-IP at the backend), fwd (client-supplied
     forwarding headers that reached the backend), robots (BOOLEAN)          *)
EXTENDS LinkedIP, Json

VARIABLE l
Trace == ndJsonDeserialize("trace.ndjson")
tvars == <<vars, l>>

ToSeq(a) == [i \in 1..Len(a) |-> a[i]]

Reasons(e) ==
    LET sg == ToSeq(e.segs) bs == ToSeq(e.bsegs) al == Allowed(e.method, sg) IN
    IF e.contacted
    THEN (IF "proxy" \in al THEN {} ELSE {"forwarded a request the contract answers locally"})
         \cup (IF Shape4(e.method, Norm(bs)) THEN {} ELSE {"backend path is not one of the four shapes after normalisation"})
         \cup (IF UnderPrefix(Norm(bs)) THEN {} ELSE {"backend path leaves the prefix after normalisation"})
         \cup (IF e.bmethod = e.method THEN {} ELSE {"method changed"})
         \cup (IF ToSeq(e.xconn) = <<e.peer>> THEN {} ELSE {"X-Connecting-IP is not exactly the peer"})
         \cup (IF Len(e.fwd) = 0 THEN {} ELSE {"client forwarding header reached the backend"})
    ELSE (IF "local" \in al THEN {} ELSE {"documented API request not forwarded"})
         \cup (IF e.status = 404 \/ (e.status = 200 /\ e.robots /\ sg = <<"robots.txt">>) THEN {}
               ELSE {"local answer is neither 404 nor the robots file"})

TraceInit == m = "GET" /\ segs = <<>> /\ l = 1
TraceNext == /\ l <= Len(Trace) /\ l' = l + 1 /\ UNCHANGED vars
             /\ LET r == Reasons(Trace[l]) IN IF r = {} THEN TRUE ELSE PrintT(<<"NONCONF", l, r>>)
TraceSpec == TraceInit /\ [][TraceNext]_tvars
TraceAccepted == LET d == TLCGet("stats").diameter IN
    IF d - 1 = Len(Trace) THEN TRUE ELSE PrintT(<<"STUCK", d, Len(Trace)>>) /\ FALSE
=============================================================================
