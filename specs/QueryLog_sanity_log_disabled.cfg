\* sanity: the defective variant "log_disabled" must violate LoggedIff
SPECIFICATION Spec
CONSTANTS
  Defect = "log_disabled"
INVARIANTS LoggedIff
