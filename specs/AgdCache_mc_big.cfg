SPECIFICATION Spec
CONSTANTS
  Keys = {"k1", "k2", "k3"}
  Vals = {"v1", "v2"}
  Cap1 = 2
  Cap2 = 1
  Ids = {"a", "b"}
  MaxOps = 5
  KeepHist = FALSE
  Variant = "code"
VIEW view
INVARIANTS TypeOK LenBound Coherent KeptIsLatest EmptyIsEmpty GetContract LenContract SetContract
PROPERTIES EvictsLRU LossOnlyByEvictOrClear ClearExactly ClearByIDExactly AddReplaces ReadsDontWrite SetIsLocal
CHECK_DEADLOCK FALSE
