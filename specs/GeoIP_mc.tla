----------------------------- MODULE GeoIP_mc -----------------------------
(* A hand-made small world for the exhaustive runs of GeoIP.tla: two ASN
   versions, two country versions that move the networks between countries
   (one of them special: keys with country and subdivision), a country version
   with a code that is not ISO 3166 (the scans fail), a missing file. *)
EXTENDS GeoIP

N(b, n, asn, ctry, cont, sub) == [b |-> b, n |-> n, asn |-> asn, astr |-> FALSE, ctry |-> ctry, cont |-> cont, sub |-> sub]
F(kind, mode, nets) == [kind |-> kind, mode |-> mode, nets |-> nets]

MCFiles == <<
  \* 1: ASN v1
  F("A", "ok", << N(<<10, 0, 0, 0>>, 24, 7, "", "", ""), N(<<10, 0, 1, 0>>, 24, 8, "", "", ""), N(<<10, 2, 0, 0>>, 16, 7, "", "", ""),
                  N(<<32, 1, 0, 0, 0, 0, 0, 0, 0, 0, 0, 0, 0, 0, 0, 0>>, 32, 8, "", "", "") >>),
  \* 2: ASN v2: the numbers change places, one network is narrower than /24
  F("A", "ok", << N(<<10, 0, 0, 0>>, 24, 8, "", "", ""), N(<<10, 0, 1, 0>>, 28, 7, "", "", ""), N(<<10, 2, 0, 0>>, 16, 7, "", "", "") >>),
  \* 3: country v1
  F("C", "ok", << N(<<10, 0, 0, 0>>, 23, 0, "US", "NA", "WA"), N(<<10, 2, 0, 0>>, 16, 0, "DE", "EU", ""),
                  N(<<32, 1, 0, 0, 0, 0, 0, 0, 0, 0, 0, 0, 0, 0, 0, 0>>, 32, 0, "DE", "EU", "") >>),
  \* 4: country v2
  F("C", "ok", << N(<<10, 0, 0, 0>>, 24, 0, "DE", "EU", ""), N(<<10, 0, 1, 0>>, 24, 0, "US", "NA", "NY"), N(<<10, 2, 0, 0>>, 16, 0, "US", "NA", "WA") >>),
  \* 5: a country database with a code NewCountry rejects
  F("C", "ok", << N(<<10, 0, 0, 0>>, 24, 0, "A1", "", ""), N(<<10, 2, 0, 0>>, 16, 0, "DE", "EU", "") >>),
  \* 6: no file
  F("A", "missing", << >>)
>>

\* a world in which a narrow network replaces a broad one (replaceSubnet compares distances only)
MCFilesLen == <<
  F("A", "ok", << N(<<10, 0, 0, 0>>, 8, 7, "", "", ""), N(<<11, 0, 0, 0>>, 30, 7, "", "", "") >>),
  F("C", "ok", << N(<<10, 0, 0, 0>>, 8, 0, "DE", "EU", ""), N(<<11, 0, 0, 0>>, 30, 0, "DE", "EU", "") >>)
>>

L(c, s, a) == [ctry |-> c, cont |-> "", sub |-> s, asn |-> a]
Mapped4(a, b, c, d) == <<0, 0, 0, 0, 0, 0, 0, 0, 0, 0, 255, 255, a, b, c, d>>
Base == [id |-> "mc", hostcap |-> 1, ipcap |-> 2, tops |-> [c \in {"US", "DE"} |-> IF c = "US" THEN 7 ELSE 8], alltop |-> {7, 8},
         versA |-> {1, 2, 6}, versC |-> {3, 4, 5},
         addrs |-> { <<10, 0, 0, 1>>, <<10, 0, 0, 2>>, Mapped4(10, 0, 1, 1) },
         hosts |-> {"h1"},
         locs |-> { L("US", "WA", 7), L("US", "CA", 0), L("DE", "", 0), L("FR", "", 9) }]
MCConfs == {Base}
\* fewer parameters for the defect variants (the counter-example is short)
MCConfsSmall == {[Base EXCEPT !.versA = {1, 2}, !.versC = {3}, !.addrs = { <<10, 0, 0, 1>>, <<10, 0, 1, 1>> }, !.locs = { L("US", "CA", 0) }]}
MCConfsFail == {[Base EXCEPT !.addrs = { <<10, 0, 0, 1>>, <<10, 0, 1, 1>> }, !.locs = { L("US", "CA", 0) }]}
MCConfsLen == {[Base EXCEPT !.versA = {1}, !.versC = {2}]}
\* more of everything (thorough)
MCConfsBig == {[Base EXCEPT !.addrs = @ \cup { <<10, 0, 1, 1>>, <<9, 9, 9, 9>>, <<32, 1, 0, 0, 0, 0, 0, 0, 0, 0, 0, 0, 0, 0, 0, 1>> }, !.hosts = {"h1", "h2"},
                            !.hostcap = 1, !.ipcap = 2]}
=============================================================================
