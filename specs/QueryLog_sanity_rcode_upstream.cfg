\* sanity: the defective variant "rcode_upstream" must violate EntryDescribesOwnRequest
SPECIFICATION Spec
CONSTANTS
  Defect = "rcode_upstream"
INVARIANTS EntryDescribesOwnRequest
