SPECIFICATION Spec
CONSTANTS
  Servers = {"adult", "general", "safe"}
  MaxV = 1
  AnyConf = TRUE
  Defect = "none"
  KeepHist = FALSE
  Atomic = FALSE
VIEW view
INVARIANTS TypeOK PairConsistent UnconfiguredUntouched
PROPERTIES FailedRefreshKeepsOld RefreshIsTotal RetNamesTheFailures SwapInstallsTheRead OnlyRefreshChangesPages
CHECK_DEADLOCK FALSE
