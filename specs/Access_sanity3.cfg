SPECIFICATION Spec
CONSTANTS
  Defect = "exception_ignored"
INVARIANTS ImplWithinContract
CHECK_DEADLOCK FALSE
