------------------------------ MODULE DNSDB ------------------------------
(* EXT2 (extension, not a listed property), part 2: the anonymous DNS
   statistics database dnsdb.Default (internal/dnsdb: dnsdb.go, buffer.go,
   record.go, http.go).

   Sources: the doc comments of Default, Record, buffer, record, recordKey,
   isIgnoredMessage, isIgnoredQuestion; doc/configuration.md "dnsdb"
   (max_size: "the maximum number of records in the in-memory buffer; the
   record key is a combination of the target hostname from the question and
   the resource-record type of the question or the answer");
   doc/debughttp.md "POST /dnsdb/csv" ("the CSV dump of the current DNSDB
   statistics").

   PART A -- which responses are recorded at all (decision table Accept/Rows):
     only responses (QR=1) with exactly one question, rcode NOERROR, question
     type A or AAAA, whose name is not an Android DoT/DoH metric name; the
     question class and the content of the answer section play no role in the
     decision; of the answers only A, AAAA and CNAME records become rows (a
     CNAME to the root gives no row); a response without such answers gives
     one row with an empty answer and the question's type.

   PART B -- the buffer and the dump, one action per critical section:
     RecLoad(p,k,rows)  db.buffer.Load() of an accepted Record call
     RecAdd(p)          b.mu region of buffer.add on the buffer loaded before
     Swap(d)            db.buffer.Swap(new empty buffer) of reset()
     All(d)             b.mu region of prevBuf.all() + the gauge reset; the
                        records are what the handler writes as CSV
     RecordSeq, DumpSeq the two-step compositions (a call that nothing
                        interleaves with)
     RecordIgnored      a Record call the decision table rejects
   buffer.add as the CODE has it: once the buffer holds maxSize distinct keys
   NOTHING more is counted -- neither new keys nor hits of existing keys.
   (The doc comment of type buffer says "it can only increase the hits of the
   previous records"; that reading is Variant "hitswhenfull".  Candidate
   finding, see the check's notes.)
   A hit is lost when its Record loaded the buffer pointer before a Swap and
   takes the buffer's lock after that dump's all(): it lands in a buffer that
   is never served again.  The buffer is documented as "approximate"; the
   model has the window (ghost `late`) and states that this is the ONLY way a
   hit disappears (LossOnlyInRace).

   Variant: "code" | "hitswhenfull" | "offbyone" (a key is still added when
   the buffer already holds maxSize keys) | "servenew" (the handler serves the
   buffer it has just installed instead of the one it took out).              *)
EXTENDS Naturals, FiniteSets, Sequences, TLC, Json

CONSTANTS Keys,        \* abstract record keys (target, question type)
          RowSets,     \* the row sets a response can contribute (mc: sets of strings)
          Rec,         \* recorder ids: concurrent Record calls
          Dmp,         \* dump ids: concurrent handler invocations
          MaxSize, MaxRecords, MaxDumps,
          KeepHist, Variant

ASSUME Variant \in {"code", "hitswhenfull", "offbyone", "servenew"}

-----------------------------------------------------------------------------
\* PART A: the decision table
RCodes == {"NOERROR", "NXDOMAIN", "SERVFAIL", "REFUSED", "OTHER"}
QTypes == {"A", "AAAA", "CNAME", "HTTPS", "TXT", "ANY", "OTHER"}
QClasses == {"IN", "CH", "ANY"}
\* androidOther: ends in -ds.metric.gstatic.com. but is neither a DoT nor a DoH
\* probe name; androidSub: a name below a DoT probe name; androidUpper: upper case
Names == {"normal", "androidDoT", "androidDoH", "androidUpper", "androidSub", "androidOther"}
AnsShapes == {"none", "A", "AAAA", "CNAME", "other", "A+CNAME", "other+A", "CNAMEroot"}
Vectors == [nil : BOOLEAN, resp : BOOLEAN, nq : 0..2, rcode : RCodes, qtype : QTypes, qclass : QClasses,
            name : Names, ans : AnsShapes]

AndroidMetric == {"androidDoT", "androidDoH", "androidUpper", "androidSub"}
RecordedTypes == {"A", "AAAA"}
RowTypes == {"A", "AAAA", "CNAME"}

Accept(w) == /\ ~w.nil /\ w.resp /\ w.nq = 1
             /\ w.rcode = "NOERROR"
             /\ w.qtype \in RecordedTypes
             /\ w.name \notin AndroidMetric

\* record kinds of the answer shapes
KindsOf(shape) == CASE shape = "none" -> {} [] shape = "A" -> {"A"} [] shape = "AAAA" -> {"AAAA"}
                    [] shape = "CNAME" -> {"CNAME"} [] shape = "other" -> {"OTHER"}
                    [] shape = "A+CNAME" -> {"A", "CNAME"} [] shape = "other+A" -> {"OTHER", "A"}
                    [] shape = "CNAMEroot" -> {"CNAMEROOT"}
\* the row types of an accepted response
RowTypesOf(w) == LET ks == KindsOf(w.ans) \cap RowTypes IN IF ks = {} THEN {w.qtype} ELSE ks
\* rows of a concrete answer list (sequence of [kind, val]); used by the trace spec
RowsOf(answers, qtype) ==
    LET rs == {[type |-> answers[i].kind, answer |-> answers[i].val] : i \in {j \in 1..Len(answers) : answers[j].kind \in RowTypes}}
    IN IF rs = {} THEN {[type |-> qtype, answer |-> ""]} ELSE rs

-----------------------------------------------------------------------------
\* PART B: buffer and dump
VARIABLES maxSize,   \* Default.maxSize
          bufs,      \* sequence of [Keys -> Nat]: hits of every buffer ever installed
          ans,       \* sequence of [Keys -> row set]: the answers stored with the entry
          cur,       \* index of the buffer db.buffer points to
          rpc,       \* [Rec -> [phase, b, k, rows]]
          dpc,       \* [Dmp -> [phase, b]]
          gauge,     \* metrics.DNSDBBufferSize
          recorded,  \* ghost: accepted Record calls per key
          served,    \* ghost: hits written by dumps per key
          full,      \* ghost: hits not counted because the buffer was full
          late,      \* ghost: hits added to a buffer after it had been served
          nign,      \* ghost: ignored Record calls
          raced,     \* ghost: some Swap happened while a Record held a loaded pointer
          overlap,   \* ghost: some Record step ran while a dump was between Swap and All, or vice versa
          nrec, ndump,
          v,         \* the vector under examination (PART A only)
          hist

vars == <<maxSize, bufs, ans, cur, rpc, dpc, gauge, recorded, served, full, late, nign, raced, overlap, nrec, ndump, v, hist>>
view == <<maxSize, bufs, ans, cur, rpc, dpc, gauge, recorded, served, full, late, nign, raced, overlap, nrec, ndump>>

Zero == [k \in Keys |-> 0]
NoAns == [k \in Keys |-> {}]
RIdle == [phase |-> "idle", b |-> 0, k |-> "", rows |-> {}]
DIdle == [phase |-> "idle", b |-> 0]
DefaultV == [nil |-> TRUE, resp |-> FALSE, nq |-> 0, rcode |-> "OTHER", qtype |-> "OTHER", qclass |-> "ANY",
             name |-> "normal", ans |-> "none"]

InitB(ms) == /\ maxSize = ms
             /\ bufs = <<Zero>> /\ ans = <<NoAns>> /\ cur = 1
             /\ rpc = [p \in Rec |-> RIdle] /\ dpc = [d \in Dmp |-> DIdle]
             /\ gauge = 0
             /\ recorded = Zero /\ served = Zero /\ full = Zero /\ late = Zero /\ nign = 0
             /\ raced = FALSE /\ overlap = FALSE
             /\ nrec = 0 /\ ndump = 0 /\ hist = <<>>
Init == InitB(MaxSize) /\ v = DefaultV

H(a, p, k, rows, d) ==
    IF KeepHist THEN Append(hist, [a |-> a, p |-> p, k |-> k, rs |-> rows, d |-> d]) ELSE hist

KeysOf(b) == {k \in Keys : bufs[b][k] > 0}
Swapped == {d \in Dmp : dpc[d].phase = "swapped"}
Loaded == {p \in Rec : rpc[p].phase = "loaded"}
\* buffers that will still be served: the current one and those a dump holds
Live == {cur} \cup {dpc[d].b : d \in Swapped}

\* b.mu region of buffer.add
AddEffect(b, k, rows) ==
    LET n == Cardinality(KeysOf(b))
        isFull == IF Variant = "offbyone" THEN n > maxSize ELSE n >= maxSize
        counts == ~isFull \/ (Variant = "hitswhenfull" /\ bufs[b][k] > 0)
    IN IF counts
       THEN /\ bufs' = [bufs EXCEPT ![b][k] = @ + 1]
            /\ ans' = IF bufs[b][k] = 0 THEN [ans EXCEPT ![b][k] = rows] ELSE ans
            /\ gauge' = IF bufs[b][k] = 0 THEN n + 1 ELSE gauge
            /\ late' = IF b \in Live THEN late ELSE [late EXCEPT ![k] = @ + 1]
            /\ UNCHANGED full
       ELSE /\ full' = [full EXCEPT ![k] = @ + 1]
            /\ UNCHANGED <<bufs, ans, gauge, late>>

RecLoad(p, k, rows) ==
    /\ rpc[p].phase = "idle" /\ nrec < MaxRecords
    /\ nrec' = nrec + 1
    /\ rpc' = [rpc EXCEPT ![p] = [phase |-> "loaded", b |-> cur, k |-> k, rows |-> rows]]
    /\ recorded' = [recorded EXCEPT ![k] = @ + 1]
    /\ overlap' = (overlap \/ Swapped # {})
    /\ hist' = H("RecLoad", p, k, rows, "")
    /\ UNCHANGED <<maxSize, bufs, ans, cur, dpc, gauge, served, full, late, nign, raced, ndump, v>>

RecAdd(p) ==
    /\ rpc[p].phase = "loaded"
    /\ AddEffect(rpc[p].b, rpc[p].k, rpc[p].rows)
    /\ rpc' = [rpc EXCEPT ![p] = RIdle]
    /\ overlap' = (overlap \/ Swapped # {})
    /\ hist' = H("RecAdd", p, "", {}, "")
    /\ UNCHANGED <<maxSize, cur, dpc, recorded, served, nign, raced, nrec, ndump, v>>

RecordSeq(p, k, rows) ==
    /\ rpc[p].phase = "idle" /\ nrec < MaxRecords
    /\ nrec' = nrec + 1
    /\ recorded' = [recorded EXCEPT ![k] = @ + 1]
    /\ AddEffect(cur, k, rows)
    /\ overlap' = (overlap \/ Swapped # {})
    /\ hist' = H("Record", p, k, rows, "")
    /\ UNCHANGED <<maxSize, cur, rpc, dpc, served, nign, raced, ndump, v>>

RecordIgnored ==
    /\ nrec < MaxRecords
    /\ nrec' = nrec + 1
    /\ nign' = nign + 1
    /\ hist' = H("RecordIgnored", "", "", {}, "")
    /\ UNCHANGED <<maxSize, bufs, ans, cur, rpc, dpc, gauge, recorded, served, full, late, raced, overlap, ndump, v>>

Swap(d) ==
    /\ dpc[d].phase = "idle" /\ ndump < MaxDumps
    /\ ndump' = ndump + 1
    /\ bufs' = Append(bufs, Zero) /\ ans' = Append(ans, NoAns)
    /\ cur' = Len(bufs) + 1
    /\ dpc' = [dpc EXCEPT ![d] = [phase |-> "swapped", b |-> cur]]
    /\ raced' = (raced \/ Loaded # {})
    /\ overlap' = (overlap \/ Loaded # {} \/ Swapped # {})
    /\ hist' = H("Swap", "", "", {}, d)
    /\ UNCHANGED <<maxSize, rpc, gauge, recorded, served, full, late, nign, nrec, v>>

ServedBuf(d) == IF Variant = "servenew" THEN cur ELSE dpc[d].b

All(d) ==
    /\ dpc[d].phase = "swapped"
    /\ served' = [k \in Keys |-> served[k] + bufs[ServedBuf(d)][k]]
    /\ gauge' = 0
    /\ dpc' = [dpc EXCEPT ![d] = DIdle]
    /\ hist' = H("All", "", "", {}, d)
    /\ UNCHANGED <<maxSize, bufs, ans, cur, rpc, recorded, full, late, nign, raced, overlap, nrec, ndump, v>>

DumpSeq(d) ==
    /\ dpc[d].phase = "idle" /\ ndump < MaxDumps
    /\ ndump' = ndump + 1
    /\ bufs' = Append(bufs, Zero) /\ ans' = Append(ans, NoAns)
    /\ cur' = Len(bufs) + 1
    /\ served' = IF Variant = "servenew" THEN served ELSE [k \in Keys |-> served[k] + bufs[cur][k]]
    /\ gauge' = 0
    /\ raced' = (raced \/ Loaded # {})
    /\ overlap' = (overlap \/ Loaded # {} \/ Swapped # {})
    /\ hist' = H("Dump", "", "", {}, d)
    /\ UNCHANGED <<maxSize, rpc, dpc, recorded, full, late, nign, nrec, v>>

Next == \/ \E p \in Rec, k \in Keys, rows \in RowSets : RecLoad(p, k, rows) \/ RecordSeq(p, k, rows)
        \/ \E p \in Rec : RecAdd(p)
        \/ RecordIgnored
        \/ \E d \in Dmp : Swap(d) \/ All(d) \/ DumpSeq(d)

Spec == Init /\ [][Next]_vars

-----------------------------------------------------------------------------
RECURSIVE SumLive(_, _)
SumLive(S, k) == IF S = {} THEN 0 ELSE LET b == CHOOSE b \in S : TRUE IN bufs[b][k] + SumLive(S \ {b}, k)
InHand(k) == Cardinality({p \in Loaded : rpc[p].k = k})

TypeOK == /\ cur \in 1..Len(bufs) /\ Len(ans) = Len(bufs)
          /\ \A b \in 1..Len(bufs) : bufs[b] \in [Keys -> Nat]
          /\ gauge \in Nat

\* Every accepted hit is in exactly one place: written by one dump, in a buffer
\* that will still be served, in the hand of a running Record call, not counted
\* because the buffer was full, or lost in the documented-as-approximate window.
Conservation ==
    \A k \in Keys : recorded[k] = served[k] + SumLive(Live, k) + InHand(k) + full[k] + late[k]
\* ... and the window is the only way to lose a hit.
LossOnlyInRace == (\E k \in Keys : late[k] > 0) => raced
\* max_size bounds the number of keys of every buffer.
SizeBound == \A b \in 1..Len(bufs) : Cardinality(KeysOf(b)) <= maxSize
\* the gauge is the number of keys of the current buffer (when no dump overlapped a Record)
GaugeIsSize == (~overlap /\ Swapped = {} /\ Loaded = {}) => gauge = Cardinality(KeysOf(cur))

\* what the code does once a buffer is full: nothing
FrozenWhenFull == [][\A b \in 1..Len(bufs) : Cardinality(KeysOf(b)) >= maxSize => bufs'[b] = bufs[b]]_vars
\* "only the first set of answers is stored"
FirstAnswersKept == [][\A b \in 1..Len(bufs), k \in Keys : bufs[b][k] > 0 => ans'[b][k] = ans[b][k]]_vars
ServedGrows == [][\A k \in Keys : served'[k] >= served[k]]_vars
\* a dump installs an empty buffer
DumpStartsEmpty == [][cur' # cur => bufs'[cur'] = Zero]_vars
IgnoredChangesNothing == [][nign' # nign => UNCHANGED <<bufs, ans, cur, gauge, recorded, served>>]_vars

-----------------------------------------------------------------------------
\* PART A as a specification of its own: one state per vector
TableInit == InitB(MaxSize) /\ v \in Vectors
TableNext == UNCHANGED vars
TableSpec == TableInit /\ [][TableNext]_vars

OnlySuccessfulResponses == Accept(v) => v.resp /\ v.rcode = "NOERROR"
OnlySingleQuestion == Accept(v) => ~v.nil /\ v.nq = 1
OnlyAddressQuestions == Accept(v) => v.qtype \in {"A", "AAAA"}
AndroidMetricsNeverRecorded == v.name \in {"androidDoT", "androidDoH", "androidUpper", "androidSub"} => ~Accept(v)
ClassAndAnswersIrrelevant ==
    \A c \in QClasses, a \in AnsShapes : Accept([v EXCEPT !.qclass = c, !.ans = a]) = Accept(v)
RowTypesAreAddressOrCNAME ==
    Accept(v) => \A t \in RowTypesOf(v) : t \in RowTypes /\ (t \notin KindsOf(v.ans) => t = v.qtype)
SomethingIsRecorded == Accept([nil |-> FALSE, resp |-> TRUE, nq |-> 1, rcode |-> "NOERROR", qtype |-> "A", qclass |-> "IN",
                               name |-> "normal", ans |-> "A"])

EmitHist == PrintT(<<"BEH", ToJson(hist)>>)
=============================================================================
