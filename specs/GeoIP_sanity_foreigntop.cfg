SPECIFICATION Spec
CONSTANTS
  FilesSrc <- MCFiles
  MConfs <- MCConfs
  UseRegister = FALSE
  Refreshers = {"r1"}
  InvalidCountries = {"A1", "ZZZ"}
  InvalidContinents = {"ZZ"}
  Serial = FALSE
  Defect = "foreign_top"
  KeepHist = FALSE
  MaxPut = 3
  MaxRefresh = 2
  MaxData = 2
VIEW view
INVARIANTS SubnetContract
CHECK_DEADLOCK FALSE
