--------------------------- MODULE TraceDebugAPI ---------------------------
(* Per-line validation for EXT7 (b): every line is one request served by the
   real handler of the API server built by debugsvc.New (ServeMux routes, log
   and server-header middlewares, refreshHandler / cacheHandler) with
   recording refreshers and an agdcache.DefaultManager holding recording
   caches:

     api, method, body, pats, fail      the abstract request (module DebugAPI)
     status                             HTTP status
     json                               Content-Type of a 200 is application/json
     results                            [[id, "ok" | "error" | other text], ...] of the response
     invoked                            abstract ids in the order in which the jobs ran
     why                                for a 400: "noids" / "mixed" / "decode" / other text

   A line whose jobs ran more than once is printed as <<"DUP", line>> (the
   documents do not say; observation).                                       *)
EXTENDS DebugAPI, Json

VARIABLE l
Trace == ndJsonDeserialize("trace.ndjson")

If(c, s) == IF c THEN {s} ELSE {}
Reasons(e) ==
    LET r == [api |-> e.api, method |-> e.method, body |-> e.body, pats |-> e.pats, fail |-> SetOf(e.fail)]
        d == Decide(r)
        inv == SetOf(e.invoked)
        got == {<<e.results[i][1], e.results[i][2]>> : i \in 1..Len(e.results)}
    IN If(e.status # d.status, "status")
       \cup If(d.status # 200 /\ inv # {}, "jobs ran although the request was refused")
       \cup If(d.status = 200 /\ e.status = 200 /\ inv # d.invoked, "the jobs that ran are not the jobs the patterns match")
       \cup If(d.status = 200 /\ e.status = 200 /\ got # d.results, "results do not say what the jobs did")
       \cup If(e.status = 200 /\ ~e.json, "a 200 without a JSON content type")
       \cup If(d.status = 400 /\ e.status = 400 /\ d.why # e.why, "the 400 names another reason")

TraceInit == l = 1
TraceNext ==
    /\ l <= Len(Trace) /\ l' = l + 1
    /\ LET e == Trace[l]
           r == Reasons(e)
       IN /\ IF r = {} THEN TRUE ELSE PrintT(<<"NONCONF", l, r>>)
          /\ IF Cardinality(SetOf(e.invoked)) # Len(e.invoked) THEN PrintT(<<"DUP", l>>) ELSE TRUE
TraceSpec == TraceInit /\ [][TraceNext]_l
TraceAccepted == LET d == TLCGet("stats").diameter IN
    IF d - 1 = Len(Trace) THEN TRUE ELSE PrintT(<<"STUCK", d, Len(Trace)>>) /\ FALSE

\* the variable of the table module is not used here
ReqInit == req = [api |-> "other", method |-> "GET", body |-> "noids", pats |-> <<>>, fail |-> {}]
FullSpec == TraceInit /\ ReqInit /\ [][TraceNext /\ UNCHANGED req]_<<l, req>>
=============================================================================
