SPECIFICATION Spec
CONSTANTS
  Alphabet = {"a", "blogspot", "com", "co", "uk"}
  MaxLabels = 3
  IcannSuffix <- McIcann
  PrivateSuffix <- McPrivate
  ListIds = {"sb", "pc"}
  ListNames <- McListNames
  MaxList = 1
  Hosts <- Names
  QTypes = {"A", "AAAA", "HTTPS", "TXT", "MX"}
  PrefixStrs <- McPrefixStrs
  MaxStrs = 1
  H <- McH
  Variant = "ok"
  KeepHist = FALSE
VIEW view
INVARIANTS TypeOK MatchIffListed PrefixQueryExact MalformedRefused ResetIsTotal
CHECK_DEADLOCK FALSE
