SPECIFICATION TableSpec
CONSTANTS
  ZoneNames = {"UTC", "Asia/Kolkata", "Pacific/Kiritimati", "Etc/GMT+12", "Europe/Berlin", "America/New_York", "Australia/Lord_Howe"}
  WeekNames = {"nil", "zero", "whole", "work", "late", "sun", "sat", "stairs"}
  Days = {14, 20, 21, 70, 91, 98, 280, 301, 308}
  Minutes = {0, 1, 150, 539, 540, 1019, 1020, 1380, 1439}
  Secs = {0, 59}
  Bounds = {0, 1, 600, 1439, 1440, 1441, 65535}
  ElapsedNotWall = TRUE
  UTCWeekday = FALSE
  NoZone = FALSE
  ClosedEnd = FALSE
  OpenStart = FALSE
  ZeroIsWholeDay = FALSE
  NilIsWholeDay = FALSE
  LaxEnd = FALSE
  StrictOrder = FALSE
INVARIANTS WholeDay
CHECK_DEADLOCK FALSE
