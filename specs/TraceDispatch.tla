--------------------------- MODULE TraceDispatch ---------------------------
(* C01: validation of what the real servers did against Dispatch.tla.

   Two kinds of lines (harness/internal/dnsserver/c01_test.go: in-package lanes;
   c01sock_test.go: the real servers over loopback sockets):

   ev = "In"  one input on one transport.  Abstract input: t, wire, qr, op,
              qd, an, ns, h (the handler outcome the question selects, "-" if
              the input is not an acceptable query).  Observation: kind
              ("resp", "drop", "close", "http400", "http500", "httpempty",
              "quicproto", "none", "escaped", or a diagnostic), n (number of
              DNS responses), called (handler entries), rcode of the first
              response, idok / qok (every response carries the request's ID /
              question), tc, hwrote and rceq / anseq / nseq / exteq (first
              response against the answer the handler wrote), probe ("ok" /
              "fail" / "na": a valid query on the same transport right after).
   ev = "Eq"  one query of the equivalence set: items = the reply of every
              transport variant (t, n, rcode, digests of the answer,
              authority and additional sections, tc).

   Every line is checked against the contract Allowed(t, class, h) AND against
   the hard clauses directly.  A non-conforming line does not block: it is
   printed as <<"NONCONF", line, reasons>> and the check reports all of them. *)
EXTENDS Dispatch, Json

VARIABLE l
Trace == ndJsonDeserialize("trace.ndjson")
tvars == <<vars, l>>

\* the response as the contract sees it: HANDLER iff it is the answer the
\* handler wrote (modulo the answer section of a truncated response, which C08 owns)
ObsRc(e) == IF e.hwrote /\ e.rceq /\ e.nseq /\ e.exteq /\ (e.anseq \/ e.tc) THEN "HANDLER" ELSE e.rcode
Obs(e) == IF e.kind = "resp" THEN [k |-> "resp", rc |-> ObsRc(e), id |-> e.idok, q |-> e.qok] ELSE Quiet(e.kind)

InReasons(e) ==
    LET c  == Class(e.wire, e.qr, e.op, e.qd, e.an, e.ns)
        hh == IF e.h = "-" THEN "writes" ELSE e.h
        al == Allowed(e.t, c, hh)
    IN  (IF e.n > 1 THEN {"AtMostOneResponse: more than one response to one input"} ELSE {})
   \cup (IF e.n >= 1 /\ ~(e.idok /\ e.qok) THEN {"EchoIDAndQuestion: a response carries another ID or question"} ELSE {})
   \cup (IF (e.n >= 1) # (e.kind = "resp") THEN {"inconsistent observation"} ELSE {})
   \cup (IF Obs(e) \in al THEN {}
         ELSE IF Acceptable(c) THEN {"accepted query: outcome is not the one matching answer the contract requires"}
         ELSE {"RejectTreatment: outcome is not the documented treatment of this input"})
   \cup (IF ~Acceptable(c) /\ e.called # 0 THEN {"RejectTreatment: the handler was reached by something that is not an acceptable query"} ELSE {})
   \cup (IF Acceptable(c) /\ e.called # 1 /\ e.kind # "escaped" THEN {"accepted query: the handler was not entered exactly once"} ELSE {})
   \cup (IF e.probe = "fail" \/ (e.kind = "escaped" /\ e.t \in AllTransports) THEN {"ListenerStaysUp: a valid query on the same transport is not answered after this input"} ELSE {})

ToSet(s) == {s[i] : i \in 1..Len(s)}
EqReasons(e) ==
    LET its == ToSet(e.items)
        ok(i) == i.n = 1 /\ ~i.tc
    IN  (IF {i.t : i \in its} = AllTransports /\ Len(e.items) = Cardinality(AllTransports) THEN {}
         ELSE {"TransportEquivalence: not every transport variant was exercised"})
   \cup (IF \A i \in its : i.n = 1 THEN {} ELSE {"TransportEquivalence: a transport did not return exactly one response"})
   \cup (IF \A i, j \in its : ok(i) /\ ok(j) =>
               /\ i.rcode = j.rcode /\ i.ans = j.ans /\ i.extra = j.extra
               /\ (i.t # "doh-json" /\ j.t # "doh-json" => i.ns = j.ns)
         THEN {} ELSE {"TransportEquivalence: rcode or records differ between transports"})
   \cup (IF e.h \in {"error", "neterror"} /\ \E i \in its : i.n = 1 /\ i.rcode # "SERVFAIL"
         THEN {"TransportEquivalence: a handler error is not SERVFAIL everywhere"} ELSE {})

\* many well-formed queries over one long-lived connection: each is an accepted query of its own
ReuseReasons(e) == IF e.n = e.cnt THEN {}
                   ELSE {"AcceptedAnswered: not every well-formed query sent over one long-lived connection got its own answer"}
Reasons(e) == IF e.ev = "Eq" THEN EqReasons(e) ELSE IF e.ev = "Reuse" THEN ReuseReasons(e) ELSE InReasons(e)

TraceInit == Init /\ t = "udp" /\ l = 1
TraceNext == /\ l <= Len(Trace) /\ l' = l + 1 /\ UNCHANGED vars
             /\ LET r == Reasons(Trace[l]) IN IF r = {} THEN TRUE ELSE PrintT(<<"NONCONF", l, r>>)
TraceSpec == TraceInit /\ [][TraceNext]_tvars
TraceAccepted == LET d == TLCGet("stats").diameter IN
    IF d - 1 = Len(Trace) THEN TRUE ELSE PrintT(<<"STUCK", d, Len(Trace)>>) /\ FALSE
=============================================================================
