SPECIFICATION SpecAllFair
CONSTANTS
  Req = {1, 2}
  CtxKinds = {"nodeadline", "open"}
  MaxMisuse = 1
  DefectNoWait = FALSE
  DefectLateClose = FALSE
  DefectIgnoreDeadline = FALSE
  DefectDoubleNil = FALSE
INVARIANTS TypeOK ShutdownWaits DeadlineBounds NothingAfterStop MisuseErrors NoAcceptAfterBegin
PROPERTIES ShutdownReturns
CHECK_DEADLOCK FALSE
