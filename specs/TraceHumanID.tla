---------------------------- MODULE TraceHumanID ----------------------------
(* EXT10 (a): validation of what the real identifier constructors of
   internal/agd returned (harness/internal/agd/ext10_test.go) against the
   contract of HumanID.tla, one line of trace.ndjson per input string:

     {src, in, h{ok,out}, lo{ok,out}, tl, p{ok,out}, pfresh, pagain, pconc, p2, hv,
      d, f, n, same, chain}
        in: the string as symbols; h: NewHumanID; lo: NewHumanIDLower; tl:
        HumanIDToLower of h.out (<<>> when h failed); p: ParseNormalized by the
        long-lived parser; pfresh: by a parser made for this call; pagain: the
        call repeated; pconc: the call made from concurrent goroutines sharing the
        parser; p2: ParseNormalized(p.out); hv: NewHumanID(p.out) succeeded; d, f,
        n: NewDeviceID / NewProfileID / NewDeviceName succeeded; same: every
        successful constructor returned its input and every failed one "";
        chain: the input of this line is p.out of the previous line

   Per line: every clause of the contract on the observed results (NONCONF with
   the names of the failed clauses) and the laws: a normalised id is accepted by
   NewHumanID and is a fixpoint of ParseNormalized (within the line and, for
   chain lines, across lines), the parser's pool does not influence results
   (fresh / long-lived / concurrent), determinism.  A line with symbols the model
   does not know is reported as MODEL (no verdict).                             *)
EXTENDS HumanID

CONSTANT TraceFile   \* the file with the recorded lines (slices of a trace are validated concurrently)
VARIABLES l, prev
TraceFromDisk == ndJsonDeserialize(TraceFile)
Trace == TLCGet(3)
E == Trace[l]
tvars == <<row, l, prev>>

R(cond, msg) == IF cond THEN {} ELSE {msg}
Report(rs) == IF rs = {} THEN TRUE ELSE PrintT(<<"NONCONF", l, rs>>)

TLine ==
    /\ l <= Len(Trace)
    /\ LET s == E.in IN
       IF \E i \in 1..Len(s) : s[i] \notin KnownSyms THEN PrintT(<<"MODEL", l, "unknown symbol">>)
       ELSE LET f == Facts(s) nrm == Norm(s) IN
            Report(HClauses(s, f, E.h) \cup LClauses(s, f, E.lo)
                   \cup (IF E.h.ok THEN TClauses(s, E.tl) ELSE R(E.tl = <<>>, "T.OnlyForValid"))
                   \cup PClauses(s, f, nrm, E.p)
                   \cup R(E.pfresh = E.p, "P.FreshParserAgrees")
                   \cup R(E.pagain = E.p, "P.Deterministic")
                   \cup R(E.pconc = E.p, "P.ConcurrentAgrees")
                   \cup R(E.p.ok => E.p2 = E.p, "P.Idempotent")
                   \cup R(E.p.ok => E.hv, "P.ResultAcceptedByNewHumanID")
                   \cup R(~E.chain \/ (prev.ok /\ prev.out = s /\ E.p = Ok(s)), "P.IdempotentAcrossLines")
                   \cup DClauses(f, E.d) \cup FClauses(f, E.f) \cup NClauses(f, E.n)
                   \cup R(E.same, "ReturnsItsInput"))
    /\ prev' = E.p
    /\ l' = l + 1 /\ UNCHANGED row

TraceInit == TLCSet(3, TraceFromDisk) /\ row = Root /\ l = 1 /\ prev = Err /\ TLCSet(1, 1)
TraceNext == TLine /\ TLCSet(1, l + 1)
TraceSpec == TraceInit /\ [][TraceNext]_tvars
TraceAccepted == IF TLCGet(1) = Len(Trace) + 1 THEN TRUE ELSE PrintT(<<"STUCK", TLCGet(1), Len(Trace)>>) /\ FALSE
=============================================================================
