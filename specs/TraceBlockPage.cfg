SPECIFICATION TraceSpec
CONSTANTS
  Servers = {"adult", "general", "safe"}
  MaxV = 1000000
  AnyConf = TRUE
  Defect = "none"
  KeepHist = FALSE
  Atomic = TRUE
INVARIANTS TypeOK PairConsistent UnconfiguredUntouched
POSTCONDITION TraceAccepted
CHECK_DEADLOCK FALSE
