------------------------------ MODULE LinkedIP ------------------------------
(* C19.  The linked-IP / DDNS proxy of internal/websvc/linkip.go as a decision
   over (method, path segments, client headers).

   The contract is written from doc/http.md and the property statement:
     GET  /linkip/{device_id}/{encrypted}/status
     GET  /linkip/{device_id}/{encrypted}
     POST /ddns/{device_id}/{encrypted}/{domain}
     POST /linkip/{device_id}/{encrypted}
   are forwarded, everything else is answered locally.  A path is a sequence
   of (percent-decoded) segments.  Norm is RFC 3986 5.2.4 dot-segment removal.

   ImplDecide is the implementation-shaped rule (SplitN(path, "/", 5) and the
   length tests of shouldProxy); RejectDotSegments selects the repaired code. *)
EXTENDS Naturals, Sequences, FiniteSets, TLC

CONSTANTS Methods, Alphabet, MaxLen, RejectDotSegments

Dot(s) == s = "." \/ s = ".."

\* RFC 3986 5.2.4 on a segment list.  A trailing dot segment leaves a trailing
\* slash, i.e. an empty last segment.
RECURSIVE NormAcc(_, _)
NormAcc(in, out) ==
    IF in = <<>> THEN out
    ELSE LET h == Head(in) t == Tail(in) IN
         IF h = "." THEN NormAcc(t, IF t = <<>> THEN Append(out, "") ELSE out)
         ELSE IF h = ".."
              THEN LET o == IF out = <<>> THEN out ELSE SubSeq(out, 1, Len(out) - 1) IN
                   NormAcc(t, IF t = <<>> THEN Append(o, "") ELSE o)
              ELSE NormAcc(t, Append(out, h))
Norm(segs) == NormAcc(segs, <<>>)

Clean(segs) == \A i \in 1..Len(segs) : ~Dot(segs[i])

\* The four documented shapes.
Shape4(m, segs) ==
    \/ m = "GET"  /\ Len(segs) = 3 /\ segs[1] = "linkip"
    \/ m = "GET"  /\ Len(segs) = 4 /\ segs[1] = "linkip" /\ segs[4] = "status"
    \/ m = "POST" /\ Len(segs) = 4 /\ segs[1] = "ddns"
    \/ m = "POST" /\ Len(segs) = 3 /\ segs[1] = "linkip"

UnderPrefix(segs) == Len(segs) >= 2 /\ segs[1] \in {"linkip", "ddns"}

\* What the property allows for a request.
Allowed(m, segs) ==
    IF Clean(segs) /\ Shape4(m, segs) THEN {"proxy"}
    ELSE IF Shape4(m, Norm(segs)) /\ UnderPrefix(Norm(segs)) THEN {"proxy", "local"}
    ELSE {"local"}

\* shouldProxy of the Go code.  SplitN(.., 5) folds everything after the
\* fourth slash into the fifth part, so "more than four segments" is length 5.
ImplDecide(m, segs) ==
    LET n == IF Len(segs) > 5 THEN 5 ELSE Len(segs)
        shape == \/ m = "GET"  /\ segs[1] = "linkip" /\ (n = 3 \/ (n = 4 /\ segs[4] = "status"))
                 \/ m = "POST" /\ ((segs[1] = "ddns" /\ n = 4) \/ (segs[1] = "linkip" /\ n = 3))
    IN IF n >= 3 /\ n <= 4 /\ shape /\ (RejectDotSegments => Clean(segs)) THEN "proxy" ELSE "local"

-----------------------------------------------------------------------------
\* Exhaustive enumeration of the abstract product: one state per vector.
VARIABLES m, segs
vars == <<m, segs>>
Paths == UNION {[1..n -> Alphabet] : n \in 0..MaxLen}
Init == m \in Methods /\ segs \in Paths
Next == UNCHANGED vars
Spec == Init /\ [][Next]_vars

\* The implementation-shaped rule stays within the contract ...
ImplWithinContract == ImplDecide(m, segs) \in Allowed(m, segs)
\* ... and the contract implies the property clauses for whatever is forwarded
\* unchanged: the forwarded path, normalised, is one of the four shapes and
\* stays under the prefixes.
OnlyFourShapes == "proxy" \in Allowed(m, segs) => Shape4(m, Norm(segs))
StaysUnderPrefix == "proxy" \in Allowed(m, segs) => UnderPrefix(Norm(segs))
OnlyGetPost == "proxy" \in Allowed(m, segs) => m \in {"GET", "POST"}
NormIdempotent == Norm(Norm(segs)) = Norm(segs) \/ (Len(Norm(segs)) > 0 /\ Norm(segs)[Len(Norm(segs))] = "")
NormClean == Clean(Norm(segs))
=============================================================================
