SPECIFICATION Spec
CONSTANTS
  Keys = {"k1", "k2", "k3", "k4"}
  RowSets = {{"ra"}, {"rb"}, {"rc"}}
  Rec = {"p1", "p2", "p3"}
  Dmp = {"d1", "d2"}
  MaxSize = 3
  MaxRecords = 16
  MaxDumps = 5
  KeepHist = TRUE
  Variant = "code"
CONSTRAINT EmitHist
CHECK_DEADLOCK FALSE
