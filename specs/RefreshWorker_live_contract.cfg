SPECIFICATION FairSpec
CONSTANTS
  RosSet = {TRUE, FALSE}
  RndSet = {TRUE, FALSE}
  Joins = TRUE
  MaxTick = 2
  MaxRefr = 2
  MaxShut = 1
  CtxKinds = {"nodeadline", "open"}
  Defect = "none"
  KeepHist = FALSE
VIEW view
INVARIANTS TypeOK
PROPERTIES TickLeadsToRefresh ShutdownReturnsByDeadline LoopExits
CHECK_DEADLOCK FALSE
