SPECIFICATION Spec
CONSTANTS
  Defect = "drop_refused"
INVARIANTS BlockedLeavesNoTrace
CHECK_DEADLOCK FALSE
