SPECIFICATION Spec
CONSTANTS
  Defect = "splitoff"
  MaxChanges = 1
INVARIANT PartitionExact
CHECK_DEADLOCK FALSE
