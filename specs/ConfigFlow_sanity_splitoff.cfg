SPECIFICATION Spec
CONSTANTS
  Defect = "splitoff"
  MaxChanges = 1
  FocusKeys = {}
INVARIANT PartitionExact
CHECK_DEADLOCK FALSE
