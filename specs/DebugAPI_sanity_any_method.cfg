SPECIFICATION Spec
CONSTANTS
  MaxPats = 2
  Defect = "any_method"
INVARIANTS OnlyPostActs
CHECK_DEADLOCK FALSE
