----------------------------- MODULE CacheCore -----------------------------
(* C04.  A keyed TTL cache over discrete time, shared by the simple response
   cache (internal/dnsserver/cache) and the ECS-aware one (internal/ecscache).

   Time is counted in quarter seconds (Q = 4) so that rounding is visible.
   The upstream is a CONSTANT function of the question: TTL[k] seconds,
   Cacheable[k].  A cache slot is chosen by KeyOf(k); KeyCollide = TRUE makes
   two different questions share a slot (sanity: the model can express a key
   that forgets qtype / qclass / DO).

   RoundMode selects how the remaining lifetime becomes the served TTL:
     "keep"     round to nearest, but when that is <= 0 serve the ORIGINAL TTL
                (internal/dnsserver/cache on the pinned tree)
     "nearest"  round to nearest, floor 0 (repaired simple cache, ECS cache)      *)
EXTENDS Naturals, Sequences, FiniteSets, TLC, Json

CONSTANTS Keys, TTL, Cacheable, MaxTime, KeyCollide, RoundMode, KeepHist

Q == 4
VARIABLES now, cache, served, hist
vars == <<now, cache, served, hist>>

NoEntry == [present |-> FALSE, k |-> "", when |-> 0, ttl |-> 0]
KeyOf(k) == IF KeyCollide THEN "slot" ELSE k
Slots == {KeyOf(k) : k \in Keys}
NoServe == [k |-> "", hit |-> FALSE, content |-> "", ttl |-> 0, left |-> 0]

Init == now = 0 /\ cache = [s \in Slots |-> NoEntry] /\ served = NoServe /\ hist = <<>>

H(e) == hist' = IF KeepHist THEN Append(hist, e) ELSE hist

CeilSec(x) == (x + Q - 1) \div Q                     \* x >= 0
Nearest(x) == (2 * x + Q) \div (2 * Q)               \* x >= 0, round half up
ServeTTL(e, left) ==
    IF Nearest(left) > 0 THEN Nearest(left)
    ELSE IF RoundMode = "keep" THEN e.ttl ELSE 0

Tick(d) == /\ now + d <= MaxTime /\ now' = now + d
           /\ H([a |-> "Tick", d |-> d, k |-> ""]) /\ UNCHANGED <<cache, served>>

\* gcache: an entry is expired when its deadline is strictly before now
Live(e) == e.present /\ now <= e.when + e.ttl * Q

Query(k) ==
    LET s == KeyOf(k) e == cache[s] IN
    /\ IF Live(e)
       THEN LET left == e.when + e.ttl * Q - now IN
            /\ served' = [k |-> k, hit |-> TRUE, content |-> e.k, ttl |-> ServeTTL(e, left), left |-> left]
            /\ UNCHANGED cache
       ELSE /\ served' = [k |-> k, hit |-> FALSE, content |-> k, ttl |-> TTL[k], left |-> TTL[k] * Q]
            /\ cache' = [cache EXCEPT ![s] = IF Cacheable[k] /\ TTL[k] > 0
                                             THEN [present |-> TRUE, k |-> k, when |-> now, ttl |-> TTL[k]]
                                             ELSE NoEntry]
    /\ H([a |-> "Query", d |-> 0, k |-> k]) /\ UNCHANGED now

\* LRU pressure may drop any entry at any time
Evict(s) == /\ cache[s].present /\ cache' = [cache EXCEPT ![s] = NoEntry]
            /\ H([a |-> "Evict", d |-> 0, k |-> s]) /\ UNCHANGED <<now, served>>

Next == (\E d \in 1..3 : Tick(d)) \/ (\E k \in Keys : Query(k)) \/ (\E s \in Slots : Evict(s))
Spec == Init /\ [][Next]_vars

-----------------------------------------------------------------------------
\* C04: a hit is the answer to the question that was asked
HitEqualsFresh == served.hit => served.content = served.k
\* every served TTL is at most the original TTL minus the age, under the most
\* generous rounding, and never negative (Nat)
TTLBound == served.hit => served.ttl <= CeilSec(served.left)
\* nothing is served after expiry
NothingAfterExpiry == served.hit => served.left >= 0
\* only cacheable answers are stored
OnlyCacheable == \A s \in Slots : cache[s].present => Cacheable[cache[s].k] /\ cache[s].ttl > 0

\* constant functions for the configs (a cfg file cannot hold a function literal)
TTL3 == ("k1" :> 1 @@ "k2" :> 2 @@ "k3" :> 3)
Cacheable3 == ("k1" :> TRUE @@ "k2" :> TRUE @@ "k3" :> FALSE)
TTL4 == ("k1" :> 1 @@ "k2" :> 2 @@ "k3" :> 3 @@ "k4" :> 2)
Cacheable4 == ("k1" :> TRUE @@ "k2" :> TRUE @@ "k3" :> TRUE @@ "k4" :> FALSE)

EmitHist == PrintT(<<"BEH", ToJson(hist)>>)
=============================================================================
