SPECIFICATION Spec
CONSTANTS
  Alphabet = {"a", "b", "blogspot", "com", "co", "uk"}
  MaxLabels = 6
  IcannSuffix <- McIcann
  PrivateSuffix <- McPrivate
  ListIds = {"sb", "pc"}
  ListNames <- McListNames
  MaxList = 3
  Hosts <- SimHosts
  QTypes = {"A", "AAAA", "HTTPS", "TXT", "MX"}
  PrefixStrs <- McPrefixStrs
  MaxStrs = 2
  H <- McH
  Variant = "ok"
  KeepHist = TRUE
CONSTRAINT EmitHist
CHECK_DEADLOCK FALSE
