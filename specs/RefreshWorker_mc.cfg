SPECIFICATION Spec
CONSTANTS
  RosSet = {TRUE, FALSE}
  RndSet = {TRUE, FALSE}
  Joins = FALSE
  MaxTick = 4
  MaxRefr = 4
  MaxShut = 2
  CtxKinds = {"nodeadline", "open"}
  Defect = "none"
  KeepHist = FALSE
VIEW view
INVARIANTS TypeOK NoOverlap FinalRefreshIffConfigured FinalBeforeStop ErrorDoesNotStopLoop RefreshContextBounded ShutdownResult FirstShutdownQuiet NoRefreshOnceDoneSeen LateRefreshBounded
PROPERTIES NoTakeAfterStop
CHECK_DEADLOCK FALSE
