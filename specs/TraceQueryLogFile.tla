------------------------- MODULE TraceQueryLogFile -------------------------
(* C15 part B: N goroutines write through the real querylog.FileSystem while
   the process runs under strace (harness/internal/querylog/c15_test.go).
   Events, in this order:
     Info   how the run was observed (no effect)
     Open   an openat(2) of the log file         append: O_APPEND|O_WRONLY set
     Write  a write(2)/writev/pwrite on the log descriptor
              n, ret, toks (the chunk, tokenised)
     Reopen the writers are done; the file is read back from the start
     Line   one line of the file as read back     toks, got, want (decoded
              object and the documented object of the entry with that id)
     Rest   bytes after the last line feed          toks
     Done   returned: number of Write calls that returned nil, per writer
   Write / Line / Rest are the spec's append (WriteChunk) applied to the
   observed chunk; the file invariants are evaluated on the resulting state.
   A violation is reported as NONCONF and does not block the rest.          *)
EXTENDS QueryLogFile, Json

VARIABLE l
Trace == ndJsonDeserialize("trace.ndjson")
tvars == <<vars, l>>
E == Trace[l]
TraceWriters == 1..128

ToSeq(s) == [i \in 1..Len(s) |-> s[i]]
Report(r) == PrintT(<<"NONCONF", l, r>>)

TraceInit == Init /\ l = 1

\* append the observed chunk; report and repair what the invariants reject
Chunk(toks, what) ==
    LET s == Feed(File, ToSeq(toks))
        bad == (IF s.broken THEN {what \o ": a terminated line is not exactly one expected object"} ELSE {})
               \cup (IF s.tail # <<>> THEN {what \o ": the file ends in an unterminated line"} ELSE {})
    IN /\ done' = s.done /\ broken' = FALSE
       /\ tail' = s.tail
       /\ (IF bad = {} THEN TRUE ELSE Report(bad))

TraceInfo == E.ev = "Info" /\ UNCHANGED vars
TraceOpen == /\ E.ev = "Open" /\ UNCHANGED vars
             /\ (IF E.append THEN TRUE ELSE Report({"log file opened without O_APPEND|O_WRONLY"}))
TraceWrite == /\ E.ev = "Write" /\ Chunk(E.toks, "write")
              /\ (IF E.ret = E.n THEN TRUE ELSE Report({"short or failed write"}))
              /\ UNCHANGED <<pc, buf, started, returned>>
TraceReopen == /\ E.ev = "Reopen"
               /\ (IF tail = <<>> THEN TRUE ELSE Report({"writes ended in an unterminated line"}))
               /\ done' = [w \in Writers |-> 0] /\ tail' = <<>> /\ broken' = FALSE
               /\ UNCHANGED <<pc, buf, started, returned>>
TraceLine == /\ E.ev = "Line" /\ Chunk(E.toks, "line")
             /\ (IF E.got = E.want THEN TRUE ELSE Report({"the line is not the documented object of its request"}))
             /\ UNCHANGED <<pc, buf, started, returned>>
TraceRest == /\ E.ev = "Rest" /\ Chunk(E.toks, "rest")
             /\ UNCHANGED <<pc, buf, started, returned>>
\* quiescence: OnePerLogged on the observed counts
TraceDone == /\ E.ev = "Done" /\ UNCHANGED vars
             /\ LET ret == ToSeq(E.returned)
                    missing == {w \in 1..Len(ret) : done[w] # ret[w]}
                IN IF missing = {} /\ tail = <<>> THEN TRUE
                   ELSE Report({<<"lines per writer differ from returned Write calls (writer, lines, returned)",
                                  {<<w, done[w], ret[w]>> : w \in missing}>>})

TraceNext == /\ l <= Len(Trace) /\ l' = l + 1
             /\ (TraceInfo \/ TraceOpen \/ TraceWrite \/ TraceReopen \/ TraceLine \/ TraceRest \/ TraceDone)
TraceSpec == TraceInit /\ [][TraceNext]_tvars
TraceAccepted == LET d == TLCGet("stats").diameter IN
    IF d - 1 = Len(Trace) THEN TRUE ELSE PrintT(<<"STUCK", d, Len(Trace)>>) /\ FALSE
=============================================================================
