--------------------------- MODULE TraceLifecycle ---------------------------
(* Trace validation for EXT5: events recorded by
   harness/internal/dnsserver/ext5_test.go on real servers of every transport.

   The harness sees the calls and their returns, the handler entries and
   exits, the deadline of the Shutdown context and -- from outside -- the
   moment at which the old address refuses connections (BeginWitness).  It
   does not see the two internal steps ShutdownBegin and Accept(q): they are
   interleaved as silent steps, TLC looks for one placement that explains the
   recorded events.  A trace is accepted iff every event was consumed.       *)
EXTENDS Lifecycle, Json, Sequences

VARIABLE l
Trace == ndJsonDeserialize("trace.ndjson")
E == Trace[l]
tvars == <<vars, l>>

Mark == TLCSet(1, IF l + 1 > TLCGet(1) THEN l + 1 ELSE TLCGet(1))
\* Mark comes last in every trace action: the register must only move when the
\* whole action is enabled (TLC evaluates conjuncts from left to right).
Consume(e) == l <= Len(Trace) /\ E.ev = e /\ l' = l + 1

TraceInit == Init /\ l = 1 /\ TLCSet(1, 1)

TReset == /\ Consume("Reset")
          /\ srv' = "new" /\ lopen' = FALSE
          /\ req' = [q \in Req |-> "idle"] /\ sentIn' = [q \in Req |-> "none"]
          /\ call' = "none" /\ ctx' = "none" /\ res' = "none"
          /\ last' = NoCall /\ nmis' = 0 /\ overdue' = FALSE
          /\ Mark

\* a Start call and what it returned
TStart == /\ Consume("Start")
          /\ \/ E.res = "ok" /\ Start
             \/ E.res = "listenerr" /\ StartFail
             \/ E.res = "already" /\ StartWhileStarted
          /\ Mark

\* a Shutdown call that returned at once (server new, stopping or stopped)
TShutdownSync == /\ Consume("ShutdownSync")
                 /\ (ShutdownWhileNotStarted \/ ShutdownTwice)
                 /\ E.res = last'.res
                 /\ Mark

TShutdownCall == /\ Consume("ShutdownCall") /\ ShutdownCall(E.ctx)
                 /\ Mark
TDeadline == /\ Consume("Deadline") /\ CtxExpire
             /\ Mark
TShutdownRet == /\ Consume("ShutdownRet")
                /\ \/ E.res = "nil" /\ ShutdownWaitDone
                   \/ E.res = "ctx" /\ ShutdownDeadline
                /\ Mark
TOverdue == /\ Consume("Overdue") /\ Overdue
            /\ Mark

\* the old address refuses connections: shutdown() has closed the listeners
TBeginWitness == /\ Consume("BeginWitness") /\ call \in {"begun", "returned"} /\ UNCHANGED vars
                 /\ Mark

TSend == /\ Consume("Send") /\ E.q \in Req /\ Send(E.q)
         /\ Mark
TEnter == /\ Consume("Enter") /\ E.q \in Req /\ EnterHandler(E.q)
          /\ Mark
TExit == /\ Consume("Exit") /\ E.q \in Req /\ ExitHandler(E.q, E.wrote)
         /\ Mark

\* what the client saw in the end: an answer can only come from a handler that wrote one
TResult == /\ Consume("Result") /\ E.q \in Req
           /\ (E.answered => req[E.q] = "answered")
           /\ UNCHANGED vars
           /\ Mark

\* Start after Shutdown: not documented, only recorded
TRestart == /\ Consume("Restart") /\ srv = "stopped" /\ UNCHANGED vars
            /\ Mark
\* the harness could not drive the world any further (last event of its segment)
TAbort == /\ Consume("Abort") /\ UNCHANGED vars
          /\ Mark
TEnd == /\ Consume("End") /\ call \in {"none", "returned"} /\ UNCHANGED vars
        /\ Mark

Silent == (ShutdownBegin \/ \E q \in Req : Accept(q)) /\ UNCHANGED l

TraceNext == \/ TReset \/ TStart \/ TShutdownSync \/ TShutdownCall \/ TDeadline \/ TShutdownRet \/ TOverdue
             \/ TBeginWitness \/ TSend \/ TEnter \/ TExit \/ TResult \/ TRestart \/ TEnd \/ TAbort \/ Silent
TraceSpec == TraceInit /\ [][TraceNext]_tvars

TraceAccepted ==
    IF TLCGet(1) = Len(Trace) + 1 THEN TRUE
    ELSE PrintT(<<"STUCK", TLCGet(1), Len(Trace)>>) /\ FALSE
=============================================================================
