SPECIFICATION Spec
CONSTANTS
  KeepHist = TRUE
  Buckets = {"s1", "s2", "s3"}
  L = 3
  I = 4
  B = 2
  Dur = 12
  Per = 6
  MaxTime = 80
  MaxEvents = 60
  ForgetWindow = FALSE
CONSTRAINT EmitHist
CHECK_DEADLOCK FALSE
