SPECIFICATION Spec
CONSTANTS
  FullProduct = FALSE
  Defect = "dohonly_any_proto"
INVARIANTS DoHOnlyNeverElsewhere
