------------------------------- MODULE WebSvc -------------------------------
(* EXT6, first component.  internal/websvc (without the linked-IP proxy, which
   is property C19): which listener answers which request with what.

   The table is a function
       Outcome(D, lst, m, p, ae, conf) -> [st, body, ct, hdr, target]
   of the listener the request arrived on, the method, the class of the
   (percent-decoded) path, the class of the Accept-Encoding value and the
   configuration, giving the status code, the *source* of the body, the
   Content-Type, the set of characteristic headers and the sub-handler the
   request was delegated to.

   Listeners   "web"      the *Service handler (non-DoH plain and TLS binds; the DoH
                          servers hand it their non-DNS requests too)
               "nilsvc"   a nil *Service ("serves a simple plain-text 404 page")
               "safe" "adult" "general"   the block-page servers
               "linkip"   the linked-IP server, non-API paths only (the API is C19)
   Path classes "root" /, "robots" /robots.txt, "dnscheck" /dnscheck/test,
               "favicon" /favicon.ico, "octet" "html" "nohdr" three more files of
               the static content (application/octet-stream, text/html plus an
               extra header, no Content-Type at all), "miss" anything else,
               "near" near misses of the special paths (case, trailing slash,
               doubled slash, sub-paths)
   ae          "none" "gzip" "multi" (gzip among others, with a q value) "q0"
               (gzip;q=0) "other" "upper" (GZIP) "ident"
   conf        redir (root_redirect_url set), e404 / e500 (error pages set),
               dc (what the DNSCheck handler answers: "ok200" "nf404" "err500"),
               sc (static content: "none" = http.NotFoundHandler, "map" = the four
               files, "maprobots" = the four files and an own /robots.txt)

   What doc/configuration.md (web) and doc/http.md say, clause by clause:
     ServerAlways        every response carries the Server header ("Set the Server
                         header here, so that all responses carry it")
     StaticOnlyOnWeb     "static content is not served on the linked IP proxy server
                         and the safe browsing and adult blocking servers"
     BlockPages          "Every request is responded with the content from the
                         configured file, with the exception of GET /favicon.ico"
                         (plain-text 404) "and GET /robots.txt" (disallow-all);
                         "Use HTTP 500 status code to signal that this is a block page"
     ErrorPages          error_404 / error_500: "If not set, a simple plain text 404
                         or 500 page is served", else the HTML page
     RootRedirect        root_redirect_url: "If not set, AdGuard DNS will respond with
                         a 404 status to all such requests"
     RobotsOverridable   non_doh_bind: "In the special case of GET /robots.txt
                         requests, a special response is served; this response could
                         be overwritten with static content"
     DNSCheckDelegated   "GET /dnscheck/test is the DNS server check HTTP API"
     GzipOnlyWhenAccepted  (RFC 9110) a gzip body only for a client that named gzip
   Where they are silent the code's reading is the table (assumptions of the check):
   methods are not looked at, HEAD answers are the GET answers without a body,
   paths are compared exactly and case-sensitively after percent-decoding,
   "gzip;q=0" counts as accepting gzip (a TODO in the code), a 404 / 500 coming
   from the DNSCheck handler or the static content is re-dressed like the
   service's own, dropping the sub-handler's headers.

   D (CONSTANT Defect in the exhaustive runs) selects a faulty variant:
     "robots_first"     the built-in robots answer wins over the static content
                        (the pinned tree does this)
     "nil_no_server"    the nil service forgets the Server header
     "static_on_block"  block-page servers serve the static content
     "block_200"        block pages are served with 200
     "errpage_ct"       an error page keeps the plain-text content type
     "redirect_always"  the root redirects also without a URL
     "dnscheck_prefix"  everything below /dnscheck/test is delegated
     "gzip_always"      block pages are always compressed                        *)
EXTENDS Naturals, FiniteSets, TLC

CONSTANTS Listeners, Methods, Paths, Encs, Defect

Block == {"safe", "adult", "general"}
StaticFiles == {"favicon", "octet", "html", "nohdr"}
DCs == {"ok200", "nf404", "err500"}
SCs == {"none", "map", "maprobots"}
Confs == [redir : BOOLEAN, e404 : BOOLEAN, e500 : BOOLEAN, dc : DCs, sc : SCs]

PlainCT == "text/plain; charset=utf-8"
O(st, body, ct, hdr, target) == [st |-> st, body |-> body, ct |-> ct, hdr |-> hdr, target |-> target]
NotFoundRaw(target) == O(404, "plain404", PlainCT, {"nosniff"}, target)

AcceptsGzip(ae) == ae \in {"gzip", "multi", "q0"}

StaticCT(p) == CASE p = "favicon" -> "image/x-icon"
                 [] p = "octet" -> "text/plain"       \* application/octet-stream is rewritten
                 [] p = "html" -> "text/html"
                 [] OTHER -> PlainCT                  \* sniffed

SBody(p) == CASE p = "favicon" -> "static:favicon" [] p = "octet" -> "static:octet"
              [] p = "html" -> "static:html" [] OTHER -> "static:nohdr"
\* every block-page server serves its own file
BBody(lst, gz) == CASE lst = "safe" -> (IF gz THEN "blockgz:safe" ELSE "block:safe")
                    [] lst = "adult" -> (IF gz THEN "blockgz:adult" ELSE "block:adult")
                    [] OTHER -> (IF gz THEN "blockgz:general" ELSE "block:general")
StaticBodies == {SBody(q) : q \in {"favicon", "octet", "html", "nohdr"}} \cup {"static:robots"}

\* what the static content answers
StaticRaw(p, conf) ==
    IF conf.sc # "none" /\ p \in StaticFiles
    THEN O(200, SBody(p), StaticCT(p), IF p = "html" THEN {"xcustom"} ELSE {}, "static")
    ELSE IF conf.sc = "maprobots" /\ p = "robots" THEN O(200, "static:robots", "text/plain", {}, "static")
    ELSE NotFoundRaw("static")

DCStatus(dc) == CASE dc = "ok200" -> 200 [] dc = "nf404" -> 404 [] OTHER -> 500

\* the service's own routing, before the error pages
WebRaw(D, m, p, conf) ==
    IF p = "dnscheck" \/ (D = "dnscheck_prefix" /\ p = "near")
    THEN O(DCStatus(conf.dc), "dnscheck", "application/json", {"xdc"}, "dnscheck")
    ELSE IF p = "robots"
    THEN (IF conf.sc = "maprobots" /\ D # "robots_first" THEN StaticRaw(p, conf)
          ELSE O(200, "robots", "text/plain", {}, "none"))
    ELSE IF p = "root"
    THEN (IF conf.redir \/ D = "redirect_always"
          THEN (IF m \in {"GET", "HEAD"} THEN O(302, "redirect", "text/html; charset=utf-8", {"location"}, "none")
                ELSE O(302, "empty", "", {"location"}, "none"))
          ELSE NotFoundRaw("none"))
    ELSE StaticRaw(p, conf)

\* the 404 / 500 dressing
WebFinal(D, raw, conf) ==
    IF raw.st = 404
    THEN (IF conf.e404 THEN O(404, "page404", IF D = "errpage_ct" THEN PlainCT ELSE "text/html", {}, raw.target)
          ELSE O(404, raw.body, PlainCT, {}, raw.target))
    ELSE IF raw.st = 500
    THEN (IF conf.e500 THEN O(500, "page500", IF D = "errpage_ct" THEN PlainCT ELSE "text/html", {}, raw.target)
          ELSE O(500, raw.body, PlainCT, {}, raw.target))
    ELSE raw

BlockOutcome(D, lst, p, ae, conf) ==
    IF D = "static_on_block" /\ conf.sc # "none" /\ p \in StaticFiles THEN StaticRaw(p, conf)
    ELSE IF p = "favicon" THEN NotFoundRaw("none")
    ELSE IF p = "robots" THEN O(200, "robots", "text/plain", {}, "none")
    ELSE LET gz == AcceptsGzip(ae) \/ D = "gzip_always"
             st == IF D = "block_200" THEN 200 ELSE 500 IN
         IF gz THEN O(st, BBody(lst, TRUE), "text/html", {"gzip"}, "none")
         ELSE O(st, BBody(lst, FALSE), "text/html", {}, "none")

Outcome(D, lst, m, p, ae, conf) ==
    LET o == CASE lst = "web" -> WebFinal(D, WebRaw(D, m, p, conf), conf)
               [] lst = "nilsvc" -> NotFoundRaw("none")
               [] lst = "linkip" -> (IF p = "robots" THEN O(200, "robots", "text/plain", {}, "none") ELSE NotFoundRaw("none"))
               [] OTHER -> BlockOutcome(D, lst, p, ae, conf)
        srv == IF lst = "nilsvc" /\ D = "nil_no_server" THEN {} ELSE {"server"} IN
    [o EXCEPT !.hdr = @ \cup srv, !.body = IF m = "HEAD" THEN "empty" ELSE @]

\* the contract table
Decide(lst, m, p, ae, conf) == Outcome("none", lst, m, p, ae, conf)

-----------------------------------------------------------------------------
\* Exhaustive enumeration: one state per vector.
VARIABLES lst, m, p, ae, conf
vars == <<lst, m, p, ae, conf>>
Init == lst \in Listeners /\ m \in Methods /\ p \in Paths /\ ae \in Encs /\ conf \in Confs
Next == UNCHANGED vars
Spec == Init /\ [][Next]_vars

Impl == Outcome(Defect, lst, m, p, ae, conf)
IsStaticBody(b) == b \in StaticBodies

ServerAlways == "server" \in Impl.hdr
StaticOnlyOnWeb == lst # "web" => Impl.target = "none" /\ ~IsStaticBody(Impl.body)
BlockPages ==
    lst \in Block =>
        /\ (p = "favicon" => Impl.st = 404 /\ Impl.ct = PlainCT /\ (m # "HEAD" => Impl.body = "plain404"))
        /\ (p = "robots" => Impl.st = 200 /\ Impl.ct = "text/plain" /\ (m # "HEAD" => Impl.body = "robots"))
        /\ (p \notin {"favicon", "robots"} =>
                Impl.st = 500 /\ Impl.ct = "text/html" /\ (m # "HEAD" => Impl.body \in {BBody(lst, TRUE), BBody(lst, FALSE)}))
ErrorPages ==
    lst = "web" /\ Impl.st \in {404, 500} =>
        LET set == IF Impl.st = 404 THEN conf.e404 ELSE conf.e500
            page == IF Impl.st = 404 THEN "page404" ELSE "page500" IN
        /\ (set => Impl.ct = "text/html" /\ (m # "HEAD" => Impl.body = page))
        /\ (~set => Impl.ct = PlainCT /\ Impl.body \notin {"page404", "page500"})
RootRedirect ==
    lst = "web" /\ p = "root" =>
        /\ (conf.redir => Impl.st = 302 /\ "location" \in Impl.hdr)
        /\ (~conf.redir => Impl.st = 404 /\ "location" \notin Impl.hdr)
RobotsOverridable ==
    lst = "web" /\ p = "robots" /\ m # "HEAD" =>
        Impl.st = 200 /\ Impl.body = (IF conf.sc = "maprobots" THEN "static:robots" ELSE "robots")
DNSCheckDelegated == (lst = "web" /\ p = "dnscheck") <=> Impl.target = "dnscheck"
GzipOnlyWhenAccepted == ("gzip" \in Impl.hdr \/ Impl.body = BBody(lst, TRUE)) =>
                            /\ AcceptsGzip(ae) /\ lst \in Block /\ "gzip" \in Impl.hdr
                            /\ (m # "HEAD" => Impl.body = BBody(lst, TRUE))
RedirectOnlyFromRoot == "location" \in Impl.hdr => lst = "web" /\ p = "root" /\ conf.redir
ImplIsContract == Impl = Decide(lst, m, p, ae, conf)
=============================================================================
