SPECIFICATION Spec
CONSTANTS
  Keys = {"k1", "k2", "k3", "k4"}
  Vals = {"v1", "v2"}
  Cap1 = 3
  Cap2 = 2
  Ids = {"a", "b"}
  MaxOps = 100000
  KeepHist = TRUE
  Variant = "code"
CONSTRAINT EmitHist
CHECK_DEADLOCK FALSE
