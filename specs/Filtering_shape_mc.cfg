SPECIFICATION Spec
CONSTANTS
  Part = "shape"
  Variant = "correct"
INVARIANTS ImplShapeWithinContract ShapeFollowsMode TTLIsProfiles NoUpstreamDataWhenBlocked
