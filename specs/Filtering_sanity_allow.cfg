SPECIFICATION Spec
CONSTANTS
  Part = "small"
  Variant = "block_beats_allow"
INVARIANTS AllowBeatsBlock
