SPECIFICATION Spec
CONSTANTS
  Part = "rules"
  Variant = "block_beats_allow"
INVARIANTS AllowBeatsBlock
