SPECIFICATION Spec
CONSTANTS
  NS = {"a:", "a:b:"}
  Keys = {"k", "b:k"}
  Backings = {"map"}
  Caps = {2}
  MaxOps = 4
  GetSkipsPrefix = FALSE
  GetNoTouch = FALSE
  KeepHist = FALSE
VIEW view
INVARIANTS NamespaceIsolation
CHECK_DEADLOCK FALSE
