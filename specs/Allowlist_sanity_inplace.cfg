SPECIFICATION Spec
CONSTANTS
  KeepHist = FALSE
  U = {1, 2}
  Readers = {"r1"}
  MaxRefresh = 2
  MaxReads = 2
  ModesUsed = {"ok"}
  Defect = "inplace"
VIEW view
INVARIANTS ReadersSeeOldOrNew
CHECK_DEADLOCK FALSE
