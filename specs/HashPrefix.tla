----------------------------- MODULE HashPrefix -----------------------------
(* C11.  Safe-browsing / parental-control hash-prefix lists:
     internal/filter/hashprefix/{storage,filter,matcher}.go and the TXT
     protocol in internal/dnssvc/internal/preservice/preservice.go.

   Names are sequences of labels in DNS order (<<"a","co","uk">> is a.co.uk).
   A list (one per ListId: "sb" safe browsing, "pc" parental control, ...) is
   a set of names; lists only change by Reset(id, L), which replaces the
   whole list.

   Two layers are written side by side.

   CONTRACT (from the property statement, over names only):
     Hashable(h)   the sub-domains of h a look-up has to consider: h itself and
                   its parents, at most four labels long, without the public
                   suffix.  "The public suffix" is the registry (ICANN) suffix
                   of the Public Suffix List; for a top-level domain the list
                   does not mention, the PSL default rule "*" makes the TLD
                   itself the public suffix.  Privately managed PSL entries
                   (blogspot.com, ...) are registrable domains under a registry
                   suffix and are therefore hashable themselves; this is the
                   only reading under which the code comment "Check the full
                   private domain space" (filter.go) and the property agree.
     ShouldMatch   qtype is A, AAAA or HTTPS and some hashable name is listed.
     AllowedPQ     what a TXT query may be answered with.

   IMPLEMENTATION-SHAPED (from the structure of the Go code, over hashes):
     store[id]     set of (prefix, rest) pairs = Storage.hashSuffixes
     ImplCands(h)  hashableSubdomains: last four labels, netutil.Subdomains,
                   cut at the public suffix the library reports
     SysMatched    Storage.Matches: bucket of the prefix, then the rest
     SysPQ         Matcher.MatchByPrefix / prefixesFromStr / Storage.Hashes and
                   the three-way split of preservice.respondWithHashes

   The invariants state that the second layer computes the first for every
   list, every name and every set of prefix strings.  `Variant` selects seeded
   defects of the second layer (sanity configs) -- "suffix_unbounded" is the
   behaviour of the pinned tree.

   H(n) stands for SHA-256(n) split after two bytes; it is a CONSTANT operator
   in the exhaustive configs (a hand-made table in which distinct names share
   a prefix) and is supplied event by event in trace validation (the harness
   computes it with crypto/sha256), which is why the actions take the hash
   table `hf` of the names they touch as an argument.                        *)
EXTENDS Naturals, Sequences, FiniteSets, TLC, Json

CONSTANTS Alphabet,       \* labels
          MaxLabels,      \* names have 1..MaxLabels labels
          IcannSuffix,    \* PSL, ICANN section: set of label sequences
          PrivateSuffix,  \* PSL, private section
          ListIds,        \* list identifiers (strings)
          ListNames,      \* names lists are drawn from
          MaxList,        \* a list has at most this many names
          Hosts,          \* hosts that are looked up
          QTypes,         \* question types (strings)
          PrefixStrs,     \* strings that may appear as labels of a TXT hash query
          MaxStrs,        \* at most this many per query
          H(_),           \* name -> [p |-> 4 hex characters, r |-> rest of the hash]
          Variant,        \* "ok" or the name of a seeded defect
          KeepHist        \* TRUE only for behaviour generation

VARIABLES listed,   \* [ListIds -> [set of names -> hash]]   contract state: the current lists
          store,    \* [ListIds -> set of hashes]            implementation-shaped state
          out,      \* outcome of the last action
          hist      \* action history (behaviour generation only)

vars == <<listed, store, out, hist>>

-----------------------------------------------------------------------------
(* Names and the Public Suffix List *)

Names == UNION {[1..n -> Alphabet] : n \in 1..MaxLabels}
Suffixes(h) == {SubSeq(h, i, Len(h)) : i \in 1..Len(h)}
Longest(S) == CHOOSE s \in S : \A t \in S : Len(t) <= Len(s)
TLD(h) == SubSeq(h, Len(h), Len(h))
LastLabels(h, k) == IF Len(h) <= k THEN h ELSE SubSeq(h, Len(h) - k + 1, Len(h))

\* The registry suffix of h: longest ICANN rule, else the default rule "*".
RegistrySuffix(h) ==
    LET M == Suffixes(h) \cap IcannSuffix IN IF M = {} THEN TLD(h) ELSE Longest(M)

\* ---- CONTRACT ----
Hashable(h) == {s \in Suffixes(h) : Len(s) <= 4 /\ Len(s) > Len(RegistrySuffix(h))}
FilterableType(qt) == qt \in {"A", "AAAA", "HTTPS"}
ListedNames(id) == DOMAIN listed[id]
ShouldMatch(id, h, qt) == FilterableType(qt) /\ Hashable(h) \cap ListedNames(id) # {}

-----------------------------------------------------------------------------
(* Prefix strings of the TXT protocol: <s1>.<s2>. ... .<suffix of the list> *)

HexLower == {"0","1","2","3","4","5","6","7","8","9","a","b","c","d","e","f"}
HexUpper == {"A","B","C","D","E","F"}
LowerCh == [c \in HexLower \cup HexUpper |->
              CASE c = "A" -> "a" [] c = "B" -> "b" [] c = "C" -> "c"
                [] c = "D" -> "d" [] c = "E" -> "e" [] c = "F" -> "f" [] OTHER -> c]
IsHexStr(s) == \A i \in 1..Len(s) : SubSeq(s, i, i) \in HexLower \cup HexUpper
RECURSIVE LowerHex(_)
LowerHex(s) == IF Len(s) = 0 THEN "" ELSE LowerCh[SubSeq(s, 1, 1)] \o LowerHex(SubSeq(s, 2, Len(s)))

Trunc(s) == IF Len(s) = 8 THEN SubSeq(s, 1, 4) ELSE s
\* "malformed": bad length, or the four characters that are used are not hex.
Malformed(s) == Len(s) \notin {4, 8} \/ ~IsHexStr(SubSeq(s, 1, 4))
\* A legacy string whose discarded half is not hex: the statement does not say
\* whether that is "malformed"; both a refusal and the truncated answer conform.
Ambiguous(s) == Len(s) = 8 /\ IsHexStr(SubSeq(s, 1, 4)) /\ ~IsHexStr(SubSeq(s, 5, 8))
ReqPrefixes(strs) == {LowerHex(Trunc(s)) : s \in {x \in strs : ~Malformed(x)}}

Full(hv) == hv.p \o hv.r
\* ---- CONTRACT ----  full hashes of the listed names starting with a requested prefix
ListedHashes(id, P) == {Full(listed[id][n]) : n \in {m \in ListedNames(id) : listed[id][m].p \in P}}

Passed == [resp |-> "passed", hashes |-> {}]
Refused == [resp |-> "refused", hashes |-> {}]
Answer(S) == [resp |-> "answer", hashes |-> S]

AllowedPQ(tgt, strs) ==
    IF tgt = "none" THEN {Passed}
    ELSE IF \E s \in strs : Malformed(s) THEN {Refused}
    ELSE {Answer(ListedHashes(tgt, ReqPrefixes(strs)))}
         \cup (IF \E s \in strs : Ambiguous(s) THEN {Refused} ELSE {})

-----------------------------------------------------------------------------
(* IMPLEMENTATION-SHAPED layer *)

\* publicsuffix.PublicSuffix: longest rule of either section, else "*".
LibSuffix(h) ==
    LET M == Suffixes(h) \cap (IcannSuffix \cup PrivateSuffix) IN
    IF M = {} THEN [s |-> TLD(h), icann |-> FALSE]
    ELSE [s |-> Longest(M), icann |-> Longest(M) \in IcannSuffix]

\* The name at which the walk over the parents stops.
CutSuffix(h) ==
    LET ls == LibSuffix(h) IN
    IF ls.icann THEN ls.s
    ELSE IF Variant = "suffix_unbounded" THEN <<>>   \* pinned tree: pubSuf = "" for non-ICANN results
    ELSE RegistrySuffix(h)

WalkLen == IF Variant = "walk3" THEN 3 ELSE 4

\* hashableSubdomains: the sub-domains of the last WalkLen labels, longest
\* first, up to but excluding the first one equal to the cut suffix.
ImplCands(h) ==
    LET d == LastLabels(h, WalkLen)
        c == CutSuffix(h) IN
    IF c \in Suffixes(d) THEN {s \in Suffixes(d) : Len(s) > Len(c)} ELSE Suffixes(d)

ImplFilterable(qt) == IF Variant = "no_https" THEN qt \in {"A", "AAAA"} ELSE qt \in {"A", "AAAA", "HTTPS"}

\* Storage.Matches: bucket by prefix, compare the rest.
InStore(id, hv) == IF Variant = "prefix_only" THEN \E x \in store[id] : x.p = hv.p ELSE hv \in store[id]
SysMatched(id, h, qt, hf) == IF ImplFilterable(qt) THEN {s \in ImplCands(h) : InStore(id, hf[s])} ELSE {}

\* prefixesFromStr + Storage.Hashes + respondWithHashes
SysPQ(tgt, strs) ==
    LET bad == IF Variant = "forward_malformed" THEN Passed ELSE Refused IN
    IF tgt = "none" THEN Passed
    ELSE IF \E s \in strs : Len(s) \notin {4, 8} THEN bad
    ELSE LET t == {IF Variant = "no_trunc" THEN s ELSE Trunc(s) : s \in strs} IN
         IF \E x \in t : ~IsHexStr(x) THEN bad
         ELSE Answer({Full(y) : y \in {z \in store[tgt] : z.p \in {LowerHex(x) : x \in t}}})

-----------------------------------------------------------------------------
Empty == [x \in {} |-> 0]
NoOut == [kind |-> "Init"]

Init == /\ listed = [id \in ListIds |-> Empty]
        /\ store = [id \in ListIds |-> {}]
        /\ out = NoOut
        /\ hist = <<>>

Log(a, id, names, host, qt, strs) ==
    hist' = IF KeepHist
            THEN Append(hist, [a |-> a, id |-> id, names |-> names, host |-> host, qt |-> qt, strs |-> strs])
            ELSE hist

\* Storage.Reset via Filter.refresh: a new map is built from the text and
\* installed; nothing is carried over.  hf: hash of every name of L.
Reset(id, L, hf) ==
    /\ listed' = [listed EXCEPT ![id] = [n \in L |-> hf[n]]]
    /\ store' = [store EXCEPT ![id] = (IF Variant = "reset_merges" THEN @ ELSE {}) \cup {hf[n] : n \in L}]
    /\ out' = [kind |-> "Reset", id |-> id]
    /\ Log("Reset", id, L, <<>>, "", {})

\* Filter.FilterRequest.  hf: hash of every sub-domain of h.
Lookup(id, h, qt, hf) ==
    /\ LET m == SysMatched(id, h, qt, hf) IN
       out' = [kind |-> "Lookup", id |-> id, host |-> h, qt |-> qt, matched |-> m # {}, rules |-> m]
    /\ Log("Lookup", id, {}, h, qt, {})
    /\ UNCHANGED <<listed, store>>

\* A TXT question <strs joined by dots><suffix of list tgt>; tgt = "none": the
\* name is under no hash-prefix suffix.
PrefixQuery(tgt, strs) ==
    /\ LET r == SysPQ(tgt, strs) IN
       out' = [kind |-> "PrefixQuery", id |-> tgt, strs |-> strs, resp |-> r.resp, hashes |-> r.hashes]
    /\ Log("PrefixQuery", tgt, {}, <<>>, "", strs)
    /\ UNCHANGED <<listed, store>>

Lists == {S \in SUBSET ListNames : Cardinality(S) <= MaxList}
Queries == {S \in SUBSET PrefixStrs : S # {} /\ Cardinality(S) <= MaxStrs}
HOf(S) == [n \in S |-> H(n)]

Next == \/ \E id \in ListIds, L \in Lists : Reset(id, L, HOf(L))
        \/ \E id \in ListIds, h \in Hosts, qt \in QTypes : Lookup(id, h, qt, HOf(Suffixes(h)))
        \/ \E tgt \in ListIds \cup {"none"}, S \in Queries : PrefixQuery(tgt, S)

Spec == Init /\ [][Next]_vars

-----------------------------------------------------------------------------
(* The property *)

\* "exactly when the host itself or one of its parent domains (up to four
\* labels, excluding the public suffix) is in the corresponding list, for A,
\* AAAA and HTTPS questions only"; the reported rule is such a name.
MatchIffListed ==
    out.kind = "Lookup" =>
        /\ out.matched = ShouldMatch(out.id, out.host, out.qt)
        /\ out.rules \subseteq Hashable(out.host) \cap ListedNames(out.id)

\* "returns exactly the full SHA-256 hashes of listed names that start with one
\* of the requested prefixes (four-character, or legacy eight-character truncated)"
PrefixQueryExact ==
    (out.kind = "PrefixQuery" /\ out.resp = "answer") =>
        /\ out.id # "none"
        /\ out.hashes = ListedHashes(out.id, ReqPrefixes(out.strs))
        /\ \A s \in out.strs : ~Malformed(s)

\* "a malformed prefix is refused rather than forwarded"; names that are not
\* hash queries go on to the next handler; well-formed queries are answered.
MalformedRefused ==
    out.kind = "PrefixQuery" =>
        /\ (out.resp = "passed") = (out.id = "none")
        /\ (out.id # "none" /\ \E s \in out.strs : Malformed(s)) => out.resp = "refused"
        /\ out.resp = "refused" => \E s \in out.strs : Malformed(s) \/ Ambiguous(s)
        /\ [resp |-> out.resp, hashes |-> out.hashes] \in AllowedPQ(out.id, out.strs)

\* "across list resets": the storage holds the hashes of the current list and
\* nothing of any previous one.
ResetIsTotal == \A id \in ListIds : store[id] = {listed[id][n] : n \in ListedNames(id)}

TypeOK == /\ DOMAIN listed = ListIds /\ DOMAIN store = ListIds
          /\ out.kind \in {"Init", "Reset", "Lookup", "PrefixQuery"}

\* Lookup and PrefixQuery leave listed/store alone, so states that differ only
\* in the arguments recorded in `out` have the same successors: they are
\* identified by the VIEW unless they violate a clause (invariants are
\* evaluated before a state is identified with a seen one).
OutOK == MatchIffListed /\ PrefixQueryExact /\ MalformedRefused
view == <<listed, store, out.kind, OutOK>>

-----------------------------------------------------------------------------
(* Constants for the configurations (sequences cannot be written in a cfg) *)

RECURSIVE Join(_)
Join(n) == IF Len(n) = 1 THEN n[1] ELSE n[1] \o "." \o Join(Tail(n))

\* A miniature PSL over the labels {a, blogspot, com, co, uk}; these entries
\* are the real list's: com, uk, co.uk ICANN; blogspot.com, co.com private.
\* "a" and "blogspot" as TLDs are unmanaged.
McIcann == {<<"com">>, <<"uk">>, <<"co", "uk">>}
McPrivate == {<<"blogspot", "com">>, <<"co", "com">>}

\* Stand-in for SHA-256: names with the same first label share the two-byte
\* prefix, "a" and "blogspot" share one too; the rest identifies the name.
McPrefix == [l \in {"a", "b", "blogspot", "com", "co", "uk", "zzverif"} |->
               CASE l = "a" -> "00aa" [] l = "blogspot" -> "00aa" [] l = "b" -> "00ab"
                 [] l = "com" -> "00ab" [] l = "co" -> "00ac" [] l = "uk" -> "00ac" [] OTHER -> "0b0b"]
McH(n) == [p |-> McPrefix[n[1]], r |-> "-" \o Join(n)]

\* Names around every cut-off.
McListNames == {
    <<"com">>, <<"uk">>, <<"co", "uk">>,                \* registry suffixes
    <<"blogspot", "com">>,                              \* private suffix
    <<"a">>, <<"a", "a">>,                              \* unmanaged TLD and a name under it
    <<"a", "com">>, <<"a", "co", "uk">>,                \* registrable names
    <<"a", "blogspot", "com">>,                         \* under the private suffix
    <<"a", "a", "a", "com">>, <<"a", "a", "co", "uk">>, \* four labels
    <<"a", "a", "a", "a", "com">> }                     \* five labels: can never match

McPrefixStrs == {"00aa", "00ab", "00AC", "00ff",        \* well-formed
                 "00aa9999", "00AB0000",                \* legacy
                 "00abzzzz",                            \* legacy, discarded half not hex
                 "00a", "00aa0", "00aa00aa0",           \* bad length
                 "zzzz", "00zz", "zz00aa00"}            \* not hex

\* Behaviour generation: hosts are the list names, their parents and their
\* sub-domains up to three labels deeper.
SimPre == {<<>>} \cup UNION {[1..k -> {"a", "b"}] : k \in 1..3}
SimHosts == UNION {{x \o n : x \in SimPre} \cup Suffixes(n) : n \in ListNames}

\* Behaviour generation: print the action history of every simulated state.
EmitHist == PrintT(<<"BEH", ToJson(hist)>>)
=============================================================================
