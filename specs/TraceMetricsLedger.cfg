SPECIFICATION TraceSpec
CONSTANTS
  Servers = {"s1", "s2"}
  Protos = {"dns", "dot", "doq"}
  Nets = {"udp", "tcp"}
  Fams = {"0", "1", "2"}
  QTypes = {"A", "AAAA", "HTTPS", "ANY", "TYPE65280", "NOQ"}
  Rcodes = {"NOERROR", "NXDOMAIN", "SERVFAIL", "3841"}
  ReqSizes = {0, 40, 600}
  RespSizes = {0, 100, 5000}
  Durs = {0, 5, 2500}
  Ups = {"u1", "u2"}
  FwdNets = {"udp", "tcp"}
  Errs = {"none", "deadline", "nettimeout", "network", "other"}
  CacheLens = {1, 3}
  MaxEvents = 1000000
  KeepHist = FALSE
  Variant = "code"
INVARIANTS ExactlyOnce RequestsHaveRcode ObservedOnce CacheLookups LabelsBounded GaugesShowLast
PROPERTIES TraceNotARequest TraceOnlyOwnMetrics
POSTCONDITION TraceAccepted
CHECK_DEADLOCK FALSE
