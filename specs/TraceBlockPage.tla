--------------------------- MODULE TraceBlockPage ---------------------------
(* Trace validation for EXT6 (block-page refresh and service life cycle).  One
   world = one real websvc.Service with block-page files in a scratch directory:

     Reset     conf: configured block-page servers; seen
     Write     s, v      the file of server s now holds version v
     Remove    s
     Refresh   ret, failed (servers named in the returned error), seen
     Start     up (listeners accepting connections), want (all listeners)
     Shutdown  ret, up
     End
     ConcReset / ConcRead {s, gz, ver, v0, v1} / ConcEnd   the concurrent run,
               judged per line: ver must be a complete version in v0..v1

   seen: [{s, plain, gz, st}] what the handler of each configured server
   answers to a request without / with "Accept-Encoding: gzip" right after the
   step (version number, 0 empty, -1 torn, -2 no Content-Encoding).

   A Refresh event is explained by RefreshBegin, RefreshRead / RefreshSwap per
   server (silent) and RefreshDone.                                          *)
EXTENDS BlockPage

VARIABLE l
Trace == ndJsonDeserialize("trace.ndjson")
tvars == <<vars, l>>
E == Trace[l]
SetOf(a) == {a[i] : i \in 1..Len(a)}

\* (a side effect: must be the last conjunct of an action)
Mark == TLCSet(1, IF l + 1 > TLCGet(1) THEN l + 1 ELSE TLCGet(1))
Consume(e) == l <= Len(Trace) /\ E.ev = e /\ l' = l + 1
Peek(e) == l <= Len(Trace) /\ E.ev = e /\ rf.pc = "idle"

TraceInit == Init /\ l = 1 /\ TLCSet(1, 1)

SeenOK(seen, ld, cf) ==
    /\ {seen[k].s : k \in 1..Len(seen)} = cf
    /\ \A k \in 1..Len(seen) : /\ seen[k].plain = ld[seen[k].s].plain
                               /\ seen[k].gz = ld[seen[k].s].gz
                               /\ seen[k].st = 500

TraceReset == /\ Peek("Reset") /\ Consume("Reset") /\ SetOf(E.conf) \subseteq Servers
              /\ conf' = SetOf(E.conf)
              /\ file' = [s \in Servers |-> 0]
              /\ loaded' = [s \in Servers |-> [plain |-> 0, gz |-> 0]]
              /\ rf' = NoRf /\ life' = "new" /\ last' = NoLast /\ lastread' = NoRead /\ hist' = hist
              /\ SeenOK(E.seen, loaded', conf') /\ Mark
TraceEnd == Peek("End") /\ Consume("End") /\ UNCHANGED vars /\ Mark

TraceWrite == /\ Peek("Write") /\ Consume("Write") /\ E.v \in 1..MaxV
              /\ IF file[E.s] = E.v THEN UNCHANGED vars ELSE Write(E.s, E.v)
              /\ Mark
TraceRemove == /\ Peek("Remove") /\ Consume("Remove")
               /\ IF file[E.s] = 0 THEN UNCHANGED vars ELSE Remove(E.s)
               /\ Mark

TraceRefreshBegin == Peek("Refresh") /\ RefreshBegin /\ UNCHANGED l
TraceRefreshStep == /\ l <= Len(Trace) /\ E.ev = "Refresh" /\ rf.pc # "idle"
                    /\ (RefreshRead \/ RefreshSwap \/ RefreshSwap2) /\ UNCHANGED l
TraceRefreshDone == /\ l <= Len(Trace) /\ E.ev = "Refresh" /\ l' = l + 1
                    /\ RefreshDone
                    /\ last'.ret = E.ret /\ last'.failed = SetOf(E.failed)
                    /\ SeenOK(E.seen, loaded', conf)
                    /\ Mark

TraceStart == /\ Peek("Start") /\ Consume("Start") /\ Start
              /\ SetOf(E.up) = SetOf(E.want) /\ Mark
TraceShutdown == /\ Peek("Shutdown") /\ Consume("Shutdown") /\ Shutdown
                 /\ E.ret = "ok" /\ Len(E.up) = 0 /\ Mark

ConcReasons(e) ==
    (IF e.ver = -1 THEN {"a request was served something that is no complete version of the page"} ELSE {})
    \cup (IF e.ver = -2 THEN {"compressed page without Content-Encoding"} ELSE {})
    \cup (IF e.ver >= 0 /\ ~(e.ver >= e.v0 /\ e.ver <= e.v1)
          THEN {"the page served is none of the versions in force during the request"} ELSE {})
TraceConc == /\ l <= Len(Trace) /\ E.ev \in {"ConcReset", "ConcRead", "ConcEnd"} /\ rf.pc = "idle"
             /\ l' = l + 1 /\ UNCHANGED vars
             /\ IF E.ev = "ConcRead"
                THEN LET r == ConcReasons(E) IN IF r = {} THEN TRUE ELSE PrintT(<<"NONCONF", l, r>>)
                ELSE TRUE
             /\ Mark

TraceStep == \/ TraceReset \/ TraceEnd \/ TraceWrite \/ TraceRemove
             \/ TraceRefreshBegin \/ TraceRefreshStep \/ TraceRefreshDone
             \/ TraceStart \/ TraceShutdown \/ TraceConc
TraceNext == TraceStep /\ UNCHANGED dice
TraceSpec == TraceInit /\ [][TraceNext]_tvars

TraceAccepted ==
    IF TLCGet(1) = Len(Trace) + 1 THEN TRUE
    ELSE PrintT(<<"STUCK", TLCGet(1), Len(Trace)>>) /\ FALSE
=============================================================================
