\* sanity: two writes, interleaved writers -> a terminated line that is not one object
SPECIFICATION Spec
CONSTANTS
  Writers = {1, 2, 3}
  MaxPerWriter = 2
  TwoWrites = TRUE
  SharedBuffer = FALSE
INVARIANTS LinesIntact
CHECK_DEADLOCK FALSE
