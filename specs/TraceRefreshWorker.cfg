SPECIFICATION TraceSpec
CONSTANTS
  RosSet = {FALSE}
  RndSet = {FALSE}
  Joins = FALSE
  MaxTick = 1000000
  MaxRefr = 1000000
  MaxShut = 1000000
  CtxKinds = {"nodeadline", "open"}
  Defect = "none"
  KeepHist = FALSE
INVARIANTS TypeOK NoOverlap FinalRefreshIffConfigured FinalBeforeStop ErrorDoesNotStopLoop RefreshContextBounded ShutdownResult FirstShutdownQuiet NoRefreshOnceDoneSeen LateRefreshBounded
PROPERTIES NoTakeAfterStop
POSTCONDITION TraceAccepted
CHECK_DEADLOCK FALSE
