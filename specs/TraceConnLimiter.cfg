SPECIFICATION TraceSpec
CONSTANTS
  KeepHist = FALSE
  Lsn = {"l1", "l2", "l3"}
  MaxStop = 8
  MaxConns = 100000
  MaxAccepts = 100000
  BroadcastOnDec = TRUE
  CheckClosedFirst = TRUE
INVARIANTS CounterExact Bound SatMatches NoLostWakeup CloseReleasesWaiters
POSTCONDITION TraceAccepted
CHECK_DEADLOCK FALSE
