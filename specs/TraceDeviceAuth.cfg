SPECIFICATION TraceSpec
CONSTANTS
  FullProduct = FALSE
  Defect = "none"
POSTCONDITION TraceAccepted
CHECK_DEADLOCK FALSE
