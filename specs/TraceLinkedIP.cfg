SPECIFICATION TraceSpec
CONSTANTS
  Methods = {"GET"}
  Alphabet = {"x"}
  MaxLen = 1
  RejectDotSegments = TRUE
POSTCONDITION TraceAccepted
CHECK_DEADLOCK FALSE
