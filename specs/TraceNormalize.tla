--------------------------- MODULE TraceNormalize ---------------------------
(* Per-line validation of replies produced by the real write paths of
   internal/dnsserver (in-package: the response writers with fake connections;
   socket level: bytes received by a client from the real servers).

   Each line carries the request EDNS settings, the configured maximum, the
   handler response and the MEASURED reply:
     p, qopt, qsize, qdo, qpad, qka, cfg, hrec, htc, hdo,
     full  (packed length of all handler records + the OPT the reply carries),
     slack (bytes of the limit that the DNSCrypt library keeps for its header),
     sent (a reply arrived), rcode, hrcode, wire (bytes written / received),
     parsed, tc, an, rec,
     opt, osize, over, odo, pad, ka.
   The module is instantiated with MIN = 512 and MAX = 65535, so Limit is
   computed by the spec from the request and the configuration, and the
   clauses of Normalize.tla are evaluated on the observation.                  *)
EXTENDS Normalize, Json, Sequences

VARIABLE l
Trace == ndJsonDeserialize("trace.ndjson")
tvars == <<vars, l>>

\* The handler's reply counts as delivered when a reply arrived that decodes
\* and carries the handler's rcode (the servers answer SERVFAIL when writing
\* the handler's reply failed).
Delivered(e) == e.sent /\ e.parsed /\ e.rcode = e.hrcode
LineReasons(e) ==
    IF e.sent /\ ~e.parsed THEN {"reply does not decode"}
    ELSE IF e.sent /\ e.rcode # e.hrcode THEN {"handler response replaced by an error reply"}
    ELSE Reasons([e EXCEPT !.sent = Delivered(e)])

TraceInit == /\ p = "dns-udp" /\ q = NoOpt /\ cfg = MAX /\ h = NoHandler /\ ready = FALSE
             /\ l = 1
TraceNext == /\ l <= Len(Trace) /\ l' = l + 1 /\ UNCHANGED vars
             /\ LET r == LineReasons(Trace[l]) IN
                IF r = {} THEN TRUE ELSE PrintT(<<"NONCONF", l, OLimit(Trace[l]), r>>)
TraceSpec == TraceInit /\ [][TraceNext]_tvars
TraceAccepted == LET d == TLCGet("stats").diameter IN
    IF d - 1 = Len(Trace) THEN TRUE ELSE PrintT(<<"STUCK", d, Len(Trace)>>) /\ FALSE
=============================================================================
