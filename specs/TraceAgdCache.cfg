SPECIFICATION TraceSpec
CONSTANTS
  Keys = {"k1", "k2", "k3", "k4"}
  Vals = {"v1", "v2"}
  Cap1 = 2
  Cap2 = 1
  Ids = {"a", "b"}
  MaxOps = 1000000
  KeepHist = FALSE
  Variant = "code"
INVARIANTS LenBound Coherent KeptIsLatest EmptyIsEmpty GetContract LenContract SetContract
PROPERTIES EvictsLRU TraceLossOnlyByEvictOrClear ClearExactly ClearByIDExactly AddReplaces ReadsDontWrite SetIsLocal
POSTCONDITION TraceAccepted
CHECK_DEADLOCK FALSE
