--------------------------- MODULE TraceAllowlist ---------------------------
(* Trace validation for EXT4 (allow-list refresh).  One world = one
   DynamicAllowlist with its AllowlistUpdater behind an httptest endpoint:

     Reset    pers: the configured (persistent) abstract addresses
     Refresh  mode, list: what the endpoint served (abstract addresses of the
              well-formed records); ret: "ok" / "err" as returned by
              AllowlistUpdater.Refresh; probe: the abstract addresses for which
              IsAllowed answered true right after the call (every concrete
              representative is asked; `mixed` lists addresses whose
              representatives disagree, `stray` outsiders that were allowed);
              collected / status: the error collector / the metrics saw an error
     Read     a concurrent IsAllowed: ip, got, v0 = refreshes completed before
              the call, v1 = refreshes started before the return
     End

   A Refresh event is explained by RefreshBegin (silent) followed by
   RefreshApply or RefreshFail; Read lines are judged one by one against the
   version history (non-blocking, NONCONF).                                  *)
EXTENDS Allowlist

VARIABLE l
Trace == ndJsonDeserialize("trace.ndjson")
tvars == <<vars, l>>
E == Trace[l]
SetOf(s) == {s[j] : j \in 1..Len(s)}

Mark == TLCSet(1, IF l + 1 > TLCGet(1) THEN l + 1 ELSE TLCGet(1))
Consume(e) == l <= Len(Trace) /\ E.ev = e /\ l' = l + 1

Fresh(p) == /\ pers0' = p /\ pers' = p /\ dyn' = {} /\ vers' = <<{}>>
            /\ rf' = NoRefresh /\ nstart' = 0
            /\ rd' = [r \in Readers |-> Idle] /\ nreads' = 0
            /\ lastr' = [res |-> "", mode |-> "", list |-> {}, prev |-> {}]
            /\ lastread' = [r |-> "", ip |-> 0, ans |-> FALSE, v0 |-> 0, v1 |-> 0]

TraceInit == /\ pers0 = {} /\ pers = {} /\ dyn = {} /\ vers = <<{}>>
             /\ rf = NoRefresh /\ nstart = 0
             /\ rd = [r \in Readers |-> Idle] /\ nreads = 0
             /\ lastr = [res |-> "", mode |-> "", list |-> {}, prev |-> {}]
             /\ lastread = [r |-> "", ip |-> 0, ans |-> FALSE, v0 |-> 0, v1 |-> 0]
             /\ hist = <<>> /\ l = 1 /\ TLCSet(1, 1)

TraceReset == Consume("Reset") /\ rf.pc = "idle" /\ Fresh(SetOf(E.pers)) /\ hist' = hist /\ Mark
TraceEnd == Consume("End") /\ rf.pc = "idle" /\ UNCHANGED vars /\ Mark

TraceRefreshBegin == /\ l <= Len(Trace) /\ E.ev = "Refresh" /\ rf.pc = "idle"
                     /\ E.mode \in Modes
                     /\ RefreshBegin(E.mode, SetOf(E.list)) /\ UNCHANGED l

TraceRefreshEnd == /\ Consume("Refresh") /\ rf.pc = "loading" /\ rf.mode = E.mode
                   /\ IF E.ret = "ok" THEN RefreshApply ELSE RefreshFail
                   /\ SetOf(E.probe) = pers0 \cup dyn'
                   /\ E.mixed = <<>> /\ E.stray = <<>>
                   /\ E.status = (E.ret # "ok")
                   /\ E.collected = (E.ret # "ok")
                   /\ Mark

ReadReasons(e) ==
    (IF ReadOK(e.ip, e.got, e.v0, e.v1) THEN {}
     ELSE {"IsAllowed answered from none of the lists in force during the call"})
    \cup (IF e.ip \in pers0 /\ ~e.got THEN {"a configured (persistent) entry was not allowed"} ELSE {})

TraceRead == /\ l <= Len(Trace) /\ E.ev = "Read" /\ rf.pc = "idle" /\ l' = l + 1 /\ Mark
             /\ UNCHANGED vars
             /\ LET r == ReadReasons(E) IN IF r = {} THEN TRUE ELSE PrintT(<<"NONCONF", l, r>>)

TraceNext == TraceReset \/ TraceEnd \/ TraceRefreshBegin \/ TraceRefreshEnd \/ TraceRead
TraceSpec == TraceInit /\ [][TraceNext]_tvars

TraceAccepted ==
    IF TLCGet(1) = Len(Trace) + 1 THEN TRUE
    ELSE PrintT(<<"STUCK", TLCGet(1), Len(Trace)>>) /\ FALSE
=============================================================================
