SPECIFICATION Spec
CONSTANTS
  Keys = {"k1", "k2", "k3"}
  RowSets = {{"ra"}, {"rb"}}
  Rec = {"p1", "p2"}
  Dmp = {"d1", "d2"}
  MaxSize = 2
  MaxRecords = 4
  MaxDumps = 2
  KeepHist = FALSE
  Variant = "servenew"
VIEW view
INVARIANTS TypeOK Conservation LossOnlyInRace SizeBound GaugeIsSize
PROPERTIES FrozenWhenFull FirstAnswersKept ServedGrows DumpStartsEmpty IgnoredChangesNothing
CHECK_DEADLOCK FALSE
