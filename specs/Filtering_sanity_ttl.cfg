SPECIFICATION Spec
CONSTANTS
  Part = "shape"
  Variant = "default_ttl"
INVARIANTS TTLIsProfiles
