SPECIFICATION Spec
CONSTANTS
  Defect = "drop_bills"
INVARIANTS BlockedLeavesNoTrace
CHECK_DEADLOCK FALSE
