SPECIFICATION Spec
CONSTANTS
  MaxPats = 3
  Defect = "none"
INVARIANTS TypeOK OnlyPostActs NothingOnError WildcardAlone WildcardOnlyAlone EmptyRejected ErrorsIsolated UnknownIgnored ExactMatchesItself GlobIsPathMatch
CHECK_DEADLOCK FALSE
