SPECIFICATION Spec
CONSTANTS
  KeepHist = FALSE
  Ids = {"a", "b"}
  KnownIfaces = {"eth0", "eth1"}
  UnknownIface = "nx"
  Ports = {0, 53}
  W = 2
  BufInit = 1
  MaxReg = 3
  MaxItems = 0
  Kinds = {"tcp"}
  Defect = "none"
VIEW view
INVARIANTS TypeOK RegistrationSound DecisionConsistent
CHECK_DEADLOCK FALSE
