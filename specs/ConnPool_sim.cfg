SPECIFICATION Spec
CONSTANTS
  Callers = {"a", "b"}
  MaxConn = 6
  CapSet = {0, 1, 2, 3}
  TmoSet = {0, 1, 2, 3}
  MaxTime = 14
  MaxOps = 14
  Defect = "none"
  KeepHist = TRUE
CONSTRAINT EmitHist
CHECK_DEADLOCK FALSE
