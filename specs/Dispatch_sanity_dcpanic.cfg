SPECIFICATION Spec
CONSTANTS
  Transports = {"udp", "tcp", "dot", "doh-post", "doh-get", "doh-json", "doq", "dnscrypt-udp", "dnscrypt-tcp"}
  MaxInputs = 3
  Defect = "none"
  DCRecover = FALSE
INVARIANTS ListenerStaysUp
CHECK_DEADLOCK FALSE
