------------------------- MODULE TraceFilterRefresh -------------------------
(* Trace validation for C13.  Events recorded from the real
   filterstorage.Default + hashprefix.Filter (harness c13_test.go) and from a
   SIGKILLed child process + verifier (c13crash_test.go):

     Reset{absent}                 a fresh storage; rule lists in `absent` never loaded
     Round{faults, remote}         one refresh round ran with these faults (produced for real)
     Probe{served, disk, applied}  served versions revealed by filtering queries, cache files
                                   read back and classified, and whether the index version of
                                   this round was used for the rule-list downloads
     Crash{disk}                   the process died (dropped in-process at a quiescent point,
                                   or SIGKILLed anywhere inside the round); cache files classified
     Restart{up, ok, served, disk} a new process did its initial refresh (network up / down)

   Between Round and the next event the steps of the round are silent actions
   of FilterRefresh (faults bound to the recorded ones); a Crash event may be
   consumed after any number of them -- TLC searches for a crash point that
   explains the observed files.  Version numbers: 0 nothing, k complete
   version k, -1 anything else (partial, mixed, garbled).

   The property clauses are, in addition, evaluated directly on what was
   observed (Obs* invariants), so that a violation is named even where the
   model and the code part ways.                                            *)
EXTENDS FilterRefresh

VARIABLES l,      \* next event
          rf,     \* faults of the recorded round
          obs,    \* last observation
          oprev   \* observation that is the baseline of the current round
tvars == <<vars, l, rf, obs, oprev>>
Trace == ndJsonDeserialize("trace.ndjson")
E == Trace[l]
ObsLists == Lists \ {"ridx"}

Mark == TLCSet(1, IF l + 1 > TLCGet(1) THEN l + 1 ELSE TLCGet(1))
Consume(e) == l <= Len(Trace) /\ E.ev = e /\ l' = l + 1 /\ Mark

NoObs == [kind |-> "none", served |-> [x \in ObsLists |-> 0], disk |-> Zero, applied |-> FALSE, ok |-> TRUE]

TraceInit == Init /\ l = 1 /\ rf = NoFaults /\ obs = NoObs /\ oprev = NoObs /\ TLCSet(1, 1)

TraceReset ==
    /\ Consume("Reset")
    /\ LET A == {E.absent[j] : j \in 1..Len(E.absent)} IN
       /\ served' = [x \in Lists |-> IF x \in A THEN 0 ELSE 1]
       /\ disk' = [x \in Lists |-> IF x \in A THEN 0 ELSE 1]
       /\ obs' = [kind |-> "reset", served |-> [x \in ObsLists |-> IF x \in A THEN 0 ELSE 1],
                  disk |-> [x \in Lists |-> IF x \in A THEN 0 ELSE 1], applied |-> FALSE, ok |-> TRUE]
    /\ oprev' = obs'
    /\ remote' = [x \in Lists |-> 1] /\ fault' = NoFaults /\ rf' = NoFaults
    /\ prev' = served' /\ dprev' = disk'
    /\ pending' = Zero /\ got' = "none" /\ pc' = Idle /\ alive' = TRUE /\ phase' = "start" /\ rounds' = 0
    /\ ownBad' = {} /\ svcBad' = {} /\ hist' = hist

TraceRound ==
    /\ Consume("Round") /\ StartRound
    /\ rf' = E.faults
    /\ \A x \in Lists : remote'[x] = E.remote[x]
    /\ oprev' = obs /\ obs' = [obs EXCEPT !.kind = "running"]

Silent ==
    /\ \/ \E x \in Lists : Fetch(x, rf[x]) \/ Write(x) \/ Compile(x) \/ Swap(x)
       \/ SwapMap
    /\ UNCHANGED <<l, rf, obs, oprev>>

TraceProbe ==
    /\ Consume("Probe") /\ alive /\ pc.i = 0
    /\ obs' = [kind |-> IF phase = "run" THEN "round" ELSE "probe", served |-> E.served, disk |-> E.disk,
               applied |-> E.applied, ok |-> TRUE]
    /\ UNCHANGED <<vars, rf, oprev>>

\* A crash point must explain the files found -- unless they are not even
\* complete versions, which ObsDiskAlwaysComplete then reports by name.
DiskLegal(d) == \A x \in Lists : d[x] >= 0 /\ d[x] \in {oprev.disk[x], remote[x]}
TraceCrash ==
    /\ Consume("Crash") /\ Crash
    /\ (\A x \in Lists : E.disk[x] = disk[x]) \/ ~DiskLegal(E.disk)
    /\ obs' = [kind |-> "crash", served |-> [x \in ObsLists |-> 0], disk |-> E.disk, applied |-> FALSE, ok |-> TRUE]
    /\ UNCHANGED <<rf, oprev>>

TraceRestart ==
    /\ Consume("Restart") /\ Restart(E.up)
    /\ obs' = [kind |-> "restart", served |-> E.served, disk |-> E.disk, applied |-> FALSE, ok |-> E.ok]
    /\ UNCHANGED <<rf, oprev>>

TraceNext == TraceReset \/ TraceRound \/ Silent \/ TraceProbe \/ TraceCrash \/ TraceRestart
TraceSpec == TraceInit /\ [][TraceNext]_tvars

-----------------------------------------------------------------------------
\* the property on the observations themselves
OFailing(x) == Failing(rf[x]) \/ (x \in RLs /\ x = Victim /\ rf["ridx"] = "invown")
\* was list x reached by the round at all, going by the recorded faults?
IdxFailed == Failing(rf["ridx"])
ObsFaultyKeepsPrevious ==
    obs.kind = "round" => \A x \in ObsLists : OFailing(x) => obs.served[x] = oprev.served[x]
ObsOthersPreviousOrNew ==
    obs.kind = "round" => \A x \in ObsLists : obs.served[x] \in {oprev.served[x], remote[x]} /\ obs.served[x] >= 0
ObsValidIndexEntriesApplied ==
    obs.kind = "round" /\ rf["ridx"] \in {"ok", "inv", "invown"} /\ rf["sidx"] \in {"ok", "inv"} /\ rf["ss"] = "ok"
    => /\ obs.applied
       /\ \A x \in RLs : rf[x] = "ok" /\ ~OFailing(x) => obs.served[x] = remote[x]
       /\ obs.served["sidx"] = remote["sidx"]
ObsFaultyIndexNotApplied == obs.kind = "round" /\ IdxFailed => ~obs.applied
ObsDiskAlwaysComplete ==
    obs.kind \in {"round", "crash", "restart", "probe"} =>
        \A x \in Lists : obs.disk[x] >= 0 /\ obs.disk[x] \in {oprev.disk[x], remote[x]}
ObsRestartUsable ==
    obs.kind = "restart" =>
        /\ obs.ok
        /\ \A x \in ObsLists : obs.disk[x] > 0 /\ ~(x \in RLs /\ x = Victim /\ obs.disk["ridx"] \in ownBad)
                               => obs.served[x] = obs.disk[x]
\* ... and the model explains them
ObsMatchesModel ==
    /\ obs.kind \in {"round", "probe", "restart"} /\ obs.ok /\ alive =>
          /\ \A x \in ObsLists : obs.served[x] = served[x]
          /\ \A x \in Lists : obs.disk[x] = disk[x]
    /\ obs.kind = "round" => obs.applied = (served["ridx"] = remote["ridx"])
    /\ obs.kind = "restart" => obs.ok = alive

TraceAccepted ==
    IF TLCGet(1) = Len(Trace) + 1 THEN TRUE
    ELSE PrintT(<<"STUCK", TLCGet(1), Len(Trace)>>) /\ FALSE
=============================================================================
