------------------------- MODULE TraceFilterRefresh -------------------------
(* Trace validation for C13.  Events recorded from the real
   filterstorage.Default + hashprefix.Filter (harness c13_test.go):

     Reset{absent}                 a fresh storage; rule lists in `absent` never loaded
     Round{faults, remote}         one refresh round ran with these faults (produced for real)
     Probe{served, disk, applied}  served versions revealed by filtering queries, cache files
                                   read back and classified, and whether the index version of
                                   this round was used for the rule-list downloads
     Crash{disk}                   the process died (dropped in-process at a quiescent point,
                                   or SIGKILLed anywhere inside the round); cache files classified
     Restart{up, ok, served, disk} a new process did its initial refresh (network up / down)

   Between Round and the next event the steps of the round are silent actions
   of FilterRefresh (faults bound to the recorded ones); a Crash event may be
   consumed after any number of them -- TLC searches for a crash point that
   explains the files found.  Version numbers: 0 nothing, k complete version
   k, -1 anything else (partial, mixed, garbled).

   Every observation is checked twice: the property clauses are evaluated
   directly on what was observed, and the observation is compared with the
   state of the model.  A failing observation does not block: it is printed as
   <<"NONCONF", event number, <<failed clauses>>, model served, model disk>>
   and the model is re-synchronised with the observation, so that every
   failing event of a run is reported.                                       *)
EXTENDS FilterRefresh

VARIABLES l,      \* next event
          rf,     \* faults of the recorded round
          obs,    \* last observation
          oprev   \* observation that is the baseline of the current round
tvars == <<vars, l, rf, obs, oprev>>
Trace == ndJsonDeserialize("trace.ndjson")
E == Trace[l]
ObsLists == Lists \ {"ridx"}

Mark == TLCSet(1, IF l + 1 > TLCGet(1) THEN l + 1 ELSE TLCGet(1))
Consume(e) == l <= Len(Trace) /\ E.ev = e /\ l' = l + 1 /\ Mark

NoObs == [kind |-> "none", served |-> [x \in ObsLists |-> 0], disk |-> Zero, applied |-> FALSE, ok |-> TRUE]

-----------------------------------------------------------------------------
\* the property on an observation o with baseline b
OFailing(x) == Failing(rf[x]) \/ (x \in RLs /\ x = Victim /\ rf["ridx"] = "invown")
CFaultyKeepsPrevious(o, b) == \A x \in ObsLists : OFailing(x) => o.served[x] = b.served[x]
COthersPreviousOrNew(o, b) == \A x \in ObsLists : o.served[x] \in {b.served[x], remote[x]} /\ o.served[x] >= 0
CValidIndexEntriesApplied(o, b) ==
    rf["ridx"] \in {"ok", "inv", "invown"} /\ rf["sidx"] \in {"ok", "inv"} /\ rf["ss"] = "ok"
    /\ (\A x \in RLs : rf[x] # "cancel")
    => /\ o.applied
       /\ \A x \in RLs : rf[x] = "ok" /\ ~OFailing(x) => o.served[x] = remote[x]
       /\ o.served["sidx"] = remote["sidx"]
CFaultyIndexNotApplied(o, b) == Failing(rf["ridx"]) => ~o.applied
CDiskAlwaysComplete(o, b) == \A x \in Lists : o.disk[x] >= 0 /\ o.disk[x] \in {b.disk[x], remote[x]}
CRestartUsable(o, b) ==
    /\ o.ok
    /\ \A x \in ObsLists : o.disk[x] > 0 /\ ~(x \in RLs /\ x = Victim /\ o.disk["ridx"] \in ownBad)
                           => o.served[x] = o.disk[x]
\* ... and the model explains it (ms, md, mok: what the model says)
CMatchesModel(o, ms, md, mok) ==
    /\ o.ok = mok
    /\ mok => /\ \A x \in ObsLists : o.served[x] = ms[x]
              /\ \A x \in Lists : o.disk[x] = md[x]
              /\ o.kind = "round" => o.applied = (ms["ridx"] = remote["ridx"])

N(c, name) == IF c THEN <<>> ELSE <<name>>
RoundBad(o, b) ==
    N(CFaultyKeepsPrevious(o, b), "FaultyKeepsPrevious") \o N(COthersPreviousOrNew(o, b), "OthersPreviousOrNew")
    \o N(CValidIndexEntriesApplied(o, b), "ValidIndexEntriesApplied") \o N(CFaultyIndexNotApplied(o, b), "FaultyIndexNotApplied")
    \o N(CDiskAlwaysComplete(o, b), "DiskAlwaysComplete") \o N(CMatchesModel(o, served, disk, alive), "MatchesModel")
ProbeBad(o, b) ==
    N(CDiskAlwaysComplete(o, b), "DiskAlwaysComplete") \o N(CMatchesModel(o, served, disk, alive), "MatchesModel")
Report(bad) == IF bad = <<>> THEN TRUE ELSE PrintT(<<"NONCONF", l, bad, served, disk>>)

\* the model continues from what was observed
Resync(o) ==
    /\ served' = [x \in Lists |-> IF x = "ridx"
                                  THEN (IF o.kind = "round" THEN (IF o.applied THEN remote[x] ELSE prev[x]) ELSE o.disk[x])
                                  ELSE o.served[x]]
    /\ disk' = o.disk
    /\ alive' = o.ok

-----------------------------------------------------------------------------
TraceInit == Init /\ disk = [x \in Lists |-> 1] /\ l = 1 /\ rf = NoFaults /\ obs = NoObs /\ oprev = NoObs /\ TLCSet(1, 1)

TraceReset ==
    /\ Consume("Reset")
    /\ LET A == {E.absent[j] : j \in 1..Len(E.absent)} IN
       /\ served' = [x \in Lists |-> IF x \in A THEN 0 ELSE 1]
       /\ disk' = [x \in Lists |-> IF x \in A THEN 0 ELSE 1]
       /\ obs' = [kind |-> "reset", served |-> [x \in ObsLists |-> IF x \in A THEN 0 ELSE 1],
                  disk |-> [x \in Lists |-> IF x \in A THEN 0 ELSE 1], applied |-> FALSE, ok |-> TRUE]
    /\ oprev' = obs'
    /\ remote' = [x \in Lists |-> 1] /\ fault' = NoFaults /\ rf' = NoFaults
    /\ prev' = served' /\ dprev' = disk'
    /\ pending' = Zero /\ got' = "none" /\ pc' = Idle /\ alive' = TRUE /\ phase' = "start" /\ rounds' = 0
    /\ ownBad' = {} /\ svcBad' = {} /\ hist' = <<>>

TraceRound ==
    /\ Consume("Round") /\ StartRound
    /\ rf' = E.faults
    /\ \A x \in Lists : remote'[x] = E.remote[x]
    /\ oprev' = obs /\ obs' = [obs EXCEPT !.kind = "running"]

Silent ==
    /\ \/ \E x \in Lists : Fetch(x, rf[x]) \/ Write(x) \/ Compile(x) \/ Swap(x)
       \/ SwapMap
    /\ UNCHANGED <<l, rf, obs, oprev>>

TraceProbe ==
    /\ Consume("Probe") /\ pc.i = 0
    /\ LET o == [kind |-> IF phase = "run" THEN "round" ELSE "probe", served |-> E.served, disk |-> E.disk,
                 applied |-> E.applied, ok |-> TRUE]
       IN /\ Report(IF o.kind = "round" THEN RoundBad(o, oprev) ELSE ProbeBad(o, oprev))
          /\ obs' = o
          /\ Resync(o)
    /\ UNCHANGED <<remote, fault, prev, dprev, pending, got, pc, phase, rounds, ownBad, svcBad, hist, rf, oprev>>

\* A crash point must explain the files found -- unless they are not even
\* complete versions, which is reported by name.
TraceCrash ==
    /\ Consume("Crash") /\ Crash
    /\ LET o == [kind |-> "crash", served |-> [x \in ObsLists |-> 0], disk |-> E.disk, applied |-> FALSE, ok |-> TRUE]
       IN /\ obs' = o
          /\ IF CDiskAlwaysComplete(o, oprev)
             THEN \A x \in Lists : E.disk[x] = disk[x]
             ELSE PrintT(<<"NONCONF", l, <<"DiskAlwaysComplete">>, served, disk>>)
    /\ UNCHANGED <<rf, oprev>>

TraceRestart ==
    /\ Consume("Restart") /\ ~alive
    /\ LET o == [kind |-> "restart", served |-> E.served, disk |-> E.disk, applied |-> FALSE, ok |-> E.ok]
           r == RestartResult(E.up)
       IN /\ Report(N(CRestartUsable(o, oprev), "RestartUsable") \o N(CDiskAlwaysComplete(o, oprev), "DiskAlwaysComplete")
                    \o N(CMatchesModel(o, r.served, r.disk, r.ok), "MatchesModel"))
          /\ obs' = o
          /\ Resync(o)
    /\ phase' = "start" /\ prev' = served' /\ dprev' = disk' /\ fault' = NoFaults
    /\ UNCHANGED <<remote, pending, got, pc, rounds, ownBad, svcBad, hist, rf, oprev>>

TraceNext == TraceReset \/ TraceRound \/ Silent \/ TraceProbe \/ TraceCrash \/ TraceRestart
TraceSpec == TraceInit /\ [][TraceNext]_tvars

TraceAccepted ==
    IF TLCGet(1) = Len(Trace) + 1 THEN TRUE
    ELSE PrintT(<<"STUCK", TLCGet(1), Len(Trace)>>) /\ FALSE
=============================================================================
