SPECIFICATION Spec
CONSTANTS
  KeepHist = TRUE
  Main <- Main2
  Fall = {"f1", "f2"}
  Defect = "none"
  Backoff = 3
CONSTRAINT EmitHist
CHECK_DEADLOCK FALSE
