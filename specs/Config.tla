------------------------------- MODULE Config -------------------------------
(* C20.  "A configuration that passes validation cannot make request handling
   fail."

   A configuration is the distributed example (config.dist.yaml) with a few
   fields mutated.  A field carries a *value class*; an unmutated field has
   class "typ".  The classes are

     missing   the line is removed (the Go zero value is used)
     neg       a negative number / duration (not for sizes: "-1KB" is a
               malformed token, not a value)
     zero      0, 0s, 0B
     one       the smallest positive value (1, 1s, 1B)
     typ       the distributed value or another ordinary one
     huge      far above anything sensible (for a prefix length: far above the
               address family; for a port: 65535; bounded to 10^6 by the
               harness where the code allocates memory proportional to the
               value -- exhausting memory is not a failure the property names)
     overfam   prefix lengths only: one above the family (33 / 129)
     over      ports only: 65536
     incons    connection_limit.resume only: stop + 1
     <value>   enum fields: the value itself, "bogus" for an unknown one

   Doc(k, v)   the constraint k as DOCUMENTED (doc/configuration.md, the
               comments of config.dist.yaml and the doc comments of the
               constructors the value flows into: "must be positive", ">= 0",
               fits the address family, resume <= stop, ecs_size > 0 with
               type ecs, TTL range per KV type, ...).
   Safe(k, v)  the PRECONDITION of the constructors the values flow into
               (ratelimit.NewBackoff / NewRequestCounter / subnetKey,
               connlimiter.New, gcache via agdcache.NewLRU and
               cache.NewMiddleware, dnsserver.NewServerDNS, the pipeline
               semaphore, forward time-outs, tickers).
   Impl(k, v)  what internal/cmd's validate() methods check; the three
               CONSTANT flags select the behaviour of the pinned tree:
                 IntsValidated  = FALSE: validatePositive ignores every integer
                 PrefixBounded  = FALSE: subnet_key_len is not compared with
                                         the address family
                 EcsSizeChecked = FALSE: ecs_size 0 passes with type ecs

   Properties (checked for every vector with at most MaxMut mutated fields):
     AcceptedImpliesSafe     Impl accepts  =>  every Safe constraint holds
     AcceptedImpliesValid    Impl accepts  =>  every Doc constraint holds
     DocImpliesSafe          the documented contract itself is sufficient
     RejectedNamesProperty   every constraint Impl reports involves a mutated
                             field and is really violated per Doc            *)
EXTENDS Integers, Sequences, FiniteSets, TLC

CONSTANTS IntsValidated, PrefixBounded, EcsSizeChecked, MaxMut, TripleFields

F(kind, req, safe, impl) == [kind |-> kind, req |-> req, safe |-> safe, impl |-> impl]

(* kind: dur int uint size prefix port enum
   req / safe (single-field requirement):
     pos        > 0
     nonneg     >= 0
     posmax     > 0 with a documented upper bound that "huge" exceeds
     nonnegmax  >= 0 with a documented upper bound
     prefix     1 .. family
     prefix0    0 .. family          (no panic in netip.Addr.Prefix)
     enum       one of the documented values
     any        anything that parses
     cross      only constrained together with other fields (see DocCross, SafeCross)
   impl (how validate() checks it on this tree):
     explicit   a hand-written comparison equal to req
     vpdur      validatePositive on a timeutil.Duration (effective)
     vpint      validatePositive on an integer (effective iff IntsValidated)
     free       not checked
     cross      see ImplCross
   filters/custom_filter_cache_size: configuration.md used to say "zero means
   no caching", but the value goes to custom.New -> agdcache.NewLRU, whose
   count "must be positive" (gcache panics otherwise), and validate() passes
   it to validatePositive: modelled as pos.                               *)
FieldList == <<
  <<"ratelimit/response_size_estimate",                              F("size",   "pos",       "pos",       "vpint")>>,
  <<"ratelimit/ipv4/count",                                          F("uint",   "pos",       "pos",       "vpint")>>,
  <<"ratelimit/ipv4/interval",                                       F("dur",    "pos",       "any",       "vpdur")>>,
  <<"ratelimit/ipv4/subnet_key_len",                                 F("prefix", "prefix",    "prefix0",   "vpint")>>,
  <<"ratelimit/ipv6/count",                                          F("uint",   "pos",       "pos",       "vpint")>>,
  <<"ratelimit/ipv6/interval",                                       F("dur",    "pos",       "any",       "vpdur")>>,
  <<"ratelimit/ipv6/subnet_key_len",                                 F("prefix", "prefix",    "prefix0",   "vpint")>>,
  <<"ratelimit/backoff_period",                                      F("dur",    "pos",       "any",       "vpdur")>>,
  <<"ratelimit/backoff_count",                                       F("uint",   "pos",       "any",       "vpint")>>,
  <<"ratelimit/backoff_duration",                                    F("dur",    "pos",       "any",       "vpdur")>>,
  <<"ratelimit/allowlist/refresh_interval",                          F("dur",    "pos",       "pos",       "vpdur")>>,
  <<"ratelimit/allowlist/type",                                      F("enum",   "enum",      "enum",      "explicit")>>,
  <<"ratelimit/connection_limit/stop",                               F("uint",   "pos",       "pos",       "explicit")>>,
  <<"ratelimit/connection_limit/resume",                             F("uint",   "cross",     "cross",     "cross")>>,
  <<"ratelimit/quic/max_streams_per_peer",                           F("int",    "pos",       "nonneg",    "vpint")>>,
  <<"ratelimit/tcp/max_pipeline_count",                              F("uint",   "pos",       "pos",       "vpint")>>,
  <<"cache/type",                                                    F("enum",   "enum",      "enum",      "explicit")>>,
  <<"cache/size",                                                    F("int",    "nonneg",    "nonneg",    "explicit")>>,
  <<"cache/ecs_size",                                                F("int",    "cross",     "cross",     "cross")>>,
  <<"cache/ttl_override/min",                                        F("dur",    "pos",       "any",       "explicit")>>,
  <<"upstream/servers/0/timeout",                                    F("dur",    "pos",       "pos",       "explicit")>>,
  <<"upstream/fallback/servers/0/timeout",                           F("dur",    "pos",       "pos",       "explicit")>>,
  <<"upstream/healthcheck/interval",                                 F("dur",    "pos",       "pos",       "explicit")>>,
  <<"upstream/healthcheck/timeout",                                  F("dur",    "pos",       "pos",       "explicit")>>,
  <<"upstream/healthcheck/backoff_duration",                         F("dur",    "pos",       "any",       "explicit")>>,
  <<"dns/read_timeout",                                              F("dur",    "pos",       "nonneg",    "explicit")>>,
  <<"dns/tcp_idle_timeout",                                          F("dur",    "posmax",    "nonnegmax", "explicit")>>,
  <<"dns/write_timeout",                                             F("dur",    "pos",       "nonneg",    "explicit")>>,
  <<"dns/handle_timeout",                                            F("dur",    "pos",       "pos",       "explicit")>>,
  <<"dns/max_udp_response_size",                                     F("size",   "posmax",    "posmax",    "explicit")>>,
  <<"dnsdb/max_size",                                                F("int",    "pos",       "pos",       "explicit")>>,
  <<"backend/timeout",                                               F("dur",    "nonneg",    "nonneg",    "explicit")>>,
  <<"backend/refresh_interval",                                      F("dur",    "pos",       "pos",       "explicit")>>,
  <<"backend/full_refresh_interval",                                 F("dur",    "pos",       "pos",       "explicit")>>,
  <<"backend/full_refresh_retry_interval",                           F("dur",    "pos",       "pos",       "explicit")>>,
  <<"backend/bill_stat_interval",                                    F("dur",    "pos",       "pos",       "explicit")>>,
  <<"geoip/host_cache_size",                                         F("int",    "pos",       "pos",       "explicit")>>,
  <<"geoip/ip_cache_size",                                           F("int",    "pos",       "pos",       "explicit")>>,
  <<"geoip/refresh_interval",                                        F("dur",    "pos",       "pos",       "explicit")>>,
  <<"check/kv/type",                                                 F("enum",   "enum",      "enum",      "explicit")>>,
  <<"check/kv/ttl",                                                  F("dur",    "cross",     "cross",     "cross")>>,
  <<"web/timeout",                                                   F("dur",    "pos",       "pos",       "explicit")>>,
  <<"safe_browsing/cache_size",                                      F("int",    "pos",       "pos",       "explicit")>>,
  <<"safe_browsing/cache_ttl",                                       F("dur",    "pos",       "pos",       "explicit")>>,
  <<"safe_browsing/refresh_interval",                                F("dur",    "pos",       "pos",       "explicit")>>,
  <<"safe_browsing/refresh_timeout",                                 F("dur",    "pos",       "pos",       "explicit")>>,
  <<"adult_blocking/cache_size",                                     F("int",    "pos",       "pos",       "explicit")>>,
  <<"adult_blocking/cache_ttl",                                      F("dur",    "pos",       "pos",       "explicit")>>,
  <<"adult_blocking/refresh_interval",                               F("dur",    "pos",       "pos",       "explicit")>>,
  <<"adult_blocking/refresh_timeout",                                F("dur",    "pos",       "pos",       "explicit")>>,
  <<"filters/response_ttl",                                          F("dur",    "pos",       "nonneg",    "vpdur")>>,
  <<"filters/custom_filter_cache_size",                              F("int",    "pos",       "pos",       "vpint")>>,
  <<"filters/safe_search_cache_size",                                F("int",    "pos",       "pos",       "vpint")>>,
  <<"filters/refresh_interval",                                      F("dur",    "pos",       "pos",       "vpdur")>>,
  <<"filters/refresh_timeout",                                       F("dur",    "pos",       "pos",       "vpdur")>>,
  <<"filters/index_refresh_timeout",                                 F("dur",    "pos",       "pos",       "vpdur")>>,
  <<"filters/rule_list_refresh_timeout",                             F("dur",    "pos",       "pos",       "vpdur")>>,
  <<"filters/max_size",                                              F("size",   "pos",       "any",       "vpint")>>,
  <<"filters/rule_list_cache/size",                                  F("int",    "pos",       "pos",       "explicit")>>,
  <<"interface_listeners/channel_buffer_size",                       F("int",  "pos", "pos", "explicit")>>,
  <<"interface_listeners/list/eth0_plain_dns/port",                  F("port", "pos", "pos", "explicit")>>,
  <<"network/so_sndbuf",                                             F("size",   "nonnegmax", "nonnegmax", "explicit")>>,
  <<"network/so_rcvbuf",                                             F("size",   "nonnegmax", "nonnegmax", "explicit")>>,
  <<"server_groups/0/ddr/public_records/dns.example.com/https_port", F("port", "cross", "cross", "cross")>>,
  <<"server_groups/0/ddr/public_records/dns.example.com/quic_port",  F("port", "cross", "cross", "cross")>>,
  <<"server_groups/0/ddr/public_records/dns.example.com/tls_port",   F("port", "cross", "cross", "cross")>>,
  <<"server_groups/0/servers/1/protocol",                            F("enum",   "enum",      "enum",      "explicit")>>,
  <<"server_groups/0/servers/5/dnscrypt/inline/es_version",          F("enum", "enum", "enum", "explicit")>>
>>

N == Len(FieldList)
FieldSeq == [i \in 1..N |-> FieldList[i][1]]
FieldNames == {FieldList[i][1] : i \in 1..N}
Fields == [f \in FieldNames |-> FieldList[CHOOSE i \in 1..N : FieldList[i][1] = f][2]]


\* Enumerations: documented values; the first one listed in Typ is the
\* distributed one.
EnumVals(f) ==
    CASE f = "ratelimit/allowlist/type" -> {"consul", "backend"}
      [] f = "cache/type" -> {"simple", "ecs"}
      [] f = "check/kv/type" -> {"cache", "backend", "consul", "redis"}
      \* the second server of the example is DoT; "dnscrypt" is a known
      \* protocol but needs a dnscrypt object, which that server lacks
      [] f = "server_groups/0/servers/1/protocol" -> {"tls", "https", "quic", "dns"}
      [] f = "server_groups/0/servers/5/dnscrypt/inline/es_version" -> {"1", "2"}
      [] OTHER -> {}
EnumTyp(f) ==
    CASE f = "ratelimit/allowlist/type" -> "consul"
      [] f = "cache/type" -> "simple"
      [] f = "check/kv/type" -> "cache"
      [] f = "server_groups/0/servers/1/protocol" -> "tls"
      [] f = "server_groups/0/servers/5/dnscrypt/inline/es_version" -> "1"
      [] OTHER -> "typ"
EnumBad(f) ==
    CASE f = "server_groups/0/servers/1/protocol" -> {"bogus", "missing", "dnscrypt"}
      [] f = "server_groups/0/servers/5/dnscrypt/inline/es_version" -> {"bogus", "missing", "0"}
      [] OTHER -> {"bogus", "missing"}

NumClasses == {"missing", "neg", "zero", "one", "typ", "huge"}
Classes(f) ==
    LET k == Fields[f].kind IN
    CASE k = "enum" -> EnumVals(f) \cup EnumBad(f)
      [] k = "prefix" -> NumClasses \cup {"overfam"}
      [] k = "port" -> NumClasses \cup {"over"}
      [] f = "ratelimit/connection_limit/resume" -> NumClasses \cup {"incons"}
      \* a size has no sign in its grammar ("-1KB" is a malformed token)
      [] k = "size" -> NumClasses \ {"neg"}
      [] OTHER -> NumClasses

\* The class of an unmutated field.
Typ(f) == IF Fields[f].kind = "enum" THEN EnumTyp(f) ELSE "typ"

\* A vector: class of every field.  m is a function from the mutated fields.
Vec(m) == [f \in FieldNames |-> IF f \in DOMAIN m THEN m[f] ELSE Typ(f)]

\* Negative literals do not parse into unsigned Go types, 65536 not into uint16.
Parseable(f, c) ==
    /\ ~(Fields[f].kind \in {"uint", "size", "port"} /\ c = "neg")
    /\ c # "over"

Pos == {"one", "typ", "huge"}
Meets(r, f, c) ==
    CASE r = "pos" -> c \in Pos
      [] r = "nonneg" -> c \in Pos \cup {"zero", "missing"}
      [] r = "posmax" -> c \in {"one", "typ"}
      [] r = "nonnegmax" -> c \in {"missing", "zero", "one", "typ"}
      [] r = "prefix" -> c \in {"one", "typ"}
      [] r = "prefix0" -> c \in {"missing", "zero", "one", "typ"}
      [] r = "enum" -> c \in EnumVals(f)
      [] r = "any" -> TRUE
      [] r = "cross" -> TRUE

\* Representative numbers of the classes of the cross-constrained fields (the
\* harness uses exactly these concretisations for them).
Stop == "ratelimit/connection_limit/stop"
Resume == "ratelimit/connection_limit/resume"
CType == "cache/type"
CSize == "cache/size"
CEcs == "cache/ecs_size"
KvType == "check/kv/type"
KvTTL == "check/kv/ttl"
PHttps == "server_groups/0/ddr/public_records/dns.example.com/https_port"
PQuic == "server_groups/0/ddr/public_records/dns.example.com/quic_port"
PTls == "server_groups/0/ddr/public_records/dns.example.com/tls_port"

Big == 2000000000
Val(f, v) ==
    LET c == v[f] IN
    CASE c \in {"missing", "zero"} -> 0
      [] c = "neg" -> -1
      [] c = "one" -> 1
      [] c = "over" -> 65536
      [] c = "typ" /\ f = Stop -> 1000
      [] c = "typ" /\ f = Resume -> 800
      [] c = "typ" /\ f = KvTTL -> 30              \* seconds
      [] c = "typ" /\ f = PHttps -> 443
      [] c = "typ" /\ f \in {PQuic, PTls} -> 853
      [] c = "huge" /\ f \in {PHttps, PQuic, PTls} -> 65535
      [] c = "huge" /\ f = KvTTL -> 360000000     \* 100000h
      [] c = "huge" -> Big
      [] c = "incons" -> (IF v[Stop] = "typ" THEN 1000
                          ELSE IF v[Stop] = "huge" THEN Big
                          ELSE IF v[Stop] = "one" THEN 1 ELSE 0) + 1

\* ---------------------------------------------------------------- constraints
CrossNames == {"X:connection_limit", "X:cache", "X:check_kv", "X:ddr_ports"}
Constraints == FieldNames \cup CrossNames

CFields(k) ==
    CASE k = "X:connection_limit" -> {Stop, Resume}
      [] k = "X:cache" -> {CType, CSize, CEcs}
      [] k = "X:check_kv" -> {KvType, KvTTL}
      [] k = "X:ddr_ports" -> {PHttps, PQuic, PTls}
      [] OTHER -> {k}

PortsParse(v) == \A p \in {PHttps, PQuic, PTls} : Parseable(p, v[p])

\* As documented.
DocCross(k, v) ==
    CASE k = "X:connection_limit" -> Val(Resume, v) <= Val(Stop, v)
      [] k = "X:cache" -> (v[CType] = "ecs" => v[CEcs] \in Pos)
      [] k = "X:check_kv" ->
            LET t == Val(KvTTL, v) IN
            CASE v[KvType] = "backend" -> t > 0
              [] v[KvType] = "consul" -> t >= 10 /\ t <= 86400
              [] v[KvType] = "redis" -> t >= 1        \* >= 1ms; classes are whole seconds
              [] OTHER -> TRUE
      [] k = "X:ddr_ports" ->
            PortsParse(v) =>
              /\ ~(Val(PHttps, v) # 0 /\ Val(PHttps, v) = Val(PTls, v))
              /\ ~(Val(PHttps, v) = 0 /\ Val(PQuic, v) = 0 /\ Val(PTls, v) = 0)
Doc(k, v) ==
    IF k \in CrossNames THEN DocCross(k, v)
    ELSE Parseable(k, v[k]) /\ Meets(Fields[k].req, k, v[k])

\* Preconditions of the constructors.
SafeCross(k, v) ==
    CASE k = "X:connection_limit" -> Val(Resume, v) <= Val(Stop, v)      \* connlimiter.New
      [] k = "X:cache" ->
            \* cacheConfig.toInternal: size 0 disables the cache; otherwise the
            \* ECS cache builds two gcache LRUs, which panic for a count <= 0
            \/ v[CSize] \in {"zero", "missing"}
            \/ v[CType] # "ecs"
            \/ v[CEcs] \in Pos
      [] k = "X:check_kv" -> DocCross(k, v)
      [] k = "X:ddr_ports" -> TRUE
Safe(k, v) ==
    IF k \in CrossNames THEN SafeCross(k, v)
    ELSE Parseable(k, v[k]) => Meets(Fields[k].safe, k, v[k])

\* What validate() checks.
ImplCross(k, v) ==
    CASE k = "X:connection_limit" -> Val(Resume, v) <= Val(Stop, v)
      [] k = "X:cache" ->
            v[CType] = "ecs" => (IF EcsSizeChecked THEN v[CEcs] \in Pos ELSE v[CEcs] # "neg")
      [] k = "X:check_kv" -> DocCross(k, v)
      [] k = "X:ddr_ports" -> DocCross(k, v)
Impl(k, v) ==
    IF k \in CrossNames THEN ImplCross(k, v)
    ELSE LET c == v[k] fd == Fields[k] IN
         /\ Parseable(k, c)
         /\ CASE fd.impl \in {"explicit", "vpdur"} -> Meets(fd.req, k, c)
              [] fd.impl = "vpint" ->
                    /\ IntsValidated => c \in Pos \cup {"overfam"}
                    /\ (fd.kind = "prefix" /\ PrefixBounded) => c \notin {"overfam", "huge"}
              [] OTHER -> TRUE

DocFailing(v) == {k \in Constraints : ~Doc(k, v)}
ImplFailing(v) == {k \in Constraints : ~Impl(k, v)}
Unsafe(v) == {k \in Constraints : ~Safe(k, v)}
Validate(v) == DocFailing(v) = {}
ImplAccepts(v) == ImplFailing(v) = {}

-----------------------------------------------------------------------------
\* Enumeration: the first mutation is chosen in Init, further ones (with a
\* larger field index, so that every set is visited once) by Next.

VARIABLES m, last
vars == <<m, last>>

Init == \/ m = <<>> /\ last = 0
        \/ MaxMut >= 1 /\ \E i \in 1..N : \E c \in Classes(FieldSeq[i]) \ {Typ(FieldSeq[i])} :
              m = (FieldSeq[i] :> c) /\ last = i
Next == /\ Cardinality(DOMAIN m) >= 1
        /\ Cardinality(DOMAIN m) < MaxMut
        /\ \E i \in (last + 1)..N : \E c \in Classes(FieldSeq[i]) \ {Typ(FieldSeq[i])} :
              \* a third mutation is taken from TripleFields only (bounds the run)
              /\ Cardinality(DOMAIN m) >= 2 => FieldSeq[i] \in TripleFields
              /\ m' = m @@ (FieldSeq[i] :> c) /\ last' = i
Spec == Init /\ [][Next]_vars

V == Vec(m)

BaselineHolds == DOMAIN m = {} => (ImplAccepts(V) /\ Validate(V) /\ Unsafe(V) = {})
AcceptedImpliesSafe == ImplAccepts(V) => Unsafe(V) = {}
AcceptedImpliesValid == ImplAccepts(V) => Validate(V)
DocImpliesSafe == Validate(V) => Unsafe(V) = {}
RejectedNamesProperty ==
    \A k \in ImplFailing(V) : CFields(k) \cap DOMAIN m # {} /\ k \in DocFailing(V)
=============================================================================
