SPECIFICATION Spec
CONSTANTS
  Part = "small"
  Variant = "safety_despite_custom_allow"
INVARIANTS CustomAllowSkipsSafety
