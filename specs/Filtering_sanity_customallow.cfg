SPECIFICATION Spec
CONSTANTS
  Part = "rules"
  Variant = "safety_despite_custom_allow"
INVARIANTS CustomAllowSkipsSafety
