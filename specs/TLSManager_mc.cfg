SPECIFICATION Spec
CONSTANTS
  Pairs = {"p1", "p2"}
  CertIds = {"A1", "A2", "B1"}
  BadContents = {"garbage"}
  NTP = 0
  TicketContents = {}
  MaxCfg = 1
  MaxSess = 0
  SNIs = {"a", "b", "empty", "unk"}
  Defect = "none"
  KeepHist = FALSE
  AllowRefreshFail = TRUE
  Atomic = FALSE
VIEW view
INVARIANTS TypeOK StoredNeverNil NoDuplicatePairs HandshakeSeesLoadedCert AllConfigsSameTickets KeysAreOneRead SessionsPortable
PROPERTIES PairsOnlyGrow FailedRefreshKeepsOld RefreshIsTotal FailedAddKeepsOld AddStoresTheFile RotationIsTotal FailedRotateKeepsOld
CHECK_DEADLOCK FALSE
