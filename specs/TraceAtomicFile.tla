--------------------------- MODULE TraceAtomicFile ---------------------------
(* Validation of (a) the system calls an unkilled replacement really issued on
   the target's directory (from strace) and (b) what a verifier found on disk
   after a SIGKILL at the entry of the N-th file-related system call.

   Events:
     Begin{absent}                     a replacement starts (target holds OLD, or is absent)
     Sys{op, on}                       op in open|write|sync|rename|other ; on in tmp|target
     End{state}                        the unkilled run finished; verifier's classification
     Kill{n, state}                    killed at syscall n; verifier's classification
   state in  old | new | absent | corrupt                                      *)
EXTENDS AtomicFile, Json

VARIABLES l, absentOK
Trace == ndJsonDeserialize("trace.ndjson")
E == Trace[l]
tvars == <<vars, l, absentOK>>
Step(e) == l <= Len(Trace) /\ E.ev = e /\ l' = l + 1

TBegin == /\ Step("Begin") /\ absentOK' = E.absent
          /\ target' = (IF E.absent THEN "absent" ELSE "old") /\ tmp' = "none" /\ written' = 0 /\ pc' = "start"
\* in-place writes to the target are never part of an atomic replacement
TSys == /\ Step("Sys") /\ UNCHANGED absentOK
        /\ \/ E.op = "open" /\ E.on = "tmp" /\ tmp' = "partial" /\ pc' = "writing" /\ UNCHANGED <<target, written>>
           \/ E.op = "write" /\ E.on = "tmp" /\ pc = "writing" /\ tmp' = "complete" /\ UNCHANGED <<target, written, pc>>
           \/ E.op = "sync" /\ E.on = "tmp" /\ pc \in {"writing", "synced"} /\ pc' = "synced" /\ UNCHANGED <<target, tmp, written>>
           \/ E.op = "rename" /\ E.on = "tmp" /\ pc \in {"writing", "synced"} /\ tmp = "complete"
              /\ target' = "new" /\ tmp' = "none" /\ pc' = "done" /\ UNCHANGED written
           \/ E.op = "other" /\ UNCHANGED vars
TEnd == /\ Step("End") /\ E.state = "new" /\ target = "new" /\ UNCHANGED <<vars, absentOK>>
TKill == /\ Step("Kill") /\ UNCHANGED <<vars, absentOK>>
         /\ (E.state \in {"old", "new"} \/ (E.state = "absent" /\ E.absent))

TraceInit == Init /\ l = 1 /\ absentOK = FALSE
TraceNext == TBegin \/ TSys \/ TEnd \/ TKill
TraceSpec == TraceInit /\ [][TraceNext]_tvars
TraceComplete == target \in {"old", "new"} \/ (absentOK /\ target = "absent")
TraceAccepted == LET d == TLCGet("stats").diameter IN
    IF d - 1 = Len(Trace) THEN TRUE ELSE PrintT(<<"STUCK", d, Len(Trace)>>) /\ FALSE
=============================================================================
