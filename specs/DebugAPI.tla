------------------------------ MODULE DebugAPI ------------------------------
(* EXT7, third component.  internal/debugsvc: the debug HTTP API that runs
   refreshers and clears caches by ID patterns (refresh.go, cache.go, route.go).

   What the documentation says (doc/debughttp.md, doc comments of
   refreshHandler, cacheHandler, isWildcard, matchPatterns):

     * `POST /debug/api/refresh`: "Run some refresh jobs manually.  The `ids`
       is an array of path patterns to match the refreshers IDs."  "The
       special ID `*`, when used alone, causes all available refresh tasks to
       be performed."  The response is `{"results": {<id>: "ok", ...}}`.
     * `POST /debug/api/cache/clear`: the same for caches: "The special ID `*`,
       when used alone, causes all available caches to be purged."
     * isWildcard: "returns an error if the list is empty or contains a
       wildcard pattern mixed with the others" -> 400 Bad Request.
     * refresh: the result of one refresher is "ok" or "error: <text>"; one
       refresher's error does not keep the others from running.
     * route.go: both are POST routes of the API server.

   The module is a decision table.  A request is abstracted to

     api     "refresh" | "cache" | "other" (another path of the same server)
     method  "POST" | "GET" | "PUT"
     body    "malformed" (not JSON) | "wrongtype" (JSON, `ids` not an array of
             strings) | "noids" (an object without `ids`) | "null" (`ids`: null)
             | "empty" (`ids`: []) | "list"
     pats    for "list": 1..MaxPats patterns out of Pats
     fail    the refreshers that answer with an error

   over three registered ids "t", "p/a", "p/b" (one plain id, two below a
   common parent) and the patterns of Pats; MatchTab is the glob relation of
   path.Match on them ("*" and "?" do not cross a "/"; "[" is a malformed
   pattern and matches nothing).

   Decide gives the status, the set of ids whose refresher / cache must have
   been invoked and the result string class per id.  Not decided by the
   documents, hence not in the table: the order of the invocations, and how
   often a job runs that is matched by several patterns of one request
   (recorded as an observation by the trace module).

   Defect (sanity configurations):
     "mixed_wildcard"  "*" together with other ids means everything -> WildcardOnlyAlone
     "empty_is_all"    an empty list means everything               -> EmptyRejected
     "any_method"      GET runs the jobs as well                    -> OnlyPostActs
     "error_stops"     the first failing refresher ends the request -> ErrorsIsolated
     "unknown_fails"   an id that matches nothing is an error       -> UnknownIgnored
     "cross_slash"     "*" inside a pattern crosses "/"             -> GlobIsPathMatch      *)
EXTENDS Naturals, Sequences, FiniteSets, TLC

CONSTANTS MaxPats, Defect

Ids == {"t", "p/a", "p/b"}
Pats == {"*", "t", "p/a", "p/*", "zz", "[", "?", "p*"}
Apis == {"refresh", "cache", "other"}
Methods == {"POST", "GET", "PUT"}
Bodies == {"malformed", "wrongtype", "noids", "null", "empty", "list"}

\* path.Match(pattern, id) on Pats x Ids
MatchTab == {<<"t", "t">>, <<"p/a", "p/a">>, <<"p/*", "p/a">>, <<"p/*", "p/b">>, <<"?", "t">>, <<"*", "t">>}
            \cup (IF Defect = "cross_slash" THEN {<<"p*", "p/a">>, <<"p*", "p/b">>, <<"*", "p/a">>, <<"*", "p/b">>} ELSE {})
Matches(p) == {id \in Ids : <<p, id>> \in MatchTab}

SetOf(s) == {s[i] : i \in 1..Len(s)}
RECURSIVE SeqsUpTo(_)
SeqsUpTo(n) == IF n = 0 THEN {<<>>} ELSE LET S == SeqsUpTo(n - 1) IN S \cup {Append(s, p) : s \in {x \in S : Len(x) = n - 1}, p \in Pats}
PatLists == SeqsUpTo(MaxPats) \ {<<>>}

Requests == [api : Apis, method : Methods, body : Bodies \ {"list"}, pats : {<<>>}, fail : SUBSET Ids]
            \cup [api : Apis, method : Methods, body : {"list"}, pats : PatLists, fail : SUBSET Ids]

Wanted(pats) == IF pats = <<"*">> THEN Ids ELSE UNION {Matches(pats[i]) : i \in 1..Len(pats)}

Nothing(st, why) == [status |-> st, invoked |-> {}, results |-> {}, why |-> why]

\* results: set of <<id, "ok" | "error">>
Decide(r) ==
    IF r.api = "other" THEN Nothing(404, "")
    ELSE IF r.method # "POST" /\ Defect # "any_method" THEN Nothing(405, "")
    ELSE IF r.body \in {"malformed", "wrongtype"} THEN Nothing(400, "decode")
    ELSE IF r.body \in {"noids", "null"} \/ (r.body = "empty" /\ Defect # "empty_is_all") THEN Nothing(400, "noids")
    ELSE LET pats == IF r.body = "empty" THEN <<"*">> ELSE r.pats
             mixed == "*" \in SetOf(pats) /\ Len(pats) > 1
         IN IF mixed /\ Defect # "mixed_wildcard" THEN Nothing(400, "mixed")
            ELSE LET want == IF mixed THEN Ids ELSE Wanted(pats)
                     failing == IF r.api = "refresh" THEN r.fail ELSE {}
                     unknown == \E i \in 1..Len(pats) : pats[i] # "*" /\ Matches(pats[i]) = {}
                     ran == IF Defect = "error_stops" /\ want \cap failing # {}
                            THEN {CHOOSE id \in want \cap failing : TRUE} ELSE want
                 IN IF Defect = "unknown_fails" /\ unknown THEN Nothing(400, "unknown")
                    ELSE [status |-> 200, invoked |-> ran,
                          results |-> {<<id, IF id \in failing THEN "error" ELSE "ok">> : id \in ran}, why |-> ""]

\* ---------------------------------------------------------------- the table, enumerated
VARIABLE req
Init == req \in Requests
Next == UNCHANGED req
Spec == Init /\ [][Next]_req

D == Decide(req)
TypeOK == /\ D.status \in {200, 400, 404, 405} /\ D.invoked \subseteq Ids
          /\ {x[1] : x \in D.results} = D.invoked
OnlyPostActs == req.method # "POST" \/ req.api = "other" => D.status # 200 /\ D.invoked = {}
NothingOnError == D.status # 200 => D.invoked = {} /\ D.results = {}
WildcardAlone == req.api # "other" /\ req.method = "POST" /\ req.body = "list" /\ req.pats = <<"*">> =>
                    D.status = 200 /\ D.invoked = Ids
WildcardOnlyAlone == req.body = "list" /\ "*" \in SetOf(req.pats) /\ Len(req.pats) > 1 => D.status # 200
EmptyRejected == req.body \in {"noids", "null", "empty"} => D.status # 200
ErrorsIsolated == D.status = 200 /\ req.body = "list" =>
                     /\ D.invoked = Wanted(req.pats)
                     /\ \A x \in D.results : (x[2] = "error") = (req.api = "refresh" /\ x[1] \in req.fail)
UnknownIgnored == req.api # "other" /\ req.method = "POST" /\ req.body = "list" /\ ~("*" \in SetOf(req.pats) /\ Len(req.pats) > 1)
                     => D.status = 200
ExactMatchesItself == D.status = 200 => \A id \in Ids : id \in SetOf(req.pats) => id \in D.invoked
GlobIsPathMatch == D.status = 200 /\ req.pats = <<"p*">> => D.invoked = {}
=============================================================================
