SPECIFICATION Spec
CONSTANTS Prefixes = {p1, p2, p3}
 Versions = 3
 SnapshotOnce = FALSE
INVARIANTS AtomicRead SizedAsWritten
CHECK_DEADLOCK FALSE
