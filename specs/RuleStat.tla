---------------------------- MODULE RuleStat ----------------------------
(* EXT2 (extension, not a listed property), part 1: the filtering-rule
   statistics collector rulestat.HTTP (internal/rulestat/http.go).

   What a user of the collector relies on (doc comments of HTTP, Collect,
   Refresh, replaceStats; doc/externalhttp.md "Rule statistics service";
   metrics.RuleStatCacheSize):

     * Collect counts one hit per call for the rule text, for the AdGuard DNS
       filter list only; hits of every other list id are ignored;
     * Refresh "uploads the collected statistics ... and starts collecting a
       new set of statistics": the set is taken and replaced by an empty one
       in ONE critical section, so a Collect racing with a Refresh lands
       either in the uploaded set or in the new one, never in both and never
       in neither;
     * every taken set is the body of exactly one upload attempt;
     * a failed upload is NOT merged back (the new set has already been
       started): its hits are dropped.  This is the documented behaviour and
       is the explicit action DropFailed, not a defect;
     * recordedHits (the gauge "count of recorded rule hits not yet
       uploaded") is the number of hits in the current set.

   One action per critical section of the Go code:
     Collect(l, t)    s.mu region of Collect (or the early return for l # Counted)
     RefreshSwap(r)   s.mu region of replaceStats
     UploadOK(r)      the POST was answered 200
     DropFailed(r)    the POST failed (transport error or status # 200)
   Between RefreshSwap(r) and UploadOK/DropFailed(r) the refresh r is in
   flight and anything else may happen (a second refresh can be started
   through the debug API while the periodic one runs).

   Variant selects the defect class for the sanity configurations:
     "code"       the behaviour described above
     "nonatomic"  the set is copied in one critical section and reset in a
                  second one (RefreshRead / RefreshReset): a Collect between
                  the two is lost
     "alllists"   hits of every list id are counted
     "keepset"    Refresh uploads the set but does not start a new one        *)
EXTENDS Naturals, FiniteSets, Sequences, TLC, Json

CONSTANTS Lists,        \* abstract list-id classes (strings)
          Counted,      \* the one class that is counted (the AdGuard DNS filter)
          Texts,        \* rule texts (strings)
          Ref,          \* refresh ids: how many refreshes may be in flight
          MaxCollects,  \* bound on Collect calls
          MaxRefreshes, \* bound on refreshes
          KeepHist,     \* TRUE only for behaviour generation
          Variant

ASSUME Counted \in Lists
ASSUME Variant \in {"code", "nonatomic", "alllists", "keepset"}

VARIABLES cur,        \* [Texts -> Nat]   s.stats["15"]
          hits,       \* s.recordedHits
          gauge,      \* metrics.RuleStatCacheSize
          inflight,   \* [Ref -> [phase, m]]  sets taken by running refreshes
          counted,    \* ghost: Collect calls for the counted list, per text
          ignored,    \* ghost: number of Collect calls for other lists
          delivered,  \* ghost: hits in bodies answered 200, per text
          dropped,    \* ghost: hits in bodies of failed uploads, per text
          ncol, nref, \* bounds
          hist

vars == <<cur, hits, gauge, inflight, counted, ignored, delivered, dropped, ncol, nref, hist>>
view == <<cur, hits, gauge, inflight, counted, ignored, delivered, dropped, ncol, nref>>

Empty == [t \in Texts |-> 0]
Idle == [phase |-> "idle", m |-> Empty]

RECURSIVE SumOver(_, _)
SumOver(f, S) == IF S = {} THEN 0 ELSE LET x == CHOOSE x \in S : TRUE IN f[x] + SumOver(f, S \ {x})
Total(f) == SumOver(f, DOMAIN f)
Plus(f, g) == [t \in Texts |-> f[t] + g[t]]

H(a, l, t, r) == IF KeepHist THEN Append(hist, [a |-> a, l |-> l, t |-> t, r |-> r]) ELSE hist

Init == /\ cur = Empty /\ hits = 0 /\ gauge = 0
        /\ inflight = [r \in Ref |-> Idle]
        /\ counted = Empty /\ ignored = 0 /\ delivered = Empty /\ dropped = Empty
        /\ ncol = 0 /\ nref = 0 /\ hist = <<>>

Collect(l, t) ==
    /\ ncol < MaxCollects
    /\ ncol' = ncol + 1
    /\ hist' = H("Collect", l, t, "")
    /\ IF l = Counted \/ Variant = "alllists"
       THEN /\ cur' = [cur EXCEPT ![t] = @ + 1]
            /\ hits' = hits + 1
            /\ gauge' = hits + 1
            /\ IF l = Counted THEN counted' = [counted EXCEPT ![t] = @ + 1] /\ UNCHANGED ignored
                              ELSE ignored' = ignored + 1 /\ UNCHANGED counted
       ELSE /\ ignored' = ignored + 1
            /\ UNCHANGED <<cur, hits, gauge, counted>>
    /\ UNCHANGED <<inflight, delivered, dropped, nref>>

\* replaceStats: prev, s.stats = s.stats, statsSet{}; s.recordedHits = 0.
\* The gauge is not written here (it is written by the next Collect).
RefreshSwap(r) ==
    /\ Variant \in {"code", "alllists", "keepset"}
    /\ inflight[r].phase = "idle"
    /\ nref < MaxRefreshes
    /\ nref' = nref + 1
    /\ inflight' = [inflight EXCEPT ![r] = [phase |-> "taken", m |-> cur]]
    /\ IF Variant = "keepset" THEN UNCHANGED <<cur, hits>> ELSE cur' = Empty /\ hits' = 0
    /\ hist' = H("RefreshSwap", "", "", r)
    /\ UNCHANGED <<gauge, counted, ignored, delivered, dropped, ncol>>

\* the defective two-step variant
RefreshRead(r) ==
    /\ Variant = "nonatomic"
    /\ inflight[r].phase = "idle"
    /\ nref < MaxRefreshes
    /\ nref' = nref + 1
    /\ inflight' = [inflight EXCEPT ![r] = [phase |-> "read", m |-> cur]]
    /\ hist' = H("RefreshRead", "", "", r)
    /\ UNCHANGED <<cur, hits, gauge, counted, ignored, delivered, dropped, ncol>>
RefreshReset(r) ==
    /\ Variant = "nonatomic"
    /\ inflight[r].phase = "read"
    /\ inflight' = [inflight EXCEPT ![r].phase = "taken"]
    /\ cur' = Empty /\ hits' = 0
    /\ hist' = H("RefreshReset", "", "", r)
    /\ UNCHANGED <<gauge, counted, ignored, delivered, dropped, ncol, nref>>

UploadOK(r) ==
    /\ inflight[r].phase = "taken"
    /\ delivered' = Plus(delivered, inflight[r].m)
    /\ inflight' = [inflight EXCEPT ![r] = Idle]
    /\ hist' = H("UploadOK", "", "", r)
    /\ UNCHANGED <<cur, hits, gauge, counted, ignored, dropped, ncol, nref>>

\* Documented: the failed body is not merged back.
DropFailed(r) ==
    /\ inflight[r].phase = "taken"
    /\ dropped' = Plus(dropped, inflight[r].m)
    /\ inflight' = [inflight EXCEPT ![r] = Idle]
    /\ hist' = H("DropFailed", "", "", r)
    /\ UNCHANGED <<cur, hits, gauge, counted, ignored, delivered, ncol, nref>>

Next == \/ \E l \in Lists, t \in Texts : Collect(l, t)
        \/ \E r \in Ref : RefreshSwap(r) \/ RefreshRead(r) \/ RefreshReset(r) \/ UploadOK(r) \/ DropFailed(r)

Spec == Init /\ [][Next]_vars

-----------------------------------------------------------------------------
Busy == {r \in Ref : inflight[r].phase # "idle"}
InflightSum(t) ==
    LET RECURSIVE S(_)
        S(T) == IF T = {} THEN 0 ELSE LET x == CHOOSE x \in T : TRUE IN inflight[x].m[t] + S(T \ {x})
    IN S(Busy)

TypeOK == /\ cur \in [Texts -> Nat] /\ hits \in Nat /\ gauge \in Nat
          /\ \A r \in Ref : inflight[r].phase \in {"idle", "read", "taken"} /\ inflight[r].m \in [Texts -> Nat]
          /\ counted \in [Texts -> Nat] /\ delivered \in [Texts -> Nat] /\ dropped \in [Texts -> Nat]

\* Every counted hit is in exactly one place: the current set, the body of one
\* running upload attempt, one delivered body or one dropped (failed) body.
\* Nothing is lost, nothing appears twice, nothing of another list appears.
Conservation == \A t \in Texts : counted[t] = cur[t] + InflightSum(t) + delivered[t] + dropped[t]

QuiescentConservation == Busy = {} => \A t \in Texts : counted[t] = cur[t] + delivered[t] + dropped[t]

\* recordedHits is the number of hits of the current set ...
HitsIsCurrentSet == hits = Total(cur)
\* ... and the gauge shows it whenever the current set is not empty (the gauge
\* is only written by Collect: after a Refresh it keeps its last value until
\* the next counted hit -- candidate finding, see the check's notes).
GaugeShowsCurrentSet == hits > 0 => gauge = hits

\* Refresh starts a new set.
RefreshStartsNewSet == [][nref' > nref /\ Variant # "nonatomic" => cur' = Empty /\ hits' = 0]_vars
\* A failed upload is not merged back, a successful one touches nothing either.
UploadsLeaveCurrentSet ==
    [][(\E t \in Texts : delivered'[t] # delivered[t] \/ dropped'[t] # dropped[t]) => cur' = cur /\ hits' = hits]_vars
\* delivered and dropped only grow (no body is taken back).
LedgersGrow == [][\A t \in Texts : delivered'[t] >= delivered[t] /\ dropped'[t] >= dropped[t]]_vars
\* A call for another list changes nothing.
IgnoredChangesNothing ==
    [][ignored' # ignored => UNCHANGED <<cur, hits, gauge, inflight, counted, delivered, dropped>>]_vars

EmitHist == PrintT(<<"BEH", ToJson(hist)>>)
=============================================================================
