------------------------------ MODULE BlockPage ------------------------------
(* EXT6, first component, second half.  The block-page servers of
   internal/websvc keep the page (and its gzip form) in memory and re-read it
   from the configured file on Service.Refresh (every five minutes in
   production); Service.Start / Shutdown bring all listeners up and down.

   What the code and doc/configuration.md say:
     - "Every request is responded with the content from the file to which the
       block_page property points."
     - blockPageServer: "mu protects content and gzipContent"; Refresh reads the
       file, compresses it and stores both under the lock.
     - Service.Refresh goes through all block-page servers and joins the errors
       ("refreshing <name> block page server: ...").
     - "The service must be refreshed with Service.Refresh before use."
     - Start "starts serving all endpoints"; Shutdown stops them.

   Contract stated here:
     PairConsistent          the plain and the compressed page of a server are always
                             the same version (one critical section)
     FailedRefreshKeepsOld   a server whose file cannot be read keeps its page
     RefreshIsTotal          every configured server is attempted, also behind a
                             failing one; every readable file is in force afterwards
     RetNamesTheFailures     Refresh returns an error iff some file could not be
                             read, and the error names exactly those servers
     UnconfiguredUntouched   a server without configuration never has a page
     Lifecycle               all listeners accept connections after Start and none
                             after Shutdown

   Versions are numbers 1..MaxV; 0 is "no file" / "nothing loaded".

   Actions: Write, Remove (environment); RefreshBegin; RefreshRead(s) (os.ReadFile
   + gzip, no lock); RefreshSwap(s) (the critical section); RefreshDone; Serve
   (the read-locked section of the handler); Start; Shutdown.

   Defect: "clear_on_fail"  an unreadable file empties the page
           "abort_on_fail"  the first failure ends the refresh
           "two_step"       content and gzipContent are stored in two critical sections
           "silent_fail"    Refresh returns nil although a file could not be read   *)
EXTENDS Integers, Sequences, FiniteSets, TLC, Json

CONSTANTS Servers, MaxV, AnyConf, Defect, KeepHist, Atomic

\* the order Service.Refresh uses
Order == <<"adult", "general", "safe">>
ASSUME Servers \subseteq {"adult", "general", "safe"}

VARIABLES conf,     \* the configured servers
          file,     \* [Servers -> 0..MaxV]
          loaded,   \* [Servers -> [plain, gz]]
          rf,       \* the refresh in progress
          life,     \* "new" / "started" / "shut"
          last,     \* the last completed call
          lastread, \* the last completed request: [s, gz, v]
          hist, dice

vars == <<conf, file, loaded, rf, life, last, lastread, hist, dice>>
view == <<conf, file, loaded, rf, life, last>>

NoRf == [pc |-> "idle", todo |-> <<>>, data |-> 0, failed |-> {}, got |-> {}]
NoLast == [op |-> "", ret |-> "", failed |-> {}, tick |-> 0]
NoRead == [s |-> "", gz |-> FALSE, v |-> 0]
L(op, ret, failed) == last' = [op |-> op, ret |-> ret, failed |-> failed, tick |-> 1 - last.tick]
Did(op) == last'.tick # last.tick /\ last'.op = op

H(a, s, v) == hist' = IF KeepHist THEN Append(hist, [a |-> a, s |-> s, v |-> v, conf |-> conf]) ELSE hist

Init == /\ conf \in (IF AnyConf THEN SUBSET Servers ELSE {Servers})
        /\ file = [s \in Servers |-> 0]
        /\ loaded = [s \in Servers |-> [plain |-> 0, gz |-> 0]]
        /\ rf = NoRf /\ life = "new" /\ last = NoLast /\ lastread = NoRead
        /\ hist = <<>> /\ dice = 1

Quiet == Atomic => rf.pc = "idle"
SelectSeq2(sq, set) == SelectSeq(sq, LAMBDA x : x \in set)

Write(s, v) ==
    /\ Quiet /\ s \in conf /\ file[s] # v
    /\ file' = [file EXCEPT ![s] = v]
    /\ H("Write", s, v)
    /\ UNCHANGED <<conf, loaded, rf, life, last, lastread>>

Remove(s) ==
    /\ Quiet /\ s \in conf /\ file[s] # 0
    /\ file' = [file EXCEPT ![s] = 0]
    /\ H("Remove", s, 0)
    /\ UNCHANGED <<conf, loaded, rf, life, last, lastread>>

RefreshBegin ==
    /\ rf.pc = "idle"
    /\ rf' = [NoRf EXCEPT !.pc = "read", !.todo = SelectSeq2(Order, conf)]
    /\ H("Refresh", "", 0)
    /\ UNCHANGED <<conf, file, loaded, life, last, lastread>>

RefreshRead ==
    /\ rf.pc = "read" /\ rf.todo # <<>>
    /\ LET s == Head(rf.todo) IN
       IF file[s] = 0
       THEN /\ rf' = [rf EXCEPT !.failed = @ \cup {s}, !.got = @ \cup {s},
                                !.todo = IF Defect = "abort_on_fail" THEN <<>> ELSE Tail(@)]
            /\ loaded' = IF Defect = "clear_on_fail" THEN [loaded EXCEPT ![s] = [plain |-> 0, gz |-> 0]] ELSE loaded
       ELSE /\ rf' = [rf EXCEPT !.pc = "swap", !.data = file[s], !.got = @ \cup {s}]
            /\ loaded' = loaded
    /\ H("RefreshRead", "", 0)
    /\ UNCHANGED <<conf, file, life, last, lastread>>

RefreshSwap ==
    /\ rf.pc = "swap"
    /\ LET s == Head(rf.todo) IN
       IF Defect = "two_step"
       THEN /\ loaded' = [loaded EXCEPT ![s].plain = rf.data]
            /\ rf' = [rf EXCEPT !.pc = "swap2"]
       ELSE /\ loaded' = [loaded EXCEPT ![s] = [plain |-> rf.data, gz |-> rf.data]]
            /\ rf' = [rf EXCEPT !.pc = "read", !.todo = Tail(@)]
    /\ H("RefreshSwap", "", 0)
    /\ UNCHANGED <<conf, file, life, last, lastread>>

RefreshSwap2 ==
    /\ rf.pc = "swap2"
    /\ loaded' = [loaded EXCEPT ![Head(rf.todo)].gz = rf.data]
    /\ rf' = [rf EXCEPT !.pc = "read", !.todo = Tail(@)]
    /\ H("RefreshSwap", "", 0)
    /\ UNCHANGED <<conf, file, life, last, lastread>>

RefreshDone ==
    /\ rf.pc = "read" /\ rf.todo = <<>>
    /\ L("Refresh", IF rf.failed # {} /\ Defect # "silent_fail" THEN "err" ELSE "ok",
         IF Defect = "silent_fail" THEN {} ELSE rf.failed)
    /\ rf' = NoRf
    /\ H("RefreshDone", "", 0)
    /\ UNCHANGED <<conf, file, loaded, life, lastread>>

Serve(s, gz) ==
    /\ Quiet /\ s \in conf
    /\ lastread' = [s |-> s, gz |-> gz, v |-> IF gz THEN loaded[s].gz ELSE loaded[s].plain]
    /\ H("Serve", s, IF gz THEN 1 ELSE 0)
    /\ UNCHANGED <<conf, file, loaded, rf, life, last>>

Start ==
    /\ Quiet /\ life = "new"
    /\ life' = "started" /\ L("Start", "ok", {})
    /\ H("Start", "", 0)
    /\ UNCHANGED <<conf, file, loaded, rf, lastread>>

Shutdown ==
    /\ Quiet /\ life # "shut"
    /\ life' = "shut" /\ L("Shutdown", "ok", {})
    /\ H("Shutdown", "", 0)
    /\ UNCHANGED <<conf, file, loaded, rf, lastread>>

RefreshRest == RefreshRead \/ RefreshSwap \/ RefreshSwap2 \/ RefreshDone
Step == \/ \E s \in Servers, v \in 1..MaxV : Write(s, v)
        \/ \E s \in Servers : Remove(s)
        \/ RefreshBegin \/ RefreshRest
        \/ \E s \in Servers, gz \in BOOLEAN : Serve(s, gz)
        \/ Start \/ Shutdown
Next == Step /\ UNCHANGED dice
Spec == Init /\ [][Next]_vars

\* generation of behaviours only (see TLSManager.tla)
Class(k) == CASE k \in {1, 2, 3} -> \E s \in Servers, v \in 1..MaxV : Write(s, v)
              [] k = 4 -> \E s \in Servers : Remove(s)
              [] k \in {5, 6, 7} -> RefreshBegin
              [] k = 8 -> Start
              [] k = 9 -> Shutdown /\ Len(hist) > 12
              [] OTHER -> \E s \in Servers, v \in 1..MaxV : Write(s, v)
SimNext == /\ IF rf.pc # "idle" THEN RefreshRest
              ELSE IF ENABLED Class(dice) THEN Class(dice) ELSE RefreshBegin
           /\ dice' = RandomElement(1..9)
SimSpec == Init /\ conf # {} /\ [][SimNext]_vars

-----------------------------------------------------------------------------
TypeOK == /\ conf \subseteq Servers
          /\ \A s \in Servers : file[s] \in 0..MaxV /\ loaded[s].plain \in 0..MaxV /\ loaded[s].gz \in 0..MaxV
          /\ rf.pc \in {"idle", "read", "swap", "swap2"} /\ life \in {"new", "started", "shut"}

PairConsistent == \A s \in Servers : loaded[s].plain = loaded[s].gz
UnconfiguredUntouched == \A s \in Servers \ conf : loaded[s] = [plain |-> 0, gz |-> 0]

\* the step that finds a file unreadable changes no page
FailedRefreshKeepsOld ==
    [][(rf.pc = "read" /\ rf.todo # <<>> /\ rf'.failed # rf.failed) => loaded' = loaded]_vars
\* when a refresh ends, every configured server has been looked at, the ones that
\* failed are reported, and nothing but a swap of this refresh changes a page
RefreshIsTotal == [][Did("Refresh") => rf.got = conf]_vars
RetNamesTheFailures ==
    [][Did("Refresh") => /\ last'.failed = rf.failed
                         /\ (last'.ret = "err" <=> rf.failed # {})]_vars
SwapInstallsTheRead ==
    [][(rf.pc = "swap" /\ rf'.pc = "read") =>
          loaded'[Head(rf.todo)] = [plain |-> rf.data, gz |-> rf.data]]_vars
OnlyRefreshChangesPages == [][loaded' # loaded => rf.pc \in {"read", "swap", "swap2"}]_vars
EmitHist == PrintT(<<"BEH", ToJson(hist)>>)
=============================================================================
