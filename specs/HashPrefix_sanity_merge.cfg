SPECIFICATION Spec
CONSTANTS
  Alphabet = {"a", "blogspot", "com", "co", "uk"}
  MaxLabels = 5
  IcannSuffix <- McIcann
  PrivateSuffix <- McPrivate
  ListIds = {"sb"}
  ListNames <- McListNames
  MaxList = 2
  Hosts <- Names
  QTypes = {"A", "AAAA", "HTTPS", "TXT", "MX"}
  PrefixStrs <- McPrefixStrs
  MaxStrs = 2
  H <- McH
  Variant = "reset_merges"
  KeepHist = FALSE
VIEW view
INVARIANTS ResetIsTotal
CHECK_DEADLOCK FALSE
