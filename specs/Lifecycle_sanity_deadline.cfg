SPECIFICATION Spec
CONSTANTS
  Req = {1, 2}
  CtxKinds = {"nodeadline", "open"}
  MaxMisuse = 2
  DefectNoWait = FALSE
  DefectLateClose = FALSE
  DefectIgnoreDeadline = TRUE
  DefectDoubleNil = FALSE
INVARIANTS DeadlineBounds
CHECK_DEADLOCK FALSE
