SPECIFICATION DumpSpec
CONSTANTS
  Alphabet = {"a", "B", "7", "-", "_", "e2", "sp"}
  MaxLen = 6
  Pres <- PresBig
  Fills <- FillsBig
  Ns = {7, 8, 9, 61, 62, 63, 64, 65, 84, 85, 126, 127, 128, 129, 252, 253, 254, 255}
  Posts <- PostsBig
  NoTripleCheck = FALSE
  EdgeHyphen = FALSE
  Max64 = FALSE
  RuneLimit = FALSE
  NoTrim = FALSE
  NoCut = FALSE
  NoRevalidate = FALSE
  GapKeepsHyphens = FALSE
  LowerNoCase = FALSE
  NameBytes = FALSE
  DevID9 = FALSE
  ProfSpace = FALSE
CHECK_DEADLOCK FALSE
