SPECIFICATION Spec
CONSTANTS
  Transports = {"udp", "tcp", "dot", "doh-post", "doh-get", "doh-json", "doq", "dnscrypt-udp", "dnscrypt-tcp"}
  MaxInputs = 3
  Defect = "silent_error"
  DCRecover = TRUE
INVARIANTS TransportEquivalence
CHECK_DEADLOCK FALSE
