SPECIFICATION Spec
CONSTANTS
  KeepHist = FALSE
  Prof = {"p1", "p2"}
  Dev = {"d1", "d2"}
  Linked = {"i1"}
  Ded = {"e1"}
  Human = {"h1"}
  MaxMut = 3
  MaxSync = 3
  MaxPending = 2
  CleanupChecksGen = TRUE
  HumanChecksProfile = TRUE
  HumanViaRecord = FALSE
INVARIANTS LookupCorrect GhostConsistent
CHECK_DEADLOCK FALSE
