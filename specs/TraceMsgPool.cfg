SPECIFICATION TraceSpec
INVARIANT NoAlias
POSTCONDITION TraceAccepted
CHECK_DEADLOCK FALSE
