SPECIFICATION Spec
CONSTANTS
  Callers = {"a", "b"}
  MaxConn = 2
  CapSet = {1}
  TmoSet = {1}
  MaxTime = 3
  MaxOps = 5
  Defect = "expired_leak"
  KeepHist = FALSE
VIEW view
INVARIANTS Ledger
CHECK_DEADLOCK FALSE
