---------------------------- MODULE TraceInitial ----------------------------
(* Per-line validation of the extension spec Initial.tla against the real
   NewHandlers stack (harness/internal/dnssvc/ext1_test.go).                  *)
EXTENDS Initial, Sequences, Json

VARIABLE l
Trace == ndJsonDeserialize("trace.ndjson")
ToSet(a) == {a[j] : j \in 1..Len(a)}
Reasons(e) ==
    LET d == Decide(e.v) IN
    (IF e.err = "" THEN {} ELSE {"handler error"})
    \cup (IF "written" \in ToSet(e.eff) /\ e.ans # "foreign" THEN {} ELSE {"not answered, or with a foreign id/question"})
    \cup (IF d.rcode = "any" \/ d.rcode = e.rcode THEN {} ELSE {"rcode"})
    \cup (IF d.ans = "any" \/ d.ans = e.ans THEN {} ELSE {"answer kind"})
    \cup (IF d.ans = "any" THEN {} ELSE IF ToSet(e.eff) = d.eff THEN {} ELSE {"pipeline effects"})
    \cup (IF d.stage = "upstream" /\ e.ad # (e.reqad \/ e.reqdo) THEN {"AD bit not limited to clients that asked for it"} ELSE {})
TraceInit == l = 1 /\ v = [qclass |-> "IN", qtype |-> "A", host |-> "normal", dev |-> "none", ddrOn |-> FALSE, pRelay |-> FALSE,
                           pChrome |-> FALSE, pFirefox |-> FALSE, gRelay |-> FALSE, gChrome |-> FALSE, gFirefox |-> FALSE]
TraceNext == /\ l <= Len(Trace) /\ l' = l + 1 /\ UNCHANGED v
             /\ LET r == Reasons(Trace[l]) IN IF r = {} THEN TRUE ELSE PrintT(<<"NONCONF", l, r>>)
TraceSpec == TraceInit /\ [][TraceNext]_<<l, v>>
TraceAccepted == LET d == TLCGet("stats").diameter IN
    IF d - 1 = Len(Trace) THEN TRUE ELSE PrintT(<<"STUCK", d, Len(Trace)>>) /\ FALSE
=============================================================================
