SPECIFICATION Spec
CONSTANTS
  MaxPats = 2
  Defect = "error_stops"
INVARIANTS ErrorsIsolated
CHECK_DEADLOCK FALSE
