SPECIFICATION Spec
CONSTANTS
  KeepHist = TRUE
  Lsn = {"l1", "l2", "l3"}
  MaxStop = 4
  MaxConns = 12
  MaxAccepts = 20
  BroadcastOnDec = TRUE
  CheckClosedFirst = TRUE
CONSTRAINT EmitHist
CHECK_DEADLOCK FALSE
