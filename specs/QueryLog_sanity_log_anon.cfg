\* sanity: the defective variant "log_anon" must violate LoggedIff
SPECIFICATION Spec
CONSTANTS
  Defect = "log_anon"
INVARIANTS LoggedIff
