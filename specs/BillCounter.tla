---------------------------- MODULE BillCounter ----------------------------
(* C16, first sentence, UNBOUNDED: the counts of ONE device in the billing
   recorder as integers -- recorded, held for the next upload, in the maps of
   two refreshes that may be in flight at once, delivered -- for any number of
   queries and any pattern of successful and failed uploads.  BillStat.tla
   (checked exhaustively by TLC for small constants and bound to the code by
   trace validation) refines to this module device by device:
        pending = pending[d].n,  f1 / f2 = inflight[r].m[d].n,  busy = inflight[r].busy.
   IndInv is discharged by Apalache (see ConnCounter.tla for the three runs).  *)
EXTENDS Integers

VARIABLES
    \* @type: Int;
    recorded,
    \* @type: Int;
    pending,
    \* @type: Int;
    delivered,
    \* @type: Int;
    f1,
    \* @type: Int;
    f2,
    \* @type: Bool;
    busy1,
    \* @type: Bool;
    busy2

Init == recorded = 0 /\ pending = 0 /\ delivered = 0 /\ f1 = 0 /\ f2 = 0 /\ busy1 = FALSE /\ busy2 = FALSE

Record == recorded' = recorded + 1 /\ pending' = pending + 1 /\ UNCHANGED <<delivered, f1, f2, busy1, busy2>>
\* resetRecords: the map is taken, an empty one installed
Reset1 == ~busy1 /\ busy1' = TRUE /\ f1' = pending /\ pending' = 0 /\ UNCHANGED <<recorded, delivered, f2, busy2>>
Reset2 == ~busy2 /\ busy2' = TRUE /\ f2' = pending /\ pending' = 0 /\ UNCHANGED <<recorded, delivered, f1, busy1>>
\* Upload returned nil: what the map held is delivered
OK1 == busy1 /\ busy1' = FALSE /\ delivered' = delivered + f1 /\ f1' = 0 /\ UNCHANGED <<recorded, pending, f2, busy2>>
OK2 == busy2 /\ busy2' = FALSE /\ delivered' = delivered + f2 /\ f2' = 0 /\ UNCHANGED <<recorded, pending, f1, busy1>>
\* Upload failed: remergeRecords adds the old count to the current one
Fail1 == busy1 /\ busy1' = FALSE /\ pending' = pending + f1 /\ f1' = 0 /\ UNCHANGED <<recorded, delivered, f2, busy2>>
Fail2 == busy2 /\ busy2' = FALSE /\ pending' = pending + f2 /\ f2' = 0 /\ UNCHANGED <<recorded, delivered, f1, busy1>>

Next == Record \/ Reset1 \/ Reset2 \/ OK1 \/ OK2 \/ Fail1 \/ Fail2

\* C16: delivered + held (+ in flight) = recorded, at every instant; nothing is ever negative;
\* an idle refresh holds nothing
Conservation == delivered + pending + f1 + f2 = recorded
IndInv == /\ Conservation
          /\ recorded >= 0 /\ pending >= 0 /\ delivered >= 0 /\ f1 >= 0 /\ f2 >= 0
          /\ (~busy1 => f1 = 0) /\ (~busy2 => f2 = 0)
IndInit == /\ recorded \in Int /\ pending \in Int /\ delivered \in Int /\ f1 \in Int /\ f2 \in Int
           /\ busy1 \in BOOLEAN /\ busy2 \in BOOLEAN /\ IndInv
\* at quiescence, in the form the statement uses
Quiescent == (~busy1 /\ ~busy2) => delivered + pending = recorded
Safety == Conservation /\ Quiescent
=============================================================================
