SPECIFICATION Spec
CONSTANTS
  IntsValidated = TRUE
  PrefixBounded = TRUE
  EcsSizeChecked = TRUE
  MaxMut = 3
  TripleFields = {"ratelimit/connection_limit/resume", "cache/ecs_size", "cache/size", "check/kv/ttl",
                  "ratelimit/tcp/max_pipeline_count", "ratelimit/ipv6/subnet_key_len",
                  "server_groups/0/ddr/public_records/dns.example.com/tls_port",
                  "ratelimit/response_size_estimate", "ratelimit/connection_limit/stop", "cache/type",
                  "check/kv/type", "dns/tcp_idle_timeout", "filters/custom_filter_cache_size"}
INVARIANTS BaselineHolds AcceptedImpliesSafe AcceptedImpliesValid DocImpliesSafe RejectedNamesProperty
CHECK_DEADLOCK FALSE
