---------------------------- MODULE TraceWebSvc ----------------------------
(* Per-line validation of raw HTTP requests sent to the listeners of a real,
   started websvc.Service (and to a nil *Service).  Each "Req" line:
     conf {redir, e404, e500, dc, sc}, lst (the listener the request was sent
     to), via (plain / tls), m, p (path class), raw (the request target), ae,
     st, body (source of the body, found by comparison), ct, hdr (set of
     characteristic headers), target (sub-handler that was called)
   "Down" lines: the service was shut down (ret, up = listeners still reachable);
   "Nil": the life-cycle calls on a nil service; "Obs": an observation without a
   verdict (kept in the notes of the check).                                  *)
EXTENDS WebSvc, Sequences, Json

VARIABLE l
Trace == ndJsonDeserialize("trace.ndjson")
tvars == <<vars, l>>

SetOf(a) == {a[i] : i \in 1..Len(a)}

\* (whether the static content is asked about /robots.txt when it has no such
\* entry is not something the documents fix)
RobotsViaStatic(e, d) == e.lst = "web" /\ e.p = "robots" /\ d.target = "none" /\ e.target = "static"

Reasons(e) ==
    LET d == Decide(e.lst, e.m, e.p, e.ae, e.conf) h == SetOf(e.hdr) IN
    (IF e.st = d.st THEN {} ELSE {"status"})
    \cup (IF e.body = d.body THEN {} ELSE {"body source"})
    \cup (IF e.ct = d.ct THEN {} ELSE {"content type"})
    \cup (IF "server" \in h THEN {} ELSE {"Server header missing or wrong"})
    \cup (IF h \ {"server"} = d.hdr \ {"server"} THEN {} ELSE {"header set"})
    \cup (IF e.target = d.target \/ RobotsViaStatic(e, d) THEN {} ELSE {"delegation target"})

LineReasons(e) ==
    IF e.ev = "Req" THEN Reasons(e)
    ELSE IF e.ev = "Down"
    THEN (IF e.ret = "ok" THEN {} ELSE {"Shutdown returned an error"})
         \cup (IF Len(e.up) = 0 THEN {} ELSE {"a listener still accepts connections after Shutdown"})
    ELSE IF e.ev = "Nil"
    THEN (IF e.start = "<nil>" /\ e.refresh = "<nil>" /\ e.shutdown = "<nil>" /\ e.new THEN {}
          ELSE {"a nil service does not tolerate its life-cycle calls"})
    ELSE IF e.ev = "Obs" THEN {}      \* recorded for the notes of the check, no verdict
    ELSE {"unknown line"}

TraceInit == lst = "web" /\ m = "GET" /\ p = "root" /\ ae = "none"
             /\ conf = [redir |-> FALSE, e404 |-> FALSE, e500 |-> FALSE, dc |-> "ok200", sc |-> "none"] /\ l = 1
TraceNext == /\ l <= Len(Trace) /\ l' = l + 1 /\ UNCHANGED vars
             /\ LET r == LineReasons(Trace[l]) IN IF r = {} THEN TRUE ELSE PrintT(<<"NONCONF", l, r>>)
TraceSpec == TraceInit /\ [][TraceNext]_tvars
TraceAccepted == LET d == TLCGet("stats").diameter IN
    IF d - 1 = Len(Trace) THEN TRUE ELSE PrintT(<<"STUCK", d, Len(Trace)>>) /\ FALSE
=============================================================================
