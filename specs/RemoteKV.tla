------------------------------ MODULE RemoteKV ------------------------------
(* EXT3 (extension).  internal/remotekv: the key-value interface behind the
   DNS-check service and its two local building blocks.

     remotekv.Interface   Get(key) -> (val, ok) ; Set(key, val)
     remotekv.KeyNamespace  wrapper: every key is prefixed with the namespace's
                          prefix before it reaches the wrapped store
     remotekv.Cache       store backed by an LRU of at most Cap entries
     remotekv.Empty       store that keeps nothing

   What a user of a namespace relies on (doc comments of the package and
   doc/configuration.md, check.kv):
     NamespaceIsolation   a Get through namespace n under key k returns only
                          what was last Set through n under k: never another
                          namespace's value, never another key's, never an
                          older one
     ReadYourWrite        unbounded store: after a Set the value is found
     LRUExact             LRU store of capacity Cap: a key is found iff it was
                          written and fewer than Cap other keys were touched
                          since it was last touched (Set, or Get that hit)
     CapBound             at most Cap entries are held
     EmptyNeverHits       the empty store never returns anything

   A namespace is identified by its prefix (a string; "" is direct access to
   the wrapped store).  The store is one recency list of [k, v] entries, most
   recently touched first; the unbounded store ("map") is the same list without
   a bound.  Isolation needs prefixes "in accordance with the wrapped storage
   keys" (KeyNamespaceConfig.Prefix): no two (prefix, key) pairs may concatenate
   to the same string -- Accordance below; RemoteKV_sanity_sep.cfg shows what
   happens otherwise.

   Defect variants (sanity configs): GetSkipsPrefix -- Get forgets the prefix;
   GetNoTouch -- a hit does not refresh the entry's recency.                  *)
EXTENDS Naturals, Sequences, FiniteSets, TLC, Json

CONSTANTS NS,            \* namespace prefixes (strings)
          Keys,          \* keys used by callers (strings)
          Backings,      \* subset of {"map", "lru", "empty"}
          Caps,          \* capacities tried for the LRU store
          MaxOps,        \* bound on the number of operations
          GetSkipsPrefix, GetNoTouch,
          KeepHist

Inf == 1000000
NoVal == ""

\* ---- store operators (also used by the trace spec and by DNSCheck.tla)
EffCap(c) == IF c.backing = "lru" THEN c.cap ELSE Inf
Has(es, fk) == \E i \in 1..Len(es) : es[i].k = fk
Idx(es, fk) == CHOOSE i \in 1..Len(es) : es[i].k = fk
Without(es, fk) == SelectSeq(es, LAMBDA e : e.k # fk)
Trunc(es, n) == IF Len(es) > n THEN SubSeq(es, 1, n) ELSE es

StoreSet(es, c, fk, v) ==
    IF c.backing = "empty" THEN es
    ELSE Trunc(<<[k |-> fk, v |-> v]>> \o Without(es, fk), EffCap(c))

StoreGet(es, c, fk) ==
    IF ~Has(es, fk) THEN [ok |-> FALSE, v |-> NoVal, es |-> es]
    ELSE LET e == es[Idx(es, fk)] IN
         [ok |-> TRUE, v |-> e.v, es |-> IF GetNoTouch THEN es ELSE <<e>> \o Without(es, fk)]

WriteKey(n, k) == n \o k
ReadKey(n, k) == IF GetSkipsPrefix THEN k ELSE n \o k

\* ---- ghost book-keeping: distinct other full keys touched since fk was
Touch(sn, fk) == [x \in DOMAIN sn \cup {fk} |-> IF x = fk THEN {} ELSE sn[x] \cup {fk}]
Dist(sn, fk) == IF fk \in DOMAIN sn THEN Cardinality(sn[fk]) ELSE 0
Last(ls, n, k) == IF <<n, k>> \in DOMAIN ls THEN ls[<<n, k>>] ELSE NoVal
PutLast(ls, n, k, v) == [x \in DOMAIN ls \cup {<<n, k>>} |-> IF x = <<n, k>> THEN v ELSE ls[x]]

VARIABLES ents,   \* the wrapped store: recency list of [k, v]
          cfg,    \* [backing, cap]
          last,   \* ghost: <<n, k>> -> value last Set through namespace n under key k
          since,  \* ghost: full key -> set of other full keys touched since
          res,    \* the last operation and its result
          nops, hist
vars == <<ents, cfg, last, since, res, nops, hist>>
view == <<ents, cfg, last, since, res, nops>>

NoRes == [op |-> "init", n |-> "", k |-> "", ok |-> FALSE, v |-> NoVal, dist |-> 0, was |-> NoVal]

Init == /\ ents = <<>>
        /\ cfg \in [backing : Backings, cap : Caps]
        /\ last = [x \in {} |-> NoVal]
        /\ since = [x \in {} |-> {}]
        /\ res = NoRes
        /\ nops = 0
        /\ hist = <<>>

H(e) == hist' = IF KeepHist THEN Append(hist, e) ELSE hist

\* res.was: what this namespace last wrote under this key (before the
\* operation); res.dist: other keys touched since the key was last touched.
Set(n, k, v) ==
    /\ nops < MaxOps /\ nops' = nops + 1
    /\ ents' = StoreSet(ents, cfg, WriteKey(n, k), v)
    /\ last' = PutLast(last, n, k, v)
    /\ since' = Touch(since, WriteKey(n, k))
    /\ res' = [op |-> "Set", n |-> n, k |-> k, ok |-> TRUE, v |-> v, dist |-> 0, was |-> Last(last, n, k)]
    /\ H([a |-> "Set", n |-> n, k |-> k, b |-> cfg.backing, c |-> cfg.cap])
    /\ UNCHANGED cfg

Get(n, k) ==
    /\ nops < MaxOps /\ nops' = nops + 1
    /\ LET g == StoreGet(ents, cfg, ReadKey(n, k)) IN
       /\ ents' = g.es
       /\ since' = IF g.ok THEN Touch(since, ReadKey(n, k)) ELSE since
       /\ res' = [op |-> "Get", n |-> n, k |-> k, ok |-> g.ok, v |-> g.v,
                  dist |-> Dist(since, WriteKey(n, k)), was |-> Last(last, n, k)]
    /\ H([a |-> "Get", n |-> n, k |-> k, b |-> cfg.backing, c |-> cfg.cap])
    /\ UNCHANGED <<cfg, last>>

Next == \E n \in NS, k \in Keys : Set(n, k, ToString(nops + 1)) \/ Get(n, k)
Spec == Init /\ [][Next]_vars

-----------------------------------------------------------------------------
\* The properties, as predicates over (result, configuration, store) so that
\* the trace spec evaluates the same formulas on what the real code returned.
PIsolation(r) == (r.op = "Get" /\ r.ok) => (r.v = r.was /\ r.v # NoVal)
PReadYourWrite(r, c) == (r.op = "Get" /\ c.backing = "map" /\ r.was # NoVal) => r.ok
PLRUExact(r, c) == (r.op = "Get" /\ c.backing = "lru") => (r.ok <=> (r.was # NoVal /\ r.dist < c.cap))
PCapBound(es, c) == Len(es) <= EffCap(c)
PEmpty(r, es, c) == c.backing = "empty" => (~(r.op = "Get" /\ r.ok) /\ es = <<>>)

NamespaceIsolation == PIsolation(res)
ReadYourWrite == PReadYourWrite(res, cfg)
LRUExact == PLRUExact(res, cfg)
CapBound == PCapBound(ents, cfg)
EmptyNeverHits == PEmpty(res, ents, cfg)
\* the wrapped store only ever holds keys that carry a namespace prefix
KeysPrefixed == \A i \in 1..Len(ents) : \E n \in NS, k \in Keys : ents[i].k = n \o k
\* the precondition of isolation
Accordance == \A n1 \in NS, n2 \in NS, k1 \in Keys, k2 \in Keys :
                  (n1 \o k1 = n2 \o k2) => (n1 = n2 /\ k1 = k2)

EmitHist == PrintT(<<"BEH", ToJson(hist)>>)
=============================================================================
