-------------------------- MODULE TraceServerName --------------------------
(* C03, binding lemma for the `sni` field of DeviceAuth.tla: each line is one
   request over DoT, DoH (HTTP/2 and HTTP/1.1) or DoQ with a chosen TLS server
   name (possibly none) and, for DoH, a chosen Host header.  ServerNameIsSNI:
   what the handler is given as TLS server name is the server name of the
   handshake, whatever the HTTP layer says.                                  *)
EXTENDS Naturals, Sequences, TLC, Json

VARIABLE l
Trace == ndJsonDeserialize("trace.ndjson")
Reasons(e) ==
    IF ~e.reached THEN {}     \* the request did not get to the handler at all: nothing to attribute
    ELSE IF e.sni_seen = e.sni_sent THEN {}
    ELSE {"the TLS server name handed to device recognition is not the server name of the TLS handshake"}
TraceInit == l = 1
TraceNext == /\ l <= Len(Trace) /\ l' = l + 1
             /\ LET r == Reasons(Trace[l]) IN IF r = {} THEN TRUE ELSE PrintT(<<"NONCONF", l, r>>)
TraceSpec == TraceInit /\ [][TraceNext]_l
TraceAccepted == LET d == TLCGet("stats").diameter IN
    IF d - 1 = Len(Trace) THEN TRUE ELSE PrintT(<<"STUCK", d, Len(Trace)>>) /\ FALSE
=============================================================================
