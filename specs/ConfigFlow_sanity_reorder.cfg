SPECIFICATION Spec
CONSTANTS
  Defect = "reorder"
  MaxChanges = 1
  FocusKeys = {}
INVARIANT OrderPreserved
CHECK_DEADLOCK FALSE
