SPECIFICATION Spec
CONSTANTS
  Defect = "reorder"
  MaxChanges = 1
INVARIANT OrderPreserved
CHECK_DEADLOCK FALSE
