--------------------------- MODULE FilterRefresh ---------------------------
(* C13.  A failed or interrupted filter update never weakens or corrupts
   filtering.

   Lists: "ridx" rule-list index, "rl1"/"rl2" rule lists named by the index,
   "sidx" blocked-service index, "ss" safe-search list (all refreshed by one
   round of filterstorage.Default.refresh, in that order, the rule-list map
   being swapped at the very end: pseudo-entry "swap") and "hp" a hash-prefix
   list (its own refresher; modelled after the storage part of the round --
   it shares no state with it).

   Every list has three version numbers: remote (what the server has), disk
   (the cache file) and served (what filtering queries see).  0 = nothing,
   -1 = partial / garbled content (never a legal value).  A round bumps every
   remote version and gives every list a fault.  Steps per list:
       Fetch     HTTP download into a temporary file (outcome fixed by the fault)
       Write     atomic replacement of the cache file
       Compile   parsing / validation of the downloaded text
       Swap      the new content becomes visible to queries
                 (rule lists: into the pending map, visible at "swap")
   Crash may strike between any two steps; Restart is the initial refresh
   which accepts every existing cache file whatever its age and downloads
   only what is missing (net up) or fails for it (net down).

   Defects (CONSTANT, a set; {} is the contract) select defective variants;
   the sanity configs show that every invariant can be violated.            *)
EXTENDS Integers, Sequences, FiniteSets, TLC, Json

CONSTANTS Lists,         \* subset of AllLists containing "ridx"
          Faults,        \* enabled fault names
          MaxRounds,
          CrashAnywhere, \* FALSE: crashes only between rounds (in-process replay)
          Defects,       \* set of defect names, see below
          KeepHist

AllLists == {"ridx", "rl1", "rl2", "sidx", "ss", "hp"}
AllFaults == {"ok", "refused", "timeout", "status", "empty", "oversize", "trunc", "cancel", "inv", "invown"}
AllDefects == {"swap_first",      \* received text installed before the transfer is validated
               "empty_ok",        \* an empty body is accepted as the new content
               "len_ignored",     \* a short transfer is accepted as the new content
               "inplace",         \* the cache file is rewritten in place
               "abort_all",       \* a failing rule list aborts the whole round
               "rl_dropped",      \* a failing rule list is dropped instead of kept
               "svc_strict",      \* one invalid service entry rejects the whole (already stored) service index
               "victim_dropped"}  \* a list whose own index entry is invalid is dropped instead of kept
ASSUME "ridx" \in Lists /\ Lists \subseteq AllLists /\ Faults \subseteq AllFaults /\ Defects \subseteq AllDefects

D(x) == x \in Defects
RLs == Lists \cap {"rl1", "rl2"}
Order0 == <<"ridx", "rl1", "rl2", "sidx", "ss", "swap", "hp">>
Prog == SelectSeq(Order0, LAMBDA x : x = "swap" \/ x \in Lists)
\* the rule list whose own index entry fault "invown" garbles
Victim == IF "rl2" \in Lists THEN "rl2" ELSE "rl1"

FaultsOf(l) == IF l = "ridx" THEN (IF RLs = {} THEN Faults \ {"invown"} ELSE Faults)
               ELSE IF l = "sidx" THEN Faults \ {"invown"}
               ELSE Faults \ {"inv", "invown"}
\* "cancel": the context of the whole refresh is cancelled (deadline of the
\* refresh worker, shutdown) while this list is being downloaded
Failing(f) == f \in {"refused", "timeout", "status", "empty", "oversize", "trunc", "cancel"}

VARIABLES served, disk, remote,
          fault,        \* fault of every list in the current round
          prev, dprev,  \* ghosts: served / disk when the round (or the process) started
          pending,      \* newRuleLists of the running round
          got,          \* outcome of the fetch of the list being processed
          pc,           \* [i |-> position in Prog (0 = no round running), s |-> step]
          alive,        \* process up
          phase,        \* "start": just (re)started, "run": a round was started since, "down"
          rounds,
          ownBad,       \* rule-list index versions in which the Victim's own entry is invalid
          svcBad,       \* service-index versions that contain an invalid entry
          hist

vars == <<served, disk, remote, fault, prev, dprev, pending, got, pc, alive, phase, rounds, ownBad, svcBad, hist>>
view == <<served, disk, remote, fault, prev, dprev, pending, got, pc, alive, phase, rounds, ownBad, svcBad>>

Zero == [l \in Lists |-> 0]
Idle == [i |-> 0, s |-> "fetch"]
H(e) == IF KeepHist THEN Append(hist, e) ELSE hist
NoFaults == [l \in Lists |-> "ok"]

\* A started process served version 1 of everything, except rule lists whose
\* first download failed (they are simply absent).
Init == \E A \in SUBSET RLs :
        /\ served = [l \in Lists |-> IF l \in A THEN 0 ELSE 1]
        /\ disk = [l \in Lists |-> IF l \in A THEN 0 ELSE 1]
        /\ remote = [l \in Lists |-> 1]
        /\ fault = NoFaults
        /\ prev = served /\ dprev = disk
        /\ pending = Zero /\ got = "none" /\ pc = Idle
        /\ alive = TRUE /\ phase = "start" /\ rounds = 0
        /\ ownBad = {} /\ svcBad = {}
        /\ hist = <<[a |-> "Init", l |-> IF A = {} THEN "" ELSE IF A = RLs /\ Cardinality(A) > 1 THEN "all" ELSE CHOOSE x \in A : TRUE,
                     f |-> "", up |-> TRUE]>>

\* A round starts: every remote version is bumped.  The fault of a list is
\* chosen when its download starts (lists that are never reached have none).
StartRound ==
    /\ alive /\ pc.i = 0 /\ rounds < MaxRounds
    /\ rounds' = rounds + 1
    /\ remote' = [l \in Lists |-> remote[l] + 1]
    /\ fault' = NoFaults
    /\ prev' = served /\ dprev' = disk
    /\ pending' = Zero /\ got' = "none"
    /\ pc' = [i |-> 1, s |-> "fetch"]
    /\ phase' = "run"
    /\ hist' = H([a |-> "Round", l |-> "", f |-> "", up |-> TRUE])
    /\ UNCHANGED <<served, disk, alive, ownBad, svcBad>>

Cur == Prog[pc.i]
\* a victim of the applied index is not downloaded at all
Skipped(l) == l \in RLs /\ l = Victim /\ fault["ridx"] = "invown"
RECURSIVE NextFrom(_)
NextFrom(i) == IF i > Len(Prog) THEN Idle
               ELSE IF Skipped(Prog[i]) THEN NextFrom(i + 1)
               ELSE [i |-> i, s |-> "fetch"]
NextPc == NextFrom(pc.i + 1)
\* the storage part is abandoned; an independent hash-prefix refresh still runs
HpPos == CHOOSE i \in 1..Len(Prog) : Prog[i] = "hp"
AbortPc == IF "hp" \in Lists /\ Cur # "hp" THEN [i |-> HpPos, s |-> "fetch"] ELSE Idle

\* outcome of the transfer
Got(f) == CASE f \in {"ok", "inv", "invown"} -> "full"
            [] f \in {"refused", "timeout", "status", "cancel"} -> "err"
            [] f = "empty" -> IF D("empty_ok") THEN "fullempty" ELSE "empty"
            [] f = "trunc" -> IF D("len_ignored") THEN "fullpart" ELSE "part"
            [] f = "oversize" -> "part"
Val(l) == CASE got = "full" -> remote[l] [] got = "fullempty" -> 0 [] got = "fullpart" -> -1 [] OTHER -> -1

\* what happens to the round when list l cannot be updated
OnError(l, f) ==
    IF l \in RLs
    THEN /\ pending' = [pending EXCEPT ![l] = IF D("rl_dropped") THEN 0 ELSE served[l]]   \* setPrevRuleList
         /\ pc' = IF D("abort_all") \/ f = "cancel" THEN AbortPc ELSE NextPc
    ELSE /\ pending' = pending
         /\ pc' = AbortPc

Fetch(l, f) ==
    /\ alive /\ pc.i > 0 /\ Cur = l /\ pc.s = "fetch"
    /\ f \in FaultsOf(l)
    /\ fault' = [fault EXCEPT ![l] = f]
    /\ ownBad' = IF l = "ridx" /\ f = "invown" THEN ownBad \cup {remote[l]} ELSE ownBad
    /\ svcBad' = IF l = "sidx" /\ f = "inv" THEN svcBad \cup {remote[l]} ELSE svcBad
    /\ LET g == Got(f) IN
       /\ got' = g
       /\ disk' = IF D("inplace") THEN [disk EXCEPT ![l] = -1] ELSE disk   \* truncated and being rewritten
       /\ IF D("swap_first") /\ g \in {"part", "empty"} /\ l # "ridx"
          THEN LET v == IF g = "part" THEN -1 ELSE 0 IN
               IF l \in RLs
               THEN /\ pending' = [pending EXCEPT ![l] = v] /\ pc' = NextPc /\ served' = served
               ELSE /\ served' = [served EXCEPT ![l] = v] /\ pc' = AbortPc /\ pending' = pending
          ELSE /\ served' = served
               /\ IF g \in {"full", "fullempty", "fullpart"}
                  THEN pc' = [pc EXCEPT !.s = "write"] /\ pending' = pending
                  ELSE OnError(l, f)
    /\ hist' = H([a |-> "Fetch", l |-> l, f |-> f, up |-> TRUE])
    /\ UNCHANGED <<remote, prev, dprev, alive, phase, rounds>>

Write(l) ==
    /\ alive /\ pc.i > 0 /\ Cur = l /\ pc.s = "write"
    /\ disk' = [disk EXCEPT ![l] = Val(l)]
    /\ pc' = [pc EXCEPT !.s = "compile"]
    /\ hist' = hist
    /\ UNCHANGED <<served, remote, fault, prev, dprev, pending, got, alive, phase, rounds, ownBad, svcBad>>

Compile(l) ==
    /\ alive /\ pc.i > 0 /\ Cur = l /\ pc.s = "compile"
    /\ IF l = "sidx" /\ fault[l] = "inv" /\ D("svc_strict")
       THEN OnError(l, fault[l])
       ELSE pc' = [pc EXCEPT !.s = "swap"] /\ pending' = pending
    /\ hist' = hist
    /\ UNCHANGED <<served, disk, remote, fault, prev, dprev, got, alive, phase, rounds, ownBad, svcBad>>

Swap(l) ==
    /\ alive /\ pc.i > 0 /\ Cur = l /\ pc.s = "swap"
    /\ IF l = "ridx"
       THEN /\ served' = [served EXCEPT ![l] = Val(l)]       \* ghost: the index version whose entries are used
            /\ pending' = [r \in Lists |-> IF r \in RLs /\ r = Victim /\ fault["ridx"] = "invown" /\ ~D("victim_dropped")
                                           THEN served[r] ELSE 0]
       ELSE IF l \in RLs
       THEN /\ pending' = [pending EXCEPT ![l] = Val(l)] /\ served' = served
       ELSE /\ served' = [served EXCEPT ![l] = Val(l)] /\ pending' = pending
    /\ pc' = NextPc
    /\ got' = "none"
    /\ hist' = hist
    /\ UNCHANGED <<disk, remote, fault, prev, dprev, alive, phase, rounds, ownBad, svcBad>>

\* resetRuleLists: the new map replaces the old one
SwapMap ==
    /\ alive /\ pc.i > 0 /\ Cur = "swap"
    /\ served' = [l \in Lists |-> IF l \in RLs THEN pending[l] ELSE served[l]]
    /\ pc' = NextPc
    /\ hist' = hist
    /\ UNCHANGED <<disk, remote, fault, prev, dprev, pending, got, alive, phase, rounds, ownBad, svcBad>>

Crash ==
    /\ alive /\ (CrashAnywhere \/ pc.i = 0)
    /\ alive' = FALSE /\ phase' = "down"
    /\ served' = Zero /\ pending' = Zero /\ got' = "none" /\ pc' = Idle
    /\ hist' = H([a |-> "Crash", l |-> "", f |-> "", up |-> TRUE])
    /\ UNCHANGED <<disk, remote, fault, prev, dprev, rounds, ownBad, svcBad>>

\* Initial refresh: an existing cache file is used whatever its age; a missing
\* one is downloaded (possible only when the network is up).
Load(l, up) == IF disk[l] # 0 THEN disk[l] ELSE IF up THEN remote[l] ELSE 0
\* outcome of a start: [ok, served, disk]
RestartResult(up) ==
    LET ld == [l \in Lists |-> Load(l, up)]
        mand == Lists \ RLs
        startOK == /\ \A l \in mand : ld[l] > 0
                   /\ ("sidx" \in Lists /\ D("svc_strict") /\ ld["sidx"] > 0 => ld["sidx"] \notin svcBad)
        dropped(l) == l \in RLs /\ l = Victim /\ ld["ridx"] > 0 /\ ld["ridx"] \in ownBad
    IN IF startOK
       THEN [ok |-> TRUE,
             served |-> [l \in Lists |-> IF dropped(l) THEN 0 ELSE ld[l]],
             disk |-> [l \in Lists |-> IF dropped(l) THEN disk[l] ELSE ld[l]]]
       ELSE [ok |-> FALSE, served |-> served, disk |-> disk]
Restart(up) ==
    /\ ~alive
    /\ LET r == RestartResult(up) IN alive' = r.ok /\ served' = r.served /\ disk' = r.disk
    /\ phase' = "start"
    /\ prev' = served' /\ dprev' = disk'
    /\ fault' = NoFaults
    /\ hist' = H([a |-> "Restart", l |-> "", f |-> "", up |-> up])
    /\ UNCHANGED <<remote, pending, got, pc, rounds, ownBad, svcBad>>

Next == \/ StartRound
        \/ \E l \in Lists : (\E f \in Faults : Fetch(l, f)) \/ Write(l) \/ Compile(l) \/ Swap(l)
        \/ SwapMap
        \/ Crash
        \/ \E up \in BOOLEAN : Restart(up)

Spec == Init /\ [][Next]_vars

-----------------------------------------------------------------------------
TypeOK == /\ served \in [Lists -> -1..(MaxRounds + 1)]
          /\ disk \in [Lists -> -1..(MaxRounds + 1)]
          /\ pc.i \in 0..Len(Prog)

RoundDone == alive /\ phase = "run" /\ pc.i = 0
IndexVictim(l) == l \in RLs /\ l = Victim /\ fault["ridx"] = "invown"

\* a list whose download failed keeps serving its previous complete content
\* (every state of the round, not only its end)
FaultyKeepsPrevious ==
    alive /\ phase = "run" =>
        \A l \in Lists : (Failing(fault[l]) \/ IndexVictim(l)) => served[l] = prev[l]

\* every list serves its previous or its new complete content
OthersPreviousOrNew ==
    alive => \A l \in Lists : served[l] \in {prev[l], remote[l]} /\ served[l] >= 0

\* valid entries of a partially invalid index are used
ValidIndexEntriesApplied ==
    RoundDone /\ fault["ridx"] \in {"ok", "inv", "invown"}
        /\ (\A l \in RLs : fault[l] # "cancel")
        /\ ("sidx" \in Lists => fault["sidx"] \in {"ok", "inv"})
        /\ ("ss" \in Lists => fault["ss"] = "ok")
    => /\ served["ridx"] = remote["ridx"]
       /\ \A l \in RLs : fault[l] = "ok" /\ ~IndexVictim(l) => served[l] = remote[l]
       /\ ("sidx" \in Lists => served["sidx"] = remote["sidx"])

\* the model is not vacuous: a fault-free round installs everything
AllOkInstallsNew ==
    RoundDone /\ (\A l \in Lists : fault[l] = "ok") => \A l \in Lists : served[l] = remote[l]

\* the cache file is, in every state, the previous or the new complete version
DiskAlwaysComplete == \A l \in Lists : disk[l] \in {dprev[l], remote[l]} /\ disk[l] >= 0

\* a restarted process is up and filters with every complete file it found
RestartUsable ==
    phase = "start" =>
        /\ alive
        /\ \A l \in Lists : disk[l] > 0 /\ ~(l \in RLs /\ l = Victim /\ served["ridx"] \in ownBad)
                            => served[l] = disk[l]

EmitHist == PrintT(<<"BEH", ToJson(hist)>>)
=============================================================================
