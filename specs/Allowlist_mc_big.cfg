SPECIFICATION Spec
CONSTANTS
  KeepHist = FALSE
  U = {1, 2}
  Readers = {"r1", "r2"}
  MaxRefresh = 2
  MaxReads = 2
  ModesUsed = {"ok", "http500", "garbage", "notarray", "badaddr", "truncated", "reset", "null", "noaddr", "trailing"}
  Defect = "none"
VIEW view
INVARIANTS TypeOK RefreshIsTotal FailedRefreshKeepsOld ModeOutcome PersistentKept VersionsExact ReadersSeeOldOrNew PersistentAlwaysAllowed
CHECK_DEADLOCK FALSE
