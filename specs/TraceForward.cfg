SPECIFICATION TraceSpec
INVARIANT ActiveIffProbedOK
POSTCONDITION TraceAccepted
CHECK_DEADLOCK FALSE
