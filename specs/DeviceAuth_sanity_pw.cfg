SPECIFICATION Spec
CONSTANTS
  FullProduct = FALSE
  Defect = "wrong_pw_ok"
INVARIANTS BadPasswordNeverRecognised
