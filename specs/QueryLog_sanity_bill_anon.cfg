\* sanity: the defective variant "bill_anon" must violate BilledIff
SPECIFICATION Spec
CONSTANTS
  Defect = "bill_anon"
INVARIANTS BilledIff
