-------------------------- MODULE TraceTLSManager --------------------------
(* Trace validation for EXT6 (TLS manager).  One world = one real
   tlsconfig.DefaultManager over a scratch directory, observed through real TLS
   handshakes against the configurations it handed out:

     Reset        ntp: number of configured ticket paths (must equal NTP)
     WriteFile    p, c           the environment rewrote a pair
     WriteTicket  i, k           ... a ticket key file
     Add          p, ret, loads (SetCertificateInfo calls), coll (error collector
                  called), hs: [{i, s, r}] a handshake per configuration and SNI
                  class right after the call (r: certificate id / "fail" / "panic")
     Refresh      ret, loads, coll, hs
     Clone        kind, hs (of the new configuration), minver, maxver
     Rotate       ret, coll, status (rotation-status metric: "true"/"false"/""),
                  res: [{s, i, r}] every held session offered to every
                  configuration, x: [{i, j, r}] a new session of configuration i
                  offered to j  (r: "resumed" / "full")
     Handshake    i, s, r, mb / ma (BeforeHandshake / AfterHandshake calls)
     Issue        i, ok
     Resume       s, i, r
     End
     ConcReset / ConcRead {v, v0, v1} / ConcEnd   the concurrent run: judged per
                  line (NONCONF), v must be one of the versions v0..v1

   A Rotate event is explained by RotateNoop, RotateFail, or by RotateRead,
   RotateLock, RotateApply..., RotateDone (all but the last silent).          *)
EXTENDS TLSManager

VARIABLE l
Trace == ndJsonDeserialize("trace.ndjson")
tvars == <<vars, l>>
E == Trace[l]

Mark == TLCSet(1, IF l + 1 > TLCGet(1) THEN l + 1 ELSE TLCGet(1))
\* (Mark is a side effect: it must be the last conjunct of an action)
Consume(e) == l <= Len(Trace) /\ E.ev = e /\ l' = l + 1
Peek(e) == l <= Len(Trace) /\ E.ev = e /\ rot.pc = "idle"

TraceInit == Init /\ l = 1 /\ TLCSet(1, 1)

Fresh == /\ files' = [p \in Pairs |-> "none"]
         /\ tfiles' = [i \in 1..NTP |-> 0]
         /\ stored' = <<>> /\ cfgs' = <<>> /\ sess' = <<>>
         /\ rot' = NoRot /\ last' = NoLast /\ hist' = hist

TraceReset == Peek("Reset") /\ Consume("Reset") /\ E.ntp = NTP /\ Fresh /\ Mark
TraceEnd == Peek("End") /\ Consume("End") /\ UNCHANGED vars /\ Mark

\* the observations made right after a call, judged in the state the call left
ProbesOK(hs, cf, st) == \A k \in 1..Len(hs) : hs[k].r = HSIn(cf, st, hs[k].i, hs[k].s)
ResOK(res, cf) == \A k \in 1..Len(res) :
    res[k].r = (IF sess[res[k].s] \in KeySetIn(cf, res[k].i) THEN "resumed" ELSE "full")
CrossOK(x, cf) == \A k \in 1..Len(x) :
    x[k].r = (IF EncKeyIn(cf, x[k].i) \in KeySetIn(cf, x[k].j) THEN "resumed" ELSE "full")

TraceWriteFile == /\ Peek("WriteFile") /\ Consume("WriteFile") /\ E.p \in Pairs /\ E.c \in Contents
                  /\ IF files[E.p] = E.c THEN UNCHANGED vars ELSE WriteFile(E.p, E.c)
                  /\ Mark
TraceWriteTicket == /\ Peek("WriteTicket") /\ Consume("WriteTicket") /\ E.i \in 1..NTP
                    /\ IF tfiles[E.i] = E.k THEN UNCHANGED vars ELSE WriteTicket(E.i, E.k)
                    /\ Mark

TraceAdd == /\ Peek("Add") /\ Consume("Add") /\ E.p \in Pairs
            /\ Add(E.p)
            /\ last'.ret = E.ret /\ last'.loads = E.loads /\ E.coll = FALSE
            /\ ProbesOK(E.hs, cfgs', stored') /\ Mark

TraceRefresh == /\ Peek("Refresh") /\ Consume("Refresh")
                /\ Refresh
                /\ last'.ret = E.ret /\ last'.loads = E.loads /\ last'.coll = E.coll
                /\ ProbesOK(E.hs, cfgs', stored') /\ Mark

TraceClone == /\ Peek("Clone") /\ Consume("Clone") /\ E.kind \in {"clone", "metrics"}
              /\ Clone(E.kind)
              /\ E.minver = 771 /\ E.maxver = 772     \* TLS 1.2 .. TLS 1.3, as NewDefaultManager sets them
              /\ ProbesOK(E.hs, cfgs', stored') /\ Mark

TraceHandshake == /\ Peek("Handshake") /\ Consume("Handshake") /\ E.s \in SNIs
                  /\ Handshake(E.i, E.s)
                  /\ last'.ret = E.r
                  /\ E.mb = (IF cfgs[E.i].kind = "metrics" THEN 1 ELSE 0)
                  /\ E.ma = (IF cfgs[E.i].kind = "metrics" /\ E.r \notin {"fail", "panic"} THEN 1 ELSE 0)
                  /\ Mark

TraceIssue == /\ Peek("Issue") /\ Consume("Issue") /\ E.i \in 1..Len(cfgs)
              /\ IF E.ok THEN Issue(E.i)
                 ELSE HS(E.i, "empty") \in {"fail", "panic"} /\ UNCHANGED vars
              /\ Mark

TraceResume == /\ Peek("Resume") /\ Consume("Resume")
               /\ IF E.r \in {"fail", "panic"}
                  THEN E.i \in 1..Len(cfgs) /\ HS(E.i, "empty") = E.r /\ UNCHANGED vars
                  ELSE Resume(E.s, E.i) /\ last'.ret = E.r
               /\ Mark

\* RotateTickets
RotObs == /\ last'.ret = E.ret /\ last'.coll = E.coll /\ last'.status = E.status
          /\ ResOK(E.res, cfgs') /\ CrossOK(E.x, cfgs')
TraceRotateNoop == Peek("Rotate") /\ Consume("Rotate") /\ RotateNoop /\ RotObs /\ Mark
TraceRotateFail == Peek("Rotate") /\ Consume("Rotate") /\ RotateFail /\ RotObs /\ Mark
TraceRotateRead == Peek("Rotate") /\ E.ret = "ok" /\ RotateRead /\ UNCHANGED l
TraceRotateLock == l <= Len(Trace) /\ E.ev = "Rotate" /\ RotateLock /\ UNCHANGED l
TraceRotateApply == /\ l <= Len(Trace) /\ E.ev = "Rotate" /\ rot.pc = "apply" /\ rot.pending # {}
                    /\ RotateApply(CHOOSE i \in rot.pending : \A j \in rot.pending : i <= j) /\ UNCHANGED l
TraceRotateDone == l <= Len(Trace) /\ E.ev = "Rotate" /\ l' = l + 1 /\ RotateDone /\ RotObs /\ Mark

\* the concurrent run, judged line by line
ConcReasons(e) ==
    (IF e.r = "panic" THEN {"the server side of a handshake panicked"} ELSE {})
    \cup (IF e.r = "fail" THEN {"a handshake failed while certificates were being refreshed"} ELSE {})
    \cup (IF e.r \notin {"panic", "fail"} /\ ~(e.v >= e.v0 /\ e.v <= e.v1)
          THEN {"the certificate seen is none of the versions in force during the handshake"} ELSE {})
TraceConc == /\ l <= Len(Trace) /\ E.ev \in {"ConcReset", "ConcRead", "ConcEnd"} /\ rot.pc = "idle"
             /\ l' = l + 1 /\ UNCHANGED vars
             /\ IF E.ev = "ConcRead"
                THEN LET r == ConcReasons(E) IN IF r = {} THEN TRUE ELSE PrintT(<<"NONCONF", l, r>>)
                ELSE TRUE
             /\ Mark

TraceStep == \/ TraceReset \/ TraceEnd \/ TraceWriteFile \/ TraceWriteTicket \/ TraceAdd \/ TraceRefresh
              \/ TraceClone \/ TraceHandshake \/ TraceIssue \/ TraceResume
              \/ TraceRotateNoop \/ TraceRotateFail \/ TraceRotateRead \/ TraceRotateLock \/ TraceRotateApply
              \/ TraceRotateDone \/ TraceConc
TraceNext == TraceStep /\ UNCHANGED dice
TraceSpec == TraceInit /\ [][TraceNext]_tvars

TraceAccepted ==
    IF TLCGet(1) = Len(Trace) + 1 THEN TRUE
    ELSE PrintT(<<"STUCK", TLCGet(1), Len(Trace)>>) /\ FALSE
=============================================================================
