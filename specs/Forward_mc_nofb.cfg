SPECIFICATION Spec
CONSTANTS
  KeepHist = FALSE
  Main <- Main2
  Fall = {}
  Defect = "none"
  Backoff = 2
INVARIANTS AnsweredByChosenMain FallbackOnceOnNetErrorOrNoActive ServfailOnlyIfBothFail ChosenWasActive ActiveIffProbedOK NoFallbacksNeverDemotes
PROPERTIES NoProbeInBackoff ReturnsAfterRecovery
CHECK_DEADLOCK FALSE
