SPECIFICATION SimSpec
CONSTANTS
  FilesSrc <- WFiles
  MConfs <- WConfs
  UseRegister = FALSE
  Refreshers = {"r1"}
  InvalidCountries = {"A1", "A2", "O1", "ZZZ"}
  InvalidContinents = {"ZZ"}
  Serial = FALSE
  Defect = "none"
  KeepHist = TRUE
  MaxPut = 8
  MaxRefresh = 5
  MaxData = 12
CONSTRAINT EmitHist
INVARIANTS TypeOK LocationsAreValues CacheAgreesWithDB ReadersSeeOneVersion FailedRefreshKeepsOld QuiescentConsistent SubnetContract SubnetInCountry SharedByKey
CHECK_DEADLOCK FALSE
