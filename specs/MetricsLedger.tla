-------------------------- MODULE MetricsLedger --------------------------
(* EXT11 (extension, not a listed property), part (b): the Prometheus metrics
   listeners of internal/dnsserver/prometheus as an accounting ledger.

   What an operator reading the metrics relies on (package comment of
   prometheus.go, doc comments of server.go, reqlabel/helper.go, dns.go,
   ratelimit.go, cache.go, forward.go and of the listener interfaces
   dnsserver.MetricsListener, ratelimit.Metrics, cache.MetricsListener,
   forward.MetricsListener):

     * every request the server finishes (OnRequest) is counted EXACTLY ONCE in
       server_request_total, under the series that describes it: server name,
       protocol, socket network, address, query type, address family;
       query types outside the documented list (and a message without exactly
       one question) are folded into "OTHER" ("practice shows that this creates
       quite a huge cardinality");
     * the same request is counted exactly once in server_response_rcode_total
       under its response code, "DROPPED" if there was no response at all; its
       size and duration are observed once; the response size is observed once
       iff there was a response;
     * an invalid message / an error / a panic is counted once in its own
       counter and is NOT a request; a QUIC address validation look-up is
       counted once under hit = 1 / 0;
     * a rate-limited query is counted once in ratelimit_dropped_total and an
       allow-listed one once in ratelimit_allowlisted_total, under the request's
       series;
     * cache hits + cache misses = look-ups; cache_size shows the length
       reported by the last addition;
     * a forwarded request is counted once per upstream and network, its
       duration observed once, its response code once iff there was a response,
       an error once iff there was one, classified timeout / network / other;
       forward_upstream_status shows the last reported status of an upstream,
       under type "upstream" (main) or "fallback".

   State: `led` is the ledger the real registry must agree with (series ->
   value, only series that were touched), `gauge` the gauges; `cnt` is the
   ghost: how many times each event was delivered.  Effect(e) is what one event
   does to the ledger (constructive); the invariants state the contract
   declaratively from `cnt` alone (Describes / Concerns), so a defect in Effect
   (Variant, sanity configurations) is reported.

   One action per listener call.                                            *)
EXTENDS Naturals, FiniteSets, Sequences, TLC, Json

CONSTANTS Servers, Protos, Nets, Fams, QTypes, Rcodes, ReqSizes, RespSizes, Durs,
          Ups, FwdNets, Errs, CacheLens,
          MaxEvents, KeepHist, Variant

\* the documented list of dns.go
CommonTypes == {"A", "AAAA", "CNAME", "DNSKEY", "DS", "HTTPS", "MX", "NS", "NSEC", "NSEC3", "PTR", "RRSIG",
                "SOA", "SRV", "SVCB", "TXT", "ANY", "AXFR", "IXFR"}
TypeLabel(qt) == IF qt \in CommonTypes \/ Variant = "nofold" THEN qt ELSE "OTHER"
RcodeLabel(rc) == IF rc = "nil" THEN "DROPPED" ELSE rc
ErrLabel(err) == IF err \in {"deadline", "nettimeout"} THEN "timeout" ELSE err
AddrOf(s) == IF s = "s1" THEN "@s1" ELSE IF s = "s2" THEN "@s2" ELSE "@s3"
RoleOf(u) == IF u = "u1" THEN "upstream" ELSE "fallback"
OtherServer(s) == IF s = "s1" THEN "s2" ELSE "s1"

VARIABLES led,     \* [<<metric, labels>> -> Nat]  (sparse)
          gauge,   \* [<<metric, labels>> -> Nat]  (sparse)
          cnt,     \* ghost: [event -> Nat]  (sparse)
          lastAdded, lastStatus,   \* ghost: last reported cache length / status per upstream (NoneN before)
          last,    \* the last event
          nev, hist

vars == <<led, gauge, cnt, lastAdded, lastStatus, last, nev, hist>>
view == <<led, gauge, cnt, lastAdded, lastStatus, last, nev>>

Dash == "-"
NoneN == 1000000      \* "nothing reported yet" (TLC cannot compare a string with a number)
Ev(kind, s, p, nw, fam, qt, rc, rq, rs, dur, u, err, n) ==
    [kind |-> kind, s |-> s, p |-> p, nw |-> nw, fam |-> fam, qt |-> qt, rc |-> rc, rq |-> rq, rs |-> rs,
     dur |-> dur, u |-> u, err |-> err, n |-> n]
NoEv == Ev("none", Dash, Dash, Dash, Dash, Dash, Dash, 0, 0, 0, Dash, Dash, 0)

M(m, k, d) == [m |-> m, k |-> k, d |-> d]
SI(e) == <<e.s, e.p, AddrOf(e.s)>>
ReqKey(e) == <<e.s, e.p, e.nw, AddrOf(e.s), TypeLabel(e.qt), e.fam>>

\* ------------------------------------------------------------------ effects
RequestEffect(e) ==
    LET s2 == IF Variant = "wrong_server" THEN OtherServer(e.s) ELSE e.s
        rk == <<s2, e.p, e.nw, AddrOf(s2), TypeLabel(e.qt), e.fam>>
        nreq == IF Variant = "double" THEN 2
                ELSE IF Variant = "drop_rare" /\ TypeLabel(e.qt) = "OTHER" THEN 0 ELSE 1
        nsz == IF Variant = "size_twice" THEN 2 ELSE 1
    IN {M("server_request_total", rk, nreq),
        M("server_request_size_bytes_count", SI(e), nsz),
        M("server_request_size_bytes_sum", SI(e), nsz * e.rq),
        M("server_request_duration_seconds_count", SI(e), 1),
        M("server_request_duration_seconds_sum", SI(e), e.dur)}
       \cup (IF e.rc = "nil"
             THEN IF Variant = "rcode_skipped_on_drop" THEN {}
                  ELSE {M("server_response_rcode_total", SI(e) \o <<"DROPPED">>, 1)}
             ELSE {M("server_response_rcode_total", SI(e) \o <<RcodeLabel(e.rc)>>, 1),
                   M("server_response_size_bytes_count", SI(e), 1),
                   M("server_response_size_bytes_sum", SI(e), e.rs)})

Effect(e) ==
    LET raw ==
        CASE e.kind = "Request" -> RequestEffect(e)
          [] e.kind = "InvalidMsg" ->
                {M("server_invalid_msg_total", SI(e), 1)} \cup
                (IF Variant = "invalid_as_request"
                 THEN {M("server_request_total", <<e.s, e.p, "udp", AddrOf(e.s), "OTHER", "0">>, 1)} ELSE {})
          [] e.kind = "Error" ->
                {M(IF Variant = "error_as_panic" THEN "server_panic_total" ELSE "server_error_total", SI(e), 1)}
          [] e.kind = "Panic" -> {M("server_panic_total", SI(e), 1)}
          [] e.kind = "Quic" -> {M("server_quic_addr_validation_lookups", <<e.rc>>, 1)}
          [] e.kind = "RateLimited" ->
                {M(IF Variant = "ratelimit_swapped" THEN "ratelimit_allowlisted_total" ELSE "ratelimit_dropped_total",
                   ReqKey(e), 1)}
          [] e.kind = "Allowlisted" -> {M("ratelimit_allowlisted_total", ReqKey(e), 1)}
          [] e.kind = "CacheHit" ->
                IF Variant = "cache_hit_uncounted" THEN {} ELSE {M("cache_hits_total", <<"default">>, 1)}
          [] e.kind = "CacheMiss" ->
                {M(IF Variant = "cache_miss_as_hit" THEN "cache_hits_total" ELSE "cache_misses_total", <<"default">>, 1)}
          [] e.kind = "Forward" ->
                {M("forward_request_total", <<e.u, e.nw>>, 1),
                 M("forward_request_duration_seconds_count", <<e.u>>, 1),
                 M("forward_request_duration_seconds_sum", <<e.u>>, e.dur)}
                \cup (IF e.rc = "nil" THEN {} ELSE {M("forward_response_rcode_total", <<e.u, RcodeLabel(e.rc)>>, 1)})
                \cup (IF e.err = "none" /\ Variant # "fwd_err_always" THEN {}
                      ELSE {M("forward_error_total", <<e.u, ErrLabel(e.err)>>, 1)})
          [] OTHER -> {}
    IN {x \in raw : x.d > 0}

\* gauges set by an event: set of [m, k, d]
GaugeEffect(e) ==
    CASE e.kind = "CacheAdded" -> {M("cache_size", <<"default">>, e.n)}
      [] e.kind = "Status" ->
            {M("forward_upstream_status", <<e.u, RoleOf(e.u)>>,
               IF Variant = "status_inverted" THEN 1 - e.n ELSE e.n)}
      [] OTHER -> {}

Key(x) == <<x.m, x.k>>
Apply(f, X) ==
    LET ks == {Key(x) : x \in X} IN
    [key \in DOMAIN f \cup ks |->
        (IF key \in DOMAIN f THEN f[key] ELSE 0) +
        (IF key \in ks THEN (CHOOSE x \in X : Key(x) = key).d ELSE 0)]
SetTo(f, X) ==
    LET ks == {Key(x) : x \in X} IN
    [key \in DOMAIN f \cup ks |-> IF key \in ks THEN (CHOOSE x \in X : Key(x) = key).d ELSE f[key]]
Bump(f, e) == [x \in DOMAIN f \cup {e} |-> IF x \in DOMAIN f THEN (IF x = e THEN f[x] + 1 ELSE f[x]) ELSE 1]

Empty == [x \in {} |-> 0]

Init == /\ led = Empty /\ gauge = Empty /\ cnt = Empty
        /\ lastAdded = NoneN /\ lastStatus = [u \in Ups |-> NoneN]
        /\ last = NoEv /\ nev = 0 /\ hist = <<>>

Deliver(e) ==
    /\ nev < MaxEvents
    /\ nev' = nev + 1
    /\ last' = e
    /\ led' = Apply(led, Effect(e))
    /\ gauge' = SetTo(gauge, GaugeEffect(e))
    /\ cnt' = Bump(cnt, e)
    /\ lastAdded' = IF e.kind = "CacheAdded" THEN e.n ELSE lastAdded
    /\ lastStatus' = IF e.kind = "Status" THEN [lastStatus EXCEPT ![e.u] = e.n] ELSE lastStatus
    /\ hist' = IF KeepHist THEN Append(hist, e) ELSE hist

\* ------------------------------------------------------------------ one action per listener call
ReqLabelEv(kind, s, p, nw, fam, qt) == Ev(kind, s, p, nw, fam, qt, Dash, 0, 0, 0, Dash, Dash, 0)

OnRequest == \E s \in Servers, p \in Protos, nw \in Nets, fam \in Fams, qt \in QTypes, rc \in Rcodes \cup {"nil"},
                rq \in ReqSizes, rs \in RespSizes, d \in Durs :
                /\ Deliver(Ev("Request", s, p, nw, fam, qt, rc, rq, IF rc = "nil" THEN 0 ELSE rs, d, Dash, Dash, 0)) /\ last'.kind # "none"
SrvEv(kind, s, p) == Ev(kind, s, p, Dash, Dash, Dash, Dash, 0, 0, 0, Dash, Dash, 0)
OnInvalidMsg == \E s \in Servers, p \in Protos : /\ Deliver(SrvEv("InvalidMsg", s, p)) /\ last'.kind # "none"
OnError == \E s \in Servers, p \in Protos : /\ Deliver(SrvEv("Error", s, p)) /\ last'.kind # "none"
OnPanic == \E s \in Servers, p \in Protos : /\ Deliver(SrvEv("Panic", s, p)) /\ last'.kind # "none"
OnQUICAddressValidation == \E hit \in {"0", "1"} :
    /\ Deliver(Ev("Quic", Dash, Dash, Dash, Dash, Dash, hit, 0, 0, 0, Dash, Dash, 0)) /\ last'.kind # "none"
OnRateLimited == \E s \in Servers, p \in Protos, nw \in Nets, fam \in Fams, qt \in QTypes :
    /\ Deliver(ReqLabelEv("RateLimited", s, p, nw, fam, qt)) /\ last'.kind # "none"
OnAllowlisted == \E s \in Servers, p \in Protos, nw \in Nets, fam \in Fams, qt \in QTypes :
    /\ Deliver(ReqLabelEv("Allowlisted", s, p, nw, fam, qt)) /\ last'.kind # "none"
PlainEv(kind, n) == Ev(kind, Dash, Dash, Dash, Dash, Dash, Dash, 0, 0, 0, Dash, Dash, n)
OnCacheHit == /\ Deliver(PlainEv("CacheHit", 0)) /\ last'.kind # "none"
OnCacheMiss == /\ Deliver(PlainEv("CacheMiss", 0)) /\ last'.kind # "none"
OnCacheItemAdded == \E n \in CacheLens : /\ Deliver(PlainEv("CacheAdded", n)) /\ last'.kind # "none"
OnForwardRequest == \E u \in Ups, nw \in FwdNets, rc \in Rcodes \cup {"nil"}, err \in Errs, d \in Durs :
    /\ Deliver(Ev("Forward", Dash, Dash, nw, Dash, Dash, rc, 0, 0, d, u, err, 0)) /\ last'.kind # "none"
OnUpstreamStatusChanged == \E u \in Ups, up \in {0, 1} :
    /\ Deliver(Ev("Status", Dash, Dash, Dash, Dash, Dash, Dash, 0, 0, 0, u, Dash, up)) /\ last'.kind # "none"

Next == \/ OnRequest \/ OnInvalidMsg \/ OnError \/ OnPanic \/ OnQUICAddressValidation
        \/ OnRateLimited \/ OnAllowlisted
        \/ OnCacheHit \/ OnCacheMiss \/ OnCacheItemAdded
        \/ OnForwardRequest \/ OnUpstreamStatusChanged

Spec == Init /\ [][Next]_vars

-----------------------------------------------------------------------------
\* The contract, from the ghost alone.
SizeSums == {"server_request_size_bytes_sum", "server_response_size_bytes_sum"}
DurSums == {"server_request_duration_seconds_sum", "forward_request_duration_seconds_sum"}
ReqObs == {"server_request_size_bytes_count", "server_request_size_bytes_sum",
           "server_request_duration_seconds_count", "server_request_duration_seconds_sum"}
RespObs == {"server_response_size_bytes_count", "server_response_size_bytes_sum"}
RequestFamily == {"server_request_total", "server_response_rcode_total"} \cup ReqObs \cup RespObs
FwdObs == {"forward_request_duration_seconds_count", "forward_request_duration_seconds_sum"}
Metrics == RequestFamily \cup FwdObs \cup
           {"server_invalid_msg_total", "server_error_total", "server_panic_total",
            "server_quic_addr_validation_lookups", "ratelimit_dropped_total", "ratelimit_allowlisted_total",
            "cache_hits_total", "cache_misses_total", "forward_request_total", "forward_response_rcode_total",
            "forward_error_total"}

\* event e is accounted for in metric m at all ...
Concerns(e, m) ==
    CASE m = "server_request_total" -> e.kind = "Request"
      [] m = "server_response_rcode_total" -> e.kind = "Request"
      [] m \in ReqObs -> e.kind = "Request"
      [] m \in RespObs -> e.kind = "Request" /\ e.rc # "nil"
      [] m = "server_invalid_msg_total" -> e.kind = "InvalidMsg"
      [] m = "server_error_total" -> e.kind = "Error"
      [] m = "server_panic_total" -> e.kind = "Panic"
      [] m = "server_quic_addr_validation_lookups" -> e.kind = "Quic"
      [] m = "ratelimit_dropped_total" -> e.kind = "RateLimited"
      [] m = "ratelimit_allowlisted_total" -> e.kind = "Allowlisted"
      [] m = "cache_hits_total" -> e.kind = "CacheHit"
      [] m = "cache_misses_total" -> e.kind = "CacheMiss"
      [] m = "forward_request_total" -> e.kind = "Forward"
      [] m \in FwdObs -> e.kind = "Forward"
      [] m = "forward_response_rcode_total" -> e.kind = "Forward" /\ e.rc # "nil"
      [] m = "forward_error_total" -> e.kind = "Forward" /\ e.err # "none"
      [] OTHER -> FALSE

\* ... and, if so, under which series: the documented folding is stated here
\* independently of Effect (a type is its own label iff it is in the list)
FoldedType(qt) == IF qt \in CommonTypes THEN qt ELSE "OTHER"
SeriesOf(e, m) ==
    CASE m \in {"server_request_total", "ratelimit_dropped_total", "ratelimit_allowlisted_total"} ->
            <<e.s, e.p, e.nw, AddrOf(e.s), FoldedType(e.qt), e.fam>>
      [] m = "server_response_rcode_total" -> <<e.s, e.p, AddrOf(e.s), IF e.rc = "nil" THEN "DROPPED" ELSE e.rc>>
      [] m \in ReqObs \cup RespObs \cup {"server_invalid_msg_total", "server_error_total", "server_panic_total"} ->
            <<e.s, e.p, AddrOf(e.s)>>
      [] m = "server_quic_addr_validation_lookups" -> <<e.rc>>
      [] m \in {"cache_hits_total", "cache_misses_total"} -> <<"default">>
      [] m = "forward_request_total" -> <<e.u, e.nw>>
      [] m \in FwdObs -> <<e.u>>
      [] m = "forward_response_rcode_total" -> <<e.u, e.rc>>
      [] m = "forward_error_total" ->
            <<e.u, IF e.err \in {"deadline", "nettimeout"} THEN "timeout" ELSE e.err>>
      [] OTHER -> <<>>
Weight(e, m) == IF m = "server_request_size_bytes_sum" THEN e.rq
                ELSE IF m = "server_response_size_bytes_sum" THEN e.rs
                ELSE IF m \in DurSums THEN e.dur ELSE 1

RECURSIVE SumSet(_, _, _)
\* sum over the events in S of cnt * weight, for those accounted in m (under series k, or any if k = "any")
SumSet(S, m, k) ==
    IF S = {} THEN 0
    ELSE LET e == CHOOSE x \in S : TRUE IN
         (IF Concerns(e, m) /\ (k = <<"any">> \/ SeriesOf(e, m) = k) THEN cnt[e] * Weight(e, m) ELSE 0)
         + SumSet(S \ {e}, m, k)
Expected(m, k) == SumSet(DOMAIN cnt, m, k)
RECURSIVE SumLed(_, _)
SumLed(S, m) == IF S = {} THEN 0
                ELSE LET x == CHOOSE x \in S : TRUE IN (IF x[1] = m THEN led[x] ELSE 0) + SumLed(S \ {x}, m)
Total(m) == SumLed(DOMAIN led, m)

TypeOK == /\ \A key \in DOMAIN led : key[1] \in Metrics /\ led[key] \in Nat
          /\ \A e \in DOMAIN cnt : cnt[e] \in Nat \ {0}

\* Every series shows exactly the events it describes, once each; the totals
\* match, so no event is missing from the metric that accounts for it.
ExactlyOnce == /\ \A key \in DOMAIN led : led[key] = Expected(key[1], key[2])
               /\ \A m \in Metrics : Total(m) = Expected(m, <<"any">>)

\* every finished request has exactly one response code entry (DROPPED included)
RequestsHaveRcode == Total("server_response_rcode_total") = Total("server_request_total")

\* sizes and duration are observed once per request and server
ObservedOnce == /\ Total("server_request_size_bytes_count") = Total("server_request_total")
                /\ Total("server_request_duration_seconds_count") = Total("server_request_total")
                /\ Total("forward_request_duration_seconds_count") = Total("forward_request_total")

CacheLookups == Total("cache_hits_total") + Total("cache_misses_total") =
                Expected("cache_hits_total", <<"any">>) + Expected("cache_misses_total", <<"any">>)

\* rare query types never create a series of their own
LabelsBounded == \A key \in DOMAIN led :
    key[1] \in {"server_request_total", "ratelimit_dropped_total", "ratelimit_allowlisted_total"} =>
        key[2][5] \in CommonTypes \cup {"OTHER"}

GaugesShowLast ==
    /\ lastAdded = NoneN <=> <<"cache_size", <<"default">>>> \notin DOMAIN gauge
    /\ lastAdded # NoneN => gauge[<<"cache_size", <<"default">>>>] = lastAdded
    /\ \A u \in Ups : LET key == <<"forward_upstream_status", <<u, RoleOf(u)>>>> IN
                      /\ lastStatus[u] = NoneN <=> key \notin DOMAIN gauge
                      /\ lastStatus[u] # NoneN => gauge[key] = lastStatus[u]
    /\ \A key \in DOMAIN gauge : key[1] \in {"cache_size", "forward_upstream_status"}

Restrict(f, S) == [key \in {x \in DOMAIN f : x[1] \in S} |-> f[key]]
\* an invalid message, an error, a panic, a rate-limit or cache or forwarder event is not a request
NotAReqStep == last'.kind # "Request" => Restrict(led', RequestFamily) = Restrict(led, RequestFamily)
NotARequest == [][NotAReqStep]_vars
\* counters only grow; an event touches only metrics that account for it
Monotone == [][\A key \in DOMAIN led : key \in DOMAIN led' /\ led'[key] >= led[key]]_vars
OwnStep == \A key \in DOMAIN led' : (key \notin DOMAIN led \/ led'[key] # led[key]) => Concerns(last', key[1])
OnlyOwnMetrics == [][OwnStep]_vars

EmitHist == PrintT(<<"BEH", ToJson(hist)>>)
=============================================================================
