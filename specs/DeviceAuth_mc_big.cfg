SPECIFICATION Spec
CONSTANTS
  FullProduct = TRUE
  Defect = "none"
INVARIANTS TypeOK ContractNonEmpty ImplWithinContract RecognisedImpliesValidChannel RecognisedImpliesLiveMembership DoHOnlyNeverElsewhere DoHOnlyNeedsRightPassword BadPasswordNeverRecognised AuthFailureIsAnonymousDownstream DNSCryptAlwaysAnonymous PrecedenceRespected DownstreamOnlyRecognised
