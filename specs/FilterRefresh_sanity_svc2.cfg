SPECIFICATION Spec
CONSTANTS
  Lists = {"ridx", "rl1", "rl2", "sidx"}
  Faults = {"ok", "refused", "timeout", "status", "empty", "oversize", "trunc", "cancel", "inv", "invown"}
  MaxRounds = 2
  CrashAnywhere = TRUE
  Defects = {"svc_strict"}
  KeepHist = FALSE
VIEW view
INVARIANT ValidIndexEntriesApplied
CHECK_DEADLOCK FALSE
