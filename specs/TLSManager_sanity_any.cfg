SPECIFICATION Spec
CONSTANTS
  Pairs = {"p1", "p2"}
  CertIds = {"A1", "A2", "B1"}
  BadContents = {"garbage"}
  NTP = 0
  TicketContents = {}
  MaxCfg = 1
  MaxSess = 0
  SNIs = {"a", "b", "empty", "unk"}
  Defect = "select_any"
  KeepHist = FALSE
  AllowRefreshFail = TRUE
  Atomic = FALSE
VIEW view
INVARIANTS HandshakeSeesLoadedCert
PROPERTIES PairsOnlyGrow
CHECK_DEADLOCK FALSE
