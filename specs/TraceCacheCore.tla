--------------------------- MODULE TraceCacheCore ---------------------------
(* Trace validation for C04 on the real caches (simple and ECS-aware) under a
   virtual clock.  Events:
     Reset{cache, override, minttl}
     Tick{d}                       d quarter seconds pass
     Query{key, up, cacheable, life, fresh{rcode,flags,digest,ttls}, got{...}}
        key       the question (name lower-cased, qtype, qclass, DO, and for the
                  ECS cache the client's region) -- what may share an answer
        up        the warm instance called its upstream (a miss)
        fresh     what a cold instance of the same middleware answered for the
                  same request at the same instant (the "fresh answer")
        cacheable the fresh answer is of a kind the property allows to cache
        life      its lifetime in seconds (lowest record TTL; SERVFAIL capped)
        got       what the warm instance answered
   The model cache is advanced by the spec: a miss stores the fresh answer iff
   it is cacheable; a hit must be explained by a live entry for the SAME key
   whose content equals the fresh answer and whose TTLs are bounded by
   CeilSec(original - age).  A miss is always explainable (LRU eviction).      *)
EXTENDS CacheCore

VARIABLES l, tnow, tcache
Trace == ndJsonDeserialize("trace.ndjson")
E == Trace[l]
tvars == <<vars, l, tnow, tcache>>

TKeys == {Trace[i].key : i \in {j \in 1..Len(Trace) : Trace[j].ev = "Query"}}
TNo == [present |-> FALSE, when |-> 0, life |-> 0, rcode |-> 0, flags |-> "", digest |-> "", ttls |-> <<>>]

Step(e) == l <= Len(Trace) /\ E.ev = e /\ l' = l + 1

TReset == Step("Reset") /\ tnow' = 0 /\ tcache' = [k \in TKeys |-> TNo] /\ UNCHANGED vars
TTick == Step("Tick") /\ tnow' = tnow + E.d /\ UNCHANGED <<vars, tcache>>

SameAnswer(a, b) == a.rcode = b.rcode /\ a.flags = b.flags /\ a.digest = b.digest

TMiss == /\ Step("Query") /\ E.up
         \* a miss serves exactly the fresh answer, TTLs included
         /\ SameAnswer(E.got, E.fresh) /\ E.got.ttls = E.fresh.ttls
         /\ tcache' = [tcache EXCEPT ![E.key] =
                          IF E.cacheable /\ E.life > 0
                          THEN [present |-> TRUE, when |-> tnow, life |-> E.life, rcode |-> E.fresh.rcode,
                                flags |-> E.fresh.flags, digest |-> E.fresh.digest, ttls |-> E.fresh.ttls]
                          ELSE TNo]
         /\ UNCHANGED <<vars, tnow>>

THit == /\ Step("Query") /\ ~E.up
        /\ LET e == tcache[E.key] age == tnow - e.when IN
           /\ e.present                                             \* KeySeparation + OnlyCacheable
           /\ age <= e.life * Q                                     \* NothingAfterExpiry
           /\ SameAnswer(E.got, E.fresh)                            \* HitEqualsFresh (vs a cold instance, now)
           /\ E.got.digest = e.digest /\ E.got.rcode = e.rcode      \* ... and it is the stored answer
           /\ Len(E.got.ttls) = Len(e.ttls)
           /\ \A i \in 1..Len(e.ttls) :                             \* TTLBound, per record
                  E.got.ttls[i] <= (IF e.ttls[i] * Q > age THEN CeilSec(e.ttls[i] * Q - age) ELSE 0)
        /\ UNCHANGED <<vars, tnow, tcache>>

TraceInit == Init /\ l = 1 /\ tnow = 0 /\ tcache = [k \in TKeys |-> TNo]
TraceNext == TReset \/ TTick \/ TMiss \/ THit
TraceSpec == TraceInit /\ [][TraceNext]_tvars
TraceAccepted == LET d == TLCGet("stats").diameter IN
    IF d - 1 = Len(Trace) THEN TRUE ELSE PrintT(<<"STUCK", d, Len(Trace)>>) /\ FALSE
=============================================================================
