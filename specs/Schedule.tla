------------------------------ MODULE Schedule ------------------------------
(* EXT10 (b): the parental-control pause schedule of a profile
   (internal/filter/schedule.go: DayInterval.Validate, ConfigSchedule.Contains)
   as a decision table.

   The CONTRACT, from the doc comments of schedule.go:
     - DayInterval: "an interval within a single day.  The interval is exclusive
       at the end.  An empty DayInterval is zero-length."  Start is "the
       inclusive start of the interval in minutes ... within the range from
       00:00:00 (0) to 23:59:59 (MaxDayIntervalStartMinutes)", End "the exclusive
       end ... from 00:00:00 (0) to 00:00:00 of the next day
       (MaxDayIntervalEndMinutes)": the two numbers are TIMES OF DAY on the wall
       clock of the profile's time zone, 1440 being midnight of the next day.
     - WeeklySchedule: "The index is the same as time.Weekday values.  That is,
       0 is Sunday, 1 is Monday, etc.  A nil DayInterval means that there is no
       schedule for this day."
     - ConfigSchedule.TimeZone "is the profile's time zone"; Contains "returns
       true if t is within the allowed schedule."
     - Validate: "A nil DayInterval is considered valid."; the ranges above.

   Time is in seconds since 2023-12-31T00:00:00Z (a Sunday), so that the UTC
   week day of an instant t is (t \div 86400) % 7 with 0 = Sunday.  A zone is
   its offset at the start of 2024 and its transitions during 2024 (the real
   tz database rules of that year; the harness reports the offset the Go
   runtime uses at every probed instant and the trace spec compares).

   A row of the table is a (zone, week, instant) triple -- the instants are
   chosen by their LOCAL day, minute and second so that the same wall-clock
   boundary is probed in every zone, on days around which the offset moves the
   instant across midnight, across the week boundary (Saturday <-> Sunday, the
   wrap of the week-day index; Sunday <-> Monday) and on the days the clocks
   change -- or a (nil, start, end) triple for Validate.

   Part 1 is the contract (Contains, ValidIv).  Part 2 is an
   implementation-shaped rule with defect flags; the invariants are the
   clauses of the contract evaluated on the rule's result, and the trace spec
   (TraceSchedule) evaluates the same clauses on what the real code returned. *)
EXTENDS Integers, Sequences, FiniteSets, TLC, Json
SX == INSTANCE SequencesExt

CONSTANTS ZoneNames,        \* zones of the table
          WeekNames,        \* week patterns of the table
          Days,             \* local days probed (days since 2023-12-31)
          Minutes, Secs,    \* local minute of the day and second probed
          Bounds,           \* values of start / end for Validate
          \* defects of the implementation-shaped rule
          ElapsedNotWall,   \* start and end are counted as elapsed time from the local midnight
          UTCWeekday,       \* the week day is the one of the instant in UTC
          NoZone,           \* the time zone is not applied at all
          ClosedEnd,        \* the end is inclusive
          OpenStart,        \* the start is exclusive
          ZeroIsWholeDay,   \* the empty interval means the whole day
          NilIsWholeDay,    \* no interval for the day means the whole day
          LaxEnd,           \* Validate accepts an end one minute after midnight
          StrictOrder       \* Validate rejects start = end

DaySec == 86400
MaxStart == 24 * 60 - 1
MaxEnd == 24 * 60
Iv(a, b) == <<a, b>>
Nil == Iv(-1, -1)
Zero == Iv(0, 0)
Whole == Iv(0, MaxEnd)
MaxOf(S) == CHOOSE x \in S : \A y \in S : y <= x

-----------------------------------------------------------------------------
\* the zones: offset at the start of 2024 and the transitions of 2024 <<instant, new offset>>
Fixed(o) == [o |-> o, tr |-> <<>>]
Zone(n) ==
    CASE n = "UTC" -> Fixed(0)
      [] n = "Asia/Kolkata" -> Fixed(19800)
      [] n = "Asia/Kathmandu" -> Fixed(20700)
      [] n = "Pacific/Kiritimati" -> Fixed(50400)
      [] n = "Etc/GMT+12" -> Fixed(-43200)
      [] n = "America/Phoenix" -> Fixed(-25200)
      \* 2024-03-31 01:00Z +01 -> +02, 2024-10-27 01:00Z +02 -> +01
      [] n = "Europe/Berlin" -> [o |-> 3600, tr |-> << <<91 * DaySec + 3600, 7200>>, <<301 * DaySec + 3600, 3600>> >>]
      \* 2024-03-10 07:00Z -05 -> -04, 2024-11-03 06:00Z -04 -> -05
      [] n = "America/New_York" -> [o |-> -18000, tr |-> << <<70 * DaySec + 25200, -14400>>, <<308 * DaySec + 21600, -18000>> >>]
      \* half an hour of DST: 2024-04-06 15:00Z +11 -> +10:30, 2024-10-05 15:30Z +10:30 -> +11
      [] n = "Australia/Lord_Howe" -> [o |-> 39600, tr |-> << <<97 * DaySec + 54000, 37800>>, <<279 * DaySec + 55800, 39600>> >>]
KnownZones == {"UTC", "Asia/Kolkata", "Asia/Kathmandu", "Pacific/Kiritimati", "Etc/GMT+12", "America/Phoenix",
               "Europe/Berlin", "America/New_York", "Australia/Lord_Howe"}
Off(z, t) == LET past == {i \in 1..Len(z.tr) : z.tr[i][1] <= t}
             IN IF past = {} THEN z.o ELSE z.tr[MaxOf(past)][2]
Offsets(z) == {z.o} \cup {z.tr[i][2] : i \in 1..Len(z.tr)}
\* the range of instants for which the table of a zone is claimed (2024-01-02 .. 2024-12-30)
InYear(t) == t >= 2 * DaySec /\ t < 365 * DaySec

\* the week patterns: seven intervals, index = time.Weekday + 1
All(iv) == [d \in 1..7 |-> iv]
Only(wd, iv) == [d \in 1..7 |-> IF d = wd + 1 THEN iv ELSE Nil]
Week(n) ==
    CASE n = "nil" -> All(Nil)
      [] n = "zero" -> All(Zero)
      [] n = "whole" -> All(Whole)
      [] n = "work" -> All(Iv(540, 1020))
      [] n = "late" -> All(Iv(1380, MaxEnd))
      [] n = "early" -> All(Iv(0, 1))
      [] n = "point" -> All(Iv(600, 600))
      [] n = "almost" -> All(Iv(0, MaxStart))
      [] n = "night" -> All(Iv(60, 240))
      [] n = "sun" -> Only(0, Whole)
      [] n = "mon" -> Only(1, Whole)
      [] n = "sat" -> Only(6, Whole)
      [] n = "notsun" -> [d \in 1..7 |-> IF d = 1 THEN Nil ELSE Whole]
      [] n = "stairs" -> [d \in 1..7 |-> Iv(60 * (d - 1), MaxEnd - 60 * (d - 1))]
KnownWeeks == {"nil", "zero", "whole", "work", "late", "early", "point", "almost", "night", "sun", "mon", "sat",
               "notsun", "stairs"}

-----------------------------------------------------------------------------
\* PART 1: the contract
ValidIv(isnil, a, b) == isnil \/ (a = 0 /\ b = 0) \/ (a <= b /\ a <= MaxStart /\ b <= MaxEnd)
ValidWeek(w) == \A d \in 1..7 : w[d] = Nil \/ ValidIv(FALSE, w[d][1], w[d][2])

Wall(z, t) == t + Off(z, t)                       \* the wall clock of the zone, as seconds since the epoch's midnight
LocalDay(z, t) == Wall(z, t) \div DaySec
LocalWeekday(z, t) == LocalDay(z, t) % 7          \* 0 = Sunday
SecOfDay(z, t) == Wall(z, t) % DaySec
IvAt(z, w, t) == w[LocalWeekday(z, t) + 1]

Contains(z, w, t) ==
    LET iv == IvAt(z, w, t) sod == SecOfDay(z, t)
    IN iv # Nil /\ iv # Zero /\ iv[1] * 60 <= sod /\ sod < iv[2] * 60

\* the clauses of the contract, each a predicate of a row and a result r
CNilNever(z, w, t, r) == IvAt(z, w, t) = Nil => ~r
CZeroNever(z, w, t, r) == IvAt(z, w, t) = Zero => ~r
CWholeDay(z, w, t, r) == IvAt(z, w, t) = Whole => r
CStartInclusive(z, w, t, r) ==
    LET iv == IvAt(z, w, t) IN (iv # Nil /\ iv[1] < iv[2] /\ SecOfDay(z, t) = iv[1] * 60) => r
CInside(z, w, t, r) ==
    LET iv == IvAt(z, w, t) sod == SecOfDay(z, t) IN (iv # Nil /\ iv[1] * 60 < sod /\ sod < iv[2] * 60) => r
CBeforeStart(z, w, t, r) ==
    LET iv == IvAt(z, w, t) IN (iv # Nil /\ SecOfDay(z, t) < iv[1] * 60) => ~r
CEndExclusive(z, w, t, r) ==
    LET iv == IvAt(z, w, t) IN (iv # Nil /\ SecOfDay(z, t) >= iv[2] * 60) => ~r
CClauses(z, w, t, r) ==
    (IF CNilNever(z, w, t, r) THEN {} ELSE {"NilNever"})
    \cup (IF CZeroNever(z, w, t, r) THEN {} ELSE {"ZeroNever"})
    \cup (IF CWholeDay(z, w, t, r) THEN {} ELSE {"WholeDay"})
    \cup (IF CStartInclusive(z, w, t, r) THEN {} ELSE {"StartInclusive"})
    \cup (IF CInside(z, w, t, r) THEN {} ELSE {"Inside"})
    \cup (IF CBeforeStart(z, w, t, r) THEN {} ELSE {"BeforeStart"})
    \cup (IF CEndExclusive(z, w, t, r) THEN {} ELSE {"EndExclusive"})

VNilValid(isnil, a, b, r) == isnil => r
VZeroValid(isnil, a, b, r) == (~isnil /\ a = 0 /\ b = 0) => r
VOrder(isnil, a, b, r) == (~isnil /\ b < a) => ~r
VStartRange(isnil, a, b, r) == (~isnil /\ a > MaxStart) => ~r
VEndRange(isnil, a, b, r) == (~isnil /\ b > MaxEnd) => ~r
VAccepts(isnil, a, b, r) == (~isnil /\ a <= b /\ a <= MaxStart /\ b <= MaxEnd) => r
VClauses(isnil, a, b, r) ==
    (IF VNilValid(isnil, a, b, r) THEN {} ELSE {"NilValid"})
    \cup (IF VZeroValid(isnil, a, b, r) THEN {} ELSE {"ZeroValid"})
    \cup (IF VOrder(isnil, a, b, r) THEN {} ELSE {"Order"})
    \cup (IF VStartRange(isnil, a, b, r) THEN {} ELSE {"StartRange"})
    \cup (IF VEndRange(isnil, a, b, r) THEN {} ELSE {"EndRange"})
    \cup (IF VAccepts(isnil, a, b, r) THEN {} ELSE {"Accepts"})

-----------------------------------------------------------------------------
\* PART 2: the implementation-shaped rule (schedule.go computes the local date of t, takes the
\* interval of its week day, and compares t with the instants midnight + start and midnight + end)
Midnight(z, d) == CHOOSE u \in {d * DaySec - o : o \in Offsets(z)} : Wall(z, u) = d * DaySec
Impl(z, w, t) ==
    LET lt == IF NoZone THEN t ELSE Wall(z, t)
        d == lt \div DaySec
        wd == IF UTCWeekday THEN (t \div DaySec) % 7 ELSE d % 7
        iv == w[wd + 1]
        sod == IF ElapsedNotWall THEN t - Midnight(z, d) ELSE lt % DaySec
        lo == IF OpenStart THEN iv[1] * 60 < sod ELSE iv[1] * 60 <= sod
        hi == IF ClosedEnd THEN sod <= iv[2] * 60 ELSE sod < iv[2] * 60
    IN IF iv = Nil THEN NilIsWholeDay
       ELSE IF iv = Zero THEN ZeroIsWholeDay
       ELSE lo /\ hi
\* the contract's rule with the bounds read as elapsed time since the local midnight (what schedule.go computes:
\* time.Date(y, m, d, 0, ...) + Start minutes); used by the trace spec to name a deviation of exactly this shape
ElapsedRule(z, w, t) ==
    LET iv == IvAt(z, w, t) sod == t - Midnight(z, LocalDay(z, t))
    IN iv # Nil /\ iv # Zero /\ iv[1] * 60 <= sod /\ sod < iv[2] * 60
ImplValid(isnil, a, b) ==
    \/ isnil
    \/ a = 0 /\ b = 0
    \/ /\ IF StrictOrder THEN a < b ELSE a <= b
       /\ a <= MaxStart
       /\ b <= (IF LaxEnd THEN MaxEnd + 1 ELSE MaxEnd)

-----------------------------------------------------------------------------
\* the table
NoRow == [k |-> "-", zone |-> "", week |-> "", t |-> 0, isnil |-> FALSE, s |-> 0, e |-> 0]
CRows == UNION {{[NoRow EXCEPT !.k = "C", !.zone = zn, !.week = wn, !.t = d * DaySec + m * 60 + s - o]
                    : o \in Offsets(Zone(zn))}
                : zn \in ZoneNames, wn \in WeekNames, d \in Days, m \in Minutes, s \in Secs}
VRows == {[NoRow EXCEPT !.k = "V", !.s = a, !.e = b] : a \in Bounds, b \in Bounds}
         \cup {[NoRow EXCEPT !.k = "V", !.isnil = TRUE]}
Rows == CRows \cup VRows

ASSUME ZoneNames \subseteq KnownZones /\ WeekNames \subseteq KnownWeeks
ASSUME \A wn \in KnownWeeks : ValidWeek(Week(wn))
ASSUME \A r \in CRows : InYear(r.t)

VARIABLE row
vars == <<row>>
TableInit == row \in Rows
TableNext == UNCHANGED row
TableSpec == TableInit /\ [][TableNext]_vars

Z == Zone(row.zone)
W == Week(row.week)
IsC == row.k = "C"
IsV == row.k = "V"
ImplMatchesContract ==
    /\ IsC => Impl(Z, W, row.t) = Contains(Z, W, row.t)
    /\ IsV => ImplValid(row.isnil, row.s, row.e) = ValidIv(row.isnil, row.s, row.e)
NilNever == IsC => CNilNever(Z, W, row.t, Impl(Z, W, row.t))
ZeroNever == IsC => CZeroNever(Z, W, row.t, Impl(Z, W, row.t))
WholeDay == IsC => CWholeDay(Z, W, row.t, Impl(Z, W, row.t))
StartInclusive == IsC => CStartInclusive(Z, W, row.t, Impl(Z, W, row.t))
Inside == IsC => CInside(Z, W, row.t, Impl(Z, W, row.t))
BeforeStart == IsC => CBeforeStart(Z, W, row.t, Impl(Z, W, row.t))
EndExclusive == IsC => CEndExclusive(Z, W, row.t, Impl(Z, W, row.t))
\* the clauses are the contract: a result that satisfies all of them is the contract's
ClausesAreComplete ==
    /\ IsC => \A r \in BOOLEAN : (CClauses(Z, W, row.t, r) = {}) = (r = Contains(Z, W, row.t))
    /\ IsV => \A r \in BOOLEAN : (VClauses(row.isnil, row.s, row.e, r) = {}) = (r = ValidIv(row.isnil, row.s, row.e))
\* the time zone only moves the wall clock: the same wall-clock reading in UTC gives the same verdict
ZoneOnlyShifts == IsC => Contains(Z, W, row.t) = Contains(Fixed(0), W, Wall(Z, row.t))
\* a zone without transitions repeats every week
WeeklyPeriod == (IsC /\ Z.tr = <<>>) => Contains(Z, W, row.t) = Contains(Z, W, row.t + 7 * DaySec)
NilValid == IsV => VNilValid(row.isnil, row.s, row.e, ImplValid(row.isnil, row.s, row.e))
ZeroValid == IsV => VZeroValid(row.isnil, row.s, row.e, ImplValid(row.isnil, row.s, row.e))
Order == IsV => VOrder(row.isnil, row.s, row.e, ImplValid(row.isnil, row.s, row.e))
StartRange == IsV => VStartRange(row.isnil, row.s, row.e, ImplValid(row.isnil, row.s, row.e))
EndRange == IsV => VEndRange(row.isnil, row.s, row.e, ImplValid(row.isnil, row.s, row.e))
Accepts == IsV => VAccepts(row.isnil, row.s, row.e, ImplValid(row.isnil, row.s, row.e))

\* the rows as the harness reads them (one JSON object per line; the intervals of the week spelled out)
RowOut(r) == [k |-> r.k, zone |-> r.zone, week |-> r.week, ivs |-> IF r.k = "C" THEN Week(r.week) ELSE <<>>,
              t |-> r.t, isnil |-> r.isnil, s |-> r.s, e |-> r.e]
DumpInit == row = NoRow /\ ndJsonSerialize("schedule_rows.ndjson", SX!SetToSeq({RowOut(r) : r \in Rows}))
DumpSpec == DumpInit /\ [][TableNext]_vars
=============================================================================
