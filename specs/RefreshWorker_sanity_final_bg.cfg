SPECIFICATION FairSpec
CONSTANTS
  RosSet = {TRUE}
  RndSet = {TRUE, FALSE}
  Joins = FALSE
  MaxTick = 1
  MaxRefr = 1
  MaxShut = 1
  CtxKinds = {"nodeadline", "open"}
  Defect = "final_bg"
  KeepHist = FALSE
VIEW view
PROPERTIES ShutdownReturnsByDeadline
CHECK_DEADLOCK FALSE
