SPECIFICATION TableSpec
CONSTANTS
  Domains <- McDomains
  Alphabet = {"a", "B", "-", ".", "_", "c"}
  MaxName = 6
  MinId = 2
  MaxId = 3
  QTypes = {"A", "AAAA", "other"}
  Nodes = {"A", "B"}
  Ids = {"x", "y"}
  CacheExp = 2
  TTLs = {1, 3}
  Caps = {1}
  Ticks = {1, 2}
  MaxTime = 5
  MaxOps = 4
  WebCaseSensitive = FALSE
  WebSkipsSuffix = FALSE
  SharedKey = FALSE
  KeepOldLocal = FALSE
  NoLocalExpiry = FALSE
  NoNamespace = FALSE
  SplitDNS = FALSE
  KeepHist = FALSE
VIEW view
INVARIANTS ImplMatchesContract WebAgreesWithDNS StoreOnlyWellFormed AnswerOnlyCheckNames OutsideIgnored SubdomainIgnored AnswerFamily
CHECK_DEADLOCK FALSE
