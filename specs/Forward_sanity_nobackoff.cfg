SPECIFICATION Spec
CONSTANTS
  KeepHist = FALSE
  Main <- Main2
  Fall = {"f1"}
  Defect = "nobackoff"
  Backoff = 2
INVARIANTS AnsweredByChosenMain FallbackOnceOnNetErrorOrNoActive ServfailOnlyIfBothFail ChosenWasActive ActiveIffProbedOK NoFallbacksNeverDemotes
PROPERTIES NoProbeInBackoff
CHECK_DEADLOCK FALSE
