----------------------------- MODULE BufferReuse -----------------------------
(* C06.  Pooled receive buffers: serverdnsudp.go / serverdnstcp.go /
   serverquic.go (readQUICMsg) / serverhttps.go and forward/upstreamplain.go
   (readMsg).

   A buffer is a row of K cells.  A cell holds a record token of some message
   ("t<msg>_<i>") or "zero".  A wire message carries `carried` record tokens and
   a header that DECLARES `declared` records; receiving it into a pooled buffer
   overwrites the first `carried` cells and leaves the rest as earlier traffic
   left them.  The decoder reads `declared` records from the cells, but no
   further than Bound: Bound = "len" stops at the bytes received (correct),
   Bound = "cap" lets it run into the rest of the buffer (the defect class of
   readQUICMsg / UpstreamPlain.readMsg on the pinned tree).

   Decode result: the sequence of tokens read, or "error" when a declared
   record lies beyond the bound or in a zero cell.                             *)
EXTENDS Naturals, Sequences, FiniteSets, TLC

CONSTANTS K,            \* buffer capacity in cells
          NBuf,         \* number of pooled buffers
          MaxMsgs,      \* messages received in one behaviour
          Bound         \* "len" | "cap"

VARIABLES pool,         \* [1..NBuf -> [1..K -> token]]
          nmsg, last
vars == <<pool, nmsg, last>>

Zero == "zero"
Tok(m, i) == "t" \o ToString(m) \o "_" \o ToString(i)
ZeroBuf == [c \in 1..K |-> Zero]

Init == pool = [b \in 1..NBuf |-> ZeroBuf] /\ nmsg = 0 /\ last = [kind |-> "init"]

\* decode `declared` records out of buffer cells `buf`, having received `carried` cells
Decode(buf, declared, carried) ==
    LET lim == IF Bound = "len" THEN carried ELSE K IN
    IF declared > lim \/ \E i \in 1..declared : buf[i] = Zero THEN <<"error">>
    ELSE [i \in 1..declared |-> buf[i]]

Receive(b, declared, carried) ==
    /\ nmsg < MaxMsgs /\ nmsg' = nmsg + 1
    /\ LET m == nmsg + 1
           filled == [c \in 1..K |-> IF c <= carried THEN Tok(m, c) ELSE pool[b][c]]
           clean == [c \in 1..K |-> IF c <= carried THEN Tok(m, c) ELSE Zero]
       IN /\ pool' = [pool EXCEPT ![b] = filled]
          /\ last' = [kind |-> "recv", m |-> m, got |-> Decode(filled, declared, carried),
                      fresh |-> Decode(clean, declared, carried)]

Next == \E b \in 1..NBuf, d \in 0..K, c \in 0..K : Receive(b, d, c)
Spec == Init /\ [][Next]_vars

\* the decode result depends on the bytes of the message only
HistoryIndependence == last.kind = "recv" => last.got = last.fresh
\* nothing of an earlier message is ever part of a decoded message
NoForeignRecord ==
    last.kind = "recv" => \A i \in 1..Len(last.got) :
        last.got[i] = "error" \/ \E c \in 1..K : last.got[i] = Tok(last.m, c)
=============================================================================
