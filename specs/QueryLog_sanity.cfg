\* sanity: the defective variant "ip_always" must violate IPIffIPLog
SPECIFICATION Spec
CONSTANTS
  Defect = "ip_always"
INVARIANTS IPIffIPLog
