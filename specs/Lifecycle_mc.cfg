SPECIFICATION Spec
CONSTANTS
  Req = {1, 2, 3}
  CtxKinds = {"nodeadline", "open"}
  MaxMisuse = 2
  DefectNoWait = FALSE
  DefectLateClose = FALSE
  DefectIgnoreDeadline = FALSE
  DefectDoubleNil = FALSE
INVARIANTS TypeOK ShutdownWaits DeadlineBounds NothingAfterStop MisuseErrors NoAcceptAfterBegin
PROPERTIES NoHandlerStartAfterNil AcceptOnlyWhileStarted
CHECK_DEADLOCK FALSE
