SPECIFICATION Spec
CONSTANTS
  Files <- MCFiles
  MConfs <- MCConfsSmall
  Refreshers = {"r1"}
  InvalidCountries = {"A1", "ZZZ"}
  InvalidContinents = {"ZZ"}
  Serial = FALSE
  Defect = "none"
  KeepHist = FALSE
  MaxPut = 3
  MaxRefresh = 2
  MaxData = 2
VIEW view
INVARIANTS MapsNeverAhead
CHECK_DEADLOCK FALSE
