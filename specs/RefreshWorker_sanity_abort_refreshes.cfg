SPECIFICATION Spec
CONSTANTS
  RosSet = {TRUE, FALSE}
  RndSet = {TRUE, FALSE}
  Joins = FALSE
  MaxTick = 3
  MaxRefr = 3
  MaxShut = 2
  CtxKinds = {"nodeadline", "open"}
  Defect = "abort_refreshes"
  KeepHist = FALSE
VIEW view
INVARIANTS NoRefreshOnceDoneSeen
CHECK_DEADLOCK FALSE
