---------------------------- MODULE AgdCache ----------------------------
(* EXT11 (extension, not a listed property), part (a): the cache helpers of
   internal/agdcache -- LRU (a bounded least-recently-used cache), Empty (the
   cache that "does nothing") and DefaultManager (a registry id -> Clearer that
   the debug API drives).

   What a user relies on (doc comments of agdcache.Interface, Clearer,
   LRUConfig.Count, Empty, Manager, DefaultManager.Add):

     * Set "sets key and val as cache pair"; Get "gets val from the cache using
       key": a hit returns the value of the LATEST Set of that key;
     * LRUConfig.Count "is the maximum number of elements to keep": Len never
       exceeds it;
     * the cache is an LRU: a key is lost only by Clear or by eviction, an
       eviction happens only when a NEW key is set into a full cache, and the
       victim is the key whose last use (Set, or Get that hit) is the oldest;
     * Clear "completely clears" that cache (and no other);
     * Empty "does nothing": every Get misses, Len is 0;
     * Manager.Add "adds cache by id"; DefaultManager.Add "replaces the saved
       cache with the same id if there is one"; ClearByID "clears cache by id":
       exactly the cache registered under the id now, nothing when there is none.

   SetWithExpire is driven with an expiration far in the future and must then
   behave as Set (expiry itself is not modelled).

   One action per public call.  The recency order is a sequence (most recently
   used first); the contract is stated independently of it through ghost
   variables: `latest` (value of the latest Set), `status` (why a key is or is
   not there) and `stamp` (logical time of the last use), so that the LRU
   clauses are not tautologies of the sequence manipulation.

   Variant selects the defect class for the sanity configurations:
     "code"            the behaviour described above
     "mru"             eviction takes the MOST recently used key
     "get_norefresh"   a hit does not refresh recency (FIFO)
     "set_norefresh"   Set of an existing key replaces the value, keeps its place
     "noreplace"       Set of an existing key keeps the old value
     "cap_plus1"       the cache holds Count + 1 elements
     "clear_all"       Clear empties every cache
     "add_keepfirst"   Add of a registered id keeps the first cache
     "clearbyid_stale" ClearByID of an id registered twice clears the first cache too
     "empty_stores"    the Empty cache remembers one element
     "len_cap"         Len answers Count instead of the number of elements
     "get_pops"        a hit removes the element
     "evict_spills"    an eviction in one LRU also empties the other LRU       *)
EXTENDS Naturals, FiniteSets, Sequences, TLC, Json

CONSTANTS Keys, Vals,      \* strings
          Cap1, Cap2,      \* LRUConfig.Count of the caches "l1" and "l2"
          Ids,             \* manager ids (strings)
          MaxOps, KeepHist, Variant

Caches == {"l1", "l2", "e"}          \* two LRUs and one Empty
LRUs == {"l1", "l2"}
None == "none"
CapOf(c) == IF c = "l1" THEN Cap1 ELSE IF c = "l2" THEN Cap2
            ELSE IF Variant = "empty_stores" THEN 1 ELSE 0

VARIABLES order,    \* [Caches -> Seq(Keys)]  most recently used first
          val,      \* [Caches -> [Keys -> Vals \cup {None}]]
          reg,      \* [Ids -> Caches \cup {None}]
          stale,    \* [Ids -> Caches \cup {None}]  only for "clearbyid_stale"
          latest,   \* ghost: value of the latest Set(c, k), None if never
          status,   \* ghost: "never" | "present" | "cleared" | "evicted"
          stamp,    \* ghost: nops at the last use
          res,      \* the last call and what it returned
          nops, hist

vars == <<order, val, reg, stale, latest, status, stamp, res, nops, hist>>
view == <<order, val, reg, stale, latest, status, stamp, res, nops>>

ToSet(s) == {s[i] : i \in 1..Len(s)}
Remove(s, k) == SelectSeq(s, LAMBDA x : x # k)
Front(s) == SubSeq(s, 1, Len(s) - 1)
Rev(s) == [i \in 1..Len(s) |-> s[Len(s) + 1 - i]]
NoVals == [k \in Keys |-> None]

NoRes == [op |-> "none", c |-> None, k |-> None, v |-> None, ok |-> FALSE, n |-> 0, id |-> None]
R(op, c, k, v, ok, n, id) == [op |-> op, c |-> c, k |-> k, v |-> v, ok |-> ok, n |-> n, id |-> id]
H(a, c, k, v, exp, id) ==
    IF KeepHist THEN Append(hist, [a |-> a, c |-> c, k |-> k, v |-> v, exp |-> exp, id |-> id]) ELSE hist

Init == /\ order = [c \in Caches |-> <<>>]
        /\ val = [c \in Caches |-> NoVals]
        /\ reg = [i \in Ids |-> None] /\ stale = [i \in Ids |-> None]
        /\ latest = [c \in Caches |-> NoVals]
        /\ status = [c \in Caches |-> [k \in Keys |-> "never"]]
        /\ stamp = [c \in Caches |-> [k \in Keys |-> 0]]
        /\ res = NoRes /\ nops = 0 /\ hist = <<>>

Tick == nops < MaxOps /\ nops' = nops + 1

\* ---------------------------------------------------------------- Interface
\* Set and SetWithExpire (exp): gcache.Set under the cache's mutex.
Set(c, k, v, exp) ==
    /\ Tick
    /\ res' = R("Set", c, k, v, FALSE, 0, None)
    /\ hist' = H("Set", c, k, v, exp, None)
    /\ latest' = [latest EXCEPT ![c][k] = v]
    /\ UNCHANGED <<reg, stale>>
    /\ LET o == order[c]
           full == IF Variant = "cap_plus1" THEN Len(o) > CapOf(c) ELSE Len(o) >= CapOf(c)
       IN
       IF CapOf(c) = 0
       THEN UNCHANGED <<order, val, status, stamp>>            \* Empty: nothing is kept
       ELSE IF k \in ToSet(o)
       THEN /\ order' = [order EXCEPT ![c] = IF Variant = "set_norefresh" THEN o ELSE <<k>> \o Remove(o, k)]
            /\ val' = IF Variant = "noreplace" THEN val ELSE [val EXCEPT ![c][k] = v]
            /\ stamp' = [stamp EXCEPT ![c][k] = nops + 1]
            /\ UNCHANGED status
       ELSE IF ~full
       THEN /\ order' = [order EXCEPT ![c] = <<k>> \o o]
            /\ val' = [val EXCEPT ![c][k] = v]
            /\ status' = [status EXCEPT ![c][k] = "present"]
            /\ stamp' = [stamp EXCEPT ![c][k] = nops + 1]
       ELSE LET victim == IF Variant = "mru" THEN Head(o) ELSE o[Len(o)]
                spill == IF Variant = "evict_spills" THEN LRUs \ {c} ELSE {}
            IN /\ order' = [x \in Caches |-> IF x = c THEN <<k>> \o Remove(o, victim)
                                              ELSE IF x \in spill THEN <<>> ELSE order[x]]
               /\ val' = [x \in Caches |-> IF x = c THEN [val[c] EXCEPT ![victim] = None, ![k] = v]
                                            ELSE IF x \in spill THEN NoVals ELSE val[x]]
               /\ status' = [x \in Caches |->
                                IF x = c THEN [status[c] EXCEPT ![victim] = "evicted", ![k] = "present"]
                                ELSE IF x \in spill
                                THEN [y \in Keys |-> IF status[x][y] = "present" THEN "cleared" ELSE status[x][y]]
                                ELSE status[x]]
               /\ stamp' = [stamp EXCEPT ![c][k] = nops + 1]

\* Get: gcache.Get; a hit moves the element to the front.
Get(c, k) ==
    /\ Tick
    /\ hist' = H("Get", c, k, None, FALSE, None)
    /\ UNCHANGED <<reg, stale, latest>>
    /\ IF k \in ToSet(order[c])
       THEN /\ res' = R("Get", c, k, val[c][k], TRUE, 0, None)
            /\ order' = [order EXCEPT ![c] = IF Variant = "get_norefresh" THEN @
                                             ELSE IF Variant = "get_pops" THEN Remove(@, k) ELSE <<k>> \o Remove(@, k)]
            /\ stamp' = [stamp EXCEPT ![c][k] = nops + 1]
            /\ IF Variant = "get_pops"
               THEN val' = [val EXCEPT ![c][k] = None] /\ status' = [status EXCEPT ![c][k] = "cleared"]
               ELSE UNCHANGED <<val, status>>
       ELSE /\ res' = R("Get", c, k, None, FALSE, 0, None)
            /\ UNCHANGED <<order, stamp, val, status>>

LenCall(c) ==
    /\ Tick
    /\ hist' = H("Len", c, None, None, FALSE, None)
    /\ res' = R("Len", c, None, None, FALSE, IF Variant = "len_cap" THEN CapOf(c) ELSE Len(order[c]), None)
    /\ UNCHANGED <<order, val, reg, stale, latest, status, stamp>>

Cleared(S) ==
    /\ order' = [c \in Caches |-> IF c \in S THEN <<>> ELSE order[c]]
    /\ val' = [c \in Caches |-> IF c \in S THEN NoVals ELSE val[c]]
    /\ status' = [c \in Caches |-> IF c \in S
                                   THEN [k \in Keys |-> IF status[c][k] = "present" THEN "cleared" ELSE status[c][k]]
                                   ELSE status[c]]

Clear(c) ==
    /\ Tick
    /\ hist' = H("Clear", c, None, None, FALSE, None)
    /\ res' = R("Clear", c, None, None, FALSE, 0, None)
    /\ Cleared(IF Variant = "clear_all" THEN Caches ELSE {c})
    /\ UNCHANGED <<reg, stale, latest, stamp>>

\* ---------------------------------------------------------------- Manager
Add(id, c) ==
    /\ Tick
    /\ hist' = H("Add", c, None, None, FALSE, id)
    /\ res' = R("Add", c, None, None, FALSE, 0, id)
    /\ reg' = IF Variant = "add_keepfirst" /\ reg[id] # None THEN reg ELSE [reg EXCEPT ![id] = c]
    /\ stale' = IF Variant = "clearbyid_stale" /\ reg[id] # None /\ stale[id] = None
                THEN [stale EXCEPT ![id] = reg[id]] ELSE stale
    /\ UNCHANGED <<order, val, latest, status, stamp>>

ClearByID(id) ==
    /\ Tick
    /\ hist' = H("ClearByID", None, None, None, FALSE, id)
    /\ res' = R("ClearByID", None, None, None, FALSE, 0, id)
    /\ Cleared(({reg[id]} \cup (IF Variant = "clearbyid_stale" THEN {stale[id]} ELSE {})) \ {None})
    /\ UNCHANGED <<reg, stale, latest, stamp>>

Next == \/ \E c \in Caches, k \in Keys, v \in Vals, exp \in BOOLEAN : Set(c, k, v, exp)
        \/ \E c \in Caches, k \in Keys : Get(c, k)
        \/ \E c \in Caches : LenCall(c) \/ Clear(c)
        \/ \E i \in Ids, c \in Caches : Add(i, c)
        \/ \E i \in Ids : ClearByID(i)

Spec == Init /\ [][Next]_vars

-----------------------------------------------------------------------------
Present(c) == {k \in Keys : status[c][k] = "present"}

TypeOK == /\ \A c \in Caches : /\ ToSet(order[c]) \subseteq Keys
                               /\ \A k \in Keys : val[c][k] \in Vals \cup {None}
          /\ \A i \in Ids : reg[i] \in Caches \cup {None}

\* LRUConfig.Count: "the maximum number of elements to keep in the cache".
LenBound == \A c \in LRUs : Len(order[c]) <= CapOf(c)

\* the sequence holds every kept key exactly once
Coherent == \A c \in Caches : /\ Cardinality(ToSet(order[c])) = Len(order[c])
                              /\ \A k \in Keys : (val[c][k] # None) <=> (k \in ToSet(order[c]))

\* a key is there iff it was set and neither cleared nor evicted since; what is
\* kept is the value of the latest Set
KeptIsLatest == \A c \in LRUs, k \in Keys : /\ (k \in ToSet(order[c])) <=> (status[c][k] = "present")
                                            /\ val[c][k] \in {None, latest[c][k]}

\* Empty "does nothing"
EmptyIsEmpty == order["e"] = <<>>

\* post-conditions of the last call
GetContract == res.op = "Get" =>
    /\ res.ok => res.v # None /\ res.v = latest[res.c][res.k]
    /\ res.c \in LRUs => (res.ok <=> status[res.c][res.k] = "present")
    /\ res.c = "e" => ~res.ok
LenContract == res.op = "Len" => /\ res.n = Len(order[res.c])
                                 /\ res.c \in LRUs => res.n = Cardinality(Present(res.c))
                                 /\ res.c = "e" => res.n = 0
SetContract == res.op = "Set" /\ res.c \in LRUs /\ CapOf(res.c) > 0 =>
    val[res.c][res.k] = res.v /\ status[res.c][res.k] = "present"

\* Eviction: only by a Set of a new key into a full cache, one key at a time,
\* and the victim is the least recently USED key (Set or hit).
EvictsLRU == [][\A c \in LRUs, k \in Keys :
    status[c][k] = "present" /\ status'[c][k] = "evicted" =>
        /\ res'.op = "Set" /\ res'.c = c /\ res'.k # k /\ status[c][res'.k] # "present"
        /\ Cardinality(Present(c)) = CapOf(c)
        /\ \A k2 \in Present(c) \ {k} : stamp[c][k] < stamp[c][k2] /\ status'[c][k2] = "present"]_vars

\* A kept key disappears only through an eviction or a clear of its cache.
LossStep == \A c \in LRUs, k \in Keys :
    status[c][k] = "present" /\ status'[c][k] # "present" =>
        \/ status'[c][k] = "evicted"
        \/ res'.op = "Clear" /\ res'.c = c
        \/ res'.op = "ClearByID" /\ reg[res'.id] = c
LossOnlyByEvictOrClear == [][LossStep]_vars

Untouched(S) == \A c \in S : order'[c] = order[c] /\ val'[c] = val[c]

ClearExactly == [][res'.op = "Clear" /\ nops' # nops =>
    order'[res'.c] = <<>> /\ val'[res'.c] = NoVals /\ Untouched(Caches \ {res'.c}) /\ reg' = reg]_vars

ClearByIDExactly == [][res'.op = "ClearByID" /\ nops' # nops =>
    LET t == reg[res'.id] IN
    /\ reg' = reg
    /\ t = None => Untouched(Caches)
    /\ t # None => order'[t] = <<>> /\ val'[t] = NoVals /\ Untouched(Caches \ {t})]_vars

\* DefaultManager.Add: "replaces the saved cache with the same id if there is one"
AddReplaces == [][res'.op = "Add" /\ nops' # nops =>
    reg' = [reg EXCEPT ![res'.id] = res'.c] /\ Untouched(Caches)]_vars

\* Get and Len change neither the set of kept keys nor any value; Set touches
\* only its own cache; no data call touches the registry
ReadsDontWrite == [][res'.op \in {"Get", "Len"} /\ nops' # nops =>
    val' = val /\ \A c \in Caches : ToSet(order'[c]) = ToSet(order[c])]_vars
SetIsLocal == [][res'.op \in {"Set", "Get", "Len"} /\ nops' # nops =>
    Untouched(Caches \ {res'.c}) /\ reg' = reg]_vars

EmitHist == PrintT(<<"BEH", ToJson(hist)>>)
=============================================================================
