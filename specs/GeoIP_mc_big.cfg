SPECIFICATION Spec
CONSTANTS
  FilesSrc <- MCFiles
  MConfs <- MCConfsBig
  UseRegister = FALSE
  Refreshers = {"r1"}
  InvalidCountries = {"A1", "ZZZ"}
  InvalidContinents = {"ZZ"}
  Serial = FALSE
  Defect = "none"
  KeepHist = FALSE
  MaxPut = 3
  MaxRefresh = 2
  MaxData = 2
VIEW view
INVARIANTS TypeOK LocationsAreValues CacheAgreesWithDB CachedIsLookup ReadersSeeOneVersion FailedRefreshKeepsOld QuiescentConsistent SubnetContract SubnetInCountry UnknownIsNone SharedByKey DesiredLength
CHECK_DEADLOCK FALSE
