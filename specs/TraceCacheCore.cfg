SPECIFICATION TraceSpec
CONSTANTS
  KeepHist = FALSE
  Keys = {"k1", "k2", "k3"}
  TTL <- TTL3
  Cacheable <- Cacheable3
  MaxTime = 1
  KeyCollide = FALSE
  RoundMode = "nearest"
POSTCONDITION TraceAccepted
CHECK_DEADLOCK FALSE
