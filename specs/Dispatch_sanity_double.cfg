SPECIFICATION Spec
CONSTANTS
  Transports = {"udp", "tcp", "dot", "doh-post", "doh-get", "doh-json", "doq", "dnscrypt-udp", "dnscrypt-tcp"}
  MaxInputs = 3
  Defect = "double_write"
  DCRecover = TRUE
INVARIANTS AtMostOneResponse
CHECK_DEADLOCK FALSE
