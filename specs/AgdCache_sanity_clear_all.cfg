SPECIFICATION Spec
CONSTANTS
  Keys = {"k1", "k2", "k3"}
  Vals = {"v1", "v2"}
  Cap1 = 2
  Cap2 = 1
  Ids = {"a", "b"}
  MaxOps = 4
  KeepHist = FALSE
  Variant = "clear_all"
VIEW view
PROPERTIES ClearExactly
CHECK_DEADLOCK FALSE
