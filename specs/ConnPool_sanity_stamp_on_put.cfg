SPECIFICATION Spec
CONSTANTS
  Callers = {"a", "b"}
  MaxConn = 2
  CapSet = {1}
  TmoSet = {1}
  MaxTime = 3
  MaxOps = 5
  Defect = "stamp_on_put"
  KeepHist = FALSE
VIEW view
INVARIANTS StampOnGet
CHECK_DEADLOCK FALSE
