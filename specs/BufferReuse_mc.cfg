SPECIFICATION Spec
CONSTANTS
  K = 4
  NBuf = 2
  MaxMsgs = 3
  Bound = "len"
INVARIANTS HistoryIndependence NoForeignRecord
CHECK_DEADLOCK FALSE
