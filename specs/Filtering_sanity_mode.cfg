SPECIFICATION Spec
CONSTANTS
  Part = "shape"
  Variant = "refused_https_noerror"
INVARIANTS ShapeFollowsMode
