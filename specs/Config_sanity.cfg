SPECIFICATION Spec
CONSTANTS
  IntsValidated = FALSE
  PrefixBounded = TRUE
  EcsSizeChecked = TRUE
  MaxMut = 1
  TripleFields = {}
INVARIANTS AcceptedImpliesSafe
CHECK_DEADLOCK FALSE
