SPECIFICATION Spec
CONSTANTS
  KeepHist = FALSE
  Prof = {"p1", "p2"}
  Dev = {"d1", "d2", "d3"}
  Linked = {"i1", "i2"}
  Ded = {"e1"}
  Human = {"h1"}
  MaxMut = 5
  MaxSync = 3
  MaxPending = 2
  CleanupChecksGen = TRUE
  HumanChecksProfile = TRUE
  HumanViaRecord = FALSE
INVARIANTS LookupCorrect GhostConsistent
CHECK_DEADLOCK FALSE
