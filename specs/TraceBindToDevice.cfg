SPECIFICATION TraceSpec
CONSTANTS
  KeepHist = FALSE
  Ids = {"a", "b", "c"}
  KnownIfaces = {"eth0", "eth1"}
  UnknownIface = "nx"
  Ports = {0, 53, 54}
  W = 3
  BufInit = 1
  MaxReg = 1000000
  MaxItems = 1000000
  Kinds = {"tcp", "udp"}
  Defect = "none"
INVARIANTS TypeOK RegistrationSound DecisionConsistent DispatchBySubnet NoStrayDelivery NoLeak QueuesExact HoldExact NoLostWakeup WriteBackSource
PROPERTY ClosedGetsNothing
POSTCONDITION TraceAccepted
CHECK_DEADLOCK FALSE
