------------------------- MODULE TraceRefreshWorker -------------------------
(* Trace validation for EXT7 (a): events recorded by
   harness/internal/agdservice/ext7_test.go on the real RefreshWorker (virtual
   ticker and start-sleep timer through an overlay of refresh.go; the Context
   constructor and the Refresher are gates).

     Reset         ros, rnd; tickerok: exactly one ticker was made, with Interval
     Start
     Tick          sent: the value entered the ticker's channel
     SleepBegin    the loop took a tick and made its start-sleep timer;
                   durok: 0 <= duration < Interval / 10
     TimerFire     (harness) the timer fires
     CtxEnter      the loop entered cfg.Context (a gate)
     RefreshBegin  which: "periodic" (loop goroutine) / "final" (a Shutdown
                   goroutine); ctx: "cfg" / "shutdown" / "other" (whose context
                   the refresher was given); ctxlive: that context is not done;
                   live: contexts made by cfg.Context and not cancelled
     RefreshEnd    which, out: "ok" / "err" / "timeout"; ctxdone: the context
                   the refresher was given was done when the harness had let the
                   matching context expire
     ShutdownCall  ctx: "nodeadline" / "open";  CtxExpire
     ShutdownRet   res: "nil" / "err" / "panic"; wraps: errors.Is(the refresh error)
     Obs           the state at a quiescent point: loop ("none" / "idle" /
                   "sleep" / "ctx" / "refr" / "exited"; "blocked": parked
                   somewhere else), sd ("none" / "final" / "blocked"), pend,
                   tstop, done (w.done is closed), live, running, ctxwait / perwait
                   (goroutines parked in the Context gate / the Refresher gate)
     End / Abort

   A ShutdownRet that happens while the loop has taken a tick and is about to
   begin a refresh ("ctx") or while a refresh is in progress ("refr") is
   printed as <<"NOJOIN", line, loop>>: the variant Joins = TRUE of the module
   (the recommendation of service.Interface) does not admit it.

   close(done), tick.Stop(), the abort of a start sleep and the exit of the
   loop are not visible: TLC places them (silent steps).  The receive of a
   tick (TakeTick) is recorded a few instructions later (SleepBegin /
   CtxEnter): while Shutdown is between close(done) and tick.Stop() TLC may
   place the receive itself and explain the record later (variable owed).  At an Obs no step of
   the worker's goroutines may be enabled: what the code could do it has
   done.                                                                     *)
EXTENDS RefreshWorker

VARIABLES l,
          owed    \* the loop has taken a tick (the receive of its select) and has not yet recorded the event of that
                  \* step: SleepBegin is recorded when the start-sleep timer is made, CtxEnter on entry to cfg.Context,
                  \* both some instructions after the receive -- a Shutdown goroutine running at the same time can stop
                  \* the ticker, return and be recorded in between (the loop is not joined)
Trace == ndJsonDeserialize("trace.ndjson")
E == Trace[l]
tvars == <<vars, l, owed>>
Keep == UNCHANGED owed

Mark == TLCSet(1, IF l + 1 > TLCGet(1) THEN l + 1 ELSE TLCGet(1))
Consume(e) == l <= Len(Trace) /\ E.ev = e /\ l' = l + 1

TraceInit == Init /\ l = 1 /\ owed = FALSE /\ TLCSet(1, 1)

TReset == /\ Consume("Reset") /\ E.tickerok
          /\ ros' = E.ros /\ rnd' = E.rnd
          /\ loop' = "none" /\ pend' = FALSE /\ tfired' = FALSE /\ done' = FALSE /\ tstop' = FALSE
          /\ running' = 0 /\ live' = 0 /\ pctx' = "none"
          /\ sd' = "none" /\ sdctx' = "none" /\ fctx' = "none" /\ finerr' = FALSE
          /\ nshut' = 0 /\ nret' = 0 /\ lastres' = "none" /\ nfin' = 0 /\ nper' = 0 /\ late' = 0
          /\ ranAtRet' = FALSE /\ seenDone' = FALSE /\ nt' = 0 /\ hist' = hist
          /\ owed' = FALSE
          /\ Mark

TStart == Consume("Start") /\ Start /\ Keep /\ Mark
TTick == Consume("Tick") /\ Tick /\ E.sent = (~pend /\ ~tstop) /\ Keep /\ Mark
\* the event of a tick taken: together with the step, or owed by a step that TLC has placed earlier
TSleepBegin == /\ Consume("SleepBegin") /\ rnd /\ E.durok
               /\ \/ ~owed /\ TakeTick
                  \/ owed /\ loop = "sleep" /\ UNCHANGED vars
               /\ owed' = FALSE /\ Mark
TTimerFire == Consume("TimerFire") /\ ~owed /\ TimerFire /\ Keep /\ Mark
TCtxEnter == /\ Consume("CtxEnter")
             /\ \/ ~owed /\ ((~rnd /\ TakeTick) \/ SleepDone)
                \/ owed /\ ~rnd /\ loop = "ctx" /\ UNCHANGED vars
             /\ owed' = FALSE /\ Mark

TRefreshBegin ==
    /\ Consume("RefreshBegin")
    /\ E.ctxlive
    /\ \/ E.which = "periodic" /\ ~owed /\ RefreshBegin /\ E.ctx = "cfg" /\ E.live = live' /\ E.running = running'
       \/ E.which = "final" /\ FinalRefreshBegin /\ E.ctx = "shutdown"
    /\ Keep /\ Mark

TRefreshEnd ==
    /\ Consume("RefreshEnd") /\ E.out \in Outs
    \* the refresher's context is done exactly when the harness let the context it belongs to expire
    /\ \/ E.which = "periodic" /\ RefreshEnd(E.out) /\ E.ctxdone = (E.out = "timeout")
       \/ E.which = "final" /\ FinalRefreshEnd(E.out) /\ E.ctxdone = (sdctx = "done")
    /\ Keep /\ Mark

TShutdownCall == Consume("ShutdownCall") /\ E.ctx \in CtxKinds /\ ShutdownCall(E.ctx) /\ Keep /\ Mark
TCtxExpire == Consume("CtxExpire") /\ CtxExpire /\ Keep /\ Mark
TShutdownRet ==
    /\ Consume("ShutdownRet")
    /\ \/ E.res = "panic" /\ ShutdownPanic
       \/ E.res # "panic" /\ ShutdownRet /\ E.res = lastres' /\ (E.res = "err" => E.wraps)
    \* the contract of service.Interface (Joins = TRUE) would not let Shutdown return here: reported, not judged
    /\ IF loop \in {"ctx", "refr"} \/ running > 0 THEN PrintT(<<"NOJOIN", l, loop>>) ELSE TRUE
    /\ Keep /\ Mark

\* nothing the worker's goroutines could still do by themselves
Quiescent == /\ ~(loop = "idle" /\ (pend \/ done))
             /\ ~(loop = "sleep" /\ (tfired \/ done))
             /\ sd \in {"none", "final"}

TObs == /\ Consume("Obs") /\ Quiescent /\ ~owed
        /\ E.loop = loop /\ E.sd = sd
        /\ E.pend = pend /\ E.tstop = tstop /\ E.done = done
        /\ E.live = live /\ E.running = running
        /\ E.ctxwait = (IF loop = "ctx" THEN 1 ELSE 0) /\ E.perwait = running
        /\ UNCHANGED vars /\ Keep /\ Mark

TEnd == Consume("End") /\ sd = "none" /\ running = 0 /\ ~owed /\ UNCHANGED vars /\ Keep /\ Mark
TAbort == Consume("Abort") /\ UNCHANGED vars /\ Keep /\ Mark

\* steps without an event: close(done), tick.Stop(), the abort of a start sleep, the exit of the loop ...
Silent == (CloseDone \/ StopTicker \/ (~owed /\ SleepAbort) \/ LoopExit) /\ UNCHANGED l /\ Keep
\* ... and the receive of a tick whose event is recorded later.  Only while Shutdown is between close(done) and
\* tick.Stop() can another goroutine of the worker overtake the loop's record (everywhere else the harness waits
\* for the loop to park before anything else is recorded)
SilentTake == ~owed /\ sd = "closing" /\ TakeTick /\ owed' = TRUE /\ UNCHANGED l

TraceNext == \/ TReset \/ TStart \/ TTick \/ TSleepBegin \/ TTimerFire \/ TCtxEnter \/ TRefreshBegin \/ TRefreshEnd
             \/ TShutdownCall \/ TCtxExpire \/ TShutdownRet \/ TObs \/ TEnd \/ TAbort \/ Silent \/ SilentTake
TraceSpec == TraceInit /\ [][TraceNext]_tvars

TraceAccepted ==
    IF TLCGet(1) = Len(Trace) + 1 THEN TRUE
    ELSE PrintT(<<"STUCK", TLCGet(1), Len(Trace)>>) /\ FALSE
=============================================================================
