SPECIFICATION TraceSpec
CONSTANTS
  Lists = {"ridx", "rl1", "rl2", "sidx", "ss", "hp"}
  Faults = {"ok", "refused", "timeout", "status", "empty", "oversize", "trunc", "cancel", "inv", "invown"}
  MaxRounds = 1000000
  CrashAnywhere = TRUE
  Defects = {}
  KeepHist = FALSE
POSTCONDITION TraceAccepted
CHECK_DEADLOCK FALSE
