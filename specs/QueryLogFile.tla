---------------------------- MODULE QueryLogFile ----------------------------
(* C15, part B.  The JSONL file of internal/querylog/fs.go under concurrent
   writers.

   FileSystem.Write of the Go code, one action per step that another writer
   can interleave with:
     Reset(w)    take a buffer from the pool and reset it        (user space)
     Encode(w)   serialise the entry and its line feed into it   (user space)
     AppendOnce(w) ONE write(2) on a descriptor opened with O_APPEND: the kernel
                 appends the whole buffer at the end of the file atomically
   Bytes are abstracted to tokens: [t |-> "obj", w, k] is the complete JSON
   object of the k-th entry of writer w, "nl" a line feed, "junk" anything
   that is not a complete object (the tokeniser lives in the Go harness).

   The file is kept in the form a line reader sees it: `done[w]` counts the
   complete whole lines of writer w in the file (a writer's entries are
   numbered 1, 2, ... and reach the file in that order), `tail` holds the
   tokens after the last line feed, `broken` records that some terminated
   line was not exactly one expected object.

   Defective variants (sanity configs):
     TwoWrites     the object and the line feed go out with two write calls
     SharedBuffer  all writers use one buffer without mutual exclusion       *)
EXTENDS Naturals, Sequences, FiniteSets, TLC

CONSTANTS Writers,       \* writer ids (naturals)
          MaxPerWriter,  \* entries per writer
          TwoWrites, SharedBuffer

VARIABLES pc,        \* [Writers -> {"idle", "reset", "encoded", "half"}]
          buf,       \* [Writers -> Seq(token)]  the buffers
          started,   \* [Writers -> Nat]  Write calls entered
          returned,  \* [Writers -> Nat]  Write calls returned without error
          done, tail, broken   \* the file, see above

fvars == <<done, tail, broken>>
vars == <<pc, buf, started, returned, done, tail, broken>>

Obj(w, k) == [t |-> "obj", w |-> w, k |-> k]
NL == [t |-> "nl", w |-> 0, k |-> 0]
Line(w, k) == <<Obj(w, k), NL>>

\* What a line reader makes of the file after `toks` were appended to it.
FeedTok(s, tok) ==
    IF tok.t = "nl"
    THEN IF /\ Len(s.tail) = 1 /\ s.tail[1].t = "obj" /\ s.tail[1].w \in Writers
            /\ s.tail[1].k = s.done[s.tail[1].w] + 1
         THEN [done |-> [s.done EXCEPT ![s.tail[1].w] = @ + 1], tail |-> <<>>, broken |-> s.broken]
         ELSE [done |-> s.done, tail |-> <<>>, broken |-> TRUE]
    ELSE [s EXCEPT !.tail = Append(@, tok)]

RECURSIVE Feed(_, _)
Feed(s, toks) == IF toks = <<>> THEN s ELSE Feed(FeedTok(s, Head(toks)), Tail(toks))

File == [done |-> done, tail |-> tail, broken |-> broken]
WriteChunk(toks) == LET s == Feed(File, toks) IN done' = s.done /\ tail' = s.tail /\ broken' = s.broken

\* the buffer writer w works with
B(w) == IF SharedBuffer THEN CHOOSE x \in Writers : \A y \in Writers : x <= y ELSE w

Init == /\ pc = [w \in Writers |-> "idle"]
        /\ buf = [w \in Writers |-> <<>>]
        /\ started = [w \in Writers |-> 0]
        /\ returned = [w \in Writers |-> 0]
        /\ done = [w \in Writers |-> 0] /\ tail = <<>> /\ broken = FALSE

Reset(w) == /\ pc[w] = "idle" /\ started[w] < MaxPerWriter
            /\ started' = [started EXCEPT ![w] = @ + 1]
            /\ buf' = [buf EXCEPT ![B(w)] = <<>>]
            /\ pc' = [pc EXCEPT ![w] = "reset"]
            /\ UNCHANGED <<returned, fvars>>

Encode(w) == /\ pc[w] = "reset"
             /\ buf' = [buf EXCEPT ![B(w)] = @ \o Line(w, started[w])]
             /\ pc' = [pc EXCEPT ![w] = "encoded"]
             /\ UNCHANGED <<started, returned, fvars>>

\* bytes.Buffer.WriteTo: one Write call with everything, the buffer is drained
AppendOnce(w) == /\ ~TwoWrites /\ pc[w] = "encoded"
             /\ WriteChunk(buf[B(w)])
             /\ buf' = [buf EXCEPT ![B(w)] = <<>>]
             /\ returned' = [returned EXCEPT ![w] = @ + 1]
             /\ pc' = [pc EXCEPT ![w] = "idle"]
             /\ UNCHANGED started

\* defective: everything but the last byte, then the line feed
AppendFirst(w) == /\ TwoWrites /\ pc[w] = "encoded" /\ buf[B(w)] # <<>>
                  /\ WriteChunk(SubSeq(buf[B(w)], 1, Len(buf[B(w)]) - 1))
                  /\ buf' = [buf EXCEPT ![B(w)] = <<@[Len(@)]>>]
                  /\ pc' = [pc EXCEPT ![w] = "half"]
                  /\ UNCHANGED <<started, returned>>
AppendSecond(w) == /\ TwoWrites /\ pc[w] = "half"
                   /\ WriteChunk(buf[B(w)])
                   /\ buf' = [buf EXCEPT ![B(w)] = <<>>]
                   /\ returned' = [returned EXCEPT ![w] = @ + 1]
                   /\ pc' = [pc EXCEPT ![w] = "idle"]
                   /\ UNCHANGED started

Next == \E w \in Writers : Reset(w) \/ Encode(w) \/ AppendOnce(w) \/ AppendFirst(w) \/ AppendSecond(w)
Spec == Init /\ [][Next]_vars

-----------------------------------------------------------------------------
\* At every instant the file is a concatenation of complete single-line objects ...
FileIsWholeLines == ~broken /\ tail = <<>>
\* (weaker, what a reader that ignores an unterminated last line relies on)
LinesIntact == ~broken
\* ... one per logged request: never a line without its Write call, and at
\* quiescence exactly the entries whose Write returned.
NoForeignLine == \A w \in Writers : done[w] <= started[w]
OnePerLogged == (\A w \in Writers : pc[w] = "idle") => \A w \in Writers : done[w] = returned[w]
\* private buffers: a writer's buffer never holds another writer's bytes
BufferPrivate == \A w \in Writers : \A i \in 1..Len(buf[w]) : buf[w][i].t = "obj" => buf[w][i].w = w
=============================================================================
