SPECIFICATION Spec
CONSTANTS
  Callers = {"a", "b"}
  MaxConn = 2
  CapSet = {1}
  TmoSet = {1}
  MaxTime = 3
  MaxOps = 5
  Defect = "get_peeks"
  KeepHist = FALSE
VIEW view
INVARIANTS NoDoubleHandout
CHECK_DEADLOCK FALSE
