SPECIFICATION TableSpec
CONSTANTS
  Alphabet = {"a", "B", "-", "_", "sp"}
  MaxLen = 5
  Pres <- PresQuick
  Fills <- FillsQuick
  Ns = {8, 9, 62, 63, 64, 128, 129, 253, 254}
  Posts <- PostsQuick
  NoTripleCheck = FALSE
  EdgeHyphen = FALSE
  Max64 = FALSE
  RuneLimit = FALSE
  NoTrim = FALSE
  NoCut = FALSE
  NoRevalidate = FALSE
  GapKeepsHyphens = FALSE
  LowerNoCase = FALSE
  NameBytes = FALSE
  DevID9 = FALSE
  ProfSpace = TRUE
INVARIANTS ProfileIDClauses
CHECK_DEADLOCK FALSE
