SPECIFICATION Spec
CONSTANTS
  Listeners = {"web", "nilsvc", "safe", "adult", "general", "linkip"}
  Methods = {"GET", "HEAD", "POST", "PUT", "DELETE", "OPTIONS"}
  Paths = {"root", "robots", "dnscheck", "favicon", "octet", "html", "nohdr", "miss", "near"}
  Encs = {"none", "gzip", "multi", "q0", "other", "upper", "ident"}
  Defect = "errpage_ct"
INVARIANTS ErrorPages
CHECK_DEADLOCK FALSE
