---------------------------- MODULE HashSnapshot ----------------------------
(* C11, lock-free side: hashprefix.Storage keeps its map behind an atomic
   pointer; Reset installs a complete new map with one store, and a reader
   (Hashes, Matches) must answer from ONE installed map although Resets run at
   any moment.  A reader that answers a query of several prefixes is modelled as
   the code does it: a counting pass and an encoding pass over the prefixes.

   SnapshotOnce = TRUE   one Load per call (the pinned tree): both passes use it
   SnapshotOnce = FALSE  a Load per prefix and pass (seeded-defect variant)    *)
EXTENDS Naturals, Sequences, FiniteSets, TLC

CONSTANTS Prefixes,        \* prefixes asked for by the one query modelled
          Versions,        \* list versions 0..Versions (Reset installs v + 1)
          SnapshotOnce

VARIABLES ver,             \* installed list version
          pc,              \* "idle" | "count" | "encode" | "done"
          i,               \* index of the next prefix of the running pass
          snap,            \* version loaded by the reader (if SnapshotOnce)
          counted,         \* sequence of versions used by the counting pass
          encoded,         \* sequence of versions used by the encoding pass
          lo               \* version installed when the call started
vars == <<ver, pc, i, snap, counted, encoded, lo>>

N == Cardinality(Prefixes)

Init == ver = 0 /\ pc = "idle" /\ i = 1 /\ snap = 0 /\ counted = <<>> /\ encoded = <<>> /\ lo = 0

Reset == ver < Versions /\ ver' = ver + 1 /\ UNCHANGED <<pc, i, snap, counted, encoded, lo>>

Start == /\ pc = "idle" /\ pc' = "count" /\ i' = 1 /\ snap' = ver /\ lo' = ver
         /\ UNCHANGED <<ver, counted, encoded>>

Use == IF SnapshotOnce THEN snap ELSE ver      \* the map a pass step reads

Count == /\ pc = "count" /\ i <= N
         /\ counted' = Append(counted, Use) /\ i' = i + 1
         /\ UNCHANGED <<ver, pc, snap, encoded, lo>>
CountDone == pc = "count" /\ i > N /\ pc' = "encode" /\ i' = 1 /\ UNCHANGED <<ver, snap, counted, encoded, lo>>
Encode == /\ pc = "encode" /\ i <= N
          /\ encoded' = Append(encoded, Use) /\ i' = i + 1
          /\ UNCHANGED <<ver, pc, snap, counted, lo>>
EncodeDone == pc = "encode" /\ i > N /\ pc' = "done" /\ UNCHANGED <<ver, i, snap, counted, encoded, lo>>

Next == Reset \/ Start \/ Count \/ CountDone \/ Encode \/ EncodeDone
Spec == Init /\ [][Next]_vars

-----------------------------------------------------------------------------
\* the answer is the answer of ONE list version, installed at some moment of the call
AtomicRead == pc = "done" =>
    \E v \in lo..ver : (\A k \in 1..N : counted[k] = v) /\ (\A k \in 1..N : encoded[k] = v)
\* the buffer sized by the counting pass fits what the encoding pass writes
\* (otherwise the real code panics or returns a short answer)
SizedAsWritten == pc = "done" => counted = encoded
=============================================================================
