SPECIFICATION Spec
CONSTANTS
  W = {"a", "b"}
  SharedTmp = TRUE
INVARIANT DiskAlwaysComplete
CHECK_DEADLOCK FALSE
