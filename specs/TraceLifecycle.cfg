SPECIFICATION TraceSpec
CONSTANTS
  Req = {1, 2, 3, 4, 5, 6, 7, 8, 9, 10, 11, 12, 13, 14, 15, 16}
  CtxKinds = {"nodeadline", "open"}
  MaxMisuse = 1000
  DefectNoWait = FALSE
  DefectLateClose = FALSE
  DefectIgnoreDeadline = FALSE
  DefectDoubleNil = FALSE
INVARIANTS ShutdownWaits DeadlineBounds NothingAfterStop MisuseErrors NoAcceptAfterBegin
POSTCONDITION TraceAccepted
CHECK_DEADLOCK FALSE
