---------------------------- MODULE ConnCounter ----------------------------
(* C18, connection part, UNBOUNDED: the shared counter of internal/connlimiter
   abstracted to integers -- how many slots are held by open connections, how
   many by accepts that have a slot and wait in the wrapped listener -- for
   ANY stop / resume thresholds and ANY number of connections and listeners.
   ConnLimiter.tla (checked exhaustively by TLC for small constants, and bound
   to the code by trace validation) refines to this module by
        nopen  = Cardinality(open),  ninner = Cardinality({l : pc[l] = "inner"}).
   The inductive invariant IndInv is discharged by Apalache:
        apalache-mc check --init=IndInit --inv=IndInv --length=1 ConnCounter.tla   (inductive step)
        apalache-mc check --init=Init    --inv=IndInv --length=0 ConnCounter.tla   (initial states)
   and IndInv implies Bound (C18, first clause) and CounterExact.             *)
EXTENDS Integers

CONSTANTS
    \* @type: Int;
    Stop,
    \* @type: Int;
    Resume

ASSUME Stop >= 1 /\ Resume >= 0 /\ Resume <= Stop

VARIABLES
    \* @type: Int;
    cur,        \* counter.current
    \* @type: Bool;
    accepting,  \* counter.isAccepting
    \* @type: Int;
    nopen,      \* connections handed out and not yet closed
    \* @type: Int;
    ninner      \* accepts that hold a slot and wait in the wrapped listener

\* the thresholds are arbitrary: Apalache picks them with --cinit=ConstInit
ConstInit == Stop \in Nat /\ Resume \in Nat /\ Stop >= 1 /\ Resume <= Stop

Init == cur = 0 /\ accepting = TRUE /\ nopen = 0 /\ ninner = 0

\* limitListener.increment takes a slot (counter.increment returned true)
TakeSlot == /\ accepting
            /\ cur' = cur + 1 /\ accepting' = (cur + 1 < Stop)
            /\ ninner' = ninner + 1 /\ UNCHANGED nopen
\* the wrapped listener's Accept returned a connection
InnerOK == /\ ninner > 0 /\ ninner' = ninner - 1 /\ nopen' = nopen + 1
           /\ UNCHANGED <<cur, accepting>>
\* counter.decrement: the wrapped Accept failed, or a connection was closed for the first time
Dec == /\ cur' = cur - 1 /\ accepting' = (accepting \/ cur - 1 <= Resume)
InnerErr == ninner > 0 /\ ninner' = ninner - 1 /\ UNCHANGED nopen /\ Dec
CloseConn == nopen > 0 /\ nopen' = nopen - 1 /\ UNCHANGED ninner /\ Dec

Next == TakeSlot \/ InnerOK \/ InnerErr \/ CloseConn

\* the counter is exactly the number of slots in use, never above the stop threshold, and the limiter refuses
\* new connections only while more than `resume` slots are in use (or, with resume = stop, while it is full)
CounterExact == cur = nopen + ninner
Bound == nopen + ninner <= Stop
IndInv == /\ cur = nopen + ninner /\ nopen >= 0 /\ ninner >= 0
          /\ cur <= Stop
          /\ (~accepting => (cur > Resume \/ cur >= Stop))
          /\ (cur >= Stop => ~accepting)
IndInit == cur \in Int /\ accepting \in BOOLEAN /\ nopen \in Int /\ ninner \in Int /\ IndInv
Safety == CounterExact /\ Bound
=============================================================================
