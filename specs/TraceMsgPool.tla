---------------------------- MODULE TraceMsgPool ----------------------------
(* Trace validation for C07 on the real dnsmsg.Cloner: ownership of the real
   addresses of poolable objects.  Events
     Reset | New{m, objs} | Clone{src, m, objs, equal} | Rewrite{m, objs} | Dispose{m}
   each with `damaged`: live messages (other than the one written) whose content
   no longer equals the snapshot taken when they were created or last rewritten
   by their owner.                                                            *)
EXTENDS Naturals, Sequences, FiniteSets, TLC, Json

VARIABLES l, owns, live
Trace == ndJsonDeserialize("trace.ndjson")
E == Trace[l]
ToSet(a) == {a[j] : j \in 1..Len(a)}
Used(except) == UNION {owns[m] : m \in live \ {except}}

Step(e) == l <= Len(Trace) /\ E.ev = e /\ l' = l + 1
Intact == Len(E.damaged) = 0                           \* releasing / rewriting one message never alters another
TReset == Step("Reset") /\ owns' = <<>> /\ live' = {}
TNew == /\ Step("New") /\ Intact /\ ToSet(E.objs) \cap Used("") = {}
        /\ owns' = [m \in DOMAIN owns \cup {E.m} |-> IF m = E.m THEN ToSet(E.objs) ELSE owns[m]]
        /\ live' = live \cup {E.m}
TClone == /\ Step("Clone") /\ Intact /\ E.src \in live /\ E.equal
          /\ ToSet(E.objs) \cap Used("") = {}          \* NoAlias, also with its source
          /\ owns' = [m \in DOMAIN owns \cup {E.m} |-> IF m = E.m THEN ToSet(E.objs) ELSE owns[m]]
          /\ live' = live \cup {E.m}
TRewrite == /\ Step("Rewrite") /\ Intact /\ E.m \in live
            /\ ToSet(E.objs) \cap Used(E.m) = {}
            /\ owns' = [owns EXCEPT ![E.m] = ToSet(E.objs)] /\ UNCHANGED live
TDispose == /\ Step("Dispose") /\ Intact /\ E.m \in live   \* released exactly once
            /\ live' = live \ {E.m} /\ UNCHANGED owns
\* a response received by a client during the concurrent run of the full stack:
\* its ID and question are the request's own and it equals the response the same
\* request gets when it is processed alone
TResp == Step("Resp") /\ E.idok /\ E.qok /\ E.same /\ E.shapeok /\ UNCHANGED <<owns, live>>
\* a filtering verdict obtained while other profiles were asking the same storage: it equals the
\* verdict the same (profile, host, type) gets when it is asked alone
TFlt == Step("Flt") /\ E.same /\ UNCHANGED <<owns, live>>
TraceInit == l = 1 /\ owns = <<>> /\ live = {}
TraceNext == TReset \/ TNew \/ TClone \/ TRewrite \/ TDispose \/ TResp \/ TFlt
TraceSpec == TraceInit /\ [][TraceNext]_<<l, owns, live>>
NoAlias == \A a, b \in live : a # b => owns[a] \cap owns[b] = {}
TraceAccepted == LET d == TLCGet("stats").diameter IN
    IF d - 1 = Len(Trace) THEN TRUE ELSE PrintT(<<"STUCK", d, Len(Trace)>>) /\ FALSE
=============================================================================
