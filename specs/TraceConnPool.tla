---------------------------- MODULE TraceConnPool ----------------------------
(* Trace validation for EXT7 (c): events recorded by
   harness/internal/dnsserver/pool/ext7_test.go on the real pool.Pool.  The
   check builds pool.go through an overlay in which time.Now goes through a
   virtual clock and a hook is called after each RUnlock of Get / Put and
   after close(p.connsChan) of Close; the hooks and the factory are gates, so
   that every step of ConnPool.tla is one step of the real code:

     Reset       cap (maxCapacity), tmo (IdleTimeout in ticks of the virtual clock)
     GetSnap     c; at: where the call is parked afterwards ("get")
     GetTake     c; res: "conn" (x: its id, stamp: lastTimeUsed = now) /
                 "errclosed" / "create" (parked in the factory) / "err"
     GetCreate   c, ok; res, x, stamp
     PutSnap     c, x; at ("put")
     PutSend     c; res: "nil" / "errclosed" / "panic" / "err"
     CloseLock   c; res: "locked" (parked after close(p.connsChan)) / "errclosed"
     CloseDrain  c; res: "nil"
     Advance     d
     every event: qlen = len of the channel, ncl = how often each fake
                 connection was closed (sequence indexed by id)
     Desync      the harness could not take the step the schedule asked for
                 (only after an event that TLC has already refused)
     PoolErr     lines of the small error table (judged line by line, NONCONF)
     End

   A PutSend that panics because Close closed the channel between PutSnap and
   PutSend is what the code does and the documents exclude (module ConnPool,
   Defect "put_close_race"): it is accepted here in order to validate the rest
   of the world, and printed as <<"PUTRACE", line>>.                          *)
EXTENDS ConnPool

VARIABLE l
Trace == ndJsonDeserialize("trace.ndjson")
E == Trace[l]
tvars == <<vars, l>>

Mark == TLCSet(1, IF l + 1 > TLCGet(1) THEN l + 1 ELSE TLCGet(1))
Consume(e) == l <= Len(Trace) /\ E.ev = e /\ l' = l + 1

TraceInit == Init /\ l = 1 /\ TLCSet(1, 1)

TReset == /\ Consume("Reset")
          /\ cap' = E.cap /\ tmo' = E.tmo
          /\ ch' = <<>> /\ chClosed' = FALSE /\ nilled' = FALSE
          /\ conn' = [x \in Ids |-> NoConn] /\ ncreated' = 0 /\ now' = 0
          /\ pc' = [c \in Callers |-> "idle"] /\ snap' = [c \in Callers |-> "open"] /\ arg' = [c \in Callers |-> 0]
          /\ late' = [c \in Callers |-> FALSE] /\ res' = [c \in Callers |-> NoRes]
          /\ closeRet' = FALSE /\ badHandout' = FALSE /\ badStamp' = FALSE /\ lateOK' = TRUE /\ nops' = 0 /\ hist' = hist
          /\ Mark

\* what the harness sees of the state after the step
ObsOK == /\ E.qlen = Len(ch')
         /\ \A x \in Ids : x <= Len(E.ncl) => E.ncl[x] = conn'[x].nclose
         /\ Len(E.ncl) = ncreated'

TGetSnap == Consume("GetSnap") /\ E.c \in Callers /\ GetSnap(E.c) /\ E.at = "get" /\ ObsOK /\ Mark

TGetTake ==
    /\ Consume("GetTake") /\ E.c \in Callers /\ GetTake(E.c)
    /\ IF pc'[E.c] = "create" THEN E.res = "create"
       ELSE /\ E.res = res'[E.c].r /\ E.x = res'[E.c].x
            /\ (E.res = "conn" => E.stamp)
    /\ ObsOK /\ Mark

TGetCreate ==
    /\ Consume("GetCreate") /\ E.c \in Callers /\ GetCreate(E.c, E.ok)
    /\ E.res = res'[E.c].r /\ E.x = res'[E.c].x /\ (E.res = "conn" => E.stamp)
    /\ ObsOK /\ Mark

TPutSnap == Consume("PutSnap") /\ E.c \in Callers /\ E.x \in Ids /\ PutSnap(E.c, E.x) /\ E.at = "put" /\ ObsOK /\ Mark

\* the code's way out of the Put / Close race (ConnPool, Defect "put_close_race")
PutSendPanic(c) ==
    /\ pc[c] = "put" /\ snap[c] = "open" /\ chClosed
    /\ res' = [res EXCEPT ![c] = R("Put", "panic", arg[c])]
    /\ pc' = [pc EXCEPT ![c] = "idle"] /\ arg' = [arg EXCEPT ![c] = 0]
    /\ UNCHANGED <<cap, tmo, ch, chClosed, nilled, conn, ncreated, now, snap, late, closeRet, badHandout, badStamp, lateOK,
                   nops, hist>>

TPutSend ==
    /\ Consume("PutSend") /\ E.c \in Callers
    /\ \/ E.res # "panic" /\ PutSend(E.c) /\ E.res = res'[E.c].r
       \/ E.res = "panic" /\ PutSendPanic(E.c) /\ PrintT(<<"PUTRACE", l>>)
    /\ ObsOK /\ Mark

TCloseLock ==
    /\ Consume("CloseLock") /\ E.c \in Callers /\ CloseLock(E.c)
    /\ IF pc'[E.c] = "closing" THEN E.res = "locked" ELSE E.res = res'[E.c].r
    /\ ObsOK /\ Mark

TCloseDrain == Consume("CloseDrain") /\ E.c \in Callers /\ CloseDrain(E.c) /\ E.res = res'[E.c].r /\ ObsOK /\ Mark

TAdvance == Consume("Advance") /\ E.d \in 1..1000 /\ now + E.d <= MaxTime /\ now' = now + E.d
            /\ UNCHANGED <<cap, tmo, ch, chClosed, nilled, conn, ncreated, pc, snap, arg, late, res, closeRet, badHandout,
                           badStamp, lateOK, nops, hist>>
            /\ Mark

TEnd == Consume("End") /\ UNCHANGED vars /\ Mark
\* the harness could not drive the world any further (machinery, not a verdict)
TAbort == Consume("Abort") /\ UNCHANGED vars /\ Mark

\* the error table: Close with connections whose Close fails, Put to a closed pool with such a connection
If(c, s) == IF c THEN {s} ELSE {}
ErrReasons(e) ==
    IF e.kind = "close"
    THEN If(~e.all_closed, "Close did not close every idle connection after one of them failed to close")
         \cup If(e.res_err # (e.failing > 0), "Close must report an error iff closing a connection failed")
         \cup If(~e.second_errclosed, "a second Close must return ErrClosed")
    ELSE If(~e.is_errclosed, "Put to a closed pool must return ErrClosed (errors.Is) also when closing the connection fails")
         \cup If(~e.closed, "Put to a closed pool must close the connection")
TPoolErr == /\ Consume("PoolErr") /\ UNCHANGED vars /\ Mark
            /\ LET r == ErrReasons(E) IN IF r = {} THEN TRUE ELSE PrintT(<<"NONCONF", l, r>>)

TraceNext == \/ TReset \/ TGetSnap \/ TGetTake \/ TGetCreate \/ TPutSnap \/ TPutSend \/ TCloseLock \/ TCloseDrain
             \/ TAdvance \/ TEnd \/ TAbort \/ TPoolErr
TraceSpec == TraceInit /\ [][TraceNext]_tvars

TraceAccepted ==
    IF TLCGet(1) = Len(Trace) + 1 THEN TRUE
    ELSE PrintT(<<"STUCK", TLCGet(1), Len(Trace)>>) /\ FALSE
=============================================================================
