SPECIFICATION TraceSpec
CONSTANTS
  ZoneNames = {"UTC"}
  WeekNames = {"nil"}
  Days = {14}
  Minutes = {0}
  Secs = {0}
  Bounds = {0}
  ElapsedNotWall = FALSE
  UTCWeekday = FALSE
  NoZone = FALSE
  ClosedEnd = FALSE
  OpenStart = FALSE
  ZeroIsWholeDay = FALSE
  NilIsWholeDay = FALSE
  LaxEnd = FALSE
  StrictOrder = FALSE
POSTCONDITION TraceAccepted
CHECK_DEADLOCK FALSE
