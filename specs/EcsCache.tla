------------------------------ MODULE EcsCache ------------------------------
(* C05.  ratelimitmw (location / ECS parsing) + internal/ecscache.

   A client has an address family and a location; its query may carry an ECS
   option: absent, valid (a subnet located somewhere), zero (/0: opt-out) or
   malformed.  Geo maps (location, family) to the coarse subnet of the GeoIP
   database, or to the zero prefix.  The upstream's answer is a function of
   the question and of the subnet it receives; for "scoped" questions it
   depends on the subnet (scope # 0), for others it does not (scope 0).

   State: the two stores of the middleware
     noecs[q, fam, declined]   answers with scope 0
     ecs[q, subnet]            answers scoped to a subnet
   Defect flags (sanity): ScopedShared stores scoped answers in the shared
   store; ForwardClient forwards the client-supplied subnet.                  *)
EXTENDS Naturals, FiniteSets, Sequences, TLC

CONSTANTS Loc,              \* locations incl. "unknown"
          Fam,              \* {"v4", "v6"}
          Quest,            \* questions
          Scoped,           \* subset of Quest whose answer depends on the subnet
          ScopedShared, ForwardClient

Zero(f) == "zero-" \o f
Geo(loc, f) == IF loc = "unknown" THEN Zero(f) ELSE "geo-" \o loc \o "-" \o f
OptKinds == {"absent", "valid", "zero", "malformed"}

\* the subnet the middleware must use for a client
SubnetFor(loc, f, opt, optloc) ==
    IF opt = "zero" THEN Zero(f)
    ELSE IF opt = "valid" THEN Geo(optloc, f)
    ELSE Geo(loc, f)
\* the upstream's answer
Up(q, s) == IF q \in Scoped THEN q \o "@" \o s ELSE q

VARIABLES noecs, ecs, last
vars == <<noecs, ecs, last>>
NoAns == "none"
Subnets == {Geo(l, f) : l \in Loc, f \in Fam} \cup {Zero(f) : f \in Fam} \cup {"client-" \o l \o "-" \o f : l \in Loc, f \in Fam}

Init == /\ noecs = [k \in Quest \X Fam \X BOOLEAN |-> NoAns]
        /\ ecs = [k \in Quest \X Subnets |-> NoAns]
        /\ last = [kind |-> "init"]

Query(loc, f, opt, optloc, q) ==
    IF opt = "malformed"
    THEN /\ last' = [kind |-> "formerr", fwd |-> NoAns, content |-> NoAns, echo |-> FALSE, q |-> q, want |-> NoAns,
                     opt |-> opt, loc |-> loc, f |-> f, optloc |-> optloc]
         /\ UNCHANGED <<noecs, ecs>>
    ELSE
    LET declined == opt = "zero"
        s == IF ForwardClient /\ opt = "valid" THEN "client-" \o optloc \o "-" \o f ELSE SubnetFor(loc, f, opt, optloc)
        k1 == <<q, f, declined>>
        k2 == <<q, s>>
        hit1 == noecs[k1] # NoAns
        hit2 == ~declined /\ ecs[k2] # NoAns
        fresh == Up(q, s)
        scopedAns == q \in Scoped /\ s # Zero(f)       \* the upstream scopes only what it can localise
    IN
    /\ last' = [kind |-> "answer",
                fwd |-> IF hit1 \/ hit2 THEN NoAns ELSE s,
                content |-> IF hit1 THEN noecs[k1] ELSE IF hit2 THEN ecs[k2] ELSE fresh,
                echo |-> opt \in {"valid", "zero"}, q |-> q,
                want |-> Up(q, SubnetFor(loc, f, opt, optloc)),
                opt |-> opt, loc |-> loc, f |-> f, optloc |-> optloc]
    /\ IF hit1 \/ hit2 THEN UNCHANGED <<noecs, ecs>>
       ELSE IF scopedAns /\ ~ScopedShared
            THEN ecs' = [ecs EXCEPT ![k2] = fresh] /\ UNCHANGED noecs
            ELSE noecs' = [noecs EXCEPT ![k1] = fresh] /\ UNCHANGED ecs

Next == \E loc \in Loc, f \in Fam, opt \in OptKinds, optloc \in Loc \ {"unknown"}, q \in Quest :
            Query(loc, f, opt, optloc, q)
Spec == Init /\ [][Next]_vars

-----------------------------------------------------------------------------
Answered == last.kind = "answer"
\* the subnet sent upstream is the coarse one or the zero prefix, never the client's
UpstreamSubnetIsCoarse ==
    Answered /\ last.fwd # NoAns =>
        last.fwd \in {Geo(l, last.f) : l \in Loc} \cup {Zero(last.f)} /\ last.fwd = SubnetFor(last.loc, last.f, last.opt, last.optloc)
\* opt-out: /0 upstream, and never an answer cached for some subnet
DeclinedGetsZero == Answered /\ last.opt = "zero" => (last.fwd \in {NoAns, Zero(last.f)}) /\ last.content = Up(last.q, Zero(last.f))
\* a scoped answer is reused only for the same subnet and family: whatever the
\* history, the answer is the one the upstream gives for this client's own
\* subnet, or the unscoped one it gives for the zero prefix of the family
\* (which anybody may share) -- never one scoped to another subnet or family
RegionalAnswers == Answered => last.content \in {last.want, Up(last.q, Zero(last.f))}
EchoIffValidECS == Answered => (last.echo <=> last.opt \in {"valid", "zero"})
MalformedIsFORMERR == (last.kind # "init" /\ last.opt = "malformed") <=> last.kind = "formerr"
=============================================================================
