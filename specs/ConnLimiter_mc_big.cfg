SPECIFICATION Spec
CONSTANTS
  KeepHist = FALSE
  Lsn = {"l1", "l2", "l3"}
  MaxStop = 4
  MaxConns = 5
  MaxAccepts = 7
  BroadcastOnDec = TRUE
  CheckClosedFirst = TRUE
VIEW view
INVARIANTS TypeOK CounterExact Bound SatMatches NoLostWakeup CloseReleasesWaiters
PROPERTY Hysteresis
CHECK_DEADLOCK FALSE
