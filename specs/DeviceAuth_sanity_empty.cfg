SPECIFICATION Spec
CONSTANTS
  FullProduct = FALSE
  Defect = "empty_pw_as_absent"
INVARIANTS BadPasswordNeverRecognised
