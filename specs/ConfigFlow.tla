----------------------------- MODULE ConfigFlow -----------------------------
(* EXT8.  The configuration DATA FLOW of AdGuard DNS as an explicit relation.

   A *leaf* is one scalar of the configuration file (a YAML path such as
   ratelimit.ipv6.interval, upstream.servers[*].timeout) or one environment
   variable (env.PROFILES_MAX_RESP_SIZE).  A *target* is one field of the
   configuration structure a component constructor receives
   (ratelimit.BackoffConfig.IPv6Interval, forward.HandlerConfig.FallbackAddresses[*].Timeout,
   dnsserver.ConfigDNS[*][*][*].MaxPipelineCount, ...).  Flow says, for every
   leaf, which targets it must reach and how the value is transformed on the
   way.  It is derived from doc/configuration.md, doc/environment.md, the
   comments of config.dist.yaml and the field comments of the component
   configurations -- NOT from internal/cmd.

   Paths.  "[*]" stands for a list index, "{*}" for a data key of a mapping,
   "<name>" is the fixed name of an instance (the refresh worker called
   profiledb_refresh, the hash-prefix filter adult_blocking); dnsserver.Config*
   are indexed [server group][server][bind address].  An instance of a pattern
   is written  pattern@i1,i2  (Key).

   An entry  [leaf, tgt, idx, xf, req, gate, on, off, src, map]:
     idx   how the target instance follows from the leaf instance
             none   the target has no index
             same   the target has the index of the leaf
             all    every existing instance of the target
             pre    every instance whose index starts with the leaf's index
             mem    some instance (the target is a set: sorted, merged)
     xf    the transformation class (Expected)
             id        the value itself (after the unit conversion the recorder
                       applies to both sides: durations, sizes in bytes, ...)
             gated     the value iff the leaf `gate` has the value `on`, else `off`
             flag      the leaf IS such a switch: the value of leaf `src` when
                       the new value is `on`, else `off`
             map       an enumeration: map[value]
             const     always `on` (membership)
             cachetype / timeout0 / port0   documented special cases, see Expected
             any       not judged (observed)
     req   must   documented: Reaches is required
           may    the documentation is silent about this consumer (or documents
                  it as a carrier / as ignored): a change there is no cross-talk,
                  nothing is required

   Invariants of the flow (judged on the real code by TraceConfigFlow, and on the
   abstract run below with the defect flags):
     Reaches          every documented leaf reaches each of its targets
     NoCrossTalk      changing one leaf changes nothing outside its targets
     GatedByOwnFlag   an `enabled` switch gates exactly its own section
     PartitionExact   lists that are split or concatenated keep every element
                      on its side (main vs fallback upstreams)
     OrderPreserved   ... in the configured order
     ZeroIsMeaningful zero / sub-minimum values arrive as they are               *)
EXTENDS Integers, Sequences, FiniteSets, TLC

CONSTANTS Defect,      \* "none" | "crosswire" | "drop" | "wronggate" | "splitoff" | "reorder" | "zerodefault"
          MaxChanges,  \* leaves changed in one abstract run
          FocusKeys    \* the model leaves that are changed ({} = all of them)

Absent == "<absent>"

RECURSIVE Join(_)
Join(s) == IF Len(s) = 0 THEN "" ELSE IF Len(s) = 1 THEN s[1] ELSE s[1] \o "," \o Join(Tail(s))
Key(p, i) == p \o "@" \o Join(i)

Ent(leaf, tgt, idx, xf, req) ==
    [leaf |-> leaf, tgt |-> tgt, idx |-> idx, xf |-> xf, req |-> req,
     gate |-> "", on |-> "", off |-> "", src |-> "", map |-> <<>>]
Id(leaf, tgt, idx)  == Ent(leaf, tgt, idx, "id", "must")
May(leaf, tgt, idx) == Ent(leaf, tgt, idx, "any", "may")
Under(leaf, root, idx) == Ent(leaf, root \o ".*", idx, "any", "may")
Gated(leaf, tgt, idx, gate, on, off) ==
    [Ent(leaf, tgt, idx, "gated", "must") EXCEPT !.gate = gate, !.on = on, !.off = off]
Flag(leaf, tgt, idx, src, on, off) ==
    [Ent(leaf, tgt, idx, "flag", "must") EXCEPT !.src = src, !.on = on, !.off = off]
Map(leaf, tgt, idx, m) == [Ent(leaf, tgt, idx, "map", "must") EXCEPT !.map = m]
Const(leaf, tgt, idx, v) == [Ent(leaf, tgt, idx, "const", "must") EXCEPT !.on = v]
Special(leaf, tgt, idx, xf) == Ent(leaf, tgt, idx, xf, "must")
GatedSpecial(leaf, tgt, idx, xf, gate, on, off) ==
    [Ent(leaf, tgt, idx, xf, "must") EXCEPT !.gate = gate, !.on = on, !.off = off]

TF(t, f) == ("true" :> t) @@ ("false" :> f)

RW(n) == "agdservice.RefreshWorkerConfig<" \o n \o ">"
HP(n) == "hashprefix.FilterConfig<" \o n \o ">"
Lsnr == {"dnsserver.ConfigDNS", "dnsserver.ConfigTLS", "dnsserver.ConfigQUIC", "dnsserver.ConfigHTTPS",
         "dnsserver.ConfigDNSCrypt"}
L3(t) == t \o "[*][*][*]"
Srv == "agd.ServerGroup[*].Servers[*]"
ProfGate == "server_groups[*].profiles_enabled@0"

(* ------------------------------------------------------------------ ratelimit *)
FlowRateLimit ==
  { Id("ratelimit.refuseany", "ratelimit.BackoffConfig.RefuseANY", "none"),
    Id("ratelimit.response_size_estimate", "ratelimit.BackoffConfig.ResponseSizeEstimate", "none"),
    \* the per-profile limiters count with the same estimate (field comments of
    \* backendpb.ProfileStorageConfig and profiledb.Config); they exist when profiles do
    Gated("ratelimit.response_size_estimate", "backendpb.ProfileStorageConfig.ResponseSizeEstimate", "none", ProfGate, "true", Absent),
    Gated("ratelimit.response_size_estimate", "profiledb.Config.ResponseSizeEstimate", "none", ProfGate, "true", Absent),
    Id("ratelimit.backoff_period", "ratelimit.BackoffConfig.Period", "none"),
    Id("ratelimit.backoff_duration", "ratelimit.BackoffConfig.Duration", "none"),
    Id("ratelimit.backoff_count", "ratelimit.BackoffConfig.Count", "none"),
    Id("ratelimit.ipv4.count", "ratelimit.BackoffConfig.IPv4Count", "none"),
    Id("ratelimit.ipv4.interval", "ratelimit.BackoffConfig.IPv4Interval", "none"),
    Id("ratelimit.ipv4.subnet_key_len", "ratelimit.BackoffConfig.IPv4SubnetKeyLen", "none"),
    Id("ratelimit.ipv6.count", "ratelimit.BackoffConfig.IPv6Count", "none"),
    Id("ratelimit.ipv6.interval", "ratelimit.BackoffConfig.IPv6Interval", "none"),
    Id("ratelimit.ipv6.subnet_key_len", "ratelimit.BackoffConfig.IPv6SubnetKeyLen", "none"),
    Id("ratelimit.allowlist.list[*]", "ratelimit.BackoffConfig.Allowlist.persistent[*]", "same"),
    Id("ratelimit.allowlist.list.#len", "ratelimit.BackoffConfig.Allowlist.persistent.#len", "none"),
    May("ratelimit.allowlist.list[*]", "consul.AllowlistUpdaterConfig.Allowlist.persistent[*]", "same"),
    May("ratelimit.allowlist.list.#len", "consul.AllowlistUpdaterConfig.Allowlist.persistent.#len", "none"),
    May("ratelimit.allowlist.list[*]", "backendpb.RateLimiterConfig.Allowlist.persistent[*]", "same"),
    May("ratelimit.allowlist.list.#len", "backendpb.RateLimiterConfig.Allowlist.persistent.#len", "none"),
    Id("ratelimit.allowlist.refresh_interval", RW("ratelimit_allowlist_refresh") \o ".Interval", "none"),
    Map("ratelimit.allowlist.type", RW("ratelimit_allowlist_refresh") \o ".Refresher.(type)", "none",
        ("consul" :> "*consul.AllowlistUpdater") @@ ("backend" :> "*backendpb.RateLimiter")),
    Under("ratelimit.allowlist.type", "consul.AllowlistUpdaterConfig", "none"),
    Under("ratelimit.allowlist.type", "backendpb.RateLimiterConfig", "none"),
    \* stream-connection limit
    Flag("ratelimit.connection_limit.enabled", "connlimiter.Config.Stop", "none", "ratelimit.connection_limit.stop@", "true", Absent),
    Flag("ratelimit.connection_limit.enabled", "connlimiter.Config.Resume", "none", "ratelimit.connection_limit.resume@", "true", Absent),
    Gated("ratelimit.connection_limit.stop", "connlimiter.Config.Stop", "none", "ratelimit.connection_limit.enabled@", "true", Absent),
    Gated("ratelimit.connection_limit.resume", "connlimiter.Config.Resume", "none", "ratelimit.connection_limit.enabled@", "true", Absent),
    Map("ratelimit.connection_limit.enabled", "dnssvc.Config.ConnLimiter", "none", TF("*connlimiter.Limiter", "<nil>")),
    Under("ratelimit.connection_limit.enabled", "connlimiter.Config", "none"),
    May("ratelimit.connection_limit.enabled", "builder.connLimit", "none") }
  \cup { Id("ratelimit.connection_limit.enabled", L3(t) \o ".ListenConfig.limited", "all") : t \in Lsnr }
  \cup { May("ratelimit.connection_limit.enabled", L3(t) \o ".ListenConfig.inner.(type)", "all") : t \in Lsnr }
  \cup
  { \* QUIC and TCP limits: "Whether or not the ... limiting should be enforced" / the maxima
    Id("ratelimit.quic.enabled", L3("dnsserver.ConfigQUIC") \o ".QUICLimitsEnabled", "all"),
    Id("ratelimit.quic.enabled", L3("dnsserver.ConfigHTTPS") \o ".QUICLimitsEnabled", "all"),
    May("ratelimit.quic.enabled", Srv \o ".QUICConf.QUICLimitsEnabled", "all"),
    Id("ratelimit.quic.max_streams_per_peer", L3("dnsserver.ConfigQUIC") \o ".MaxStreamsPerPeer", "all"),
    Id("ratelimit.quic.max_streams_per_peer", L3("dnsserver.ConfigHTTPS") \o ".MaxStreamsPerPeer", "all"),
    May("ratelimit.quic.max_streams_per_peer", Srv \o ".QUICConf.MaxStreamsPerPeer", "all"),
    Id("ratelimit.tcp.enabled", L3("dnsserver.ConfigDNS") \o ".MaxPipelineEnabled", "all"),
    Id("ratelimit.tcp.enabled", L3("dnsserver.ConfigTLS") \o ".MaxPipelineEnabled", "all"),
    May("ratelimit.tcp.enabled", Srv \o ".TCPConf.MaxPipelineEnabled", "all"),
    Id("ratelimit.tcp.max_pipeline_count", L3("dnsserver.ConfigDNS") \o ".MaxPipelineCount", "all"),
    Id("ratelimit.tcp.max_pipeline_count", L3("dnsserver.ConfigTLS") \o ".MaxPipelineCount", "all"),
    May("ratelimit.tcp.max_pipeline_count", Srv \o ".TCPConf.MaxPipelineCount", "all") }

(* ------------------------------------------------------------------ cache, upstream, dns, dnsdb *)
FlowCore ==
  { \* "If zero, cache is disabled"; otherwise the configured type
    Special("cache.type", "dnssvc.HandlersConfig.Cache.Type", "none", "cachetype"),
    Special("cache.size", "dnssvc.HandlersConfig.Cache.Type", "none", "cachetype"),
    Id("cache.size", "dnssvc.HandlersConfig.Cache.NoECSCount", "none"),
    Id("cache.ecs_size", "dnssvc.HandlersConfig.Cache.ECSCount", "none"),
    Id("cache.ttl_override.enabled", "dnssvc.HandlersConfig.Cache.OverrideCacheTTL", "none"),
    Id("cache.ttl_override.min", "dnssvc.HandlersConfig.Cache.MinTTL", "none"),
    \* upstreams: two lists, each element an address and a time-out
    Id("upstream.servers[*].address", "forward.HandlerConfig.UpstreamsAddresses[*].Endpoint", "same"),
    Id("upstream.servers[*].timeout", "forward.HandlerConfig.UpstreamsAddresses[*].Timeout", "same"),
    Id("upstream.servers.#len", "forward.HandlerConfig.UpstreamsAddresses.#len", "none"),
    Id("upstream.fallback.servers[*].address", "forward.HandlerConfig.FallbackAddresses[*].Endpoint", "same"),
    Id("upstream.fallback.servers[*].timeout", "forward.HandlerConfig.FallbackAddresses[*].Timeout", "same"),
    Id("upstream.fallback.servers.#len", "forward.HandlerConfig.FallbackAddresses.#len", "none"),
    \* "If enabled is true, the upstream healthcheck is enabled": the probes (the
    \* start-up one and the periodic ones) exist iff it is; `timeout` is the
    \* "timeout for all outgoing healthcheck requests"
    Flag("upstream.healthcheck.enabled", "forward.HandlerConfig.HealthcheckInitDuration", "none", "upstream.healthcheck.timeout@", "true", "0s"),
    Flag("upstream.healthcheck.enabled", RW("upstream_healthcheck_refresh") \o ".Interval", "none", "upstream.healthcheck.interval@", "true", Absent),
    Flag("upstream.healthcheck.enabled", RW("upstream_healthcheck_refresh") \o ".Context.timeout", "none", "upstream.healthcheck.timeout@", "true", Absent),
    Under("upstream.healthcheck.enabled", RW("upstream_healthcheck_refresh"), "none"),
    Gated("upstream.healthcheck.timeout", "forward.HandlerConfig.HealthcheckInitDuration", "none", "upstream.healthcheck.enabled@", "true", "0s"),
    Gated("upstream.healthcheck.timeout", RW("upstream_healthcheck_refresh") \o ".Context.timeout", "none", "upstream.healthcheck.enabled@", "true", Absent),
    Gated("upstream.healthcheck.interval", RW("upstream_healthcheck_refresh") \o ".Interval", "none", "upstream.healthcheck.enabled@", "true", Absent),
    Id("upstream.healthcheck.backoff_duration", "forward.HandlerConfig.HealthcheckBackoffDuration", "none"),
    Id("upstream.healthcheck.domain_template", "forward.HandlerConfig.HealthcheckDomainTmpl", "none"),
    \* dns: read / write / idle time-outs of plain DNS and DoT ("doesn't affect
    \* DNSCrypt, QUIC, or HTTPS"), the handling time-out, the UDP maximum
    Id("dns.read_timeout", L3("dnsserver.ConfigDNS") \o ".ReadTimeout", "all"),
    Id("dns.read_timeout", L3("dnsserver.ConfigTLS") \o ".ReadTimeout", "all"),
    May("dns.read_timeout", Srv \o ".ReadTimeout", "all"),
    Id("dns.write_timeout", L3("dnsserver.ConfigDNS") \o ".WriteTimeout", "all"),
    Id("dns.write_timeout", L3("dnsserver.ConfigTLS") \o ".WriteTimeout", "all"),
    May("dns.write_timeout", Srv \o ".WriteTimeout", "all"),
    Id("dns.tcp_idle_timeout", L3("dnsserver.ConfigDNS") \o ".TCPIdleTimeout", "all"),
    Id("dns.tcp_idle_timeout", L3("dnsserver.ConfigTLS") \o ".TCPIdleTimeout", "all"),
    May("dns.tcp_idle_timeout", Srv \o ".TCPConf.IdleTimeout", "all"),
    Id("dns.handle_timeout", "dnssvc.Config.HandleTimeout", "none"),
    Id("dns.max_udp_response_size", L3("dnsserver.ConfigDNS") \o ".MaxUDPRespSize", "all"),
    May("dns.max_udp_response_size", Srv \o ".UDPConf.MaxRespSize", "all"),
    \* dnsdb
    Map("dnsdb.enabled", "dnssvc.HandlersConfig.DNSDB.(type)", "none", TF("*dnsdb.Default", "dnsdb.Empty")),
    Flag("dnsdb.enabled", "dnsdb.DefaultConfig.MaxSize", "none", "dnsdb.max_size@", "true", Absent),
    Gated("dnsdb.max_size", "dnsdb.DefaultConfig.MaxSize", "none", "dnsdb.enabled@", "true", Absent),
    Under("dnsdb.enabled", "dnsdb.DefaultConfig", "none"),
    May("dnsdb.enabled", "debugsvc.Config.DNSDBAddr", "none"),
    May("dnsdb.enabled", "debugsvc.Config.DNSDBHandler.(type)", "none") }

(* ------------------------------------------------------------------ backend, query log, geoip, check *)
FlowBackend ==
  { \* "Set to 0s to disable timeouts"
    GatedSpecial("backend.timeout", RW("profiledb_refresh") \o ".Context.timeout", "none", "timeout0", ProfGate, "true", Absent),
    GatedSpecial("backend.timeout", RW("billstat_refresh") \o ".Context.timeout", "none", "timeout0", ProfGate, "true", Absent),
    Gated("backend.refresh_interval", RW("profiledb_refresh") \o ".Interval", "none", ProfGate, "true", Absent),
    Gated("backend.full_refresh_interval", "profiledb.Config.FullSyncIvl", "none", ProfGate, "true", Absent),
    Gated("backend.full_refresh_retry_interval", "profiledb.Config.FullSyncRetryIvl", "none", ProfGate, "true", Absent),
    Gated("backend.bill_stat_interval", RW("billstat_refresh") \o ".Interval", "none", ProfGate, "true", Absent),
    Map("query_log.file.enabled", "dnssvc.HandlersConfig.QueryLog.(type)", "none", TF("*querylog.FileSystem", "querylog.Empty")),
    Under("query_log.file.enabled", "querylog.FileSystemConfig", "none"),
    Id("geoip.host_cache_size", "geoip.FileConfig.HostCacheCount", "none"),
    Id("geoip.ip_cache_size", "geoip.FileConfig.IPCacheCount", "none"),
    Id("geoip.refresh_interval", RW("geoip_refresh") \o ".Interval", "none"),
    \* DNS-server check
    Map("check.kv.type", "remotekv.KeyNamespaceConfig.KV.(type)", "none",
        ("backend" :> "*backendpb.RemoteKV") @@ ("consul" :> "*consulkv.KV") @@ ("redis" :> "*rediskv.RedisKV") @@ ("cache" :> Absent)),
    Map("check.kv.type", "dnscheck.RemoteKVConfig.RemoteKV.(type)", "none",
        ("backend" :> "*remotekv.KeyNamespace") @@ ("consul" :> "*remotekv.KeyNamespace") @@ ("redis" :> "*remotekv.KeyNamespace")
        @@ ("cache" :> "*remotekv.Cache")),
    Under("check.kv.type", "backendpb.RemoteKVConfig", "none"),
    Under("check.kv.type", "consulkv.Config", "none"),
    Under("check.kv.type", "rediskv.RedisKVConfig", "none"),
    Under("check.kv.type", "remotekv.CacheConfig", "none"),
    Under("check.kv.type", "remotekv.KeyNamespaceConfig", "none"),
    \* "For cache, the TTL is not used"
    Gated("check.kv.ttl", "backendpb.RemoteKVConfig.TTL", "none", "check.kv.type@", "backend", Absent),
    Gated("check.kv.ttl", "consulkv.Config.TTL", "none", "check.kv.type@", "consul", Absent),
    Gated("check.kv.ttl", "rediskv.RedisKVConfig.TTL", "none", "check.kv.type@", "redis", Absent),
    Flag("check.kv.type", "backendpb.RemoteKVConfig.TTL", "none", "check.kv.ttl@", "backend", Absent),
    Flag("check.kv.type", "consulkv.Config.TTL", "none", "check.kv.ttl@", "consul", Absent),
    Flag("check.kv.type", "rediskv.RedisKVConfig.TTL", "none", "check.kv.ttl@", "redis", Absent),
    Id("check.domains[*]", "dnscheck.RemoteKVConfig.Domains[*]", "same"),
    Id("check.domains.#len", "dnscheck.RemoteKVConfig.Domains.#len", "none"),
    Id("check.node_location", "dnscheck.RemoteKVConfig.NodeLocation", "none"),
    Id("check.node_name", "dnscheck.RemoteKVConfig.NodeName", "none"),
    Id("check.ipv4[*]", "dnscheck.RemoteKVConfig.IPv4[*]", "same"),
    Id("check.ipv4.#len", "dnscheck.RemoteKVConfig.IPv4.#len", "none"),
    Id("check.ipv6[*]", "dnscheck.RemoteKVConfig.IPv6[*]", "same"),
    Id("check.ipv6.#len", "dnscheck.RemoteKVConfig.IPv6.#len", "none") }

(* ------------------------------------------------------------------ web *)
WebSrv == {<<"linked_ip", "LinkedIP">>, <<"adult_blocking", "AdultBlocking">>,
           <<"general_blocking", "GeneralBlocking">>, <<"safe_browsing", "SafeBrowsing">>}
FlowWeb ==
  UNION { { Id("web." \o s[1] \o ".bind[*].address", "websvc.Config." \o s[2] \o ".Bind[*].Address", "same"),
            Id("web." \o s[1] \o ".bind.#len", "websvc.Config." \o s[2] \o ".Bind.#len", "none"),
            May("web." \o s[1] \o ".bind[*].certificates.#len", "websvc.Config." \o s[2] \o ".Bind[*].TLS", "same"),
            May("web." \o s[1] \o ".bind[*].address", "websvc.Config." \o s[2] \o ".Bind[*].TLS", "same") } : s \in WebSrv }
  \cup
  { Id("web.adult_blocking.block_page", "websvc.Config.AdultBlocking.ContentFilePath", "none"),
    Id("web.general_blocking.block_page", "websvc.Config.GeneralBlocking.ContentFilePath", "none"),
    Id("web.safe_browsing.block_page", "websvc.Config.SafeBrowsing.ContentFilePath", "none"),
    Id("web.non_doh_bind[*].address", "websvc.Config.NonDoHBind[*].Address", "same"),
    Id("web.non_doh_bind.#len", "websvc.Config.NonDoHBind.#len", "none"),
    May("web.non_doh_bind[*].certificates.#len", "websvc.Config.NonDoHBind[*].TLS", "same"),
    May("web.non_doh_bind[*].address", "websvc.Config.NonDoHBind[*].TLS", "same"),
    \* "This field is ignored if WEB_STATIC_DIR_ENABLED is set to 1"
    Gated("web.static_content{*}.content", "websvc.Config.StaticContent{*}.Content", "same", "env.WEB_STATIC_DIR_ENABLED@", "false", Absent),
    Gated("web.static_content{*}.headers{*}[*]", "websvc.Config.StaticContent{*}.Headers{*}[*]", "same", "env.WEB_STATIC_DIR_ENABLED@", "false", Absent),
    Id("web.root_redirect_url", "websvc.Config.RootRedirectURL", "none"),
    Id("web.error_404", "websvc.Config.Error404", "none"),
    Id("web.error_500", "websvc.Config.Error500", "none"),
    Id("web.timeout", "websvc.Config.Timeout", "none") }

(* ------------------------------------------------------------------ safe browsing, adult blocking, filters *)
FlowHash(sec, name, envflag) ==
  { Gated(sec \o ".block_host", HP(name) \o ".ReplacementHost", "none", envflag, "true", Absent),
    \* cache_size: "WARNING: CURRENTLY IGNORED" -- observed only
    May(sec \o ".cache_size", HP(name) \o ".CacheCount", "none"),
    Gated(sec \o ".cache_ttl", HP(name) \o ".CacheTTL", "none", envflag, "true", Absent),
    Gated(sec \o ".refresh_interval", RW(name \o "_refresh") \o ".Interval", "none", envflag, "true", Absent),
    May(sec \o ".refresh_interval", HP(name) \o ".Staleness", "none"),
    Gated(sec \o ".refresh_timeout", RW(name \o "_refresh") \o ".Context.timeout", "none", envflag, "true", Absent),
    Gated(sec \o ".refresh_timeout", HP(name) \o ".RefreshTimeout", "none", envflag, "true", Absent) }
\* the newly-registered-domains filter reuses the safe_browsing section: the
\* documentation does not say so -- observed
FlowNRD ==
  { May("safe_browsing.block_host", HP("newly_registered_domains") \o ".ReplacementHost", "none"),
    May("safe_browsing.cache_size", HP("newly_registered_domains") \o ".CacheCount", "none"),
    May("safe_browsing.cache_ttl", HP("newly_registered_domains") \o ".CacheTTL", "none"),
    May("safe_browsing.refresh_interval", HP("newly_registered_domains") \o ".Staleness", "none"),
    May("safe_browsing.refresh_interval", RW("newly_registered_domains_refresh") \o ".Interval", "none"),
    May("safe_browsing.refresh_timeout", HP("newly_registered_domains") \o ".RefreshTimeout", "none"),
    May("safe_browsing.refresh_timeout", RW("newly_registered_domains_refresh") \o ".Context.timeout", "none") }
FS == "filterstorage.Config"
FlowFilters ==
  { Id("filters.response_ttl", "dnsmsg.ConstructorConfig.FilteredResponseTTL", "none"),
    Id("filters.custom_filter_cache_size", FS \o ".Custom.CacheCount", "none"),
    \* "This value applies to both general and YouTube safe-search"
    Gated("filters.safe_search_cache_size", FS \o ".SafeSearchGeneral.ResultCacheCount", "none", "env.GENERAL_SAFE_SEARCH_ENABLED@", "true", "0"),
    Gated("filters.safe_search_cache_size", FS \o ".SafeSearchYouTube.ResultCacheCount", "none", "env.YOUTUBE_SAFE_SEARCH_ENABLED@", "true", "0"),
    \* "How often AdGuard DNS refreshes the rule-list filters from the filter index, as well as the blocked services list"
    Id("filters.refresh_interval", RW("filters/storage_refresh") \o ".Interval", "none"),
    May("filters.refresh_interval", FS \o ".RuleLists.IndexStaleness", "none"),
    May("filters.refresh_interval", FS \o ".RuleLists.Staleness", "none"),
    May("filters.refresh_interval", FS \o ".BlockedServices.IndexStaleness", "none"),
    May("filters.refresh_interval", FS \o ".SafeSearchGeneral.Staleness", "none"),
    May("filters.refresh_interval", FS \o ".SafeSearchYouTube.Staleness", "none"),
    \* "The timeout for the *entire* filter update operation. Note that filter rule-list
    \* index and each filter rule-list update operations have their own timeouts"
    Id("filters.refresh_timeout", RW("filters/storage_refresh") \o ".Context.timeout", "none"),
    Id("filters.index_refresh_timeout", FS \o ".RuleLists.IndexRefreshTimeout", "none"),
    \* "The timeout for the filter update operation of each rule-list, including the safe-search ones"
    Id("filters.rule_list_refresh_timeout", FS \o ".RuleLists.RefreshTimeout", "none"),
    Gated("filters.rule_list_refresh_timeout", FS \o ".SafeSearchGeneral.RefreshTimeout", "none", "env.GENERAL_SAFE_SEARCH_ENABLED@", "true", "0s"),
    Gated("filters.rule_list_refresh_timeout", FS \o ".SafeSearchYouTube.RefreshTimeout", "none", "env.YOUTUBE_SAFE_SEARCH_ENABLED@", "true", "0s"),
    \* "The maximum size of the downloadable content for a rule-list"
    Id("filters.max_size", FS \o ".RuleLists.MaxSize", "none"),
    May("filters.max_size", FS \o ".RuleLists.IndexMaxSize", "none"),
    May("filters.max_size", FS \o ".BlockedServices.IndexMaxSize", "none"),
    May("filters.max_size", FS \o ".SafeSearchGeneral.MaxSize", "none"),
    May("filters.max_size", FS \o ".SafeSearchYouTube.MaxSize", "none"),
    May("filters.max_size", HP("adult_blocking") \o ".MaxSize", "none"),
    May("filters.max_size", HP("safe_browsing") \o ".MaxSize", "none"),
    May("filters.max_size", HP("newly_registered_domains") \o ".MaxSize", "none"),
    Id("filters.rule_list_cache.enabled", FS \o ".RuleLists.ResultCacheEnabled", "none"),
    May("filters.rule_list_cache.enabled", FS \o ".BlockedServices.ResultCacheEnabled", "none"),
    Id("filters.rule_list_cache.size", FS \o ".RuleLists.ResultCacheCount", "none"),
    May("filters.rule_list_cache.size", FS \o ".BlockedServices.ResultCacheCount", "none"),
    Id("filters.ede_enabled", "dnsmsg.ConstructorConfig.EDEEnabled", "none"),
    Id("filters.ede_enabled", "dnssvc.HandlersConfig.EDEEnabled", "none"),
    Id("filters.sde_enabled", "dnsmsg.ConstructorConfig.StructuredErrors.Enabled", "none"),
    Id("filters.sde_enabled", "dnssvc.HandlersConfig.StructuredErrors.Enabled", "none") }

(* ------------------------------------------------------------------ filtering groups, interfaces, network, access *)
FG == "agd.FilteringGroup[*]"
FlowGroups ==
  { Id("filtering_groups[*].id", FG \o ".ID", "same"),
    May("filtering_groups[*].id", "dnssvc.HandlersConfig.FilteringGroups{*}", "all"),
    Id("filtering_groups[*].rule_lists.enabled", FG \o ".FilterConfig.RuleList.Enabled", "same"),
    Id("filtering_groups[*].rule_lists.ids[*]", FG \o ".FilterConfig.RuleList.IDs[*]", "same"),
    Id("filtering_groups[*].rule_lists.ids.#len", FG \o ".FilterConfig.RuleList.IDs.#len", "same"),
    Id("filtering_groups[*].parental.enabled", FG \o ".FilterConfig.Parental.Enabled", "same"),
    Id("filtering_groups[*].parental.block_adult", FG \o ".FilterConfig.Parental.AdultBlockingEnabled", "same"),
    Id("filtering_groups[*].parental.general_safe_search", FG \o ".FilterConfig.Parental.SafeSearchGeneralEnabled", "same"),
    Id("filtering_groups[*].parental.youtube_safe_search", FG \o ".FilterConfig.Parental.SafeSearchYouTubeEnabled", "same"),
    Id("filtering_groups[*].safe_browsing.enabled", FG \o ".FilterConfig.SafeBrowsing.Enabled", "same"),
    Id("filtering_groups[*].safe_browsing.block_dangerous_domains", FG \o ".FilterConfig.SafeBrowsing.DangerousDomainsEnabled", "same"),
    Id("filtering_groups[*].safe_browsing.block_newly_registered_domains", FG \o ".FilterConfig.SafeBrowsing.NewlyRegisteredDomainsEnabled", "same"),
    Id("filtering_groups[*].block_chrome_prefetch", FG \o ".BlockChromePrefetch", "same"),
    Id("filtering_groups[*].block_firefox_canary", FG \o ".BlockFirefoxCanary", "same"),
    Id("filtering_groups[*].block_private_relay", FG \o ".BlockPrivateRelay", "same"),
    Id("filtering_groups.#len", "dnssvc.HandlersConfig.FilteringGroups.#len", "none"),
    Under("filtering_groups.#len", FG, "all"),
    May("filtering_groups.#len", "dnssvc.HandlersConfig.FilteringGroups{*}", "all"),
    \* interface listeners
    Id("interface_listeners.channel_buffer_size", "bindtodevice.ManagerConfig.ChannelBufferSize", "none"),
    Id("interface_listeners.list{*}.interface", "bindtodevice.Add{*}.Iface", "same"),
    Id("interface_listeners.list{*}.port", "bindtodevice.Add{*}.Port", "same"),
    May("interface_listeners.list{*}.port", Srv \o ".bindData[*].Port", "all"),
    May("interface_listeners.list{*}.port", L3("dnsserver.ConfigDNS") \o ".Addr", "all"),
    May("interface_listeners.list{*}.port", L3("dnsserver.ConfigDNS") \o ".Name", "all"),
    May("interface_listeners.list{*}.port", L3("dnsserver.ConfigDNS") \o ".ListenConfig.inner.addr.Port", "all"),
    \* socket buffers
    Id("network.so_rcvbuf", "dnssvc.Config.ControlConf.RcvBufSize", "none"),
    Id("network.so_rcvbuf", "bindtodevice.Add{*}.CtrlConf.RcvBufSize", "all"),
    Id("network.so_sndbuf", "dnssvc.Config.ControlConf.SndBufSize", "none"),
    Id("network.so_sndbuf", "bindtodevice.Add{*}.CtrlConf.SndBufSize", "all"),
    \* access
    Id("access.blocked_question_domains[*]", "access.NewGlobal.Domains[*]", "same"),
    Id("access.blocked_question_domains.#len", "access.NewGlobal.Domains.#len", "none"),
    Id("access.blocked_client_subnets[*]", "access.NewGlobal.Subnets[*]", "same"),
    Id("access.blocked_client_subnets.#len", "access.NewGlobal.Subnets.#len", "none"),
    Id("additional_metrics_info{*}", "metrics.additional_info{*}", "same") }

(* ------------------------------------------------------------------ server groups *)
SG == "agd.ServerGroup[*]"
DDRSide == {<<"device_records", "Device">>, <<"public_records", "Public">>}
DDRProto == {<<"https_port", "https">>, <<"tls_port", "tls">>, <<"quic_port", "quic">>}
FlowDDR ==
  UNION { UNION { { \* "If it is zero, the ... resolver address is not included into the answer"
                    Special("server_groups[*].ddr." \o s[1] \o "{*}." \o p[1], SG \o ".DDR." \o s[2] \o "{*}<" \o p[2] \o ">.port", "same", "port0"),
                    Under("server_groups[*].ddr." \o s[1] \o "{*}." \o p[1], SG \o ".DDR." \o s[2] \o "{*}<" \o p[2] \o ">", "same"),
                    May("server_groups[*].ddr." \o s[1] \o "{*}." \o p[1], SG \o ".DDR." \o s[2] \o "Templates.#len", "all"),
                    May("server_groups[*].ddr." \o s[1] \o "{*}." \o p[1], SG \o ".DDR." \o s[2] \o "{*}<https>.priority", "same"),
                    May("server_groups[*].ddr." \o s[1] \o "{*}." \o p[1], SG \o ".DDR." \o s[2] \o "{*}<tls>.priority", "same"),
                    May("server_groups[*].ddr." \o s[1] \o "{*}." \o p[1], SG \o ".DDR." \o s[2] \o "{*}<quic>.priority", "same"),
                    Id("server_groups[*].ddr." \o s[1] \o "{*}.ipv4_hints[*]", SG \o ".DDR." \o s[2] \o "{*}<" \o p[2] \o ">.ipv4hint[*]", "same"),
                    Id("server_groups[*].ddr." \o s[1] \o "{*}.ipv4_hints.#len", SG \o ".DDR." \o s[2] \o "{*}<" \o p[2] \o ">.ipv4hint.#len", "same"),
                    Id("server_groups[*].ddr." \o s[1] \o "{*}.ipv6_hints[*]", SG \o ".DDR." \o s[2] \o "{*}<" \o p[2] \o ">.ipv6hint[*]", "same"),
                    Id("server_groups[*].ddr." \o s[1] \o "{*}.ipv6_hints.#len", SG \o ".DDR." \o s[2] \o "{*}<" \o p[2] \o ">.ipv6hint.#len", "same") }
                  : p \in DDRProto }
          \cup { Id("server_groups[*].ddr." \o s[1] \o "{*}.doh_path", SG \o ".DDR." \o s[2] \o "{*}<https>.dohpath", "same") }
          : s \in DDRSide }
ProtoMap == ("dns" :> "dns") @@ ("tls" :> "dot") @@ ("https" :> "doh") @@ ("quic" :> "doq") @@ ("dnscrypt" :> "dnscrypt")
FlowServers ==
  { Id("server_groups[*].name", SG \o ".Name", "same"),
    Id("server_groups[*].filtering_group", SG \o ".FilteringGroup", "same"),
    Id("server_groups[*].profiles_enabled", SG \o ".ProfilesEnabled", "same"),
    Map("server_groups[*].profiles_enabled", "dnssvc.HandlersConfig.ProfileDB.(type)", "none", TF("*profiledb.Default", "*profiledb.Disabled")),
    Map("server_groups[*].profiles_enabled", "dnssvc.HandlersConfig.BillStat.(type)", "none", TF("*billstat.RuntimeRecorder", "billstat.EmptyRecorder")),
    May("server_groups[*].profiles_enabled", "builder.profilesEnabled", "none"),
    May("server_groups[*].profiles_enabled", "builder.billStat.(type)", "none"),
    May("server_groups[*].profiles_enabled", "builder.profileDB.(type)", "none"),
    Under("server_groups[*].profiles_enabled", "backendpb.BillStatConfig", "none"),
    Under("server_groups[*].profiles_enabled", "billstat.RuntimeRecorderConfig", "none"),
    Under("server_groups[*].profiles_enabled", "backendpb.ProfileStorageConfig", "none"),
    Under("server_groups[*].profiles_enabled", "profiledb.Config", "none"),
    Under("server_groups[*].profiles_enabled", RW("billstat_refresh"), "none"),
    Under("server_groups[*].profiles_enabled", RW("profiledb_refresh"), "none"),
    Id("server_groups[*].ddr.enabled", SG \o ".DDR.Enabled", "same"),
    Id("server_groups[*].tls.device_id_wildcards[*]", SG \o ".DeviceDomains[*]", "same"),
    Id("server_groups[*].tls.device_id_wildcards.#len", SG \o ".DeviceDomains.#len", "same"),
    \* the session-ticket key files of all groups form one sorted set
    Ent("server_groups[*].tls.session_keys[*]", "tlsconfig.DefaultManagerConfig.SessionTicketPaths[*]", "mem", "id", "must"),
    May("server_groups[*].tls.session_keys.#len", "tlsconfig.DefaultManagerConfig.SessionTicketPaths.#len", "none"),
    May("server_groups[*].tls.session_keys.#len", "tlsconfig.DefaultManagerConfig.SessionTicketPaths[*]", "all"),
    \* servers
    Id("server_groups[*].servers[*].name", Srv \o ".Name", "same"),
    Map("server_groups[*].servers[*].protocol", Srv \o ".Protocol", "same", ProtoMap),
    Under("server_groups[*].servers[*].protocol", Srv, "same"),
    Id("server_groups[*].servers[*].linked_ip_enabled", Srv \o ".LinkedIPEnabled", "same"),
    Id("server_groups[*].servers[*].bind_addresses[*]", Srv \o ".bindData[*].AddrPort", "same"),
    \* (the bind data come from bind_addresses or from bind_interfaces)
    May("server_groups[*].servers[*].bind_addresses.#len", Srv \o ".bindData.#len", "same"),
    \* "BindSet is the subnet set created from DNS servers listening addresses"
    Const("server_groups[*].servers[*].bind_addresses[*]", "builder.bindSet.addr[*][*][*]", "same", "true"),
    Const("server_groups[*].servers[*].bind_interfaces[*].subnets[*]", "builder.bindSet.subnet[*][*][*][*]", "same", "true"),
    May("server_groups[*].servers[*].bind_addresses[*]", "builder.bindSet.probe{*}", "all"),
    May("server_groups[*].servers[*].bind_interfaces[*].subnets[*]", "builder.bindSet.probe{*}", "all"),
    May("server_groups[*].servers[*].bind_addresses[*]", "backendpb.ProfileStorageConfig.BindSet.(type)", "none"),
    Ent("server_groups[*].servers[*].bind_interfaces[*].subnets[*]", Srv \o ".bindData[*].Prefix", "mem", "id", "must"),
    May("server_groups[*].servers[*].bind_interfaces[*].subnets[*]", L3("dnsserver.ConfigDNS") \o ".ListenConfig.inner.addr.Prefix", "all"),
    May("server_groups[*].servers[*].bind_interfaces[*].id", Srv \o ".bindData[*].Port", "pre"),
    May("server_groups[*].servers[*].bind_interfaces[*].id", L3("dnsserver.ConfigDNS") \o ".ListenConfig.inner.addr.Port", "pre"),
    \* DNSCrypt: the provider name of the configuration file / the inline object
    Id("server_groups[*].servers[*].dnscrypt.config_path", Srv \o ".DNSCrypt.ProviderName", "same"),
    Id("server_groups[*].servers[*].dnscrypt.config_path", L3("dnsserver.ConfigDNSCrypt") \o ".DNSCryptProviderName", "pre"),
    Id("server_groups[*].servers[*].dnscrypt.inline.provider_name", Srv \o ".DNSCrypt.ProviderName", "same"),
    Id("server_groups[*].servers[*].dnscrypt.inline.provider_name", L3("dnsserver.ConfigDNSCrypt") \o ".DNSCryptProviderName", "pre"),
    Map("server_groups[*].servers[*].dnscrypt.inline.es_version", Srv \o ".DNSCrypt.Cert.EsVersion", "same",
        ("1" :> "XSalsa20Poly1305") @@ ("2" :> "XChacha20Poly1305")),
    \* whole servers / groups added or removed
    Id("server_groups[*].servers.#len", SG \o ".Servers.#len", "same"),
    Under("server_groups[*].servers.#len", Srv, "pre"),
    May("server_groups[*].servers.#len", "dnssvc.Config.Handlers.#len", "none"),
    May("server_groups[*].servers[*].bind_addresses[*]", Srv \o ".bindData[*].ListenConfig.(type)", "same"),
    Under("server_groups[*].servers[*].bind_interfaces.#len", Srv, "pre"),
    Under("server_groups[*].servers[*].bind_interfaces.#len", "builder.bindSet", "all"),
    May("server_groups[*].servers[*].bind_addresses.#len", "builder.bindSet.addr[*][*][*]", "pre"),
    Under("server_groups[*].servers.#len", "builder.bindSet", "all") }
  \cup UNION { { May("server_groups[*].servers[*].name", L3(t) \o ".Name", "pre"),
                 Under("server_groups[*].servers[*].protocol", L3(t), "pre"),
                 May("server_groups[*].servers[*].bind_addresses[*]", L3(t) \o ".Addr", "same"),
                 May("server_groups[*].servers[*].bind_addresses[*]", L3(t) \o ".Name", "same"),
                 Under("server_groups[*].servers[*].bind_addresses.#len", L3(t), "pre"),
                 Under("server_groups[*].servers.#len", L3(t), "pre"),
                 Under("server_groups[*].servers[*].bind_interfaces.#len", L3(t), "pre"),
                 May("server_groups[*].servers[*].bind_interfaces[*].subnets[*]", L3(t) \o ".Addr", "all"),
                 May("server_groups[*].servers[*].bind_interfaces[*].subnets[*]", L3(t) \o ".Name", "all"),
                 May("server_groups[*].servers[*].bind_interfaces[*].id", L3(t) \o ".Addr", "pre"),
                 May("server_groups[*].servers[*].bind_interfaces[*].id", L3(t) \o ".Name", "pre") } : t \in Lsnr }

(* ------------------------------------------------------------------ environment *)
KVBackend == <<"check.kv.type@", "backend">>
KVConsul  == <<"check.kv.type@", "consul">>
KVRedis   == <<"check.kv.type@", "redis">>
RLBackend == <<"ratelimit.allowlist.type@", "backend">>
RLConsul  == <<"ratelimit.allowlist.type@", "consul">>
G(leaf, tgt, g) == Gated(leaf, tgt, "none", g[1], g[2], Absent)
FlowEnv ==
  { Gated("env.ADULT_BLOCKING_URL", HP("adult_blocking") \o ".URL", "none", "env.ADULT_BLOCKING_ENABLED@", "true", Absent),
    Gated("env.SAFE_BROWSING_URL", HP("safe_browsing") \o ".URL", "none", "env.SAFE_BROWSING_ENABLED@", "true", Absent),
    Gated("env.NEW_REG_DOMAINS_URL", HP("newly_registered_domains") \o ".URL", "none", "env.NEW_REG_DOMAINS_ENABLED@", "true", Absent),
    Id("env.BLOCKED_SERVICE_INDEX_URL", FS \o ".BlockedServices.IndexURL", "none"),
    Id("env.FILTER_INDEX_URL", FS \o ".RuleLists.IndexURL", "none"),
    Gated("env.GENERAL_SAFE_SEARCH_URL", FS \o ".SafeSearchGeneral.URL", "none", "env.GENERAL_SAFE_SEARCH_ENABLED@", "true", "<nil>"),
    Gated("env.YOUTUBE_SAFE_SEARCH_URL", FS \o ".SafeSearchYouTube.URL", "none", "env.YOUTUBE_SAFE_SEARCH_ENABLED@", "true", "<nil>"),
    Id("env.LINKED_IP_TARGET_URL", "websvc.Config.LinkedIP.TargetURL", "none"),
    \* "If empty or unset, the collection of filtering rule statistics is disabled"
    Map("env.RULESTAT_URL", "dnssvc.HandlersConfig.RuleStat.(type)", "none", ("" :> "rulestat.Empty")),
    Special("env.RULESTAT_URL", "rulestat.HTTPConfig.URL", "none", "empty0"),
    Under("env.RULESTAT_URL", "rulestat.HTTPConfig", "none"),
    Under("env.RULESTAT_URL", RW("rulestat_refresh"), "none"),
    May("env.RULESTAT_URL", "builder.ruleStat.(type)", "none"),
    G("env.CONSUL_ALLOWLIST_URL", "consul.AllowlistUpdaterConfig.ConsulURL", RLConsul),
    G("env.BACKEND_RATELIMIT_URL", "backendpb.RateLimiterConfig.Endpoint", RLBackend),
    G("env.BACKEND_RATELIMIT_API_KEY", "backendpb.RateLimiterConfig.APIKey", RLBackend),
    G("env.CONSUL_DNSCHECK_KV_URL", "consulkv.Config.URL", KVConsul),
    G("env.CONSUL_DNSCHECK_SESSION_URL", "consulkv.Config.SessionURL", KVConsul),
    G("env.DNSCHECK_REMOTEKV_URL", "backendpb.RemoteKVConfig.Endpoint", KVBackend),
    G("env.DNSCHECK_REMOTEKV_API_KEY", "backendpb.RemoteKVConfig.APIKey", KVBackend),
    Gated("env.DNSCHECK_CACHE_KV_SIZE", "remotekv.CacheConfig.Cache.count", "none", "check.kv.type@", "cache", Absent),
    G("env.REDIS_ADDR", "rediskv.RedisKVConfig.Addr.Host", KVRedis),
    G("env.REDIS_PORT", "rediskv.RedisKVConfig.Addr.Port", KVRedis),
    G("env.REDIS_MAX_ACTIVE", "rediskv.RedisKVConfig.MaxActive", KVRedis),
    G("env.REDIS_MAX_IDLE", "rediskv.RedisKVConfig.MaxIdle", KVRedis),
    G("env.REDIS_IDLE_TIMEOUT", "rediskv.RedisKVConfig.IdleTimeout", KVRedis),
    \* "The prefix for Redis keys"
    [Ent("env.REDIS_KEY_PREFIX", "remotekv.KeyNamespaceConfig.Prefix", "none", "gatedmap", "must")
       EXCEPT !.gate = "check.kv.type@", !.on = "redis", !.map = ("vxprefix" :> "vxprefix:check:") @@ ("agdns" :> "agdns:check:")],
    Gated("env.BILLSTAT_URL", "backendpb.BillStatConfig.Endpoint", "none", ProfGate, "true", Absent),
    Gated("env.BILLSTAT_API_KEY", "backendpb.BillStatConfig.APIKey", "none", ProfGate, "true", Absent),
    Gated("env.PROFILES_URL", "backendpb.ProfileStorageConfig.Endpoint", "none", ProfGate, "true", Absent),
    Gated("env.PROFILES_API_KEY", "backendpb.ProfileStorageConfig.APIKey", "none", ProfGate, "true", Absent),
    Gated("env.PROFILES_MAX_RESP_SIZE", "backendpb.ProfileStorageConfig.MaxProfilesSize", "none", ProfGate, "true", Absent),
    Gated("env.PROFILES_CACHE_PATH", "profiledb.Config.CacheFilePath", "none", ProfGate, "true", Absent),
    Id("env.FILTER_CACHE_PATH", FS \o ".CacheDir", "none"),
    May("env.FILTER_CACHE_PATH", HP("adult_blocking") \o ".CachePath", "none"),
    May("env.FILTER_CACHE_PATH", HP("safe_browsing") \o ".CachePath", "none"),
    May("env.FILTER_CACHE_PATH", HP("newly_registered_domains") \o ".CachePath", "none"),
    Id("env.GEOIP_ASN_PATH", "geoip.FileConfig.ASNPath", "none"),
    Id("env.GEOIP_COUNTRY_PATH", "geoip.FileConfig.CountryPath", "none"),
    Gated("env.QUERYLOG_PATH", "querylog.FileSystemConfig.Path", "none", "query_log.file.enabled@", "true", Absent),
    Id("env.SSL_KEY_LOG_FILE", "tlsconfig.DefaultManagerConfig.KeyLogFilename", "none"),
    \* "TLS key logs are written to this file": every TLS configuration the manager hands out
    May("env.SSL_KEY_LOG_FILE", Srv \o ".TLS.Default", "all"),
    May("env.SSL_KEY_LOG_FILE", Srv \o ".TLS.H3", "all"),
    May("env.SSL_KEY_LOG_FILE", L3("dnsserver.ConfigTLS") \o ".TLSConfig", "all"),
    May("env.SSL_KEY_LOG_FILE", L3("dnsserver.ConfigQUIC") \o ".TLSConfig", "all"),
    May("env.SSL_KEY_LOG_FILE", L3("dnsserver.ConfigHTTPS") \o ".TLSConfDefault", "all"),
    May("env.SSL_KEY_LOG_FILE", L3("dnsserver.ConfigHTTPS") \o ".TLSConfH3", "all"),
    May("env.SSL_KEY_LOG_FILE", "websvc.Config.LinkedIP.Bind[*].TLS", "all"),
    May("env.SSL_KEY_LOG_FILE", "websvc.Config.AdultBlocking.Bind[*].TLS", "all"),
    May("env.SSL_KEY_LOG_FILE", "websvc.Config.GeneralBlocking.Bind[*].TLS", "all"),
    May("env.SSL_KEY_LOG_FILE", "websvc.Config.SafeBrowsing.Bind[*].TLS", "all"),
    May("env.SSL_KEY_LOG_FILE", "websvc.Config.NonDoHBind[*].TLS", "all"),
    \* debug API address: LISTEN_ADDR:LISTEN_PORT
    Map("env.LISTEN_ADDR", "debugsvc.Config.APIAddr", "none", ("127.0.0.77" :> "127.0.0.77:8181")),
    Map("env.LISTEN_ADDR", "debugsvc.Config.PprofAddr", "none", ("127.0.0.77" :> "127.0.0.77:8181")),
    Map("env.LISTEN_ADDR", "debugsvc.Config.PrometheusAddr", "none", ("127.0.0.77" :> "127.0.0.77:8181")),
    May("env.LISTEN_ADDR", "debugsvc.Config.DNSDBAddr", "none"),
    Map("env.LISTEN_PORT", "debugsvc.Config.APIAddr", "none", ("18191" :> "127.0.0.1:18191")),
    Map("env.LISTEN_PORT", "debugsvc.Config.PprofAddr", "none", ("18191" :> "127.0.0.1:18191")),
    Map("env.LISTEN_PORT", "debugsvc.Config.PrometheusAddr", "none", ("18191" :> "127.0.0.1:18191")),
    May("env.LISTEN_PORT", "debugsvc.Config.DNSDBAddr", "none"),
    \* switches
    Map("env.ADULT_BLOCKING_ENABLED", FS \o ".HashPrefix.Adult", "none", TF("*hashprefix.Filter", "<nil>")),
    Under("env.ADULT_BLOCKING_ENABLED", HP("adult_blocking"), "none"),
    Under("env.ADULT_BLOCKING_ENABLED", RW("adult_blocking_refresh"), "none"),
    Map("env.SAFE_BROWSING_ENABLED", FS \o ".HashPrefix.Dangerous", "none", TF("*hashprefix.Filter", "<nil>")),
    Under("env.SAFE_BROWSING_ENABLED", HP("safe_browsing"), "none"),
    Under("env.SAFE_BROWSING_ENABLED", RW("safe_browsing_refresh"), "none"),
    Map("env.NEW_REG_DOMAINS_ENABLED", FS \o ".HashPrefix.NewlyRegistered", "none", TF("*hashprefix.Filter", "<nil>")),
    Under("env.NEW_REG_DOMAINS_ENABLED", HP("newly_registered_domains"), "none"),
    Under("env.NEW_REG_DOMAINS_ENABLED", RW("newly_registered_domains_refresh"), "none"),
    Id("env.BLOCKED_SERVICE_ENABLED", FS \o ".BlockedServices.Enabled", "none"),
    Id("env.GENERAL_SAFE_SEARCH_ENABLED", FS \o ".SafeSearchGeneral.Enabled", "none"),
    Under("env.GENERAL_SAFE_SEARCH_ENABLED", FS \o ".SafeSearchGeneral", "none"),
    Id("env.YOUTUBE_SAFE_SEARCH_ENABLED", FS \o ".SafeSearchYouTube.Enabled", "none"),
    Under("env.YOUTUBE_SAFE_SEARCH_ENABLED", FS \o ".SafeSearchYouTube", "none"),
    \* "When set to 1, use WEB_STATIC_DIR as the source of the static content"
    Map("env.WEB_STATIC_DIR_ENABLED", "websvc.Config.StaticContent.(type)", "none", TF("*http.fileHandler", "websvc.StaticContent")),
    Flag("env.WEB_STATIC_DIR_ENABLED", "websvc.Config.StaticContent.root", "none", "env.WEB_STATIC_DIR@", "true", Absent),
    Gated("env.WEB_STATIC_DIR", "websvc.Config.StaticContent.root", "none", "env.WEB_STATIC_DIR_ENABLED@", "true", Absent),
    Under("env.WEB_STATIC_DIR_ENABLED", "websvc.Config.StaticContent", "none"),
    Under("env.WEB_STATIC_DIR_ENABLED", "websvc.Config.StaticContent{*}", "all") }

Flow == FlowRateLimit \cup FlowCore \cup FlowBackend \cup FlowWeb
        \cup FlowHash("safe_browsing", "safe_browsing", "env.SAFE_BROWSING_ENABLED@")
        \cup FlowHash("adult_blocking", "adult_blocking", "env.ADULT_BLOCKING_ENABLED@") \cup FlowNRD
        \cup FlowFilters \cup FlowGroups \cup FlowDDR \cup FlowServers \cup FlowEnv

(* Leaves about which the documentation does not say where they are used, or
   whose consumers this flow cannot observe: recorded, not judged. *)
Undocumented ==
  { "connectivity_check.probe_ipv4", "connectivity_check.probe_ipv6",
    "server_groups[*].tls.certificates[*].certificate", "server_groups[*].tls.certificates[*].key",
    "server_groups[*].tls.certificates.#len",
    "server_groups[*].servers[*].bind_interfaces[*].id",
    "server_groups[*].servers[*].bind_interfaces[*].subnets.#len",
    "server_groups[*].servers[*].dnscrypt.inline.certificate_ttl", "server_groups[*].servers[*].dnscrypt.inline.private_key",
    "server_groups[*].servers[*].dnscrypt.inline.public_key", "server_groups[*].servers[*].dnscrypt.inline.resolver_public",
    "server_groups[*].servers[*].dnscrypt.inline.resolver_secret",
    "server_groups.#len", "server_groups[*].ddr.device_records.#len", "server_groups[*].ddr.public_records.#len",
    "interface_listeners.list.#len", "additional_metrics_info.#len",
    "web.static_content.#len", "web.static_content{*}.headers.#len", "web.static_content{*}.headers{*}.#len" }
  \cup UNION { { "web." \o s \o ".bind[*].certificates[*].certificate", "web." \o s \o ".bind[*].certificates[*].key" }
               : s \in {"linked_ip", "adult_blocking", "general_blocking", "safe_browsing"} }
  \cup { "web.non_doh_bind[*].certificates[*].certificate", "web.non_doh_bind[*].certificates[*].key" }

MustLeaves == {e.leaf : e \in {x \in Flow : x.req = "must"}}
FlowLeaves == {e.leaf : e \in Flow}

(* ------------------------------------------------------------------ the documented transformation *)
(* Expected value of the target of entry e when its leaf has value v; Cur(k) is
   the current value of the leaf instance k (a Key). *)
Expected(e, v, Cur(_)) ==
    CASE e.xf = "id" -> v
      [] e.xf = "gated" -> IF Cur(e.gate) = e.on THEN v ELSE e.off
      [] e.xf = "flag" -> IF v = e.on THEN Cur(e.src) ELSE e.off
      [] e.xf = "map" -> IF v \in DOMAIN e.map THEN e.map[v] ELSE "<unmapped>"
      [] e.xf = "gatedmap" -> IF Cur(e.gate) # e.on THEN Absent ELSE IF v \in DOMAIN e.map THEN e.map[v] ELSE "<unmapped>"
      [] e.xf = "const" -> e.on
      \* cache: "size ... If zero, cache is disabled"
      [] e.xf = "cachetype" -> IF Cur("cache.size@") = "0" THEN "none" ELSE Cur("cache.type@")
      \* backend.timeout: "Set to 0s to disable timeouts"
      [] e.xf = "timeout0" -> IF Cur(e.gate) # e.on THEN e.off ELSE IF v = "0s" THEN "none" ELSE v
      \* DDR ports: "If it is zero, the ... resolver address is not included"
      [] e.xf = "port0" -> IF v = "0" THEN Absent ELSE v
      \* RULESTAT_URL: "If empty or unset ... disabled"
      [] e.xf = "empty0" -> IF v = "" THEN Absent ELSE v
      [] OTHER -> v
Judged(e) == e.req = "must" /\ e.xf # "any"
\* an enumeration entry says nothing about values outside its table
Applies(e, v) == e.xf \notin {"map"} \/ v \in DOMAIN e.map
IsGateXf(e) == e.xf \in {"gated", "flag", "timeout0", "gatedmap"}

(* ------------------------------------------------------------------ well-formedness of the relation *)
\* every switch entry has a source entry for the same target, and every gate /
\* source is itself a leaf of the relation
FlagsHaveSources ==
    \A e \in Flow : e.xf = "flag" =>
        \E g \in Flow : g.tgt = e.tgt /\ g.xf \in {"gated", "timeout0"} /\ Key(g.leaf, <<>>) = e.src /\ g.gate = Key(e.leaf, <<>>)
\* no target is required to carry two different leaves at the same time
NoSharedTarget ==
    \A e, g \in Flow : (Judged(e) /\ Judged(g) /\ e.tgt = g.tgt /\ e.leaf # g.leaf) =>
        \/ e.xf \in {"flag", "cachetype"} \/ g.xf \in {"flag", "cachetype"}
        \/ (e.xf = "map" /\ g.xf = "map")      \* two halves of one address (LISTEN_ADDR:LISTEN_PORT)
        \/ (e.gate # "" /\ g.gate # "" /\ e.gate = g.gate /\ e.on # g.on)
        \/ (e.idx \in {"same", "pre"} /\ g.idx = e.idx)   \* alternatives: config_path / inline
UndocumentedDisjoint == Undocumented \cap MustLeaves = {}
WellFormed == FlagsHaveSources /\ NoSharedTarget /\ UndocumentedDisjoint

(* ------------------------------------------------------------------ an abstract run with defects *)
(* A sub-universe of leaves without indices in which every transformation
   class, every kind of gate and the two upstream lists occur.  Values are
   classes: "b" the distributed value, "d" a distinctive one, "1" the smallest,
   zero in the leaf's unit.  `impl` is what a (possibly defective) glue makes of
   the configuration; the invariants compare it with Expected. *)
ML(k, kind, base) == [k |-> k, kind |-> kind, base |-> base]
ModelLeaves ==
  { ML("ratelimit.ipv4.interval@", "dur", "b"), ML("ratelimit.ipv6.interval@", "dur", "b"),
    ML("ratelimit.ipv4.count@", "int", "b"), ML("ratelimit.ipv6.count@", "int", "b"),
    ML("ratelimit.tcp.enabled@", "bool", "true"), ML("ratelimit.quic.enabled@", "bool", "true"),
    ML("ratelimit.tcp.max_pipeline_count@", "int", "b"), ML("ratelimit.quic.max_streams_per_peer@", "int", "b"),
    ML("ratelimit.response_size_estimate@", "size", "b"), ML(ProfGate, "bool", "true"),
    ML("ratelimit.connection_limit.enabled@", "bool", "true"), ML("ratelimit.connection_limit.stop@", "int", "b"),
    ML("ratelimit.connection_limit.resume@", "int", "b"),
    ML("cache.type@", "cachetype", "simple"), ML("cache.size@", "int", "b"), ML("cache.ecs_size@", "int", "b"),
    ML("cache.ttl_override.enabled@", "bool", "true"), ML("cache.ttl_override.min@", "dur", "b"),
    ML("upstream.healthcheck.enabled@", "bool", "true"), ML("upstream.healthcheck.timeout@", "dur", "b"),
    ML("upstream.healthcheck.interval@", "dur", "b"), ML("upstream.healthcheck.backoff_duration@", "dur", "b"),
    ML("dns.max_udp_response_size@", "size", "b"), ML("dns.read_timeout@", "dur", "b"),
    ML("dnsdb.enabled@", "bool", "true"), ML("dnsdb.max_size@", "int", "b"),
    ML("backend.timeout@", "dur", "b"), ML("backend.refresh_interval@", "dur", "b"),
    ML("check.kv.type@", "kvtype", "cache"), ML("check.kv.ttl@", "dur", "b"),
    ML("filters.refresh_timeout@", "dur", "b"), ML("filters.rule_list_refresh_timeout@", "dur", "b"),
    ML("query_log.file.enabled@", "bool", "true") }
ModelKeys == {m.k : m \in ModelLeaves}
Decl(k) == CHOOSE m \in ModelLeaves : m.k = k
Zero(kind) == IF kind = "dur" THEN "0s" ELSE "0"
Classes(k) ==
    LET m == Decl(k) IN
    CASE m.kind = "bool" -> {"true", "false"}
      [] m.kind = "cachetype" -> {"simple", "ecs"}
      [] m.kind = "kvtype" -> {"cache", "backend", "consul", "redis"}
      [] OTHER -> {"b", "d", "1", Zero(m.kind)}
IsLow(v) == v \in {"1", "0", "0s"}

\* the entries of Flow that speak only about model leaves
InModel(e) == /\ Key(e.leaf, <<>>) \in ModelKeys
              /\ e.gate = "" \/ e.gate \in ModelKeys
              /\ e.src = "" \/ e.src \in ModelKeys
ProfLeaf(e) == IF e.leaf = "server_groups[*].profiles_enabled" THEN ProfGate ELSE Key(e.leaf, <<>>)
MEntries == {e \in Flow : (InModel(e) \/ (e.leaf = "server_groups[*].profiles_enabled" /\ e.idx = "none")) /\ Judged(e)}
MAllowed == {e \in Flow : ProfLeaf(e) \in ModelKeys}
MTargets == {e.tgt : e \in MEntries}
\* the entry that describes how the value of target t is produced
SrcEntry(t) == LET c == {e \in MEntries : e.tgt = t /\ e.xf # "flag"} IN
               IF c # {} THEN CHOOSE e \in c : TRUE ELSE CHOOSE e \in MEntries : e.tgt = t

Pool == {"m1", "m2", "f1", "f2", "x"}
Sibling == ("ratelimit.ipv6.interval@" :> "ratelimit.ipv4.interval@")
           @@ ("ratelimit.tcp.enabled@" :> "ratelimit.quic.enabled@")
Dropped == {"profiledb.Config.ResponseSizeEstimate"}

\* the leaves the value of target t depends on (also under the cross-wiring defect)
DepsOf(e) == LET lk == ProfLeaf(e) IN
             {lk, e.gate, e.src} \cup (IF lk \in DOMAIN Sibling THEN {Sibling[lk]} ELSE {})
                 \cup (IF e.xf = "cachetype" THEN {"cache.size@", "cache.type@"} ELSE {})
SrcOf == [t \in MTargets |-> LET e == SrcEntry(t) IN [e |-> e, lk |-> ProfLeaf(e), deps |-> DepsOf(e)]]
VARIABLES conf, mains, fbs, last, n,
          impl,    \* what the glue hands to the components: a function of conf, kept to compare two states
          tab      \* SrcOf, evaluated once (TLC evaluates a constant function lazily at every application)
vars == <<conf, mains, fbs, last, n, impl, tab>>

Cur(c, k) == IF k \in DOMAIN c THEN c[k] ELSE "on?"
\* the glue, with the defect classes
ImplVal(t, c, st) ==
    LET e == st[t].e
        lk == st[t].lk
        src == IF Defect = "crosswire" /\ lk \in DOMAIN Sibling THEN Sibling[lk] ELSE lk
        v == c[src]
        C(k) == IF Defect = "wronggate" /\ IsGateXf(e) /\ k = e.gate THEN e.on ELSE Cur(c, k)
        w == IF Defect = "zerodefault" /\ IsLow(v) /\ Decl(lk).kind = "size" THEN "default" ELSE v
    IN IF Defect = "drop" /\ t \in Dropped THEN "0" ELSE Expected(e, w, C)
Impl(c, st) == [t \in MTargets |-> ImplVal(t, c, st)]
\* the two upstream lists: converted in one go and split
SplitAt(ms, fs) == IF Defect = "splitoff" THEN Len(fs) ELSE Len(ms)
Rev(s) == [i \in 1..Len(s) |-> s[Len(s) + 1 - i]]
ImplMains(ms, fs) == SubSeq(ms \o fs, 1, Len(ms))
ImplFbs(ms, fs) == LET r == SubSeq(ms \o fs, SplitAt(ms, fs) + 1, Len(ms) + Len(fs)) IN
                   IF Defect = "reorder" THEN Rev(r) ELSE r

Base == [k \in ModelKeys |-> Decl(k).base]
Init == conf = Base /\ mains = <<"m1", "m2">> /\ fbs = <<"f1", "f2">> /\ last = "" /\ n = 0
        /\ tab = SrcOf /\ impl = Impl(Base, SrcOf)
SetLeaf(k, v) == /\ n < MaxChanges /\ v # conf[k]
                 /\ conf' = [conf EXCEPT ![k] = v] /\ last' = k /\ n' = n + 1 /\ UNCHANGED <<mains, fbs>>
                 \* (only what depends on k is converted again)
                 /\ impl' = [t \in MTargets |-> IF k \in tab[t].deps THEN ImplVal(t, conf', tab) ELSE impl[t]]
                 /\ UNCHANGED tab
Shapes == {<<"m1">>, <<"m1", "m2">>, <<"m2", "m1">>, <<"m1", "m2", "x">>}
FShapes == {<<"f1">>, <<"f1", "f2">>, <<"f2", "f1">>, <<"f1", "f2", "x">>}
SetLists(ms, fs) == /\ n < MaxChanges /\ <<ms, fs>> # <<mains, fbs>>
                    /\ mains' = ms /\ fbs' = fs /\ last' = "lists" /\ n' = n + 1 /\ UNCHANGED <<conf, impl, tab>>
NextKeys == IF FocusKeys = {} THEN ModelKeys ELSE FocusKeys \cap ModelKeys
Next == \/ \E k \in NextKeys : \E v \in Classes(k) : SetLeaf(k, v)
        \/ \E ms \in Shapes : \E fs \in FShapes : SetLists(ms, fs)
Spec == Init /\ [][Next]_vars

CurNow(k) == Cur(conf, k)
\* (entries paired with the key of their leaf: string concatenation is costly in TLC)
MEntriesK == {<<e, ProfLeaf(e)>> : e \in MEntries}
MAllowedK == {<<ProfLeaf(e), e.tgt>> : e \in MAllowed}
Holds(p) == impl[p[1].tgt] = Expected(p[1], conf[p[2]], CurNow)
\* the switch of e is in the position in which the target is NOT to carry the value
GateOff(e, v, C(_)) == IsGateXf(e) /\ IF e.xf = "flag" THEN v # e.on ELSE C(e.gate) # e.on
Off(p) == GateOff(p[1], conf[p[2]], CurNow)
Reaches == \A p \in MEntriesK : (~Off(p) /\ ~IsLow(conf[p[2]])) => Holds(p)
ZeroIsMeaningful == \A p \in MEntriesK : (~Off(p) /\ IsLow(conf[p[2]])) => Holds(p)
GatedByOwnFlag == \A p \in MEntriesK : Off(p) => Holds(p)
PartitionExact == /\ Len(ImplMains(mains, fbs)) = Len(mains) /\ Len(ImplFbs(mains, fbs)) = Len(fbs)
                  /\ {ImplMains(mains, fbs)[i] : i \in 1..Len(mains)} = {mains[i] : i \in 1..Len(mains)}
                  /\ {ImplFbs(mains, fbs)[i] : i \in DOMAIN ImplFbs(mains, fbs)} = {fbs[i] : i \in 1..Len(fbs)}
OrderPreserved == PartitionExact => (ImplMains(mains, fbs) = mains /\ ImplFbs(mains, fbs) = fbs)
\* a step that changes leaf `last` changes only targets of `last`
NoCrossTalkStep ==
    (last' # "lists" /\ last' # "") =>
        \A t \in MTargets : impl'[t] # impl[t] =>
            \/ <<last', t>> \in MAllowedK
            \/ tab[t].e.gate = last'      \* a switch owns what it gates
NoCrossTalk == [][NoCrossTalkStep]_vars
RelationWellFormed == WellFormed
=============================================================================
