------------------------- MODULE TraceHashPrefix -------------------------
(* Trace validation for C11.  Events recorded from the real hashprefix.Storage,
   Filter, Matcher and the preservice middleware
   (harness/internal/filter/hashprefix/c11_test.go and
   harness/internal/dnssvc/internal/preservice/c11_test.go) are replayed
   through the actions of HashPrefix.tla; after every event the outcome the
   code produced must be the one the specification computes.  Lookup, Member
   and PrefixQuery do not change the lists, so a non-conforming event is
   reported (NONCONF) and the replay goes on: every event of a run is judged.

   Names arrive as label arrays, hashes as opaque strings computed by the
   harness with crypto/sha256 (p: first 4 hex characters, r: the other 60):
     Start                                                    new objects
     Reset       id, names [{n,p,r}], obs [full hashes held by the Storage afterwards;
                 via = "unobserved": the harness cannot see inside the Storage]
     Lookup      id, host, qt, subs [{n,p,r}: every sub-domain of host], matched, rule
     Member      id, names [{n,p,r}], hits [n: Storage.Matches said yes]
     PrefixQuery id ("none": not under a suffix), strs, resp, hashes, next     *)
EXTENDS HashPrefix

VARIABLE l
Trace == ndJsonDeserialize("trace.ndjson")
tvars == <<vars, l>>
E == Trace[l]

ToSet(a) == {a[i] : i \in 1..Len(a)}
HF(recs) == LET S == ToSet(recs) IN
            [n \in {x.n : x \in S} |-> LET x == CHOOSE y \in S : y.n = n IN [p |-> x.p, r |-> x.r]]
Conf(c, why) == IF c THEN TRUE ELSE PrintT(<<"NONCONF", l, why>>)

\* The PSL entries that can match a name made of the labels the harness uses
\* (the harness cross-checks this table against the publicsuffix library for
\* every host it generates and aborts on a difference).
TrIcann == {<<"com">>, <<"uk">>, <<"co", "uk">>, <<"org">>, <<"org", "uk">>}
TrPrivate == {<<"blogspot", "com">>, <<"co", "com">>, <<"uk", "com">>, <<"blogspot", "co", "uk">>}

TraceInit == Init /\ l = 1

TrStart == /\ E.ev = "Start"
           /\ listed' = [id \in ListIds |-> Empty] /\ store' = [id \in ListIds |-> {}]
           /\ out' = NoOut /\ hist' = <<>>

TrReset == /\ E.ev = "Reset"
           /\ LET hf == HF(E.names) IN Reset(E.id, DOMAIN hf, hf)
           /\ Conf(E.via = "unobserved" \/ ToSet(E.obs) = {Full(x) : x \in store'[E.id]},
                   <<"the storage does not hold exactly the hashes of the new list; expected", {Full(x) : x \in store'[E.id]}>>)

TrLookup == /\ E.ev = "Lookup"
            /\ Lookup(E.id, E.host, E.qt, HF(E.subs))
            /\ Conf(E.matched = out'.matched /\ (E.matched => E.rule \in out'.rules),
                    <<"lookup verdict differs; expected matched", out'.matched, "by one of", out'.rules>>)

TrMember == /\ E.ev = "Member"
            /\ LET hf == HF(E.names) IN
               Conf(ToSet(E.hits) = {n \in DOMAIN hf : hf[n] \in store[E.id]},
                    <<"Storage.Matches differs from membership in the list; expected", {n \in DOMAIN hf : hf[n] \in store[E.id]}>>)
            /\ UNCHANGED vars

TrPrefixQuery ==
    /\ E.ev = "PrefixQuery"
    /\ PrefixQuery(E.id, ToSet(E.strs))
    /\ Conf(/\ [resp |-> E.resp, hashes |-> ToSet(E.hashes)] \in AllowedPQ(E.id, ToSet(E.strs))
            /\ E.next = (E.resp = "passed"),
            <<"TXT answer differs; allowed", AllowedPQ(E.id, ToSet(E.strs))>>)

TraceNext == /\ l <= Len(Trace) /\ l' = l + 1
             /\ (TrStart \/ TrReset \/ TrLookup \/ TrMember \/ TrPrefixQuery)
TraceSpec == TraceInit /\ [][TraceNext]_tvars

TraceAccepted ==
    LET d == TLCGet("stats").diameter IN
    IF d - 1 = Len(Trace) THEN TRUE ELSE Print(<<"STUCK", d, Len(Trace)>>, FALSE)
=============================================================================
