SPECIFICATION Spec
CONSTANTS
  RosSet = {TRUE, FALSE}
  RndSet = {TRUE, FALSE}
  Joins = FALSE
  MaxTick = 3
  MaxRefr = 3
  MaxShut = 2
  CtxKinds = {"nodeadline", "open"}
  Defect = "final_always"
  KeepHist = FALSE
VIEW view
INVARIANTS FinalRefreshIffConfigured
CHECK_DEADLOCK FALSE
