----------------------------- MODULE ProfileDB -----------------------------
(* C14.  internal/profiledb/profiledb.go.

   Ghost part: the backend's data (tProf, tDev), always internally consistent:
   a device belongs to at most one profile, a linked IP / dedicated IP to at
   most one device, a human id to at most one device per profile.  Mutate*
   actions change it and mark the affected profiles dirty.  A sync delivers
   whole profiles with all their devices, as backendpb does: all profiles on a
   full sync, the dirty ones on a partial sync.  seen* is the backend data as
   DELIVERED so far: the oracle for lookups.  A backend may report a moved
   device with its new profile only (MoveQuiet: the old profile is not marked
   as changed, so its record is not delivered again and the database keeps a
   record that still lists the device); seenOwner says which profile the last
   delivery that mentioned a device put it into -- the latest data wins.

   Implementation part: the six maps of profiledb.Default.  One action per
   lock region:
     Sync(full)          setProfiles + setDevices under mapsMu (write)
     Lookup*(key)        the four ProfileBy* methods under mapsMu (read); they
                         return a re-checked result and may SPAWN a clean-up
     RunCleanup(c)       a remove* goroutine under mapsMu (write) -- a separate,
                         independently scheduled step
     StoreCache/Restart  file cache written on full sync, database rebuilt from it

   CleanupChecksGen = FALSE is the pinned tree (a clean-up deletes its index
   entry unconditionally, also when a newer sync re-assigned the key); TRUE is
   the repaired code (a clean-up spawned before a sync is a no-op after it).
   HumanChecksProfile = FALSE is the pinned tree (ProfileByHumanID returns the
   device's current profile without comparing it with the requested one).
   HumanViaRecord = TRUE is a defective variant: the comparison is made with
   the requested profile's RECORD (does it list the device?), which may be an
   old one after a MoveQuiet.                                                 *)
EXTENDS Naturals, FiniteSets, Sequences, TLC, Json

CONSTANTS Prof, Dev, Linked, Ded, Human,
          MaxMut, MaxSync, MaxPending,
          CleanupChecksGen, HumanChecksProfile, HumanViaRecord,
          KeepHist

None == "none"
NF == [found |-> FALSE]

VARIABLES tProf, tDev, dirty,            \* ghost backend
          seenProf, seenDev, seenOwner,  \* ghost: backend data as delivered so far; owner of a device by the latest delivery
          quiet,                         \* ghost: devices moved quietly and not delivered since
          profiles, devices, dev2prof, linked2dev, ded2dev, human2dev,   \* Default's maps
          pending,                       \* clean-ups spawned and not yet run: [kind, key, fresh]
          file,                          \* cache file: [present, prof, dev]
          nmut, nsync, hist

ghost == <<tProf, tDev, dirty, seenProf, seenDev, seenOwner, quiet>>
maps == <<profiles, devices, dev2prof, linked2dev, ded2dev, human2dev>>
vars == <<ghost, maps, pending, file, nmut, nsync, hist>>

NoProf == [present |-> FALSE, devs |-> {}, deleted |-> FALSE]
NoDev == [present |-> FALSE, linked |-> None, ded |-> {}, human |-> None]
TProf0 == [present |-> TRUE, devs |-> {}, deleted |-> FALSE]
TDev0 == [present |-> TRUE, linked |-> None, ded |-> {}, human |-> None]

H(e) == hist' = IF KeepHist THEN Append(hist, e) ELSE hist

Init == /\ tProf = [p \in Prof |-> TProf0] /\ tDev = [d \in Dev |-> TDev0] /\ dirty = {}
        /\ seenProf = [p \in Prof |-> NoProf] /\ seenDev = [d \in Dev |-> NoDev] /\ seenOwner = [d \in Dev |-> None] /\ quiet = {}
        /\ profiles = [p \in Prof |-> NoProf] /\ devices = [d \in Dev |-> NoDev]
        /\ dev2prof = [d \in Dev |-> None] /\ linked2dev = [i \in Linked |-> None]
        /\ ded2dev = [e \in Ded |-> None] /\ human2dev = [k \in Human \X Prof |-> None]
        /\ pending = {} /\ file = [present |-> FALSE, prof |-> [p \in Prof |-> NoProf], dev |-> [d \in Dev |-> NoDev]]
        /\ nmut = 0 /\ nsync = 0 /\ hist = <<>>

-----------------------------------------------------------------------------
\* Ghost backend

ProfOf(tp, d) == IF \E p \in Prof : d \in tp[p].devs THEN CHOOSE p \in Prof : d \in tp[p].devs ELSE None
HumanClash(tp, td, d, p, h) == h # None /\ \E e \in tp[p].devs \ {d} : td[e].human = h
Touch(S) == dirty' = dirty \cup (S \ {None})
\* (a quiet move is the last change before the next delivery: the ghost stays unambiguous)
Mut == nmut < MaxMut /\ nmut' = nmut + 1 /\ quiet = {}
GhostRest0 == UNCHANGED <<seenProf, seenDev, seenOwner, maps, pending, file, nsync>>
GhostRest == GhostRest0 /\ UNCHANGED quiet

Attach(d, p) ==
    /\ Mut /\ ProfOf(tProf, d) = None /\ ~HumanClash(tProf, tDev, d, p, tDev[d].human)
    /\ tProf' = [tProf EXCEPT ![p].devs = @ \cup {d}] /\ UNCHANGED tDev /\ Touch({p})
    /\ H([a |-> "Attach", d |-> d, p |-> p, k |-> ""]) /\ GhostRest
Detach(d) ==
    /\ Mut /\ ProfOf(tProf, d) # None
    /\ LET p == ProfOf(tProf, d) IN tProf' = [tProf EXCEPT ![p].devs = @ \ {d}] /\ Touch({p})
    /\ UNCHANGED tDev /\ H([a |-> "Detach", d |-> d, p |-> "", k |-> ""]) /\ GhostRest
Move(d, q) ==
    /\ Mut /\ ProfOf(tProf, d) \notin {None, q} /\ ~HumanClash(tProf, tDev, d, q, tDev[d].human)
    /\ LET p == ProfOf(tProf, d) IN
         /\ tProf' = [tProf EXCEPT ![p].devs = @ \ {d}, ![q].devs = @ \cup {d}] /\ Touch({p, q})
    /\ UNCHANGED tDev /\ H([a |-> "Move", d |-> d, p |-> q, k |-> ""]) /\ GhostRest
\* the backend reports the move with the NEW profile only
MoveQuiet(d, q) ==
    /\ Mut /\ ProfOf(tProf, d) \notin {None, q} /\ ~HumanClash(tProf, tDev, d, q, tDev[d].human)
    /\ LET p == ProfOf(tProf, d) IN
         /\ p \notin dirty                       \* (a profile that is reported anyway is reported as it is)
         /\ tProf' = [tProf EXCEPT ![p].devs = @ \ {d}, ![q].devs = @ \cup {d}] /\ Touch({q})
    /\ quiet' = {d}
    /\ UNCHANGED tDev /\ H([a |-> "MoveQuiet", d |-> d, p |-> q, k |-> ""]) /\ GhostRest0
\* d takes linked IP i (taking it away from whoever had it); i = None clears it
SetLinked(d, i) ==
    /\ Mut /\ tDev[d].linked # i
    /\ tDev' = [e \in Dev |-> IF e = d THEN [tDev[e] EXCEPT !.linked = i]
                              ELSE IF i # None /\ tDev[e].linked = i THEN [tDev[e] EXCEPT !.linked = None]
                              ELSE tDev[e]]
    /\ Touch({ProfOf(tProf, d)} \cup {ProfOf(tProf, e) : e \in {e \in Dev : i # None /\ tDev[e].linked = i}})
    /\ UNCHANGED tProf /\ H([a |-> "SetLinked", d |-> d, p |-> "", k |-> i]) /\ GhostRest
SwapLinked(d, e) ==
    /\ Mut /\ d # e /\ tDev[d].linked # tDev[e].linked
    /\ tDev' = [tDev EXCEPT ![d].linked = tDev[e].linked, ![e].linked = tDev[d].linked]
    /\ Touch({ProfOf(tProf, d), ProfOf(tProf, e)})
    /\ UNCHANGED tProf /\ H([a |-> "SwapLinked", d |-> d, p |-> "", k |-> e]) /\ GhostRest
\* toggle dedicated IP x on device d (taking it from another device if needed)
ToggleDed(d, x) ==
    /\ Mut
    /\ tDev' = [e \in Dev |-> IF e = d THEN [tDev[e] EXCEPT !.ded = IF x \in @ THEN @ \ {x} ELSE @ \cup {x}]
                              ELSE [tDev[e] EXCEPT !.ded = @ \ {x}]]
    /\ Touch({ProfOf(tProf, d)} \cup {ProfOf(tProf, e) : e \in {e \in Dev : x \in tDev[e].ded}})
    /\ UNCHANGED tProf /\ H([a |-> "ToggleDed", d |-> d, p |-> "", k |-> x]) /\ GhostRest
SetHuman(d, h) ==
    /\ Mut /\ tDev[d].human # h
    /\ (ProfOf(tProf, d) # None => ~HumanClash(tProf, tDev, d, ProfOf(tProf, d), h))
    /\ tDev' = [tDev EXCEPT ![d].human = h] /\ Touch({ProfOf(tProf, d)})
    /\ UNCHANGED tProf /\ H([a |-> "SetHuman", d |-> d, p |-> "", k |-> h]) /\ GhostRest
SetDeleted(p) ==
    /\ Mut /\ tProf' = [tProf EXCEPT ![p].deleted = ~@] /\ Touch({p})
    /\ UNCHANGED tDev /\ H([a |-> "SetDeleted", d |-> "", p |-> p, k |-> ""]) /\ GhostRest

Mutate == \/ \E d \in Dev, p \in Prof : Attach(d, p) \/ Move(d, p) \/ MoveQuiet(d, p)
          \/ \E d \in Dev : Detach(d)
          \/ \E d \in Dev, i \in Linked \cup {None} : SetLinked(d, i)
          \/ \E d, e \in Dev : SwapLinked(d, e)
          \/ \E d \in Dev, x \in Ded : ToggleDed(d, x)
          \/ \E d \in Dev, h \in Human \cup {None} : SetHuman(d, h)
          \/ \E p \in Prof : SetDeleted(p)

-----------------------------------------------------------------------------
\* setProfiles + setDevices applied to a delivered set of profiles

Apply(full, delivered, tp, td) ==
    LET ddevs == UNION {tp[p].devs : p \in delivered}
        d2p == [d \in Dev |-> IF d \in ddevs THEN ProfOf(tp, d) ELSE IF full THEN None ELSE dev2prof[d]]
    IN
    /\ profiles' = [p \in Prof |-> IF p \in delivered THEN tp[p] ELSE IF full THEN NoProf ELSE profiles[p]]
    /\ dev2prof' = d2p
    /\ devices' = [d \in Dev |-> IF d \in ddevs THEN td[d] ELSE IF full THEN NoDev ELSE devices[d]]
    /\ linked2dev' = [i \in Linked |-> IF \E d \in ddevs : td[d].linked = i THEN CHOOSE d \in ddevs : td[d].linked = i
                                       ELSE IF full THEN None ELSE linked2dev[i]]
    /\ ded2dev' = [x \in Ded |-> IF \E d \in ddevs : x \in td[d].ded THEN CHOOSE d \in ddevs : x \in td[d].ded
                                 ELSE IF full THEN None ELSE ded2dev[x]]
    /\ human2dev' = [k \in Human \X Prof |->
                       IF \E d \in ddevs : td[d].human = k[1] /\ d2p[d] = k[2]
                       THEN CHOOSE d \in ddevs : td[d].human = k[1] /\ d2p[d] = k[2]
                       ELSE IF full THEN None ELSE human2dev[k]]

Stale(S) == {[c EXCEPT !.fresh = FALSE] : c \in S}

Sync(full) ==
    /\ nsync < MaxSync /\ nsync' = nsync + 1
    /\ (nsync = 0 => full)                         \* the first refresh is always a full one
    /\ Apply(full, IF full THEN Prof ELSE dirty, tProf, tDev)
    /\ LET delivered == IF full THEN Prof ELSE dirty
           dd == UNION {tProf[p].devs : p \in delivered} IN
       /\ seenProf' = [p \in Prof |-> IF p \in delivered THEN tProf[p] ELSE seenProf[p]]
       /\ seenOwner' = [d \in Dev |-> IF d \in dd THEN ProfOf(tProf, d)
                                      ELSE IF seenOwner[d] \in delivered THEN None   \* its profile came without it
                                      ELSE seenOwner[d]]
    /\ seenDev' = tDev /\ dirty' = {} /\ quiet' = {}
    /\ pending' = Stale(pending)
    /\ file' = IF full THEN [present |-> TRUE, prof |-> tProf, dev |-> tDev] ELSE file
    /\ H([a |-> IF full THEN "FullSync" ELSE "PartialSync", d |-> "", p |-> "", k |-> ""])
    /\ UNCHANGED <<tProf, tDev, nmut>>

\* A new process: empty maps, then loadFileCache (ignored when it holds no profile or no device).
Restart ==
    /\ file.present /\ nsync < MaxSync /\ nsync' = nsync + 1
    /\ LET usable == \E p \in Prof : file.prof[p].devs # {} IN
       IF usable THEN Apply(TRUE, Prof, file.prof, file.dev)
       ELSE /\ profiles' = [p \in Prof |-> NoProf] /\ devices' = [d \in Dev |-> NoDev]
            /\ dev2prof' = [d \in Dev |-> None] /\ linked2dev' = [i \in Linked |-> None]
            /\ ded2dev' = [e \in Ded |-> None] /\ human2dev' = [k \in Human \X Prof |-> None]
    /\ seenProf' = file.prof /\ seenDev' = file.dev /\ seenOwner' = [d \in Dev |-> ProfOf(file.prof, d)] /\ quiet' = {}
    /\ dirty' = Prof                                \* everything may have changed since the file was written
    /\ pending' = {}
    /\ H([a |-> "Restart", d |-> "", p |-> "", k |-> ""])
    /\ UNCHANGED <<tProf, tDev, file, nmut>>

-----------------------------------------------------------------------------
\* The four lookups as the code performs them: [found, p, d, prec, drec] + spawned clean-ups

C(kind, key, p) == [kind |-> kind, key |-> key, p |-> p, fresh |-> TRUE]
Found(p, d) == [found |-> TRUE, p |-> p, d |-> d, prec |-> profiles[p], drec |-> devices[d]]

ByDev(d) ==
    IF dev2prof[d] = None THEN [r |-> NF, spawn |-> {}, why |-> "dev"]
    ELSE LET p == dev2prof[d] IN
         IF ~profiles[p].present THEN [r |-> NF, spawn |-> {C("dev", d, "")}, why |-> "prof"]
         ELSE IF d \notin profiles[p].devs \/ ~devices[d].present
              THEN [r |-> NF, spawn |-> {C("dev", d, "")}, why |-> "dev"]
              ELSE [r |-> Found(p, d), spawn |-> {}, why |-> ""]

ByLinked(i) ==
    IF linked2dev[i] = None THEN [r |-> NF, spawn |-> {}]
    ELSE LET b == ByDev(linked2dev[i]) IN
         IF ~b.r.found THEN [r |-> NF, spawn |-> b.spawn \cup (IF b.why = "dev" THEN {C("linked", i, "")} ELSE {})]
         ELSE IF b.r.drec.linked = None THEN [r |-> NF, spawn |-> {}]
         ELSE IF b.r.drec.linked # i THEN [r |-> NF, spawn |-> {C("linked", i, "")}]
         ELSE [r |-> b.r, spawn |-> {}]

ByDed(x) ==
    IF ded2dev[x] = None THEN [r |-> NF, spawn |-> {}]
    ELSE LET b == ByDev(ded2dev[x]) IN
         IF ~b.r.found THEN [r |-> NF, spawn |-> b.spawn \cup (IF b.why = "dev" THEN {C("ded", x, "")} ELSE {})]
         ELSE IF x \notin b.r.drec.ded THEN [r |-> NF, spawn |-> {C("ded", x, "")}]
         ELSE [r |-> b.r, spawn |-> {}]

ByHuman(h, p) ==
    IF ~profiles[p].present THEN [r |-> NF, spawn |-> {}]
    ELSE IF human2dev[<<h, p>>] = None THEN [r |-> NF, spawn |-> {}]
    ELSE LET b == ByDev(human2dev[<<h, p>>]) IN
         IF ~b.r.found THEN [r |-> NF, spawn |-> b.spawn \cup (IF b.why = "dev" THEN {C("human", h, p)} ELSE {})]
         ELSE IF b.r.drec.human # h THEN [r |-> NF, spawn |-> {C("human", h, p)}]
         ELSE IF HumanChecksProfile /\ (IF HumanViaRecord THEN b.r.d \notin profiles[p].devs ELSE b.r.p # p)
              THEN [r |-> NF, spawn |-> {C("human", h, p)}]
         ELSE [r |-> b.r, spawn |-> {}]

Spawn(S) == /\ S # {} /\ ~(S \subseteq pending) /\ Cardinality(pending \cup S) <= MaxPending
            /\ pending' = pending \cup S
            /\ UNCHANGED <<ghost, maps, file, nmut, nsync>>

LookupDev(d) == Spawn(ByDev(d).spawn) /\ H([a |-> "LookupDev", d |-> d, p |-> "", k |-> ""])
LookupLinked(i) == Spawn(ByLinked(i).spawn) /\ H([a |-> "LookupLinked", d |-> "", p |-> "", k |-> i])
LookupDed(x) == Spawn(ByDed(x).spawn) /\ H([a |-> "LookupDed", d |-> "", p |-> "", k |-> x])
LookupHuman(h, p) == Spawn(ByHuman(h, p).spawn) /\ H([a |-> "LookupHuman", d |-> "", p |-> p, k |-> h])

RunCleanup(c) ==
    /\ c \in pending /\ pending' = pending \ {c}
    /\ LET act == c.fresh \/ ~CleanupChecksGen IN
       /\ dev2prof' = IF act /\ c.kind = "dev" THEN [dev2prof EXCEPT ![c.key] = None] ELSE dev2prof
       /\ linked2dev' = IF act /\ c.kind = "linked" THEN [linked2dev EXCEPT ![c.key] = None] ELSE linked2dev
       /\ ded2dev' = IF act /\ c.kind = "ded" THEN [ded2dev EXCEPT ![c.key] = None] ELSE ded2dev
       /\ human2dev' = IF act /\ c.kind = "human" THEN [human2dev EXCEPT ![<<c.key, c.p>>] = None] ELSE human2dev
    /\ H([a |-> "RunCleanup", d |-> c.kind, p |-> c.p, k |-> c.key])
    /\ UNCHANGED <<ghost, profiles, devices, file, nmut, nsync>>

Next == \/ Mutate \/ Sync(TRUE) \/ Sync(FALSE) \/ Restart
        \/ \E d \in Dev : LookupDev(d)
        \/ \E i \in Linked : LookupLinked(i)
        \/ \E x \in Ded : LookupDed(x)
        \/ \E h \in Human, p \in Prof : LookupHuman(h, p)
        \/ \E c \in pending : RunCleanup(c)

Spec == Init /\ [][Next]_vars

-----------------------------------------------------------------------------
\* The oracle: who owns a key in the data of the last sync

OwnerRes(p, d) == [found |-> TRUE, p |-> p, d |-> d, prec |-> seenProf[p], drec |-> seenDev[d]]
Attached == {d \in Dev : seenOwner[d] # None}
OwnerDev(d) == IF d \in Attached THEN OwnerRes(seenOwner[d], d) ELSE NF
OwnerBy(S) == IF S = {} THEN NF ELSE LET d == CHOOSE d \in S : TRUE IN OwnerRes(seenOwner[d], d)
OwnerLinked(i) == OwnerBy({d \in Attached : seenDev[d].linked = i})
OwnerDed(x) == OwnerBy({d \in Attached : x \in seenDev[d].ded})
OwnerHuman(h, p) == OwnerBy({d \in seenProf[p].devs : seenOwner[d] = p /\ seenDev[d].human = h})

\* C14: in every state, every lookup answers from the latest synchronised data
LookupCorrect ==
    /\ \A d \in Dev : ByDev(d).r = OwnerDev(d)
    /\ \A i \in Linked : ByLinked(i).r = OwnerLinked(i)
    /\ \A x \in Ded : ByDed(x).r = OwnerDed(x)
    /\ \A h \in Human, p \in Prof : ByHuman(h, p).r = OwnerHuman(h, p)

GhostConsistent ==
    /\ \A d \in Dev : Cardinality({p \in Prof : d \in tProf[p].devs}) <= 1
    /\ \A i \in Linked : Cardinality({d \in Dev : tDev[d].linked = i}) <= 1
    /\ \A x \in Ded : Cardinality({d \in Dev : x \in tDev[d].ded}) <= 1
    /\ \A p \in Prof, h \in Human : Cardinality({d \in tProf[p].devs : tDev[d].human = h}) <= 1

EmitHist == PrintT(<<"BEH", ToJson(hist)>>)
=============================================================================
