SPECIFICATION Spec
CONSTANTS
  Transports = {"udp", "tcp", "dot", "doh-post", "doh-get", "doh-json", "doq", "dnscrypt-udp", "dnscrypt-tcp"}
  MaxInputs = 3
  Defect = "json_lower"
  DCRecover = TRUE
INVARIANTS EchoIDAndQuestion
CHECK_DEADLOCK FALSE
