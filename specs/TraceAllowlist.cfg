SPECIFICATION TraceSpec
CONSTANTS
  KeepHist = FALSE
  U = {1, 2, 3, 4, 5}
  Readers = {"r1"}
  MaxRefresh = 1000000
  MaxReads = 1000000
  ModesUsed = {"ok"}
  Defect = "none"
INVARIANTS TypeOK RefreshIsTotal FailedRefreshKeepsOld ModeOutcome PersistentKept VersionsExact
POSTCONDITION TraceAccepted
CHECK_DEADLOCK FALSE
