SPECIFICATION TraceSpec
CONSTANTS
  KeepHist = FALSE
  Buckets = {"s1"}
  L = 1
  I = 1
  B = 1
  Dur = 1
  Per = 1
  MaxTime = 1
  MaxEvents = 1
  ForgetWindow = FALSE
POSTCONDITION TraceAccepted
CHECK_DEADLOCK FALSE
