SPECIFICATION TraceSpec
CONSTANTS
  TraceFile = "trace.ndjson"
  Alphabet = {"a"}
  MaxLen = 0
  Pres <- PresQuick
  Fills <- FillsQuick
  Ns = {1}
  Posts <- PostsQuick
  NoTripleCheck = FALSE
  EdgeHyphen = FALSE
  Max64 = FALSE
  RuneLimit = FALSE
  NoTrim = FALSE
  NoCut = FALSE
  NoRevalidate = FALSE
  GapKeepsHyphens = FALSE
  LowerNoCase = FALSE
  NameBytes = FALSE
  DevID9 = FALSE
  ProfSpace = FALSE
POSTCONDITION TraceAccepted
CHECK_DEADLOCK FALSE
