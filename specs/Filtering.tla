------------------------------ MODULE Filtering ------------------------------
(* C02.  "Filtering verdict follows rule precedence and the requester's
   blocking mode."  Two decision tables.

   VERDICT layer.  For the (host, qtype) at hand every rule source contributes
   one abstract class:
     rule slots  c (the profile's custom rules), r1, r2 (the enabled shared
                 lists in their CONFIGURED order), s (blocked services)
                 none | block | allow | hosts (/etc/hosts-style line) |
                 rwip | rwcname | rwrcode ($dnsrewrite to IP / CNAME / rcode)
     safety      sf[1..5] = dangerous, adult, safe-search general, safe-search
                 YouTube, newly registered: off | nomatch | match
     response    rc (custom), rr (a shared list): none | block | allow for a
                 rule matching a CNAME target / address of the upstream answer
     switches    pen, den: FilteringEnabled of the profile / of the device

   The contract (ReqContract, RespContract, Effect) is transcribed from the
   property statement:
     "a DNS-rewrite rule wins outright (the profile's custom rules first, then
      the shared lists in their configured order); otherwise an allow rule from
      any rule source beats every block rule and a matching block rule blocks;
      otherwise, unless the deciding allow rule is the profile's own, the
      dangerous-domain, adult, safe-search and newly-registered filters apply
      in that order; a verdict on the request takes precedence over one on the
      response, and nothing is filtered when filtering is disabled for the
      profile or device."
   and from the package documentation of composite.Filter.FilterRequest
   (order 1. custom 2. rule lists 3. blocked services 4. dangerous 5. adult
   6. general safe search 7. YouTube safe search 8. newly registered).
   A contract is a SET of admissible decisions: where the statement is silent
   (which of two blocking sources is reported; which allow rule "decides" when
   both the profile and a shared list allow) every reading is admitted.
   A hosts-style line is a block rule in AdGuard DNS (its address is not used).

   SHAPE layer.  final effect x blocking mode x qtype x upstream answer class
   -> (rcode, answer kind, TTL source, SOA, may upstream records appear).
   From the statement: "A blocked query is answered in the shape of the
   requester's own blocking mode (null IP, custom IP, NXDOMAIN, REFUSED or
   NODATA) with that profile's TTL, and the answer never contains records
   obtained from upstream", the doc comments of dnsmsg.BlockingMode* ("For all
   other types of requests, as well as in case the address corresponding to IP
   version is not set, it returns a response with no answers (aka NODATA)"),
   of Constructor.newSOARecords ("It must be used with all blocked responses";
   the IP-bearing answers carry none) and doc/configuration.md
   filters.response_ttl ("For users with profiles, the TTL from their profile
   settings are used" for "blocked or modified domains").

   Impl* is the implementation-shaped decision (composite.go, mainmw/filter.go,
   dnsmsg/response.go); CONSTANT Variant selects a defective variant for the
   sanity configs.  Part selects the enumerated product. *)
EXTENDS Naturals, Sequences, FiniteSets, TLC

CONSTANTS Part, Variant

RuleClasses    == {"none", "block", "allow", "hosts", "rwip", "rwcname", "rwrcode"}
RewriteClasses == {"rwip", "rwcname", "rwrcode"}
BlockClasses   == {"block", "hosts"}
SvcClasses     == {"none", "block"}
SafetyStates   == {"off", "nomatch", "match"}
RespClasses    == {"none", "block", "allow"}
SafetyNames    == <<"dangerous", "adult", "ssgen", "ssyt", "newreg">>
SlotName       == <<"custom", "rl1", "rl2", "svc">>
RespSlotName   == <<"custom", "rl1">>

Min(S) == CHOOSE m \in S : \A n \in S : m <= n

Cls(x, i)  == CASE i = 1 -> x.c [] i = 2 -> x.r1 [] i = 3 -> x.r2 [] i = 4 -> x.s
RCls(x, i) == IF i = 1 THEN x.rc ELSE x.rr
RwKind(c)  == CASE c = "rwip" -> "rw_ip" [] c = "rwcname" -> "rw_cname" [] c = "rwrcode" -> "rw_rcode"
RwKinds    == {"rw_ip", "rw_cname", "rw_rcode"}

D(kind, i) == [kind |-> kind, src |-> SlotName[i]]
NoneD      == [kind |-> "none", src |-> "-"]
SafetyD(k) == [kind |-> "safety", src |-> SafetyNames[k]]

Enabled(x)        == x.pen /\ x.den
RewriteSlots(x)   == {i \in 1..3 : Cls(x, i) \in RewriteClasses}
AllowSlots(x)     == {i \in 1..3 : Cls(x, i) = "allow"}
BlockSlots(x)     == {i \in 1..4 : Cls(x, i) \in BlockClasses}
MatchingSafety(x) == {k \in 1..5 : x.sf[k] = "match"}

-----------------------------------------------------------------------------
(* The contract. *)
SafetyOr(x, fallback) ==
    IF MatchingSafety(x) # {} THEN {SafetyD(Min(MatchingSafety(x)))} ELSE fallback

ReqContractEnabled(x) ==
    IF RewriteSlots(x) # {}
    THEN LET i == Min(RewriteSlots(x)) IN {D(RwKind(Cls(x, i)), i)}
    ELSE IF AllowSlots(x) # {}
    THEN (IF 1 \in AllowSlots(x) THEN {D("allowed", 1)} ELSE {})
         \cup (IF AllowSlots(x) \ {1} # {}
               THEN SafetyOr(x, {D("allowed", i) : i \in AllowSlots(x) \ {1}})
               ELSE {})
    ELSE IF BlockSlots(x) # {}
    THEN {D("blocked", i) : i \in BlockSlots(x)}
    ELSE SafetyOr(x, {NoneD})

ReqContract(x) == IF Enabled(x) THEN ReqContractEnabled(x) ELSE {NoneD}

RespContract(x) ==
    IF ~Enabled(x) THEN {NoneD}
    ELSE LET al == {i \in 1..2 : RCls(x, i) = "allow"}
             bl == {i \in 1..2 : RCls(x, i) = "block"}
         IN IF al # {} THEN {[kind |-> "allowed", src |-> RespSlotName[i]] : i \in al}
            ELSE IF bl # {} THEN {[kind |-> "blocked", src |-> RespSlotName[i]] : i \in bl}
            ELSE {NoneD}

\* What happens to the answer.  pass: the upstream answer is delivered;
\* blocked: the blocking-mode answer; rw_ip / rw_rcode: the synthesised answer;
\* redirect: the question is resolved for another name (CNAME rewrite, or the
\* block-page / safe-search host of a safety filter).
EffectOfReq(d) ==
    CASE d.kind = "blocked"  -> "blocked"
      [] d.kind = "allowed"  -> "pass"
      [] d.kind = "rw_ip"    -> "rw_ip"
      [] d.kind = "rw_rcode" -> "rw_rcode"
      [] d.kind = "rw_cname" -> "redirect"
      [] d.kind = "safety"   -> "redirect"
Effect(d, r) ==
    IF d.kind # "none" THEN EffectOfReq(d)
    ELSE IF r.kind = "blocked" THEN "blocked" ELSE "pass"

-----------------------------------------------------------------------------
(* The property clauses, as predicates over a vector and a decision, so that
   they can be evaluated on the contract, on the implementation-shaped
   decision and on an observation of the real code. *)
RewriteWinsOutrightP(x, d) ==
    (Enabled(x) /\ RewriteSlots(x) # {}) =>
        \E i \in RewriteSlots(x) :
            /\ d = D(RwKind(Cls(x, i)), i)
            /\ \A j \in 1..3 : j < i => Cls(x, j) \notin RewriteClasses

AllowBeatsBlockP(x, d) ==
    (Enabled(x) /\ RewriteSlots(x) = {} /\ AllowSlots(x) # {}) => d.kind # "blocked"

BlockBlocksP(x, d) ==
    (Enabled(x) /\ RewriteSlots(x) = {} /\ AllowSlots(x) = {} /\ BlockSlots(x) # {}) =>
        (d.kind = "blocked" /\ \E i \in BlockSlots(x) : d.src = SlotName[i])

\* The safety filters are consulted iff no rewrite decided, no block decided and
\* the deciding allow rule (if any) is not the profile's own.
SafetyConsulted(x) ==
    /\ Enabled(x) /\ RewriteSlots(x) = {}
    /\ (AllowSlots(x) # {} \/ BlockSlots(x) = {})
    /\ 1 \notin AllowSlots(x)
SafetyOrderP(x, d) ==
    /\ d.kind = "safety" =>
          \E k \in 1..5 : /\ d.src = SafetyNames[k] /\ x.sf[k] = "match"
                          /\ \A j \in 1..5 : j < k => x.sf[j] # "match"
    /\ d.kind = "safety" =>
          (Enabled(x) /\ RewriteSlots(x) = {} /\ (AllowSlots(x) # {} \/ BlockSlots(x) = {}))
    /\ (SafetyConsulted(x) /\ MatchingSafety(x) # {}) => d.kind = "safety"

CustomAllowSkipsSafetyP(x, d) ==
    /\ (Enabled(x) /\ RewriteSlots(x) = {} /\ AllowSlots(x) = {1}) => d = D("allowed", 1)
    /\ d = D("allowed", 1) => x.c = "allow"

NothingFromNothingP(x, d) ==
    d.kind \in {"blocked", "allowed"} \cup RwKinds =>
        \E i \in 1..4 :
            /\ d.src = SlotName[i]
            /\ \/ (d.kind = "blocked" /\ Cls(x, i) \in BlockClasses)
               \/ (d.kind = "allowed" /\ Cls(x, i) = "allow")
               \/ (d.kind \in RwKinds /\ Cls(x, i) \in RewriteClasses /\ RwKind(Cls(x, i)) = d.kind)

ReqClauses(x, d) ==
    /\ RewriteWinsOutrightP(x, d) /\ AllowBeatsBlockP(x, d) /\ BlockBlocksP(x, d)
    /\ SafetyOrderP(x, d) /\ CustomAllowSkipsSafetyP(x, d) /\ NothingFromNothingP(x, d)

RespAllowBeatsBlockP(x, r) ==
    /\ (Enabled(x) /\ (x.rc = "allow" \/ x.rr = "allow")) => r.kind = "allowed"
    /\ (Enabled(x) /\ x.rc # "allow" /\ x.rr # "allow" /\ (x.rc = "block" \/ x.rr = "block")) => r.kind = "blocked"
    /\ (x.rc = "none" /\ x.rr = "none") => r = NoneD

RequestBeatsResponseP(d, r, fk) == d.kind # "none" => fk = EffectOfReq(d)
DisabledMeansUnfilteredP(x, d, r, fk) == ~Enabled(x) => (d = NoneD /\ r = NoneD /\ fk = "pass")

-----------------------------------------------------------------------------
(* The implementation-shaped decision.
   composite.Filter.filterReqWithRuleLists: $dnsrewrite of the custom list,
   then of each rule list in order; then all network rules of custom, lists
   and services go through rules.GetDNSBasicRule (an exception rule has
   priority over a blocking one; among equals the more specific, else the
   earlier one -- abstracted to "any of them"); hosts-style rules only count
   when no network rule matched.  FilterRequest returns at once for a custom
   allow and for any block/rewrite, else asks the request filters in order. *)
First(seq, S) == seq[Min({p \in 1..Len(seq) : seq[p] \in S})]

ImplRules(x) ==
    LET order == IF Variant = "lists_before_custom" THEN <<2, 3, 1>> ELSE <<1, 2, 3>>
        al == {i \in 1..4 : Cls(x, i) = "allow"}
        nb == {i \in 1..4 : Cls(x, i) = "block"}
        hs == {i \in 1..3 : Cls(x, i) = "hosts"}
    IN IF RewriteSlots(x) # {}
       THEN LET i == First(order, RewriteSlots(x)) IN {D(RwKind(Cls(x, i)), i)}
       ELSE IF Variant = "block_beats_allow" /\ nb # {} THEN {D("blocked", i) : i \in nb}
       ELSE IF al # {} THEN {D("allowed", i) : i \in al}
       ELSE IF nb # {} THEN {D("blocked", i) : i \in nb}
       ELSE IF hs # {} THEN {D("blocked", i) : i \in hs}
       ELSE {NoneD}

SafetySeq == IF Variant = "adult_first" THEN <<2, 1, 3, 4, 5>> ELSE <<1, 2, 3, 4, 5>>
ImplSafety(x, fallback) ==
    LET m == {p \in 1..5 : x.sf[SafetySeq[p]] = "match"}
    IN IF m = {} THEN fallback ELSE SafetyD(SafetySeq[Min(m)])

ImplEnabled(x) == IF Variant = "ignore_device_switch" THEN x.pen ELSE x.pen /\ x.den

ImplReq(x) ==
    IF ~ImplEnabled(x) THEN {NoneD}
    ELSE { IF \/ (rl = D("allowed", 1) /\ Variant # "safety_despite_custom_allow")
              \/ rl.kind \in {"blocked"} \cup RwKinds
           THEN rl ELSE ImplSafety(x, rl) : rl \in ImplRules(x) }

ImplResp(x) ==
    IF ~ImplEnabled(x) THEN {NoneD}
    ELSE LET al == {i \in 1..2 : RCls(x, i) = "allow"}
             bl == {i \in 1..2 : RCls(x, i) = "block"}
         IN IF al # {} THEN {[kind |-> "allowed", src |-> RespSlotName[i]] : i \in al}
            ELSE IF bl # {} THEN {[kind |-> "blocked", src |-> RespSlotName[i]] : i \in bl}
            ELSE {NoneD}

\* mainmw.setFilteredResponse / setFilteredResponseNoReq
ImplEffect(d, r) ==
    IF Variant = "resp_over_req" /\ d.kind = "allowed" /\ r.kind = "blocked" THEN "blocked"
    ELSE IF d.kind = "none" THEN (IF r.kind = "blocked" THEN "blocked" ELSE "pass")
    ELSE EffectOfReq(d)

-----------------------------------------------------------------------------
(* SHAPE *)
Modes   == {"null", "custom4", "custom46", "nxdomain", "refused"}
QTypes  == {"A", "AAAA", "HTTPS", "TXT"}
UpsCls  == {"addr", "cname", "nodata", "nxdomain"}
FKinds  == {"pass", "blocked", "rw_ip4", "rw_ip6", "rw_rcode", "redirect"}

\* rcode: "NOERROR" "NXDOMAIN" "REFUSED" | "upstream" (whatever upstream said) |
\*        "rewrite" (the code of the $dnsrewrite rule)
\* ans:   "upstream" | "null_ip" | "custom_ip" | "empty" | "rewrite_ip" |
\*        "cname_then_upstream"
\* ttl:   source of the TTL of every synthesised record (incl. the SOA):
\*        "profile" | "upstream" | "default"
\* soa:   "required" (AdGuard's negative-caching SOA in the authority section) | "any"
\* upsdata: may records obtained from upstream appear in the answer
AddrQ(qt) == qt \in {"A", "AAAA"}
BlockedAns(mode, qt) ==
    IF mode = "null" /\ AddrQ(qt) THEN "null_ip"
    ELSE IF (mode = "custom4" /\ qt = "A") \/ (mode = "custom46" /\ AddrQ(qt)) THEN "custom_ip"
    ELSE "empty"
BlockedRcode(mode) ==
    CASE mode = "nxdomain" -> "NXDOMAIN" [] mode = "refused" -> "REFUSED" [] OTHER -> "NOERROR"

ShapeContract(s) ==
    CASE s.fk = "pass" ->
            [rcode |-> "upstream", ans |-> "upstream", ttl |-> "upstream", soa |-> "any", upsdata |-> TRUE]
      [] s.fk = "blocked" ->
            LET a == IF s.mode \in {"nxdomain", "refused"} THEN "empty" ELSE BlockedAns(s.mode, s.qt)
            IN [rcode |-> BlockedRcode(s.mode), ans |-> a, ttl |-> "profile",
                soa |-> IF a = "empty" THEN "required" ELSE "any", upsdata |-> FALSE]
      [] s.fk = "rw_ip4" ->
            [rcode |-> "NOERROR", ans |-> IF s.qt = "A" THEN "rewrite_ip" ELSE "empty", ttl |-> "profile",
             soa |-> "any", upsdata |-> FALSE]
      [] s.fk = "rw_ip6" ->
            [rcode |-> "NOERROR", ans |-> IF s.qt = "AAAA" THEN "rewrite_ip" ELSE "empty", ttl |-> "profile",
             soa |-> "any", upsdata |-> FALSE]
      [] s.fk = "rw_rcode" ->
            [rcode |-> "rewrite", ans |-> "empty", ttl |-> "profile", soa |-> "any", upsdata |-> FALSE]
      [] s.fk = "redirect" ->
            [rcode |-> "upstream", ans |-> "cname_then_upstream", ttl |-> "profile", soa |-> "any",
             upsdata |-> TRUE]

\* Constructor.NewBlockedResp, switch on the mode first, then on the qtype.
ImplBlocked(s) ==
    CASE s.mode = "custom4" \/ s.mode = "custom46" ->
            IF s.qt = "A" THEN [rcode |-> "NOERROR", ans |-> "custom_ip", soa |-> "any"]
            ELSE IF s.qt = "AAAA" /\ s.mode = "custom46" THEN [rcode |-> "NOERROR", ans |-> "custom_ip", soa |-> "any"]
            ELSE IF Variant = "fallback_upstream" THEN [rcode |-> "upstream", ans |-> "upstream", soa |-> "any"]
            ELSE [rcode |-> "NOERROR", ans |-> "empty", soa |-> "required"]
      [] s.mode = "null" ->
            IF AddrQ(s.qt) THEN [rcode |-> "NOERROR", ans |-> "null_ip", soa |-> "any"]
            ELSE [rcode |-> "NOERROR", ans |-> "empty", soa |-> "required"]
      [] s.mode = "nxdomain" -> [rcode |-> "NXDOMAIN", ans |-> "empty", soa |-> "required"]
      [] s.mode = "refused" ->
            [rcode |-> IF Variant = "refused_https_noerror" /\ s.qt = "HTTPS" THEN "NOERROR" ELSE "REFUSED",
             ans |-> "empty", soa |-> "required"]

ImplShape(s) ==
    IF s.fk = "blocked"
    THEN LET b == ImplBlocked(s)
         IN [rcode |-> b.rcode, ans |-> b.ans, soa |-> b.soa,
             ttl |-> IF b.ans = "upstream" THEN "upstream" ELSE IF Variant = "default_ttl" THEN "default" ELSE "profile",
             upsdata |-> (b.ans = "upstream")]
    ELSE ShapeContract(s)

ShapeFollowsModeP(s, o) ==
    s.fk = "blocked" =>
        /\ s.mode = "nxdomain" => (o.rcode = "NXDOMAIN" /\ o.ans = "empty")
        /\ s.mode = "refused" => (o.rcode = "REFUSED" /\ o.ans = "empty")
        /\ (s.mode = "null" /\ AddrQ(s.qt)) => (o.rcode = "NOERROR" /\ o.ans = "null_ip")
        /\ (s.mode = "null" /\ ~AddrQ(s.qt)) => (o.rcode = "NOERROR" /\ o.ans = "empty")
        /\ (s.mode = "custom4" /\ s.qt = "A") => (o.rcode = "NOERROR" /\ o.ans = "custom_ip")
        /\ (s.mode = "custom4" /\ s.qt # "A") => (o.rcode = "NOERROR" /\ o.ans = "empty")
        /\ (s.mode = "custom46" /\ AddrQ(s.qt)) => (o.rcode = "NOERROR" /\ o.ans = "custom_ip")
        /\ (s.mode = "custom46" /\ ~AddrQ(s.qt)) => (o.rcode = "NOERROR" /\ o.ans = "empty")
        /\ o.ans = "empty" => o.soa = "required"
TTLIsProfilesP(s, o) == s.fk # "pass" => o.ttl = "profile"
NoUpstreamDataWhenBlockedP(s, o) == s.fk \in {"blocked", "rw_ip4", "rw_ip6", "rw_rcode"} => ~o.upsdata

-----------------------------------------------------------------------------
(* Exhaustive enumeration: one state per vector. *)
VARIABLES v, sv
vars == <<v, sv>>

\* Safety vectors summarised by the index of the first matching filter:
\* filters before it do not match, it and all later ones do; plus "all off".
ReducedSafety ==
    {[k \in 1..5 |-> IF k < f THEN "nomatch" ELSE "match"] : f \in 1..6} \cup {[k \in 1..5 |-> "off"]}
AllSafety == [1..5 -> SafetyStates]

Vec(c, r1, r2, s, sf, rc, rr, pen, den) ==
    [c |-> c, r1 |-> r1, r2 |-> r2, s |-> s, sf |-> sf, rc |-> rc, rr |-> rr, pen |-> pen, den |-> den]
DummyV == Vec("none", "none", "none", "none", [k \in 1..5 |-> "off"], "none", "none", TRUE, TRUE)
DummyS == [fk |-> "pass", mode |-> "null", qt |-> "A", ups |-> "addr"]

ShapeProduct == [fk : FKinds, mode : Modes, qt : QTypes, ups : UpsCls]
Off5   == [k \in 1..5 |-> "off"]
Match5 == [k \in 1..5 |-> "match"]

\* rules: rule slots x response x reduced safety (everything enabled), plus the
\* switches against a smaller rule product
InitRules ==
    \/ \E c \in RuleClasses, r1 \in RuleClasses, r2 \in RuleClasses, s \in SvcClasses, sf \in ReducedSafety,
          rc \in RespClasses, rr \in RespClasses : v = Vec(c, r1, r2, s, sf, rc, rr, TRUE, TRUE)
    \/ \E c \in RuleClasses, r1 \in {"none", "block", "allow"}, s \in SvcClasses, sf \in {Off5, Match5},
          rc \in RespClasses, pen \in BOOLEAN, den \in BOOLEAN : v = Vec(c, r1, "none", s, sf, rc, "none", pen, den)
InitSmall ==
    \E c \in RuleClasses, r1 \in RuleClasses, s \in SvcClasses, sf \in {Off5, Match5},
       rc \in RespClasses, pen \in BOOLEAN, den \in BOOLEAN : v = Vec(c, r1, "none", s, sf, rc, "none", pen, den)
\* safety: all 3^5 safety vectors against the rule contexts that reach them
InitSafety ==
    \E c \in {"none", "allow", "block", "rwip"}, r1 \in {"none", "allow", "hosts"}, r2 \in {"none", "allow"},
       s \in SvcClasses, sf \in AllSafety, rc \in {"none", "block"} : v = Vec(c, r1, r2, s, sf, rc, "none", TRUE, TRUE)
\* full: the complete product of rule slots and safety vectors (thorough tier)
InitFull ==
    \E c \in RuleClasses, r1 \in RuleClasses, r2 \in RuleClasses, s \in SvcClasses, sf \in AllSafety,
       rc \in RespClasses, rr \in {"none", "block"} : v = Vec(c, r1, r2, s, sf, rc, rr, TRUE, TRUE)

Init ==
    CASE Part = "rules"  -> InitRules /\ sv = DummyS
      [] Part = "small"  -> InitSmall /\ sv = DummyS
      [] Part = "safety" -> InitSafety /\ sv = DummyS
      [] Part = "full"   -> InitFull /\ sv = DummyS
      [] Part = "shape"  -> v = DummyV /\ sv \in ShapeProduct
      [] Part = "trace"  -> v = DummyV /\ sv = DummyS
Next == UNCHANGED vars
Spec == Init /\ [][Next]_vars

\* --- invariants of the verdict layer
ContractNonEmpty == ReqContract(v) # {} /\ RespContract(v) # {}
ImplWithinContract == ImplReq(v) \subseteq ReqContract(v) /\ ImplResp(v) \subseteq RespContract(v)

Both(P(_)) == (\A d \in ReqContract(v) : P(d)) /\ (\A d \in ImplReq(v) : P(d))
RewriteWinsOutright   == Both(LAMBDA d : RewriteWinsOutrightP(v, d))
AllowBeatsBlock       == Both(LAMBDA d : AllowBeatsBlockP(v, d))
BlockBlocks           == Both(LAMBDA d : BlockBlocksP(v, d))
SafetyOrder           == Both(LAMBDA d : SafetyOrderP(v, d))
CustomAllowSkipsSafety == Both(LAMBDA d : CustomAllowSkipsSafetyP(v, d))
NothingFromNothing    == Both(LAMBDA d : NothingFromNothingP(v, d))
RespAllowBeatsBlock   ==
    (\A r \in RespContract(v) : RespAllowBeatsBlockP(v, r)) /\ (\A r \in ImplResp(v) : RespAllowBeatsBlockP(v, r))
RequestBeatsResponse ==
    /\ \A d \in ReqContract(v), r \in RespContract(v) : RequestBeatsResponseP(d, r, Effect(d, r))
    /\ \A d \in ImplReq(v), r \in ImplResp(v) : RequestBeatsResponseP(d, r, ImplEffect(d, r))
DisabledMeansUnfiltered ==
    /\ \A d \in ReqContract(v), r \in RespContract(v) : DisabledMeansUnfilteredP(v, d, r, Effect(d, r))
    /\ \A d \in ImplReq(v), r \in ImplResp(v) : DisabledMeansUnfilteredP(v, d, r, ImplEffect(d, r))
EffectAgrees == \A d \in ImplReq(v), r \in ImplResp(v) : ImplEffect(d, r) = Effect(d, r)

\* --- invariants of the shape layer
ImplShapeWithinContract == ImplShape(sv) = ShapeContract(sv)
ShapeFollowsMode == ShapeFollowsModeP(sv, ShapeContract(sv)) /\ ShapeFollowsModeP(sv, ImplShape(sv))
TTLIsProfiles    == TTLIsProfilesP(sv, ShapeContract(sv)) /\ TTLIsProfilesP(sv, ImplShape(sv))
NoUpstreamDataWhenBlocked ==
    NoUpstreamDataWhenBlockedP(sv, ShapeContract(sv)) /\ NoUpstreamDataWhenBlockedP(sv, ImplShape(sv))
=============================================================================
