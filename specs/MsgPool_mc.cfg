SPECIFICATION Spec
CONSTANTS
  Obj = {"o1", "o2", "o3", "o4"}
  Msgs = {"m1", "m2", "m3"}
  ShareOnClone = FALSE
  DisposeTwice = FALSE
INVARIANTS NoAlias NoUseAfterFree NoDoublePut
CHECK_DEADLOCK FALSE
