SPECIFICATION TraceSpec
CONSTANTS
  KeepHist = FALSE
  Dev = {"d1", "d2", "d3"}
  Ref = {"r1"}
  MaxRecords = 100000
  RemergeKeepsNewest = TRUE
  MaxRefreshes = 100000
INVARIANTS Conservation QuiescentConservation MetaBounded BatchMetaLatest PendingMetaLatestStrict
POSTCONDITION TraceAccepted
CHECK_DEADLOCK FALSE
