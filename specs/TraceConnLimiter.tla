------------------------- MODULE TraceConnLimiter -------------------------
(* Trace validation for C18 (connection limiter).  The harness acts only at
   quiescent points; between two events the woken/trying goroutines of the
   real code re-take the lock in an order the scheduler picks.  The trace spec
   therefore interleaves *silent* TryInc steps (the spec's own action) and
   consumes the next event only in a quiescent state that equals the state
   observed after the previous event.                                         *)
EXTENDS ConnLimiter

VARIABLE l          \* index of the next event to consume
Trace == ndJsonDeserialize("trace.ndjson")
tvars == <<vars, l>>
E == Trace[l]
P == Trace[l - 1]

Quiescent == \A k \in Lsn : pc[k] \notin {"try", "woken"}

\* the state observed by the harness after event e
Matches(e) == /\ cur = e.cur /\ accepting = e.accepting
              /\ \A k \in Lsn : pc[k] = e.pc[k] /\ lclosed[k] = e.lclosed[k]
              /\ open = {e.open[j] : j \in 1..Len(e.open)}

Mark == TLCSet(1, IF l + 1 > TLCGet(1) THEN l + 1 ELSE TLCGet(1))

Consume(e) == /\ l <= Len(Trace) /\ E.ev = e
              /\ Quiescent
              /\ (l > 1 /\ e # "Reset" => Matches(P))
              /\ (l > 1 /\ e = "Reset" => (P.ev = "End" \/ P.ev = "Summary"))
              /\ l' = l + 1 /\ Mark

TraceInit == Init /\ l = 1 /\ TLCSet(1, 1)

TraceReset == /\ Consume("Reset")
              /\ stop' = E.stop /\ resume' = E.resume
              /\ cur' = 0 /\ accepting' = TRUE
              /\ pc' = [k \in Lsn |-> "idle"] /\ lclosed' = [k \in Lsn |-> FALSE]
              /\ open' = {} /\ closed' = {} /\ nconn' = 0 /\ nacc' = 0 /\ sat' = FALSE
              /\ hist' = hist
TraceEnd == Consume("End") /\ UNCHANGED vars
TraceAccept == Consume("Accept") /\ CallAccept(E.l)
TraceInnerOK == Consume("InnerOK") /\ InnerOK(E.l) /\ nconn' = E.c /\ E.ret = "conn"
TraceInnerErr == Consume("InnerErr") /\ InnerErr(E.l) /\ E.ret = "err"
TraceCloseConn == Consume("CloseConn") /\ CloseConn(E.c) /\ E.ret = ""
TraceCloseConnAgain == Consume("CloseConnAgain") /\ CloseConnAgain(E.c) /\ E.ret = ""
TraceCloseListener == Consume("CloseListener") /\ CloseListener(E.l)
Silent == \E k \in Lsn : TryInc(k) /\ UNCHANGED l

\* free-running stress: bound and quiescent exactness on what the fakes counted
TraceSummary == /\ l <= Len(Trace) /\ E.ev = "Summary" /\ l' = l + 1 /\ Mark
                /\ E.maxUsed <= E.stop
                /\ ~E.hung /\ E.finalCur = E.finalUsed /\ E.finalUsed = 0
                /\ UNCHANGED vars

TraceNext == \/ TraceReset \/ TraceEnd \/ TraceAccept \/ TraceInnerOK \/ TraceInnerErr
             \/ TraceCloseConn \/ TraceCloseConnAgain \/ TraceCloseListener \/ Silent \/ TraceSummary
TraceSpec == TraceInit /\ [][TraceNext]_tvars

\* An Accept that returned net.ErrClosed must belong to a closed listener, and
\* the return kind is compared through pc (idle after a return).
TraceAccepted ==
    IF TLCGet(1) = Len(Trace) + 1 THEN TRUE
    ELSE PrintT(<<"STUCK", TLCGet(1), Len(Trace)>>) /\ FALSE
=============================================================================
