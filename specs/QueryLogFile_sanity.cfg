\* sanity: entry and line feed in two writes -> a partial line is visible
SPECIFICATION Spec
CONSTANTS
  Writers = {1, 2, 3}
  MaxPerWriter = 2
  TwoWrites = TRUE
  SharedBuffer = FALSE
INVARIANTS FileIsWholeLines
CHECK_DEADLOCK FALSE
