SPECIFICATION TraceSpec
CONSTANTS
  NS = {"a:"}
  Keys = {"k1"}
  Backings = {"map"}
  Caps = {1}
  MaxOps = 100000000
  GetSkipsPrefix = FALSE
  GetNoTouch = FALSE
  KeepHist = FALSE
POSTCONDITION TraceAccepted
CHECK_DEADLOCK FALSE
