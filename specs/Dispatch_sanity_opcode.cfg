SPECIFICATION Spec
CONSTANTS
  Transports = {"udp", "tcp", "dot", "doh-post", "doh-get", "doh-json", "doq", "dnscrypt-udp", "dnscrypt-tcp"}
  MaxInputs = 3
  Defect = "opcode_drop"
  DCRecover = TRUE
INVARIANTS RejectTreatment
CHECK_DEADLOCK FALSE
