SPECIFICATION Spec
CONSTANTS
  Alphabet = {"a", "blogspot", "com", "co", "uk"}
  MaxLabels = 5
  IcannSuffix <- McIcann
  PrivateSuffix <- McPrivate
  ListIds = {"sb"}
  ListNames <- McListNames
  MaxList = 2
  Hosts <- Names
  QTypes = {"A", "AAAA", "HTTPS", "TXT", "MX"}
  PrefixStrs <- McPrefixStrs
  MaxStrs = 2
  H <- McH
  Variant = "no_trunc"
  KeepHist = FALSE
VIEW view
INVARIANTS PrefixQueryExact
CHECK_DEADLOCK FALSE
