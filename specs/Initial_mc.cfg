SPECIFICATION Spec
INVARIANTS SpecialStopsPipeline DeviceTemplatesOnlyForDevices NoDesignationForDoHOnly ProfileSwitchWins ARPANeverForwarded OnlyINIsSpecial
