SPECIFICATION Spec
CONSTANTS
  Part = "shape"
  Variant = "fallback_upstream"
INVARIANTS NoUpstreamDataWhenBlocked
