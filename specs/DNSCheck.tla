------------------------------ MODULE DNSCheck ------------------------------
(* EXT3 (extension).  internal/dnscheck: the DNS-server check.

   A client resolves  <random id>-<check domain>  through the DNS server; the
   server remembers who asked (device and profile ids, server group, server,
   protocol, node, client address) under the id and answers with the configured
   addresses of the web API.  The client then requests  GET /dnscheck/test
   with the same host name and receives that record as JSON
   (doc/http.md "DNS Server Check", doc/configuration.md "check").

   Part 1 -- which names are check names (a decision over the characters of a
   name, enumerated exhaustively over a small alphabet and validated line by
   line on the real names).  Written from the documentation:
     * a check name is a check domain whose FIRST LABEL is prefixed with
       "<id>-": the same number of labels, the other labels equal;
     * the id has MinId..MaxId (4..63) characters out of letters, digits and
       the hyphen; host names are compared without regard to case;
     * the bare check domain is answered like a check name but carries no id;
     * anything else (a name under the domain, a name that merely ends with
       the domain's characters, a deeper name) is not a check name and is left
       to normal processing.
   Taken from the code where the documentation is silent (and said so in the
   check's assumptions): a malformed id is an error (the query fails) and
   stores nothing; the first configured domain that matches decides.
   ImplClassify is the implementation-shaped rule (suffix test, the character
   before the suffix, dot search) and must agree with the contract for every
   name.  WebCaseSensitive = TRUE is the pinned tree: the web side does not
   fold the case of the Host header although the DNS side stores under the
   lower-cased id.

   Part 2 -- what the web side reports (state machine over discrete seconds).
   Every node keeps a local cache (entries live CacheExp after the query) and
   all nodes share one store behind remotekv.Interface (entries live par.ttl
   when the store has a TTL; at most par.cap entries, least recently used
   evicted first, when it is the local LRU store).  A DNS query writes both; a
   web request reads the node's local cache, then the store.
     WebSeesOwnDNS      a 200 body is the record of a DNS query WITH THAT id
     WebOnlyCheckHosts  a host that is not a well-formed check name gets 404
     FreshOnSameNode    ... and it is the latest such query when that query
                        was handled by the same node and reached the store
     VisibleLocal       visible for CacheExp on the node that saw the query
     VisibleStore       visible on every node while the store keeps it
     GoneAfterExpiry    not visible once both lifetimes have passed
   Defect variants (sanity configs): WebSkipsSuffix, SharedKey, KeepOldLocal,
   NoLocalExpiry, NoNamespace.
   SplitDNS = TRUE makes the two halves of Check (local cache, then store)
   separate steps with anything in between -- concurrent requests.  Own-id,
   404 for other hosts and local visibility still hold (DNSCheck_conc_mc.cfg);
   freshness does not: of two overlapping queries for one id the older store
   write may land last (DNSCheck_conc_fresh.cfg shows the behaviour), and the
   store's lifetime counts from the write, not from the query.               *)
EXTENDS Naturals, Sequences, FiniteSets, TLC, Json

CONSTANTS Domains,      \* sequence of check domains; a domain is a sequence of one-character strings
          Alphabet,     \* characters of the enumerated names
          MaxName,      \* longest enumerated name
          MinId, MaxId, \* bounds of the id length
          QTypes,       \* subset of {"A", "AAAA", "other"}
          Nodes, Ids, CacheExp, TTLs, Caps, Ticks, MaxTime, MaxOps,
          WebCaseSensitive, WebSkipsSuffix, SharedKey, KeepOldLocal, NoLocalExpiry, NoNamespace,
          SplitDNS,     \* TRUE: the two halves of Check (local cache, then store) are separate steps
          KeepHist

Inf == 1000000
Range(s) == {s[i] : i \in 1..Len(s)}

\* ------------------------------------------------------------------ part 1
UpperL == <<"A", "B", "C", "D", "E", "F", "G", "H", "I", "J", "K", "L", "M",
            "N", "O", "P", "Q", "R", "S", "T", "U", "V", "W", "X", "Y", "Z">>
LowerL == <<"a", "b", "c", "d", "e", "f", "g", "h", "i", "j", "k", "l", "m",
            "n", "o", "p", "q", "r", "s", "t", "u", "v", "w", "x", "y", "z">>
Digits == {"0", "1", "2", "3", "4", "5", "6", "7", "8", "9"}
UpperSet == Range(UpperL)
IdChars == UpperSet \cup Range(LowerL) \cup Digits \cup {"-"}
Lower(ch) == IF ch \in UpperSet THEN LowerL[CHOOSE i \in 1..26 : UpperL[i] = ch] ELSE ch
LowerSeq(s) == [i \in 1..Len(s) |-> Lower(s[i])]
HasSuffix(s, t) == Len(s) >= Len(t) /\ SubSeq(s, Len(s) - Len(t) + 1, Len(s)) = t
RECURSIVE Join(_)
Join(s) == IF s = <<>> THEN "" ELSE s[1] \o Join(Tail(s))

RECURSIVE Labels(_)
Labels(s) == IF "." \notin Range(s) THEN <<s>>
             ELSE LET i == CHOOSE i \in 1..Len(s) : s[i] = "." /\ \A j \in 1..(i - 1) : s[j] # "." IN
                  <<SubSeq(s, 1, i - 1)>> \o Labels(SubSeq(s, i + 1, Len(s)))

WellFormedId(id) == Len(id) >= MinId /\ Len(id) <= MaxId /\ \A i \in 1..Len(id) : id[i] \in IdChars

NoMatch == [kind |-> "none", id |-> <<>>]

\* the contract, on labels
MatchDomain(name, d) ==
    LET nl == Labels(name)
        dl == Labels(d)
    IN IF name = d THEN [kind |-> "bare", id |-> <<>>]
       ELSE IF Len(nl) = Len(dl) /\ Tail(nl) = Tail(dl) /\ HasSuffix(nl[1], <<"-">> \o dl[1])
       THEN LET id == SubSeq(nl[1], 1, Len(nl[1]) - Len(dl[1]) - 1) IN
            [kind |-> IF WellFormedId(id) THEN "id" ELSE "badid", id |-> id]
       ELSE NoMatch
RECURSIVE FirstMatch(_, _, _)
FirstMatch(name, doms, i) ==
    IF i > Len(doms) THEN NoMatch
    ELSE LET m == MatchDomain(name, doms[i]) IN IF m.kind # "none" THEN m ELSE FirstMatch(name, doms, i + 1)
\* host names are case-insensitive: classification is of the lower-cased name
Classify(doms, name) == FirstMatch(LowerSeq(name), doms, 1)

\* the implementation-shaped rule, on characters (randomIDFromDomain)
ImplExtract(name, s) ==
    IF ~HasSuffix(name, s) THEN [m |-> FALSE, id |-> <<>>]
    ELSE LET h == Len(name) - Len(s) IN
         IF h = 0 \/ name[h] # "-" THEN [m |-> FALSE, id |-> <<>>]
         ELSE LET id == SubSeq(name, 1, h - 1) IN
              IF "." \in Range(id) THEN [m |-> FALSE, id |-> <<>>] ELSE [m |-> TRUE, id |-> id]
RECURSIVE ImplFrom(_, _, _)
ImplFrom(name, doms, i) ==
    IF i > Len(doms) THEN NoMatch
    ELSE IF name = doms[i] THEN [kind |-> "bare", id |-> <<>>]
    ELSE LET x == ImplExtract(name, doms[i]) IN
         IF x.m THEN [kind |-> IF WellFormedId(x.id) THEN "id" ELSE "badid", id |-> x.id]
         ELSE ImplFrom(name, doms, i + 1)
\* the DNS side is handed the lower-cased name (agd.RequestInfo.Host) ...
ImplDNS(doms, name) == ImplFrom(LowerSeq(name), doms, 1)
\* ... the web side the Host header as sent
ImplWeb(doms, host) == ImplFrom(IF WebCaseSensitive THEN host ELSE LowerSeq(host), doms, 1)

\* what the DNS side does with a question; ans names the address list used
DNSDecision(c, qt) ==
    IF c.kind = "none" THEN [kind |-> "ignore", store |-> FALSE, ans |-> "none"]
    ELSE IF c.kind = "badid" THEN [kind |-> "error", store |-> FALSE, ans |-> "none"]
    ELSE [kind |-> "answer", store |-> c.kind = "id",
          ans |-> IF qt = "A" THEN "ipv4" ELSE IF qt = "AAAA" THEN "ipv6" ELSE "nodata"]
\* the web side looks an id up only for a well-formed check name
WebLooksUp(c) == c.kind = "id"

\* ------------------------------------------------------------------ part 2
NoVal == [q |-> 0]
NoEntry == [present |-> FALSE, val |-> NoVal, exp |-> 0]
NoLatest == [present |-> FALSE, val |-> NoVal, t |-> 0, node |-> "", setOK |-> FALSE]
Ent(f, k) == IF k \in DOMAIN f THEN f[k] ELSE NoEntry
Lat(f, k) == IF k \in DOMAIN f THEN f[k] ELSE NoLatest
Seen(f, k) == IF k \in DOMAIN f THEN f[k] ELSE {}
Put(f, k, e) == [x \in DOMAIN f \cup {k} |-> IF x = k THEN e ELSE f[x]]
EmptyMap == [x \in {} |-> 0]

\* the shared store: recency list of [k, v, exp]
Trunc(es, n) == IF Len(es) > n THEN SubSeq(es, 1, n) ELSE es
SWithout(es, k) == SelectSeq(es, LAMBDA e : e.k # k)
SHas(es, k, t) == \E i \in 1..Len(es) : es[i].k = k /\ t < es[i].exp
SPut(es, p, k, v, t) ==
    Trunc(<<[k |-> k, v |-> v, exp |-> IF p.ttl = Inf THEN Inf ELSE t + p.ttl]>> \o SWithout(es, k), p.cap)
SGet(es, k, t) ==
    IF ~SHas(es, k, t) THEN [ok |-> FALSE, v |-> NoVal, es |-> es]
    ELSE LET e == es[CHOOSE i \in 1..Len(es) : es[i].k = k] IN
         [ok |-> TRUE, v |-> e.v, es |-> <<e>> \o SWithout(es, k)]
SKey(id) == [ns |-> "check", id |-> IF SharedKey THEN "shared" ELSE id]
FKey(id) == [ns |-> IF NoNamespace THEN "check" ELSE "other", id |-> id]

VARIABLES v,       \* part 1: the enumerated vector [name, qt]
          now,     \* seconds
          par,     \* [ttl, cap] of the shared store
          local,   \* node -> id -> [present, val, exp]
          store,   \* the shared store
          latest,  \* ghost: id -> the latest DNS query with that id
          seen,    \* ghost: id -> records of all DNS queries with that id
          res,     \* the last operation and its result
          pend,    \* store writes of Check calls that have updated the local cache only (SplitDNS)
          nops, hist
vars == <<v, now, par, local, store, latest, seen, res, pend, nops, hist>>
view == <<v, now, par, local, store, latest, seen, res, pend, nops>>

NoRes == [op |-> "init", node |-> "", id |-> "", hc |-> "", status |-> 0, val |-> NoVal, gm |-> "", t |-> 0]
Pars == {[ttl |-> t, cap |-> Inf] : t \in TTLs} \cup {[ttl |-> Inf, cap |-> c] : c \in Caps}
NoVec == [name |-> <<>>, qt |-> "A"]

StateInit == /\ now = 0 /\ local = [n \in Nodes |-> EmptyMap] /\ store = <<>>
             /\ latest = EmptyMap /\ seen = EmptyMap /\ res = NoRes /\ pend = {} /\ nops = 0 /\ hist = <<>>
Init == StateInit /\ par \in Pars /\ v = NoVec

H(e) == hist' = IF KeepHist THEN Append(hist, e) ELSE hist
HE(a, n, i, d, ok, hc, gm) == [a |-> a, n |-> n, i |-> i, d |-> d, ok |-> ok, hc |-> hc, gm |-> gm,
                               ttl |-> par.ttl, cap |-> par.cap]

Tick(d) == /\ now + d <= MaxTime /\ now' = now + d
           /\ H(HE("Tick", "", "", d, TRUE, "", ""))
           /\ res' = NoRes
           /\ UNCHANGED <<v, par, local, store, latest, seen, pend, nops>>

\* Check on node n for a well-formed check name with id i; val is the record
\* of the client; setOK: the store accepted the write
DoDNSLocal(n, i, val, setOK) ==
    /\ LET old == Ent(local[n], i)
           keep == KeepOldLocal /\ old.present /\ now <= old.exp
       IN local' = [local EXCEPT ![n] = Put(@, i, IF keep THEN old
                                                   ELSE [present |-> TRUE, val |-> val, exp |-> now + CacheExp])]
    /\ latest' = Put(latest, i, [present |-> TRUE, val |-> val, t |-> now, node |-> n, setOK |-> setOK])
    /\ seen' = Put(seen, i, Seen(seen, i) \cup {val})
    /\ res' = [op |-> "dns", node |-> n, id |-> i, hc |-> "check", status |-> 0, val |-> val, gm |-> "ok", t |-> now]
    /\ UNCHANGED <<v, now, par>>
DoDNS(n, i, val, setOK) ==
    /\ DoDNSLocal(n, i, val, setOK)
    /\ store' = IF setOK THEN SPut(store, par, SKey(i), val, now) ELSE store
    /\ UNCHANGED pend
\* the same in two steps, other operations in between (concurrent requests)
DoDNSBegin(n, i, val, setOK) ==
    /\ DoDNSLocal(n, i, val, setOK)
    /\ pend' = pend \cup {[id |-> i, val |-> val, setOK |-> setOK]}
    /\ UNCHANGED store
DNSEnd(p) ==
    /\ p \in pend /\ pend' = pend \ {p}
    /\ store' = IF p.setOK THEN SPut(store, par, SKey(p.id), p.val, now) ELSE store
    /\ res' = NoRes
    /\ H(HE("DNSEnd", "", p.id, 0, p.setOK, "", ""))
    /\ UNCHANGED <<v, now, par, local, latest, seen, nops>>

\* GET /dnscheck/test on node n; hc = "check" iff the host is a well-formed
\* check name (then i is its id); gm: how the store answers a Get; reads: how
\* often the store is asked (a local hit never, a local miss exactly once)
WebResult(n, hc, i, gm) ==
    IF hc # "check" /\ ~WebSkipsSuffix THEN [status |-> 404, val |-> NoVal, es |-> store, reads |-> 0]
    ELSE LET lo == Ent(local[n], i) IN
         IF lo.present /\ (NoLocalExpiry \/ now <= lo.exp) THEN [status |-> 200, val |-> lo.val, es |-> store, reads |-> 0]
         ELSE IF gm = "err" THEN [status |-> 500, val |-> NoVal, es |-> store, reads |-> 1]
         ELSE IF gm = "rl" THEN [status |-> 429, val |-> NoVal, es |-> store, reads |-> 1]
         ELSE LET g == SGet(store, SKey(i), now) IN
              IF g.ok THEN [status |-> 200, val |-> g.v, es |-> g.es, reads |-> 1]
              ELSE [status |-> 404, val |-> NoVal, es |-> store, reads |-> 1]
DoWeb(n, hc, i, gm) ==
    /\ LET w == WebResult(n, hc, i, gm) IN
       /\ store' = w.es
       /\ res' = [op |-> "web", node |-> n, id |-> i, hc |-> hc, status |-> w.status, val |-> w.val, gm |-> gm, t |-> now]
    /\ UNCHANGED <<v, now, par, local, latest, seen, pend>>

\* another user of the same store writes under the same id in its own namespace
DoForeign(i, val) ==
    /\ par.cap = Inf
    /\ store' = SPut(store, par, FKey(i), val, now)
    /\ res' = [op |-> "foreign", node |-> "", id |-> i, hc |-> "", status |-> 0, val |-> val, gm |-> "", t |-> now]
    /\ UNCHANGED <<v, now, par, local, latest, seen, pend>>

Step == nops < MaxOps /\ nops' = nops + 1
DNS(n, i, setOK) == /\ Step
                    /\ IF SplitDNS THEN DoDNSBegin(n, i, [q |-> nops + 1], setOK) ELSE DoDNS(n, i, [q |-> nops + 1], setOK)
                    /\ H(HE("DNS", n, i, 0, setOK, "check", ""))
Web(n, hc, i, gm) == Step /\ DoWeb(n, hc, i, gm) /\ H(HE("Web", n, i, 0, TRUE, hc, gm))
Foreign(i) == Step /\ DoForeign(i, [q |-> 1000 + nops]) /\ H(HE("Foreign", "", i, 0, TRUE, "", ""))

Next == \/ \E d \in Ticks : Tick(d)
        \/ \E n \in Nodes, i \in Ids, ok \in BOOLEAN : DNS(n, i, ok)
        \/ \E n \in Nodes, hc \in {"check", "foreign"}, i \in Ids, gm \in {"ok", "err", "rl"} : Web(n, hc, i, gm)
        \/ \E i \in Ids : Foreign(i)
        \/ \E p \in pend : DNSEnd(p)
Spec == Init /\ [][Next]_vars

\* ---- properties of part 2, as predicates so that the trace spec evaluates
\* them on what the real code returned
PWebSeesOwnDNS(r, sn) == (r.op = "web" /\ r.status = 200) => r.val \in Seen(sn, r.id)
PWebOnlyCheckHosts(r) == (r.op = "web" /\ r.hc # "check") => r.status = 404
PFreshOnSameNode(r, lt) ==
    (r.op = "web" /\ r.status = 200 /\ Lat(lt, r.id).node = r.node /\ Lat(lt, r.id).setOK)
        => r.val = Lat(lt, r.id).val
PVisibleLocal(r, lt) ==
    LET L == Lat(lt, r.id) IN
    (r.op = "web" /\ r.hc = "check" /\ L.present /\ L.node = r.node /\ r.t <= L.t + CacheExp) => r.status = 200
PVisibleStore(r, lt, p) ==
    LET L == Lat(lt, r.id) IN
    (r.op = "web" /\ r.hc = "check" /\ r.gm = "ok" /\ L.present /\ L.setOK /\ p.cap = Inf /\ r.t < L.t + p.ttl)
        => r.status = 200
PGoneAfterExpiry(r, lt, p) ==
    LET L == Lat(lt, r.id) IN
    (r.op = "web" /\ r.status = 200) => (L.present /\ (r.t <= L.t + CacheExp \/ r.t < L.t + p.ttl))

WebSeesOwnDNS == PWebSeesOwnDNS(res, seen)
WebOnlyCheckHosts == PWebOnlyCheckHosts(res)
FreshOnSameNode == PFreshOnSameNode(res, latest)
VisibleLocal == PVisibleLocal(res, latest)
VisibleStore == PVisibleStore(res, latest, par)
GoneAfterExpiry == PGoneAfterExpiry(res, latest, par)
StoreBounded == Len(store) <= par.cap

\* ---- part 1 as a one-state-per-vector enumeration
Names == UNION {[1..n -> Alphabet] : n \in 0..MaxName}
TableInit == StateInit /\ par = [ttl |-> Inf, cap |-> Inf] /\ v \in [name : Names, qt : QTypes]
TableSpec == TableInit /\ [][UNCHANGED vars]_vars

VC == Classify(Domains, v.name)
VD == DNSDecision(VC, v.qt)
\* the code's character-level rule is the documented label-level rule
ImplMatchesContract == ImplDNS(Domains, v.name) = VC
\* both sides agree on what a check name is and on the key: whatever the DNS
\* side stores can be asked for, under the same id, and nothing else can
WebAgreesWithDNS == LET w == ImplWeb(Domains, v.name) IN
                    /\ WebLooksUp(w) = VD.store
                    /\ (VD.store => w.id = VC.id)
StoreOnlyWellFormed == VD.store => (VC.kind = "id" /\ WellFormedId(VC.id) /\ LowerSeq(VC.id) = VC.id)
AnswerOnlyCheckNames == VD.kind = "answer" => VC.kind \in {"bare", "id"}
OutsideIgnored == (\A i \in 1..Len(Domains) : ~HasSuffix(LowerSeq(v.name), Domains[i])) => VD.kind = "ignore"
SubdomainIgnored == (\E i \in 1..Len(Domains) : HasSuffix(LowerSeq(v.name), <<".">> \o Domains[i])
                                               /\ \A j \in 1..Len(Domains) :
                                                      /\ LowerSeq(v.name) # Domains[j]
                                                      /\ ~HasSuffix(LowerSeq(v.name), <<"-">> \o Domains[j]))
                    => VD.kind = "ignore"
AnswerFamily == VD.kind = "answer" => ((VD.ans = "ipv4") = (v.qt = "A") /\ (VD.ans = "ipv6") = (v.qt = "AAAA"))

\* constants of the exhaustive configurations
McDomains == << <<"c">>, <<"c", ".", "c">> >>

EmitHist == PrintT(<<"BEH", ToJson(hist)>>)
=============================================================================
