------------------------------ MODULE Forward ------------------------------
(* C17.  internal/dnsserver/forward: Handler.ServeDNS, Handler.Refresh
   (healthcheck.go).

   Environment: health[u] of every main and fallback upstream changes freely:
     "up"        replies NOERROR
     "servfail"  replies, with rcode SERVFAIL (a reply: passed on; fails a probe)
     "down"      network error (time-out, refused)
     "garbage"   a reply that does not match the query (rejected by the
                 upstream client: a non-network error at the handler)
   Time is kept as the AGE of each main upstream's last failed probe, capped at
   Backoff (so the model is finite and liveness can be checked): fail[u] = -1
   means the last probe succeeded (or none failed yet).

   One action per step of the code:
     RefreshStart / Probe / Swap   refresh: the main upstreams are probed one by
                 one WITHOUT the lock, then the active set is replaced under it;
                 queries interleave and see the old set
     Query(u)    pickActiveUpstream (any member), exchange, fall back once       *)
EXTENDS Integers, Sequences, FiniteSets, TLC, Json

CONSTANTS Main,        \* sequence of main upstream ids, probed in this order
          Fall,        \* set of fallback ids (may be empty)
          Backoff,     \* in ticks, >= 1
          Defect,      \* "none"; "nobackoff": probes ignore the back-off; "keepfailed": a failed probe keeps the upstream active
          KeepHist

MainSet == {Main[i] : i \in 1..Len(Main)}
Ups == MainSet \cup Fall
Healths == {"up", "servfail", "down", "garbage"}
Replies(h) == h \in {"up", "servfail"}

VARIABLES health, fail, active, pc, acc, last, hist
vars == <<health, fail, active, pc, acc, last, hist>>

Init == /\ health \in [Ups -> {"up"}]
        /\ fail = [u \in MainSet |-> -1]
        /\ active = MainSet                       \* NewHandler: all main upstreams active
        /\ pc = 0 /\ acc = {}                     \* pc = 0: no refresh running; i: about to probe Main[i]
        /\ last = [kind |-> "init"]
        /\ hist = <<>>

H(e) == hist' = IF KeepHist THEN Append(hist, e) ELSE hist

SetHealth(u, h) == /\ health[u] # h /\ health' = [health EXCEPT ![u] = h]
                   /\ H([a |-> "SetHealth", u |-> u, h |-> h])
                   /\ UNCHANGED <<fail, active, pc, acc, last>>

Tick == /\ \E u \in MainSet : fail[u] >= 0 /\ fail[u] < Backoff
        /\ fail' = [u \in MainSet |-> IF fail[u] >= 0 /\ fail[u] < Backoff THEN fail[u] + 1 ELSE fail[u]]
        /\ H([a |-> "Tick", u |-> "", h |-> ""])
        /\ UNCHANGED <<health, active, pc, acc, last>>

InBackoff(u) == fail[u] >= 0 /\ fail[u] < Backoff

\* Refresh does nothing at all without fallbacks
RefreshStart == /\ pc = 0 /\ Fall # {} /\ pc' = 1 /\ acc' = {}
                /\ H([a |-> "RefreshStart", u |-> "", h |-> ""])
                /\ UNCHANGED <<health, fail, active, last>>

Probe == /\ pc >= 1 /\ pc <= Len(Main)
         /\ LET u == Main[pc] IN
            IF InBackoff(u) /\ Defect # "nobackoff"
            THEN UNCHANGED <<fail, acc>>                                   \* skipped, stays out
            ELSE IF health[u] = "up"
                 THEN fail' = [fail EXCEPT ![u] = -1] /\ acc' = acc \cup {u}
                 ELSE /\ fail' = [fail EXCEPT ![u] = 0]
                      /\ acc' = IF Defect = "keepfailed" THEN acc \cup {u} ELSE acc
         /\ pc' = pc + 1
         /\ H([a |-> "Probe", u |-> Main[pc], h |-> ""])
         /\ UNCHANGED <<health, active, last>>

Swap == /\ pc = Len(Main) + 1 /\ active' = acc /\ pc' = 0 /\ acc' = {}
        /\ H([a |-> "Swap", u |-> "", h |-> ""])
        /\ UNCHANGED <<health, fail, last>>

\* a query: first = the chosen main upstream, or "none" when no main is active
Query(first, f) ==
    /\ IF active = {} THEN first = "none" ELSE first \in active
    /\ LET needFb == first = "none" \/ health[first] = "down" IN
       IF ~needFb \/ Fall = {}
       THEN /\ f = "none"
            /\ last' = [kind |-> "query", first |-> first, fb |-> "none", act |-> active,
                        h1 |-> IF first = "none" THEN "none" ELSE health[first], h2 |-> "none",
                        by |-> IF first # "none" /\ Replies(health[first]) THEN first ELSE "error"]
       ELSE /\ f \in Fall
            /\ last' = [kind |-> "query", first |-> first, fb |-> f, act |-> active,
                        h1 |-> IF first = "none" THEN "none" ELSE health[first], h2 |-> health[f],
                        by |-> IF Replies(health[f]) THEN f ELSE "error"]
    /\ H([a |-> "Query", u |-> first, h |-> f])
    /\ UNCHANGED <<health, fail, active, pc, acc>>

Next == \/ \E u \in Ups, h \in Healths : SetHealth(u, h)
        \/ Tick \/ RefreshStart \/ Probe \/ Swap
        \/ \E first \in MainSet \cup {"none"}, f \in Fall \cup {"none"} : Query(first, f)

Fairness == WF_vars(Tick) /\ WF_vars(RefreshStart) /\ WF_vars(Probe) /\ WF_vars(Swap)
Spec == Init /\ [][Next]_vars /\ Fairness

-----------------------------------------------------------------------------
IsQuery == last.kind = "query"
\* answered by the chosen main upstream when it replies
AnsweredByChosenMain ==
    IsQuery /\ last.first # "none" /\ Replies(last.h1) => last.by = last.first /\ last.fb = "none"
\* a fallback is tried, once, exactly on a network error or when nothing is active
FallbackOnceOnNetErrorOrNoActive ==
    IsQuery => ((last.fb # "none") <=> (Fall # {} /\ (last.first = "none" \/ last.h1 = "down")))
\* SERVFAIL to the client only if everything that was tried failed
ServfailOnlyIfBothFail ==
    IsQuery /\ last.by = "error" =>
        /\ (last.first = "none" \/ ~Replies(last.h1))
        /\ (last.fb # "none" => ~Replies(last.h2))
\* the chosen main upstream was active when it was chosen
ChosenWasActive == IsQuery /\ last.first # "none" => last.first \in last.act
\* outside a refresh, exactly the upstreams whose last probe succeeded are used
ActiveIffProbedOK == (pc = 0 /\ Fall # {}) => active = {u \in MainSet : fail[u] = -1}
\* a failed upstream is not probed (hence not re-admitted) before its back-off elapsed
NoProbeInBackoff == [][\A u \in MainSet : (fail[u] >= 0 /\ fail[u] < Backoff) => fail'[u] \in {fail[u], fail[u] + 1}]_vars
NoFallbacksNeverDemotes == Fall = {} => active = MainSet
\* traffic returns to a main upstream that has recovered for good
ReturnsAfterRecovery == \A u \in MainSet : <>[](health[u] = "up") => <>[](pc = 0 => u \in active)

Main2 == <<"m1", "m2">>
Main3 == <<"m1", "m2", "m3">>

EmitHist == PrintT(<<"BEH", ToJson(hist)>>)
=============================================================================
