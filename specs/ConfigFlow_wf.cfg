SPECIFICATION Spec
CONSTANTS
  Defect = "none"
  MaxChanges = 0
  FocusKeys = {}
INVARIANT RelationWellFormed
CHECK_DEADLOCK FALSE
