SPECIFICATION Spec
CONSTANTS
  Defect = "none"
  MaxChanges = 0
INVARIANT RelationWellFormed
CHECK_DEADLOCK FALSE
