------------------------------ MODULE QueryLog ------------------------------
(* C15, part A.  Who is written to the query log and to billing, and what the
   written line says, as a decision over

     a  the abstract vector of a request:
          attr     "anon" | "profile"        was the request attributed to a profile
          qlog     BOOLEAN                   the profile's query-log flag
          iplog    BOOLEAN                   the profile's IP-log flag
          fate     what became of the request in the pipeline
                     "ratelimited" "accessblocked" "unknowndedicated"  dropped by the
                         access / rate-limit stage in front of the main middleware
                     "processed"  filtered, resolved, response written to the client
                     "debug"      CHAOS-class debug request, answered with the debug view
                     "failed"     no response was produced (upstream error, context cancelled)
                     "undelivered" a response was produced but the write to the client failed
          outcome  filtering outcome of a processed request
                     "none" "reqblock" "respblock" "reqallow" "respallow"
                     "modresp" (rewritten answer) "modreq" (CNAME rewrite)
          proto    "dns" "doh" "doq" "dot" "dnscrypt"
          loc      BOOLEAN                   client location (country, ASN) known

     q  the facts of this very request (its own name, type, ids, time, client
        address, the rcode and AD bit of the response that was sent to the
        client, the matched list and rule, the upstream's rcode)

     o  the observation: number of log lines and billing records carrying this
        request's id / device, and the decoded JSON line.

   The contract is written from the property statement and doc/querylog.md
   (documented keys, the numeric codes of "f" and "p", when "ip", "c", "a",
   "l", "m" are present).  Impl is the implementation-shaped decision
   (ratelimitmw -> mainmw.recordQueryInfo -> querylog.FileSystem.Write); the
   constant Defect selects a defective variant of it for the sanity configs. *)
EXTENDS Naturals, Sequences, FiniteSets, TLC

CONSTANTS Defect    \* "none" | "ip_always" | "log_anon" | "bill_anon" | "log_disabled" |
                    \* "rcode_upstream" | "log_dropped"

Attrs    == {"anon", "profile"}
Dropped  == {"ratelimited", "accessblocked", "unknowndedicated"}
Fates    == {"processed", "debug", "failed", "undelivered"} \cup Dropped
Outcomes == {"none", "reqblock", "respblock", "reqallow", "respallow", "modresp", "modreq"}
Protos   == {"dns", "doh", "doq", "dot", "dnscrypt"}

\* doc/querylog.md, property "f".
Code(oc) == CASE oc = "none"      -> 1
              [] oc = "reqblock"  -> 2
              [] oc = "respblock" -> 3
              [] oc = "reqallow"  -> 4
              [] oc = "respallow" -> 5
              [] oc = "modresp"   -> 6
              [] oc = "modreq"    -> 6
\* doc/querylog.md, property "p".
ProtoCode(p) == CASE p = "doh"      -> 3
                  [] p = "doq"      -> 4
                  [] p = "dot"      -> 5
                  [] p = "dns"      -> 8
                  [] p = "dnscrypt" -> 9

DocKeys == {"u", "b", "i", "c", "d", "n", "l", "m", "t", "a", "e", "q", "rn", "f", "s", "p", "r", "ip"}
\* keys the format never omits
ReqKeys == {"u", "b", "i", "n", "t", "e", "q", "rn", "f", "s", "p", "r"}

NoRcode == 999  \* "no response was sent"

-----------------------------------------------------------------------------
\* The contract.

\* a request that must / may be logged and billed
MustLog(a)  == a.attr = "profile" /\ a.qlog /\ a.fate = "processed"
MayLog(a)   == a.attr = "profile" /\ a.qlog /\ a.fate \in {"processed", "debug", "failed", "undelivered"}
MustBill(a) == a.attr = "profile" /\ a.fate = "processed"
MayBill(a)  == a.attr = "profile" /\ a.fate \in {"processed", "debug", "failed", "undelivered"}

LoggedIffP(a, o) == /\ o.logged <= 1
                    /\ o.logged = 1 => MayLog(a)
                    /\ MustLog(a) => o.logged = 1
BilledIffP(a, o) == /\ o.billed <= 1
                    /\ o.billed = 1 => MayBill(a)
                    /\ MustBill(a) => o.billed = 1
NothingForDroppedP(a, o) == a.fate \in Dropped => o.logged = 0 /\ o.billed = 0

\* "ip" is there exactly when IP logging is on, and then it is this client's.
IPIffIPLogP(a, q, o) ==
    o.logged >= 1 => /\ ("ip" \in o.keys) <=> a.iplog
                     /\ o.entry.ip = (IF a.iplog THEN q.ip ELSE "")

\* the documented line of this request; "" / 0 stand for an omitted property
WantEntry(a, q) ==
    [u |-> q.id, b |-> q.prof, i |-> q.dev, n |-> q.name, q |-> q.qt, t |-> q.time,
     r |-> q.rcode, s |-> (IF q.ad THEN 1 ELSE 0),
     f |-> Code(a.outcome), p |-> ProtoCode(a.proto),
     l |-> (IF a.outcome = "none" THEN "" ELSE q.list),
     m |-> (IF a.outcome = "none" THEN "" ELSE q.rule),
     c |-> (IF a.loc THEN q.ctry ELSE ""),
     a |-> (IF a.loc THEN q.asn ELSE 0)]

CheckedFields == {"u", "b", "i", "n", "q", "t", "r", "s", "f", "p", "l", "m", "c", "a"}
Get(e, k) == CASE k = "u" -> e.u [] k = "b" -> e.b [] k = "i" -> e.i [] k = "n" -> e.n
               [] k = "q" -> e.q [] k = "t" -> e.t [] k = "r" -> e.r [] k = "s" -> e.s
               [] k = "f" -> e.f [] k = "p" -> e.p [] k = "l" -> e.l [] k = "m" -> e.m
               [] k = "c" -> e.c [] k = "a" -> e.a

\* fields of the line that do not describe this request
WrongFields(a, q, o) ==
    LET w == WantEntry(a, q) IN
    {k \in CheckedFields : Get(o.entry, k) # Get(w, k)}
    \cup (IF o.keys \subseteq DocKeys THEN {} ELSE {"undocumented key"})
    \cup (IF ReqKeys \subseteq o.keys THEN {} ELSE {"required key missing"})
    \cup (IF ("l" \in o.keys) <=> (a.outcome # "none") THEN {} ELSE {"presence of l"})
    \cup (IF ("m" \in o.keys) <=> (a.outcome # "none") THEN {} ELSE {"presence of m"})
    \cup (IF ("c" \in o.keys) <=> a.loc THEN {} ELSE {"presence of c"})
    \cup (IF ("a" \in o.keys) <=> a.loc THEN {} ELSE {"presence of a"})
    \* "d": nothing but a country derived from this request's own answers, or "QN"
    \cup (IF o.entry.d \in {"", "QN", q.dsent, q.dups} THEN {} ELSE {"d"})
    \cup (IF a.outcome \in {"none", "reqallow", "respallow"} /\ q.rcode = 0 /\ q.dsent # "" /\ o.entry.d # q.dsent
          THEN {"d (country of the address sent)"} ELSE {})

EntryDescribesOwnRequestP(a, q, o) == o.logged >= 1 => WrongFields(a, q, o) = {}

\* the billing record is this request's too
WrongBill(a, q, o) ==
    (IF o.bill.dev = q.dev THEN {} ELSE {"bill.dev"})
    \cup (IF o.bill.time = q.timens THEN {} ELSE {"bill.time"})
    \cup (IF o.bill.proto = ProtoCode(a.proto) THEN {} ELSE {"bill.proto"})
    \cup (IF o.bill.ctry = (IF a.loc THEN q.ctry ELSE "") THEN {} ELSE {"bill.ctry"})
    \cup (IF o.bill.asn = (IF a.loc THEN q.asn ELSE 0) THEN {} ELSE {"bill.asn"})
BillDescribesOwnRequestP(a, q, o) == o.billed >= 1 => WrongBill(a, q, o) = {}

-----------------------------------------------------------------------------
\* The implementation-shaped decision.  (For "undelivered" the code records
\* or not depending on which stage's writer fails; the contract allows both and
\* the model takes the "not recorded" branch.)

NoEntry == [u |-> "", b |-> "", i |-> "", n |-> "", q |-> 0, t |-> "", r |-> 0, s |-> 0, f |-> 0, p |-> 0,
            l |-> "", m |-> "", c |-> "", a |-> 0, d |-> "", ip |-> ""]
NoBill == [dev |-> "", time |-> "", proto |-> 0, ctry |-> "", asn |-> 0]

Impl(a, q) ==
    LET \* the access / rate-limit stage returns before calling the next handler
        reached  == a.fate \notin Dropped \/ Defect = "log_dropped"
        \* recordQueryInfo runs only after the response was written; debug requests return earlier
        recorded == reached /\ (a.fate = "processed" \/ Defect = "log_dropped")
        hasProf  == a.attr = "profile"
        billed   == recorded /\ (hasProf \/ Defect = "bill_anon")
        logged   == recorded /\ (hasProf \/ Defect = "log_anon") /\ (a.qlog \/ Defect = "log_disabled")
        ip       == IF a.iplog \/ Defect = "ip_always" THEN q.ip ELSE ""
        rcode    == IF Defect = "rcode_upstream" THEN q.upsrcode ELSE q.rcode
        hit      == a.outcome # "none"
        ent      == [u |-> q.id, b |-> (IF hasProf THEN q.prof ELSE ""), i |-> (IF hasProf THEN q.dev ELSE ""),
                     n |-> q.name, q |-> q.qt, t |-> q.time, r |-> rcode, s |-> (IF q.ad THEN 1 ELSE 0),
                     f |-> Code(a.outcome), p |-> ProtoCode(a.proto),
                     l |-> (IF hit THEN q.list ELSE ""), m |-> (IF hit THEN q.rule ELSE ""),
                     c |-> (IF a.loc THEN q.ctry ELSE ""), a |-> (IF a.loc THEN q.asn ELSE 0),
                     d |-> (IF rcode = 0 THEN (IF hit /\ a.outcome \notin {"reqallow", "respallow"} THEN q.dups ELSE q.dsent)
                            ELSE "QN"),
                     ip |-> ip]
        keys     == ReqKeys \cup (IF ip # "" THEN {"ip"} ELSE {}) \cup (IF hit THEN {"l", "m"} ELSE {})
                    \cup (IF a.loc THEN {"c", "a"} ELSE {}) \cup (IF ent.d # "" THEN {"d"} ELSE {})
    IN [logged |-> (IF logged THEN 1 ELSE 0), billed |-> (IF billed THEN 1 ELSE 0),
        entry |-> (IF logged THEN ent ELSE NoEntry), keys |-> (IF logged THEN keys ELSE {}),
        bill |-> (IF billed THEN [dev |-> q.dev, time |-> q.timens, proto |-> ProtoCode(a.proto),
                                  ctry |-> (IF a.loc THEN q.ctry ELSE ""), asn |-> (IF a.loc THEN q.asn ELSE 0)]
                  ELSE NoBill)]

-----------------------------------------------------------------------------
\* Exhaustive enumeration of the abstract product: one state per vector.
VARIABLES a, q
vars == <<a, q>>

Vectors == [attr : Attrs, qlog : BOOLEAN, iplog : BOOLEAN, fate : Fates, outcome : Outcomes, proto : Protos,
            loc : BOOLEAN]
\* request facts: symbolic constants, except the values a defective variant could confuse
Facts == [id : {"id"}, prof : {"prof"}, dev : {"dev"}, name : {"name."}, qt : {1, 28}, time : {"t0"},
          timens : {"t0ns"}, ip : {"192.0.2.1"}, rcode : {0, 3}, upsrcode : {0, 3}, ad : BOOLEAN,
          list : {"list"}, rule : {"rule"}, ctry : {"AD"}, asn : {64512}, dsent : {"", "US"}, dups : {"", "JP"}]

\* a filtering outcome only exists for requests that were filtered; a
\* response code only for requests that were answered
Consistent(av, qv) ==
    /\ av.fate \notin {"processed", "debug"} => av.outcome = "none" /\ qv.rcode = 0 /\ qv.upsrcode = 0 /\ ~qv.ad
                                                /\ qv.dsent = "" /\ qv.dups = ""
    /\ qv.rcode # 0 => qv.dsent = ""

Init == a \in Vectors /\ q \in Facts /\ Consistent(a, q)
Next == UNCHANGED vars
Spec == Init /\ [][Next]_vars

LoggedIff == LoggedIffP(a, Impl(a, q))
BilledIff == BilledIffP(a, Impl(a, q))
IPIffIPLog == IPIffIPLogP(a, q, Impl(a, q))
EntryDescribesOwnRequest == EntryDescribesOwnRequestP(a, q, Impl(a, q))
BillDescribesOwnRequest == BillDescribesOwnRequestP(a, q, Impl(a, q))
NothingForDropped == NothingForDroppedP(a, Impl(a, q))
\* the statement's summary sentence follows from the clauses above
NeverAnonymous == a.attr = "anon" => Impl(a, q).logged = 0 /\ Impl(a, q).billed = 0
=============================================================================
