--------------------------- MODULE TraceDeviceAuth ---------------------------
(* Per-line validation of real devicefinder.Default.Find executions (on a real
   profiledb.Default, wrapped by the real ratelimitmw).  Each line:
     v     the abstract vector (fields of DeviceAuth!Vectors)
     find  [kind, dev, prof]  what Find returned: kind in ok|anon|authfail|drop|
           error; dev in dev|oth|auto|foreign|none; prof in pdev|poth|foreign|none
     down  [served, kind, dev, prof]  what the handler behind ratelimitmw saw in
           agd.RequestInfo (served = it was called at all)
     mwerr BOOLEAN  the middleware returned an error
   A line is checked against the contract, against every property clause
   directly, and against the implementation-shaped decision (a mismatch there
   that stays inside the contract is printed as DIVERGE, not NONCONF). *)
EXTENDS DeviceAuth, Json, Sequences

VARIABLE l
Trace == ndJsonDeserialize("trace.ndjson")
tvars == <<vars, l>>

Res(e) == [kind |-> e.find.kind, dev |-> e.find.dev]

Chk(cond, msg) == IF cond THEN {} ELSE {msg}

Reasons(e) ==
    LET w == e.v
        r == Res(e)
        d == Downstream(r) IN
    Chk(w \in Vectors, "vector outside the abstract type")
    \cup Chk(r \in Allowed(w), "result outside the contract")
    \cup Chk(ClValidChannel(w, r) /\ r.dev # "foreign", "recognised without the device's identifier on a valid channel")
    \cup Chk(ClLiveMembership(w, r), "recognised although the profile is deleted or the device detached")
    \cup Chk(ClDoHOnlyElsewhere(w, r), "DoH-only device recognised on another transport")
    \cup Chk(ClDoHOnlyPassword(w, r), "DoH-only device recognised without the right password")
    \cup Chk(ClBadPassword(w, r), "recognised despite a wrong, empty or missing password")
    \cup Chk(ClDNSCrypt(w, r), "DNSCrypt request not anonymous")
    \cup Chk(ClPrecedence(w, r), "channel precedence not respected")
    \cup Chk(r.kind = "ok" => e.find.prof = ProfOf(r.dev), "profile returned does not own the device")
    \cup Chk(r.kind # "ok" => (e.find.prof = "none" /\ r.dev = "none"), "non-OK result carries data")
    \cup Chk(e.down.served = d.served, "served/not served downstream differs from the contract")
    \cup Chk(e.down.dev = (IF d.served THEN d.dev ELSE "none"), "RequestInfo.DeviceData exposes another device than recognised")
    \cup Chk(e.down.prof = ProfOf(e.down.dev), "RequestInfo.DeviceData profile does not own the device")
    \cup Chk(r.kind = "authfail" => (e.down.served /\ e.down.dev = "none"), "authentication failure not anonymous downstream")
    \cup Chk(e.down.served => e.down.kind = r.kind, "RequestInfo.DeviceResult differs from what Find returned")
    \cup Chk(e.mwerr = (r.kind = "error"), "middleware error flag differs")

TraceInit == /\ l = 1 /\ done = TRUE
             /\ v = Mk("DNSCrypt", "none", "absent", "none", "none", "own", "other", FALSE, FALSE, FALSE, DB0, FALSE)
TraceNext == /\ l <= Len(Trace) /\ l' = l + 1 /\ UNCHANGED vars
             /\ LET e == Trace[l] rs == Reasons(e) IN
                /\ IF rs = {} THEN TRUE ELSE PrintT(<<"NONCONF", l, rs>>)
                /\ IF e.v \in Vectors /\ ImplFind(e.v) # Res(e)
                   THEN PrintT(<<"DIVERGE", l, ImplFind(e.v)>>) ELSE TRUE
TraceSpec == TraceInit /\ [][TraceNext]_tvars
TraceAccepted == LET n == TLCGet("stats").diameter IN
    IF n - 1 = Len(Trace) THEN TRUE ELSE PrintT(<<"STUCK", n, Len(Trace)>>) /\ FALSE
=============================================================================
