SPECIFICATION TraceSpec
CONSTANTS
  FilesSrc <- TraceFiles
  MConfs = {}
  UseRegister = TRUE
  Refreshers = {"r1", "r2"}
  InvalidCountries = {"A1", "A2", "O1", "ZZZ"}
  InvalidContinents = {"ZZ"}
  Serial = FALSE
  Defect = "any"
  KeepHist = FALSE
  MaxPut = 1000000
  MaxRefresh = 1000000
  MaxData = 1000000
INVARIANTS TypeOK CacheAgreesWithDB ReadersSeeOneVersion FailedRefreshKeepsOld QuiescentConsistent
POSTCONDITION TraceAccepted
CHECK_DEADLOCK FALSE
