SPECIFICATION TraceSpec
CONSTANTS
  Listeners = {"web"}
  Methods = {"GET"}
  Paths = {"root"}
  Encs = {"none"}
  Defect = "none"
POSTCONDITION TraceAccepted
CHECK_DEADLOCK FALSE
