---- MODULE Normalize_TTrace_1790439697 ----
EXTENDS Normalize, Sequences, TLCExt, Toolbox, Naturals, TLC

_expression ==
    LET Normalize_TEExpression == INSTANCE Normalize_TEExpression
    IN Normalize_TEExpression!expression
----

_trace ==
    LET Normalize_TETrace == INSTANCE Normalize_TETrace
    IN Normalize_TETrace!trace
----

_inv ==
    ~(
        TLCGet("level") = Len(_TETrace)
        /\
        p = ("dnscrypt-tcp")
        /\
        q = ([opt |-> FALSE, pad |-> FALSE, ka |-> FALSE, nsid |-> FALSE, size |-> 0, do |-> FALSE])
        /\
        cfg = (12)
        /\
        ready = (TRUE)
        /\
        h = ([tc |-> FALSE, an |-> 7, opt |-> "v1do", ns |-> 2, ex |-> 1])
    )
----

_init ==
    /\ ready = _TETrace[1].ready
    /\ h = _TETrace[1].h
    /\ p = _TETrace[1].p
    /\ q = _TETrace[1].q
    /\ cfg = _TETrace[1].cfg
----

_next ==
    /\ \E i,j \in DOMAIN _TETrace:
        /\ \/ /\ j = i + 1
              /\ i = TLCGet("level")
        /\ ready  = _TETrace[i].ready
        /\ ready' = _TETrace[j].ready
        /\ h  = _TETrace[i].h
        /\ h' = _TETrace[j].h
        /\ p  = _TETrace[i].p
        /\ p' = _TETrace[j].p
        /\ q  = _TETrace[i].q
        /\ q' = _TETrace[j].q
        /\ cfg  = _TETrace[i].cfg
        /\ cfg' = _TETrace[j].cfg

\* Uncomment the ASSUME below to write the states of the error trace
\* to the given file in Json format. Note that you can pass any tuple
\* to `JsonSerialize`. For example, a sub-sequence of _TETrace.
    \* ASSUME
    \*     LET J == INSTANCE Json
    \*         IN J!JsonSerialize("Normalize_TTrace_1790439697.json", _TETrace)

=============================================================================

 Note that you can extract this module `Normalize_TEExpression`
  to a dedicated file to reuse `expression` (the module in the 
  dedicated `Normalize_TEExpression.tla` file takes precedence 
  over the module `Normalize_TEExpression` below).

---- MODULE Normalize_TEExpression ----
EXTENDS Normalize, Sequences, TLCExt, Toolbox, Naturals, TLC

expression == 
    [
        \* To hide variables of the `Normalize` spec from the error trace,
        \* remove the variables below.  The trace will be written in the order
        \* of the fields of this record.
        ready |-> ready
        ,h |-> h
        ,p |-> p
        ,q |-> q
        ,cfg |-> cfg
        
        \* Put additional constant-, state-, and action-level expressions here:
        \* ,_stateNumber |-> _TEPosition
        \* ,_readyUnchanged |-> ready = ready'
        
        \* Format the `ready` variable as Json value.
        \* ,_readyJson |->
        \*     LET J == INSTANCE Json
        \*     IN J!ToJson(ready)
        
        \* Lastly, you may build expressions over arbitrary sets of states by
        \* leveraging the _TETrace operator.  For example, this is how to
        \* count the number of times a spec variable changed up to the current
        \* state in the trace.
        \* ,_readyModCount |->
        \*     LET F[s \in DOMAIN _TETrace] ==
        \*         IF s = 1 THEN 0
        \*         ELSE IF _TETrace[s].ready # _TETrace[s-1].ready
        \*             THEN 1 + F[s-1] ELSE F[s-1]
        \*     IN F[_TEPosition - 1]
    ]

=============================================================================



Parsing and semantic processing can take forever if the trace below is long.
 In this case, it is advised to uncomment the module below to deserialize the
 trace from a generated binary file.

\*
\*---- MODULE Normalize_TETrace ----
\*EXTENDS Normalize, IOUtils, TLC
\*
\*trace == IODeserialize("Normalize_TTrace_1790439697.bin", TRUE)
\*
\*=============================================================================
\*

---- MODULE Normalize_TETrace ----
EXTENDS Normalize, TLC

trace == 
    <<
    ([p |-> "dnscrypt-tcp",q |-> [opt |-> FALSE, pad |-> FALSE, ka |-> FALSE, nsid |-> FALSE, size |-> 0, do |-> FALSE],cfg |-> 12,ready |-> FALSE,h |-> [tc |-> FALSE, an |-> 0, opt |-> "none", ns |-> 0, ex |-> 0]]),
    ([p |-> "dnscrypt-tcp",q |-> [opt |-> FALSE, pad |-> FALSE, ka |-> FALSE, nsid |-> FALSE, size |-> 0, do |-> FALSE],cfg |-> 12,ready |-> TRUE,h |-> [tc |-> FALSE, an |-> 7, opt |-> "v1do", ns |-> 2, ex |-> 1]])
    >>
----


=============================================================================

---- CONFIG Normalize_TTrace_1790439697 ----
CONSTANTS
    MIN = 4
    MAX = 12
    ReqSizes = { 0 , 3 , 4 , 5 , 8 , 12 }
    CfgMaxes = { 0 , 4 , 6 , 12 }
    MaxAn = 14
    MaxNs = 2
    MaxEx = 1
    Defects = { "dcpartial" }

INVARIANT
    _inv

CHECK_DEADLOCK
    \* CHECK_DEADLOCK off because of PROPERTY or INVARIANT above.
    FALSE

INIT
    _init

NEXT
    _next

CONSTANT
    _TETrace <- _trace

ALIAS
    _expression
=============================================================================
\* Generated on Sat Sep 26 16:21:41 UTC 2026