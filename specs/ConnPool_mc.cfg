SPECIFICATION Spec
CONSTANTS
  Callers = {"a", "b"}
  MaxConn = 2
  CapSet = {0, 1}
  TmoSet = {0, 1}
  MaxTime = 3
  MaxOps = 5
  Defect = "none"
  KeepHist = FALSE
VIEW view
INVARIANTS TypeOK Ledger QueuedAreMade NoDoubleHandout NoClosedHandout NoExpiredHandout StampOnGet CapacityBound CloseOnce ClosedForGood ClosedMeansErrClosed NoPanic
CHECK_DEADLOCK FALSE
