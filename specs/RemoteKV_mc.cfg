SPECIFICATION Spec
CONSTANTS
  NS = {"a:", "b:", ""}
  Keys = {"k1", "k2"}
  Backings = {"map", "lru", "empty"}
  Caps = {1, 2}
  MaxOps = 5
  GetSkipsPrefix = FALSE
  GetNoTouch = FALSE
  KeepHist = FALSE
VIEW view
INVARIANTS NamespaceIsolation ReadYourWrite LRUExact CapBound EmptyNeverHits KeysPrefixed Accordance
CHECK_DEADLOCK FALSE
