SPECIFICATION Spec
CONSTANTS
  Defect = "none"
  MaxChanges = 3
INVARIANTS Reaches ZeroIsMeaningful GatedByOwnFlag PartitionExact OrderPreserved
PROPERTY NoCrossTalk
CHECK_DEADLOCK FALSE
