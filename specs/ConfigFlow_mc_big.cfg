SPECIFICATION Spec
CONSTANTS
  Defect = "none"
  MaxChanges = 3
  FocusKeys = {"upstream.healthcheck.enabled@", "upstream.healthcheck.timeout@", "upstream.healthcheck.interval@",
               "cache.type@", "cache.size@", "cache.ttl_override.enabled@", "cache.ttl_override.min@",
               "check.kv.type@", "check.kv.ttl@", "server_groups[*].profiles_enabled@0",
               "ratelimit.response_size_estimate@", "backend.timeout@"}
INVARIANTS Reaches ZeroIsMeaningful GatedByOwnFlag PartitionExact OrderPreserved
PROPERTY NoCrossTalk
CHECK_DEADLOCK FALSE
