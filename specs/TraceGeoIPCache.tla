-------------------------- MODULE TraceGeoIPCache --------------------------
(* C05, GeoIP side.  Each line is one look-up of an address on a WARM
   geoip.File (whose IP cache has seen an arbitrary history of other addresses)
   together with the answer of a COLD File for the same address.
   LocationIsFunctionOfAddress: both agree -- otherwise the subnet forwarded
   upstream and the region an answer is cached for depend on who asked before. *)
EXTENDS Naturals, Sequences, TLC, Json

VARIABLE l
Trace == ndJsonDeserialize("trace.ndjson")
Reasons(e) == IF e.warm = e.cold THEN {}
              ELSE {"the location of an address depends on the look-ups made before (GeoIP cache is visible)"}
TraceInit == l = 1
TraceNext == /\ l <= Len(Trace) /\ l' = l + 1
             /\ LET r == Reasons(Trace[l]) IN IF r = {} THEN TRUE ELSE PrintT(<<"NONCONF", l, r>>)
TraceSpec == TraceInit /\ [][TraceNext]_l
TraceAccepted == LET d == TLCGet("stats").diameter IN
    IF d - 1 = Len(Trace) THEN TRUE ELSE PrintT(<<"STUCK", d, Len(Trace)>>) /\ FALSE
=============================================================================
