SPECIFICATION Spec
CONSTANTS
  Callers = {"a", "b"}
  MaxConn = 2
  CapSet = {1}
  TmoSet = {1}
  MaxTime = 3
  MaxOps = 5
  Defect = "put_close_race"
  KeepHist = FALSE
VIEW view
INVARIANTS NoPanic
CHECK_DEADLOCK FALSE
