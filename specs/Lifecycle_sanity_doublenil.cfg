SPECIFICATION Spec
CONSTANTS
  Req = {1, 2}
  CtxKinds = {"nodeadline", "open"}
  MaxMisuse = 2
  DefectNoWait = FALSE
  DefectLateClose = FALSE
  DefectIgnoreDeadline = FALSE
  DefectDoubleNil = TRUE
INVARIANTS TypeOK ShutdownWaits DeadlineBounds NothingAfterStop MisuseErrors NoAcceptAfterBegin
PROPERTIES NoHandlerStartAfterNil AcceptOnlyWhileStarted
CHECK_DEADLOCK FALSE
