SPECIFICATION Spec
CONSTANTS
  Req = {1, 2}
  CtxKinds = {"nodeadline", "open"}
  MaxMisuse = 2
  DefectNoWait = FALSE
  DefectLateClose = FALSE
  DefectIgnoreDeadline = FALSE
  DefectDoubleNil = TRUE
INVARIANTS MisuseErrors
CHECK_DEADLOCK FALSE
