SPECIFICATION Spec
CONSTANTS
  Lists = {"adguard", "other"}
  Counted = "adguard"
  Texts = {"t1", "t2", "t3"}
  Ref = {"r1", "r2"}
  MaxCollects = 7
  MaxRefreshes = 4
  KeepHist = FALSE
  Variant = "code"
VIEW view
INVARIANTS TypeOK Conservation QuiescentConservation HitsIsCurrentSet GaugeShowsCurrentSet
PROPERTIES RefreshStartsNewSet UploadsLeaveCurrentSet LedgersGrow IgnoredChangesNothing
CHECK_DEADLOCK FALSE
