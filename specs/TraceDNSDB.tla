--------------------------- MODULE TraceDNSDB ---------------------------
(* Trace validation for EXT2, part 2: events recorded from the real
   dnsdb.Default (harness/internal/dnsdb/ext2_test.go) are replayed through the
   actions of DNSDB.tla.  Every Record event carries the abstract vector of the
   response (PART A) and the concrete message; whether the call is an accepted
   one is decided by Accept(E.v) -- the table -- and the state observed in the
   code after the call (entries of the current buffer read under its lock, the
   gauge) must equal the model's.  A dump event carries the CSV rows the real
   handler wrote, grouped by key; they must be the content of the buffer that
   was taken out.                                                            *)
EXTENDS DNSDB, Integers

VARIABLE l
Trace == ndJsonDeserialize("trace.ndjson")
tvars == <<vars, l>>
E == Trace[l]

TraceInit == Init /\ l = 1

ToSet(a) == {a[j] : j \in 1..Len(a)}
Consume(e) == l <= Len(Trace) /\ E.ev = e /\ l' = l + 1

\* what the harness reads after every step
Observed == /\ bufs'[cur'] = E.buf
            /\ gauge' = E.gauge
            /\ E.foreign = 0

\* the CSV rows of a dump are exactly the buffer b as it was before the step
TakenIs(b) == \A k \in Keys : /\ E.taken[k].hits = bufs[b][k]
                              /\ ToSet(E.taken[k].rows) = (IF bufs[b][k] > 0 THEN ans[b][k] ELSE {})

TraceReset == /\ Consume("Reset")
              /\ maxSize' = E.maxSize
              /\ bufs' = <<Zero>> /\ ans' = <<NoAns>> /\ cur' = 1
              /\ rpc' = [p \in Rec |-> RIdle] /\ dpc' = [d \in Dmp |-> DIdle]
              /\ gauge' = 0 /\ E.gauge = 0
              /\ recorded' = Zero /\ served' = Zero /\ full' = Zero /\ late' = Zero /\ nign' = 0
              /\ raced' = FALSE /\ overlap' = FALSE
              /\ nrec' = 0 /\ ndump' = 0 /\ hist' = <<>> /\ v' = v

Rows == RowsOf(E.answers, E.v.qtype)

\* a Record call nothing interleaves with
TraceRecord == /\ Consume("Record")
               /\ IF Accept(E.v) THEN RecordSeq(E.p, E.k, Rows) ELSE RecordIgnored
               /\ Observed
\* a Record call parked after db.buffer.Load() ...
TraceRecLoad == /\ Consume("RecLoad") /\ Accept(E.v) /\ RecLoad(E.p, E.k, Rows) /\ Observed
                /\ E.loadedCur
\* ... or one that returned without loading the buffer
TraceRecNoLoad == Consume("RecNoLoad") /\ ~Accept(E.v) /\ RecordIgnored /\ Observed
TraceRecAdd == /\ Consume("RecAdd") /\ RecAdd(E.p) /\ Observed
               /\ bufs'[rpc[E.p].b][rpc[E.p].k] = E.into
TraceSwap == Consume("Swap") /\ Swap(E.d) /\ Observed /\ E.tookCur
TraceAll == Consume("All") /\ All(E.d) /\ Observed /\ TakenIs(dpc[E.d].b)
TraceDump == Consume("Dump") /\ DumpSeq(E.d) /\ Observed /\ TakenIs(cur)

\* Free-running stress: only totals are observable.  late = hits found in
\* retired buffers beyond what their dump wrote; a dump can strand at most
\* one hit per concurrently running Record call.
RECURSIVE SumF(_, _)
SumF(f, S) == IF S = {} THEN 0 ELSE LET x == CHOOSE x \in S : TRUE IN f[x] + SumF(f, S \ {x})
TraceSummary == /\ Consume("Summary")
                /\ E.foreign = 0
                /\ \A k \in Keys : /\ E.late[k] >= 0
                                   /\ IF E.exact THEN E.recorded[k] = E.served[k] + E.pending[k] + E.late[k]
                                                 ELSE E.recorded[k] >= E.served[k] + E.pending[k] + E.late[k]
                /\ SumF(E.late, Keys) <= E.recorders * E.dumps
                /\ E.maxKeys <= E.maxSize
                /\ E.dupTaken = 0            \* every buffer is taken out by exactly one dump
                /\ UNCHANGED vars

TraceNext == \/ TraceReset \/ TraceRecord \/ TraceRecLoad \/ TraceRecNoLoad \/ TraceRecAdd
             \/ TraceSwap \/ TraceAll \/ TraceDump \/ TraceSummary
TraceSpec == TraceInit /\ [][TraceNext]_tvars

TraceAccepted ==
    LET d == TLCGet("stats").diameter IN
    IF d - 1 = Len(Trace) THEN TRUE ELSE Print(<<"STUCK", d, Len(Trace)>>, FALSE)
=============================================================================
