SPECIFICATION Spec
CONSTANTS
  Lists = {"adguard", "other"}
  Counted = "adguard"
  Texts = {"t1", "t2"}
  Ref = {"r1", "r2"}
  MaxCollects = 4
  MaxRefreshes = 3
  KeepHist = FALSE
  Variant = "nonatomic"
VIEW view
INVARIANTS TypeOK Conservation QuiescentConservation HitsIsCurrentSet GaugeShowsCurrentSet
PROPERTIES RefreshStartsNewSet UploadsLeaveCurrentSet LedgersGrow IgnoredChangesNothing
CHECK_DEADLOCK FALSE
