SPECIFICATION Spec
CONSTANTS
  Pairs = {"p1"}
  CertIds = {"A1"}
  BadContents = {}
  NTP = 2
  TicketContents = {1, 2, 9}
  MaxCfg = 2
  MaxSess = 0
  SNIs = {}
  Defect = "rotate_clones"
  KeepHist = FALSE
  AllowRefreshFail = TRUE
  Atomic = FALSE
VIEW view
INVARIANTS AllConfigsSameTickets
PROPERTIES PairsOnlyGrow
CHECK_DEADLOCK FALSE
