SPECIFICATION Spec
CONSTANTS
  Defect = "wronggate"
  MaxChanges = 1
INVARIANT GatedByOwnFlag
CHECK_DEADLOCK FALSE
