SPECIFICATION Spec
CONSTANTS
  Defect = "wronggate"
  MaxChanges = 1
  FocusKeys = {}
INVARIANT GatedByOwnFlag
CHECK_DEADLOCK FALSE
