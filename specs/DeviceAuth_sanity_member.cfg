SPECIFICATION Spec
CONSTANTS
  FullProduct = FALSE
  Defect = "no_membership_recheck"
INVARIANTS RecognisedImpliesLiveMembership
