-------------------------- MODULE TraceBufferReuse --------------------------
(* Per-pair validation for C06.  Each line is one `next` message delivered
   through one receive path to a WARM instance (whose pooled buffers were filled
   with sentinel traffic) and to a FRESH one.  HistoryIndependence: both
   decoded it identically (same replies, same request seen by the handler /
   same reply or rejection seen by the caller).  NoForeignRecord: nothing of
   the sentinel traffic shows up in what the warm instance decoded or sent.
   A `burst` line is one round of concurrent traffic of several clients through
   one receive path: NoForeignRecord for requests in flight at the same time. *)
EXTENDS Naturals, Sequences, TLC, Json

VARIABLE l
Trace == ndJsonDeserialize("trace.ndjson")
Reasons(e) == IF e.burst
              THEN (IF e.same THEN {} ELSE {"a client received a reply that does not answer one of its own queries"})
                   \cup (IF e.leak THEN {"the handler decoded a message that no client sent"} ELSE {})
              ELSE
              (IF e.same THEN {} ELSE {"warm and fresh instance decode the same bytes differently"})
              \cup (IF e.leak THEN {"data of earlier traffic appears in the decoded message or in a reply"} ELSE {})
TraceInit == l = 1
TraceNext == /\ l <= Len(Trace) /\ l' = l + 1
             /\ LET r == Reasons(Trace[l]) IN IF r = {} THEN TRUE ELSE PrintT(<<"NONCONF", l, r>>)
TraceSpec == TraceInit /\ [][TraceNext]_l
TraceAccepted == LET d == TLCGet("stats").diameter IN
    IF d - 1 = Len(Trace) THEN TRUE ELSE PrintT(<<"STUCK", d, Len(Trace)>>) /\ FALSE
=============================================================================
