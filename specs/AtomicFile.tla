----------------------------- MODULE AtomicFile -----------------------------
(* Atomic replacement of a file (C13: filter cache files; C14: profile cache),
   at the level of system calls, with a process kill between any two of them.

   The target holds a complete OLD version (or is absent before the first
   write).  A replacement is  CreateTmp ; Write^k ; [Sync] ; Rename(tmp->target).
   Kill may strike before any system call.  Direct = TRUE is the defective
   scheme (truncate and rewrite the target in place) used as sanity.          *)
EXTENDS Naturals, Sequences, TLC

CONSTANTS Chunks,        \* number of write calls a version needs
          Direct,        \* TRUE: write the target in place (sanity)
          InitiallyAbsent

VARIABLES target,        \* "absent" | "old" | "new" | "partial"
          tmp,           \* "none" | "partial" | "complete"
          written,       \* chunks written so far
          pc             \* "start" | "writing" | "synced" | "done" | "killed"
vars == <<target, tmp, written, pc>>

Init == /\ target = IF InitiallyAbsent THEN "absent" ELSE "old"
        /\ tmp = "none" /\ written = 0 /\ pc = "start"

Open ==  /\ pc = "start" /\ pc' = "writing" /\ written' = 0
         /\ IF Direct THEN target' = "partial" /\ UNCHANGED tmp        \* O_TRUNC on the target itself
            ELSE tmp' = "partial" /\ UNCHANGED target
Write == /\ pc = "writing" /\ written < Chunks /\ written' = written + 1
         /\ IF Direct THEN target' = (IF written + 1 = Chunks THEN "new" ELSE "partial") /\ UNCHANGED tmp
            ELSE tmp' = (IF written + 1 = Chunks THEN "complete" ELSE "partial") /\ UNCHANGED target
         /\ UNCHANGED pc
Sync ==  /\ pc = "writing" /\ written = Chunks /\ pc' = "synced" /\ UNCHANGED <<target, tmp, written>>
Rename == /\ pc = "synced" /\ ~Direct /\ tmp = "complete"
          /\ target' = "new" /\ tmp' = "none" /\ pc' = "done" /\ UNCHANGED written
Finish == /\ pc = "synced" /\ Direct /\ pc' = "done" /\ UNCHANGED <<target, tmp, written>>
Kill ==  /\ pc \notin {"done", "killed"} /\ pc' = "killed" /\ UNCHANGED <<target, tmp, written>>

Next == Open \/ Write \/ Sync \/ Rename \/ Finish \/ Kill
Spec == Init /\ [][Next]_vars

\* C13/C14: the on-disk copy is at every instant a complete version
DiskAlwaysComplete == target \in {"old", "new"} \/ (InitiallyAbsent /\ target = "absent")
\* a finished replacement installed the new version
DoneMeansNew == pc = "done" => target = "new"
=============================================================================
