----------------------------- MODULE Lifecycle -----------------------------
(* EXT5 (extension check, not a listed property).  Life cycle of a
   dnsserver.Server (internal/dnsserver: ServerBase, ServerDNS, ServerTLS,
   ServerHTTPS, ServerQUIC, ServerDNSCrypt).

   What the documentation promises (dnsserver.go, serverbase.go, error.go):
     "Start starts the server, exits immediately if it failed to start
      listening.  Start returns once all servers are considered up."
     "Shutdown stops the server and waits for all active connections to close."
     "waitShutdown waits either until context deadline OR ServerBase.wg."
     "wg tracks active workers (listeners or query processing).  Shutdown
      won't finish until there's at least one active worker."
     "shutdown marks the server as stopped and closes active listeners."
     ErrServerAlreadyStarted "signals that server has been already started",
     ErrServerNotStarted "signals that server has been already stopped.  Can be
      returned by Server.Shutdown."

   One action per step the code takes:
     Start / StartFail        Start on a new server: listeners up, started = true / listen error
     StartWhileStarted        Start with started = true          -> ErrServerAlreadyStarted
     ShutdownWhileNotStarted  Shutdown on a server never started -> ErrServerNotStarted
     ShutdownTwice            Shutdown after shutdown() ran      -> ErrServerNotStarted
     ShutdownCall(c)          Shutdown(ctx) is called on a started server (c: has a deadline or not)
     ShutdownBegin            shutdown(): under mu, started = false, closeListeners
     CtxExpire                the deadline of that context passes
     ShutdownWaitDone         waitShutdown: wg reached zero          -> returns nil
     ShutdownDeadline         waitShutdown: ctx.Done() was selected  -> returns ctx.Err()
     Overdue                  (environment) the grace period after the deadline is over and
                              Shutdown could not return: only a defective server enables it
     Send(q)                  a client puts query q on the wire towards the server's address
     Accept(q)                the serve loop took q from an OPEN listener; wg.Add(1)
     EnterHandler(q)          the worker calls Handler.ServeDNS
     ExitHandler(q, w)        the handler has written (w: the write succeeded) and returns; wg.Done

   Not promised, hence not an invariant: whether a request that is in flight
   when Shutdown begins still gets its answer (ExitHandler admits both).

   Defect flags (sanity configurations; all FALSE is the documented behaviour):
     DefectNoWait          Shutdown returns nil without waiting for the handlers
     DefectLateClose       the started flag is cleared first, the listeners are closed only when
                           Shutdown returns: a request slips in after ShutdownBegin
     DefectIgnoreDeadline  waitShutdown ignores ctx.Done()
     DefectDoubleNil       a second Shutdown returns nil instead of ErrServerNotStarted          *)
EXTENDS Naturals, FiniteSets, TLC

CONSTANTS Req,                 \* request ids
          CtxKinds,            \* subset of {"nodeadline", "open"}: contexts handed to Shutdown
          MaxMisuse,           \* bound on misuse calls (keeps the graph finite)
          DefectNoWait, DefectLateClose, DefectIgnoreDeadline, DefectDoubleNil

VARIABLES srv,       \* "new" | "started" | "stopping" | "stopped"
          lopen,     \* the listeners are open (a datagram / connection can be taken from them)
          req,       \* [Req -> "idle" | "sent" | "accepted" | "handler" | "answered" | "failed"]
          sentIn,    \* ghost: [Req -> state of srv when the query was put on the wire, or "none"]
          call,      \* the Shutdown call on the started server: "none" | "called" | "begun" | "returned"
          ctx,       \* its context: "none" | "nodeadline" | "open" (deadline ahead) | "done"
          res,       \* its result: "none" | "nil" | "ctx"
          last,      \* the most recent Start/Shutdown call with its answer (decision table)
          nmis,      \* number of misuse calls so far
          overdue    \* the environment saw the grace period after the deadline pass without a return

vars == <<srv, lopen, req, sentIn, call, ctx, res, last, nmis, overdue>>

SrvStates == {"new", "started", "stopping", "stopped"}
ReqStates == {"idle", "sent", "accepted", "handler", "answered", "failed"}
NoCall == [call |-> "none", st |-> "none", res |-> "none"]

Running == {q \in Req : req[q] \in {"accepted", "handler"}}     \* what wg counts

\* ---------------------------------------------------------------- decision table (d)
\* Written from the doc comments: the set of admitted answers of a call made in a state.
Decision(c, st) ==
    IF c = "Start" THEN (CASE st = "new" -> {"ok", "listenerr"}
                           [] st = "started" -> {"already"}
                           [] OTHER -> {"ok", "listenerr", "already"})        \* restart: not documented
    ELSE (CASE st = "started" -> {"proceeds"}
            [] OTHER -> {"notstarted"})

Init == /\ srv = "new" /\ lopen = FALSE
        /\ req = [q \in Req |-> "idle"] /\ sentIn = [q \in Req |-> "none"]
        /\ call = "none" /\ ctx = "none" /\ res = "none"
        /\ last = NoCall /\ nmis = 0 /\ overdue = FALSE

\* ---------------------------------------------------------------- Start / Shutdown
Start == /\ srv = "new"
         /\ srv' = "started" /\ lopen' = TRUE
         /\ last' = [call |-> "Start", st |-> "new", res |-> "ok"]
         /\ UNCHANGED <<req, sentIn, call, ctx, res, nmis, overdue>>

StartFail == /\ srv = "new" /\ nmis < MaxMisuse
             /\ last' = [call |-> "Start", st |-> "new", res |-> "listenerr"]
             /\ nmis' = nmis + 1
             /\ UNCHANGED <<srv, lopen, req, sentIn, call, ctx, res, overdue>>

StartWhileStarted == /\ srv = "started" /\ nmis < MaxMisuse
                     /\ last' = [call |-> "Start", st |-> "started", res |-> "already"]
                     /\ nmis' = nmis + 1
                     /\ UNCHANGED <<srv, lopen, req, sentIn, call, ctx, res, overdue>>

ShutdownWhileNotStarted == /\ srv = "new" /\ nmis < MaxMisuse
                           /\ last' = [call |-> "Shutdown", st |-> "new", res |-> "notstarted"]
                           /\ nmis' = nmis + 1
                           /\ UNCHANGED <<srv, lopen, req, sentIn, call, ctx, res, overdue>>

ShutdownTwice == /\ srv \in {"stopping", "stopped"} /\ nmis < MaxMisuse
                 /\ last' = [call |-> "Shutdown", st |-> srv,
                             res |-> IF DefectDoubleNil THEN "nil" ELSE "notstarted"]
                 /\ nmis' = nmis + 1
                 /\ UNCHANGED <<srv, lopen, req, sentIn, call, ctx, res, overdue>>

ShutdownCall(c) == /\ srv = "started" /\ call = "none"
                   /\ call' = "called" /\ ctx' = c
                   /\ last' = [call |-> "Shutdown", st |-> "started", res |-> "proceeds"]
                   /\ UNCHANGED <<srv, lopen, req, sentIn, res, nmis, overdue>>

\* shutdown(): one critical section under mu
ShutdownBegin == /\ call = "called" /\ srv = "started"
                 /\ srv' = "stopping" /\ call' = "begun"
                 /\ lopen' = DefectLateClose
                 /\ UNCHANGED <<req, sentIn, ctx, res, last, nmis, overdue>>

CtxExpire == /\ ctx = "open" /\ call \in {"called", "begun"}
             /\ ctx' = "done"
             /\ UNCHANGED <<srv, lopen, req, sentIn, call, res, last, nmis, overdue>>

ShutdownWaitDone == /\ call = "begun"
                    /\ (DefectNoWait \/ Running = {})
                    /\ call' = "returned" /\ res' = "nil" /\ srv' = "stopped" /\ lopen' = FALSE
                    /\ UNCHANGED <<req, sentIn, ctx, last, nmis, overdue>>

ShutdownDeadline == /\ call = "begun" /\ ctx = "done" /\ ~DefectIgnoreDeadline
                    /\ call' = "returned" /\ res' = "ctx" /\ srv' = "stopped" /\ lopen' = FALSE
                    /\ UNCHANGED <<req, sentIn, ctx, last, nmis, overdue>>

\* Once the deadline has passed a return is urgent: the grace period can only
\* run out when the server has no way to return.
Overdue == /\ call = "begun" /\ ctx = "done" /\ ~overdue
           /\ ~ENABLED ShutdownDeadline /\ ~ENABLED ShutdownWaitDone
           /\ overdue' = TRUE
           /\ UNCHANGED <<srv, lopen, req, sentIn, call, ctx, res, last, nmis>>

\* ---------------------------------------------------------------- requests
Send(q) == /\ req[q] = "idle" /\ srv # "new"
           /\ req' = [req EXCEPT ![q] = "sent"]
           /\ sentIn' = [sentIn EXCEPT ![q] = srv]
           /\ UNCHANGED <<srv, lopen, call, ctx, res, last, nmis, overdue>>

Accept(q) == /\ req[q] = "sent" /\ lopen
             /\ req' = [req EXCEPT ![q] = "accepted"]
             /\ UNCHANGED <<srv, lopen, sentIn, call, ctx, res, last, nmis, overdue>>

EnterHandler(q) == /\ req[q] = "accepted"
                   /\ req' = [req EXCEPT ![q] = "handler"]
                   /\ UNCHANGED <<srv, lopen, sentIn, call, ctx, res, last, nmis, overdue>>

ExitHandler(q, w) == /\ req[q] = "handler"
                     /\ req' = [req EXCEPT ![q] = IF w THEN "answered" ELSE "failed"]
                     /\ UNCHANGED <<srv, lopen, sentIn, call, ctx, res, last, nmis, overdue>>

Next == \/ Start \/ StartFail \/ StartWhileStarted \/ ShutdownWhileNotStarted \/ ShutdownTwice
        \/ \E c \in CtxKinds : ShutdownCall(c)
        \/ ShutdownBegin \/ CtxExpire \/ ShutdownWaitDone \/ ShutdownDeadline \/ Overdue
        \/ \E q \in Req : Send(q) \/ Accept(q) \/ EnterHandler(q) \/ \E w \in BOOLEAN : ExitHandler(q, w)

Spec == Init /\ [][Next]_vars

\* the server takes its own steps and time passes; handlers may stay parked for ever
ServerFair == /\ WF_vars(ShutdownBegin) /\ WF_vars(ShutdownWaitDone) /\ WF_vars(ShutdownDeadline)
              /\ WF_vars(CtxExpire)
\* ... and every accepted request reaches its handler, every handler returns
HandlerFair == \A q \in Req : WF_vars(EnterHandler(q)) /\ WF_vars(\E w \in BOOLEAN : ExitHandler(q, w))

SpecServerFair == Spec /\ ServerFair
SpecAllFair == Spec /\ ServerFair /\ HandlerFair

\* ---------------------------------------------------------------- properties
TypeOK == /\ srv \in SrvStates /\ lopen \in BOOLEAN
          /\ req \in [Req -> ReqStates]
          /\ sentIn \in [Req -> SrvStates \cup {"none"}]
          /\ call \in {"none", "called", "begun", "returned"}
          /\ ctx \in {"none", "nodeadline", "open", "done"}
          /\ res \in {"none", "nil", "ctx"}
          /\ nmis \in 0..MaxMisuse /\ overdue \in BOOLEAN
          /\ (srv = "new" => call = "none" /\ ~lopen)
          /\ (srv = "stopped") = (call = "returned")
          /\ (srv = "stopping") = (call = "begun")

\* (a) Shutdown returned nil: nothing that wg counts is left, now or later.
ShutdownWaits == res = "nil" => Running = {}
NoHandlerStartAfterNil == [][res = "nil" => \A q \in Req : req'[q] = "handler" => req[q] = "handler"]_vars

\* (b) a context error only with a context that is done; no hanging past the deadline.
DeadlineBounds == /\ (res = "ctx" => ctx = "done")
                  /\ ~overdue

\* (c) a query sent after Shutdown has returned (either way) never gets anywhere.
NothingAfterStop == \A q \in Req : sentIn[q] = "stopped" => req[q] = "sent"

\* (d) every Start/Shutdown call got an answer the decision table admits.
MisuseErrors == last = NoCall \/ last.res \in Decision(last.call, last.st)

\* (e) after ShutdownBegin nothing new is accepted.
NoAcceptAfterBegin == \A q \in Req : sentIn[q] = "stopping" => req[q] = "sent"
AcceptOnlyWhileStarted == [][\A q \in Req : (req[q] = "sent" /\ req'[q] = "accepted") => srv = "started"]_vars

\* liveness: with a deadline Shutdown returns whatever the handlers do; without
\* one it returns if the handlers do.
ShutdownReturnsByDeadline == (call = "called" /\ ctx = "open") ~> (call = "returned")
ShutdownReturns == (call = "called") ~> (call = "returned")
=============================================================================
