SPECIFICATION TraceSpec
CONSTANTS
  Writers <- TraceWriters
  MaxPerWriter = 1000000
  TwoWrites = FALSE
  SharedBuffer = FALSE
POSTCONDITION TraceAccepted
CHECK_DEADLOCK FALSE
