------------------------- MODULE TraceBillStat -------------------------
(* Trace validation for C16: events recorded from the real RuntimeRecorder
   (harness/internal/billstat/c16_test.go) are replayed through the actions
   of BillStat.tla; after every action the model state must equal the state
   observed in the code, and all invariants of BillStat are evaluated on it. *)
EXTENDS BillStat

VARIABLE l
Trace == ndJsonDeserialize("trace.ndjson")
tvars == <<vars, l>>
E == Trace[l]

TraceInit == Init /\ l = 1

\* Fields are compared when the harness could observe them: the stepper on the
\* RuntimeRecorder sees r.records; the stepper that drives the real gRPC uploader
\* against an in-process backend sees what the backend committed and the error
\* Refresh returned.
Has(f) == f \in DOMAIN E
Observed == /\ (Has("pending") => pending' = E.pending)
            /\ delivered' = E.delivered
            /\ (Has("delivMeta") => delivMeta' = E.delivMeta)
            /\ (Has("err") => E.err = (E.ev = "UploadFail"))

Consume(e) == l <= Len(Trace) /\ E.ev = e /\ l' = l + 1

TraceReset == /\ Consume("Reset")
              /\ pending' = Empty
              /\ inflight' = [r \in Ref |-> Idle]
              /\ recorded' = [d \in Dev |-> 0] /\ delivered' = [d \in Dev |-> 0]
              /\ delivMeta' = [d \in Dev |-> 0] /\ lastMeta' = [d \in Dev |-> 0]
              /\ clock' = 0 /\ nref' = 0 /\ hist' = <<>>
              /\ pmax' = [d \in Dev |-> 0] /\ imax' = [r \in Ref |-> [d \in Dev |-> 0]]

TraceRecord == Consume("Record") /\ Record(E.d) /\ Observed
TraceRefreshReset == /\ Consume("RefreshReset") /\ RefreshReset(E.r) /\ Observed
                     /\ (Has("taken") => inflight'[E.r].m = E.taken)
\* A refresh that returned an error without having handed anything to the uploader
\* (RefreshReset and UploadFail in one step): whatever it took is back.
TraceRefreshAborted == /\ Consume("RefreshAborted") /\ ~inflight[E.r].busy
                       /\ UNCHANGED vars /\ Observed
TraceUploadOK == Consume("UploadOK") /\ UploadOK(E.r) /\ Observed /\ (Has("mutated") => ~E.mutated)
TraceUploadFail == Consume("UploadFail") /\ UploadFail(E.r) /\ Observed /\ (Has("mutated") => ~E.mutated)
\* Free-running stress: only the quiescent totals are observable.
TraceSummary == /\ Consume("Summary")
                /\ \A d \in Dev : E.delivered[d] + E.pending[d] = E.recorded[d]
                /\ UNCHANGED vars

TraceNext == TraceReset \/ TraceRecord \/ TraceRefreshReset \/ TraceRefreshAborted \/ TraceUploadOK \/ TraceUploadFail \/ TraceSummary
TraceSpec == TraceInit /\ [][TraceNext]_tvars

TraceAccepted ==
    LET d == TLCGet("stats").diameter IN
    IF d - 1 = Len(Trace) THEN TRUE ELSE Print(<<"STUCK", d, Len(Trace)>>, FALSE)
=============================================================================
