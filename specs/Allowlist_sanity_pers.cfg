SPECIFICATION Spec
CONSTANTS
  KeepHist = FALSE
  U = {1, 2}
  Readers = {"r1"}
  MaxRefresh = 2
  MaxReads = 2
  ModesUsed = {"ok", "http500", "noaddr"}
  Defect = "drops_pers"
VIEW view
INVARIANTS PersistentKept
CHECK_DEADLOCK FALSE
