SPECIFICATION Spec
CONSTANTS
  FilesSrc <- MCFiles
  MConfs <- MCConfsSmall
  UseRegister = FALSE
  Refreshers = {"r1"}
  InvalidCountries = {"A1", "ZZZ"}
  InvalidContinents = {"ZZ"}
  Serial = FALSE
  Defect = "noclear"
  KeepHist = FALSE
  MaxPut = 3
  MaxRefresh = 2
  MaxData = 2
VIEW view
INVARIANTS CacheAgreesWithDB
CHECK_DEADLOCK FALSE
