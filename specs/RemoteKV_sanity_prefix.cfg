SPECIFICATION Spec
CONSTANTS
  NS = {"a:", "b:", ""}
  Keys = {"k1", "k2"}
  Backings = {"map"}
  Caps = {2}
  MaxOps = 4
  GetSkipsPrefix = TRUE
  GetNoTouch = FALSE
  KeepHist = FALSE
VIEW view
INVARIANTS NamespaceIsolation
CHECK_DEADLOCK FALSE
