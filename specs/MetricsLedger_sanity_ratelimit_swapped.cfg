SPECIFICATION Spec
CONSTANTS
  Servers = {"s1", "s2"}
  Protos = {"dns", "dot"}
  Nets = {"udp", "tcp"}
  Fams = {"1", "0"}
  QTypes = {"A", "TYPE65280"}
  Rcodes = {"NOERROR", "3841"}
  ReqSizes = {40}
  RespSizes = {100}
  Durs = {5}
  Ups = {"u1", "u2"}
  FwdNets = {"udp", "tcp"}
  Errs = {"none", "deadline", "network"}
  CacheLens = {1, 3}
  MaxEvents = 2
  KeepHist = FALSE
  Variant = "ratelimit_swapped"
VIEW view
INVARIANTS ExactlyOnce
CHECK_DEADLOCK FALSE
