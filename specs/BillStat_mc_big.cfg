SPECIFICATION Spec
CONSTANTS
  KeepHist = FALSE
  Dev = {"d1", "d2", "d3"}
  Ref = {"r1", "r2"}
  MaxRecords = 6
  RemergeKeepsNewest = TRUE
  MaxRefreshes = 4
VIEW view
INVARIANTS TypeOK Conservation QuiescentConservation MetaBounded BatchMetaLatest
PROPERTY NoDoubleCount
CHECK_DEADLOCK FALSE
