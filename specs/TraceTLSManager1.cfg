SPECIFICATION TraceSpec
CONSTANTS
  Pairs = {"p1", "p2", "p3"}
  CertIds = {"A1", "A2", "B1", "B2", "AB1", "W1", "N1"}
  BadContents = {"garbage", "mismatch"}
  NTP = 1
  TicketContents = {1, 2, 3, 11, 12, 9, 0}
  MaxCfg = 1000
  MaxSess = 1000
  SNIs = {"a", "aU", "adot", "b", "xw", "xyw", "w", "unk", "empty", "ip"}
  Defect = "none"
  KeepHist = FALSE
  AllowRefreshFail = TRUE
  Atomic = TRUE
INVARIANTS TypeOK StoredNeverNil NoDuplicatePairs AllConfigsSameTickets KeysAreOneRead
POSTCONDITION TraceAccepted
CHECK_DEADLOCK FALSE
