--------------------------- MODULE TraceEcsCache ---------------------------
(* Per-event validation of histories recorded from the real handler stack with
   the ECS-aware cache (harness/internal/dnssvc/c05_test.go).  The property
   clauses of EcsCache.tla are evaluated on the observation; the coarse subnet
   comes from the Geo table logged with the Reset event.

   Event fields: client{addr,fam,loc}, opt, optsub, optloc, optfam, q, scoped,
   fwd ("none": upstream not called; "noecs": called without an option),
   rcode, written, content ("name" or "name@subnet"), echo ("none" or
   "addr/len/scope").                                                         *)
EXTENDS Naturals, Sequences, FiniteSets, TLC, Json

VARIABLES l, geo
Trace == ndJsonDeserialize("trace.ndjson")
E == Trace[l]

ZeroOf(f) == IF f = "v4" THEN "0.0.0.0/0" ELSE "::/0"
GeoOf(loc, f) == LET k == loc \o "|" \o f IN IF k \in DOMAIN geo THEN geo[k] ELSE ZeroOf(f)

\* the family and location that count: the ECS option's if it is valid, else the client's
FamOf(e) == IF e.opt \in {"valid", "zero"} THEN e.optfam ELSE e.client.fam
Up(e, s) == IF e.scoped /\ s # ZeroOf(FamOf(e)) THEN e.q \o "@" \o s ELSE e.q

\* subnets the middleware may use for this request
Allowed(e) ==
    IF e.opt = "zero" THEN {ZeroOf(FamOf(e))}
    ELSE IF e.opt = "valid"
         THEN (IF e.optloc # "unknown" THEN {GeoOf(e.optloc, e.optfam)}
               ELSE {GeoOf(e.client.loc, e.optfam), ZeroOf(e.optfam)})   \* option's place unknown: the client's, or none
    ELSE {GeoOf(e.client.loc, e.client.fam)}

Reasons(e) ==
    IF e.opt = "malformed"
    THEN (IF e.written /\ e.rcode = 1 THEN {} ELSE {"malformed ECS option not answered with FORMERR"})
         \cup (IF e.fwd = "none" THEN {} ELSE {"malformed ECS option reached the upstream"})
    ELSE
      \* exprc = 99: the upstream's own reply is malformed (bad ECS echo): failing the request is fine
      (IF e.exprc = 99 \/ (e.written /\ e.rcode = e.exprc) THEN {} ELSE {"not answered with the upstream's rcode for this name"})
      \cup (IF e.fwd = "none" \/ e.fwd \in Allowed(e) THEN {}
            ELSE {"subnet sent upstream is not the coarse subnet of the location (or the zero prefix when opted out)"})
      \cup (IF e.fwd = "none" \/ e.fwdscope = 0 THEN {} ELSE {"non-zero scope sent upstream"})
      \* every ECS option the upstream receives is the coarse subnet (or the zero prefix), however many the client sent
      \cup (IF \A i \in 1..Len(e.fwdall) : e.fwdall[i] \in Allowed(e) THEN {}
            ELSE {"a subnet supplied by the client reached the upstream"})
      \* (exprc = 99 with no content at all: a failed or truncated reply carries no answer, made for nobody)
      \cup (IF e.opt = "zero" /\ e.content # e.q /\ ~(e.exprc = 99 /\ e.content = "none")
            THEN {"opted-out client served an answer made for a subnet"} ELSE {})
      \cup (IF e.content \in {Up(e, s) : s \in Allowed(e)} \cup {e.q} \cup (IF e.exprc = 99 THEN {"none"} ELSE {}) THEN {}
            ELSE {"answer scoped to another subnet or family, or not an answer to this question"})
      \cup (IF e.exprc = 99 /\ (~e.written \/ e.rcode # 0) THEN {}
            ELSE IF e.opt \in {"valid", "zero"}
            THEN (IF e.echoaddr = e.optaddr /\ e.echolen = e.optlen /\ e.echoscope = e.optlen THEN {}
                  ELSE {"ECS echo is not the client's own prefix with scope = source length"})
            ELSE (IF e.echoaddr = "none" THEN {} ELSE {"ECS option in the response although the query had none"}))

TraceInit == l = 1 /\ geo = <<>>
TraceNext == /\ l <= Len(Trace) /\ l' = l + 1
             /\ IF E.ev = "Reset" THEN geo' = E.geo
                ELSE /\ UNCHANGED geo
                     /\ LET r == Reasons(E) IN IF r = {} THEN TRUE ELSE PrintT(<<"NONCONF", l, r>>)
TraceSpec == TraceInit /\ [][TraceNext]_<<l, geo>>
TraceAccepted == LET d == TLCGet("stats").diameter IN
    IF d - 1 = Len(Trace) THEN TRUE ELSE PrintT(<<"STUCK", d, Len(Trace)>>) /\ FALSE
=============================================================================
