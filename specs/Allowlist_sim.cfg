SPECIFICATION Spec
CONSTANTS
  KeepHist = TRUE
  U = {1, 2, 3, 4, 5}
  Readers = {"r1"}
  MaxRefresh = 10
  MaxReads = 0
  ModesUsed = {"ok", "http500", "garbage", "notarray", "badaddr", "truncated", "reset", "null", "noaddr", "trailing"}
  Defect = "none"
CONSTRAINT EmitHist
CHECK_DEADLOCK FALSE
