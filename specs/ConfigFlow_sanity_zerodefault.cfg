SPECIFICATION Spec
CONSTANTS
  Defect = "zerodefault"
  MaxChanges = 1
INVARIANT ZeroIsMeaningful
CHECK_DEADLOCK FALSE
