SPECIFICATION Spec
CONSTANTS
  Defect = "zerodefault"
  MaxChanges = 1
  FocusKeys = {}
INVARIANT ZeroIsMeaningful
CHECK_DEADLOCK FALSE
