SPECIFICATION Spec
CONSTANTS
  Defect = "drop"
  MaxChanges = 1
INVARIANT Reaches
CHECK_DEADLOCK FALSE
