SPECIFICATION Spec
CONSTANTS
  Defect = "drop"
  MaxChanges = 1
  FocusKeys = {}
INVARIANT Reaches
CHECK_DEADLOCK FALSE
