SPECIFICATION SimSpec
CONSTANTS
  Pairs = {"p1", "p2", "p3"}
  CertIds = {"A1", "A2", "B1", "B2", "AB1", "W1", "N1"}
  BadContents = {"garbage", "mismatch"}
  NTP = 2
  TicketContents = {1, 2, 3, 11, 12, 9, 0}
  MaxCfg = 3
  MaxSess = 6
  SNIs = {"a", "aU", "adot", "b", "xw", "xyw", "w", "unk", "empty", "ip"}
  Defect = "none"
  KeepHist = TRUE
  AllowRefreshFail = FALSE
  Atomic = TRUE
CONSTRAINT EmitHist
CHECK_DEADLOCK FALSE
