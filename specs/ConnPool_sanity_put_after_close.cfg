SPECIFICATION Spec
CONSTANTS
  Callers = {"a", "b"}
  MaxConn = 2
  CapSet = {1}
  TmoSet = {1}
  MaxTime = 3
  MaxOps = 5
  Defect = "put_after_close"
  KeepHist = FALSE
VIEW view
INVARIANTS ClosedForGood
CHECK_DEADLOCK FALSE
