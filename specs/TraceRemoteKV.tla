--------------------------- MODULE TraceRemoteKV ---------------------------
(* EXT3: trace validation of the real remotekv.KeyNamespace, remotekv.Cache
   (over a real agdcache.LRU) and remotekv.Empty, driven by
   harness/internal/remotekv/ext3_test.go.

   Events (one per call on the real objects):
     Reset{backing, cap}              a new wrapped store; backing "map" is the
                                      harness's recording map (it also reports
                                      the raw key it was handed), "lru" is
                                      remotekv.Cache over agdcache.LRU(cap),
                                      "empty" is remotekv.Empty
     Set{n, k, v, err, raw}           Set through the namespace with prefix n
     Get{n, k, ok, v, err, raw}       Get through the namespace with prefix n
   n = "" is a call on the wrapped store itself.  raw is the key that reached
   the recording map ("" when the backing cannot report it).

   The model state follows the spec's actions; what the code returned is
   compared with the model's result and the properties of RemoteKV.tla are
   evaluated on the observed result.  A line that does not conform is reported
   (NONCONF) and does not block the rest of the trace.                        *)
EXTENDS RemoteKV

VARIABLE l
Trace == ndJsonDeserialize("trace.ndjson")
E == Trace[l]
tvars == <<vars, l>>

Consume(e) == l <= Len(Trace) /\ E.ev = e /\ l' = l + 1
Report(rs) == IF rs = {} THEN TRUE ELSE PrintT(<<"NONCONF", l, rs>>)
R(cond, msg) == IF cond THEN {} ELSE {msg}

TReset == /\ Consume("Reset")
          /\ ents' = <<>> /\ cfg' = [backing |-> E.backing, cap |-> E.cap]
          /\ last' = [x \in {} |-> NoVal] /\ since' = [x \in {} |-> {}]
          /\ res' = NoRes /\ nops' = 0 /\ hist' = <<>>

TSet == /\ Consume("Set")
        /\ Set(E.n, E.k, E.v)
        /\ Report(R(~E.err, "Set returned an error")
                  \cup R(E.raw = "" \/ E.raw = E.n \o E.k, "the wrapped store was not handed prefix + key")
                  \cup R(PCapBound(ents', cfg'), "CapBound"))

TGet == /\ Consume("Get")
        /\ Get(E.n, E.k)
        /\ LET obs == [res' EXCEPT !.ok = E.ok, !.v = E.v] IN
           Report(R(~E.err, "Get returned an error")
                  \cup R(E.ok = res'.ok /\ E.v = res'.v, "result differs from the model's")
                  \cup R(E.raw = "" \/ E.raw = E.n \o E.k, "the wrapped store was not asked for prefix + key")
                  \cup R(PIsolation(obs), "NamespaceIsolation")
                  \cup R(PReadYourWrite(obs, cfg), "ReadYourWrite")
                  \cup R(PLRUExact(obs, cfg), "LRUExact")
                  \cup R(PEmpty(obs, ents', cfg), "EmptyNeverHits"))

TraceInit == Init /\ l = 1
TraceNext == TReset \/ TSet \/ TGet
TraceSpec == TraceInit /\ [][TraceNext]_tvars
TraceAccepted == LET d == TLCGet("stats").diameter IN
    IF d - 1 = Len(Trace) THEN TRUE ELSE PrintT(<<"STUCK", d, Len(Trace)>>) /\ FALSE
=============================================================================
