SPECIFICATION Spec
CONSTANTS
  FullProduct = FALSE
  Defect = "fallback_to_addrs"
INVARIANTS PrecedenceRespected
