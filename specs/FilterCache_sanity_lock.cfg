SPECIFICATION Spec
CONSTANTS
  Req = {"r1", "r2"}
  MaxVer = 2
  Listed <- Listed2
  Locking = "none"
  Reshape = TRUE
  MaxRounds = 3
INVARIANTS TransparentShape NoStaleAfterRefresh
CHECK_DEADLOCK FALSE
