SPECIFICATION Spec
CONSTANTS
  Callers = {"a", "b"}
  MaxConn = 3
  CapSet = {1, 2}
  TmoSet = {0, 2}
  MaxTime = 4
  MaxOps = 7
  Defect = "none"
  KeepHist = FALSE
VIEW view
INVARIANTS TypeOK Ledger QueuedAreMade NoDoubleHandout NoClosedHandout NoExpiredHandout StampOnGet CapacityBound CloseOnce ClosedForGood ClosedMeansErrClosed NoPanic
CHECK_DEADLOCK FALSE
