SPECIFICATION Spec
CONSTANTS
  KeepHist = TRUE
  Dev = {"d1", "d2", "d3"}
  Ref = {"r1", "r2"}
  MaxRecords = 12
  RemergeKeepsNewest = TRUE
  MaxRefreshes = 6
CONSTRAINT EmitHist
CHECK_DEADLOCK FALSE
