SPECIFICATION TraceSpec
CONSTANTS
  Lists = {"adguard", "other"}
  Counted = "adguard"
  Texts = {"t1", "t2", "t3"}
  Ref = {"r1", "r2"}
  MaxCollects = 1000000
  MaxRefreshes = 1000000
  KeepHist = FALSE
  Variant = "code"
INVARIANTS Conservation QuiescentConservation HitsIsCurrentSet GaugeShowsCurrentSet
POSTCONDITION TraceAccepted
CHECK_DEADLOCK FALSE
