-------------------------- MODULE TraceSizeStack --------------------------
(* C08 at stack level: replies received by a UDP client from a real plain-DNS
   server in front of the COMPLETE handler stack of dnssvc.NewHandlers (ECS
   cache included), recorded by the C05 laboratory.  Each line: what the
   client advertised (qopt, qsize), the configured maximum (cfg) and what
   arrived (wire, tc, an, ropt, roptsize, roptver).  The clauses are those of
   Normalize.tla for the UDP transport, evaluated on the observation:

     C_Len      wire <= max(512, min(advertised, configured))
     C_TCEmpty  a truncated reply has an empty answer section
     C_OptEcho  a query with an OPT record gets one back, carrying the
                client's own UDP size and version 0 -- whatever the layers
                above the server did with the request message
     C_NoOpt    a query without OPT gets none                                *)
EXTENDS Naturals, Sequences, TLC, Json

VARIABLE l
Trace == ndJsonDeserialize("trace.ndjson")
Max2(a, b) == IF a > b THEN a ELSE b
Min2(a, b) == IF a < b THEN a ELSE b
Limit(e) == Max2(512, Min2(IF e.qopt THEN e.qsize ELSE 0, e.cfg))

Reasons(e) ==
    IF e.wire = 0 THEN {}      \* no reply arrived: nothing to measure (replies are C01's)
    ELSE (IF e.wire <= Limit(e) THEN {} ELSE {"C_Len"})
      \cup (IF e.tc /\ e.an # 0 THEN {"C_TCEmpty"} ELSE {})
      \cup (IF e.qopt /\ ~(e.ropt /\ e.roptsize = e.qsize /\ e.roptver = 0) THEN {"C_OptEcho"} ELSE {})
      \cup (IF ~e.qopt /\ e.ropt THEN {"C_NoOpt"} ELSE {})

TraceInit == l = 1
TraceNext == /\ l <= Len(Trace) /\ l' = l + 1
             /\ LET r == Reasons(Trace[l]) IN IF r = {} THEN TRUE ELSE PrintT(<<"NONCONF", l, r>>)
TraceSpec == TraceInit /\ [][TraceNext]_l
TraceAccepted == LET d == TLCGet("stats").diameter IN
    IF d - 1 = Len(Trace) THEN TRUE ELSE PrintT(<<"STUCK", d, Len(Trace)>>) /\ FALSE
=============================================================================
