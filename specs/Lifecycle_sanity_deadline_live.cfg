SPECIFICATION SpecServerFair
CONSTANTS
  Req = {1}
  CtxKinds = {"nodeadline", "open"}
  MaxMisuse = 0
  DefectNoWait = FALSE
  DefectLateClose = FALSE
  DefectIgnoreDeadline = TRUE
  DefectDoubleNil = FALSE
PROPERTIES ShutdownReturnsByDeadline
CHECK_DEADLOCK FALSE
