SPECIFICATION Spec
CONSTANTS
  Servers = {"adult", "safe"}
  MaxV = 2
  AnyConf = FALSE
  Defect = "clear_on_fail"
  KeepHist = FALSE
  Atomic = FALSE
VIEW view
INVARIANTS TypeOK
PROPERTIES FailedRefreshKeepsOld
CHECK_DEADLOCK FALSE
