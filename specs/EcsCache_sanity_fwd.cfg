SPECIFICATION Spec
CONSTANTS
  Loc = {"AU", "BE", "unknown"}
  Fam = {"v4"}
  Quest = {"qs", "qu"}
  Scoped = {"qs"}
  ScopedShared = FALSE
  ForwardClient = TRUE
INVARIANTS UpstreamSubnetIsCoarse DeclinedGetsZero RegionalAnswers EchoIffValidECS MalformedIsFORMERR
CHECK_DEADLOCK FALSE
