SPECIFICATION FullSpec
CONSTANTS
  MaxPats = 3
  Defect = "none"
POSTCONDITION TraceAccepted
CHECK_DEADLOCK FALSE
