SPECIFICATION Spec
CONSTANTS
  KeepHist = TRUE
  Keys = {"k1", "k2", "k3", "k4"}
  TTL <- TTL4
  Cacheable <- Cacheable4
  MaxTime = 60
  KeyCollide = FALSE
  RoundMode = "nearest"
CONSTRAINT EmitHist
CHECK_DEADLOCK FALSE
