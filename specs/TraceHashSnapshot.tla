------------------------- MODULE TraceHashSnapshot -------------------------
(* Per-line validation for the lock-free side of C11.  Each line is one call of
   a reader of the real hashprefix.Storage (Hashes, MatchByPrefix, Matches) during
   which a Reset to another list was executed at the reader's k-th load of the
   map pointer.  AtomicRead of HashSnapshot.tla: the answer equals the answer of
   the list installed before the Reset or of the list installed by it.        *)
EXTENDS Naturals, Sequences, TLC, Json

VARIABLE l
Trace == ndJsonDeserialize("trace.ndjson")
Reasons(e) ==
    (IF e.panicked THEN {"the reader panicked when the list was reset during the call"} ELSE {})
    \cup (IF ~e.panicked /\ ~e.isold /\ ~e.isnew
          THEN {"the answer is that of neither the list before nor the list after the reset (no single snapshot)"} ELSE {})
    \cup (IF ~e.panicked /\ e.fired = FALSE /\ ~e.isold
          THEN {"no reset happened during the call but the answer is not that of the installed list"} ELSE {})
TraceInit == l = 1
TraceNext == /\ l <= Len(Trace) /\ l' = l + 1
             /\ LET r == Reasons(Trace[l]) IN IF r = {} THEN TRUE ELSE PrintT(<<"NONCONF", l, r>>)
TraceSpec == TraceInit /\ [][TraceNext]_l
TraceAccepted == LET d == TLCGet("stats").diameter IN
    IF d - 1 = Len(Trace) THEN TRUE ELSE PrintT(<<"STUCK", d, Len(Trace)>>) /\ FALSE
=============================================================================
