SPECIFICATION TraceSpec
CONSTANTS
  MIN = 512
  MAX = 65535
  ReqSizes = {0}
  CfgMaxes = {0}
  MaxAn = 0
  MaxNs = 0
  MaxEx = 0
  Defects = {}
POSTCONDITION TraceAccepted
CHECK_DEADLOCK FALSE
