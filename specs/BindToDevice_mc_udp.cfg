SPECIFICATION Spec
CONSTANTS
  KeepHist = FALSE
  Ids = {"a"}
  KnownIfaces = {"eth1"}
  UnknownIface = "nx"
  Ports = {53}
  W = 1
  BufInit = 1
  MaxReg = 3
  MaxItems = 2
  Kinds = {"udp"}
  Defect = "none"
VIEW view
INVARIANTS TypeOK RegistrationSound DecisionConsistent DispatchBySubnet NoStrayDelivery NoLeak QueuesExact HoldExact NoLostWakeup WriteBackSource
CHECK_DEADLOCK FALSE
PROPERTY ClosedGetsNothing
