SPECIFICATION TraceSpec
CONSTANTS
  Alphabet = {"a"}
  MaxLabels = 1
  IcannSuffix <- TrIcann
  PrivateSuffix <- TrPrivate
  ListIds = {"sb", "pc"}
  ListNames <- McListNames
  MaxList = 1
  Hosts <- SimHosts
  QTypes = {"A"}
  PrefixStrs <- McPrefixStrs
  MaxStrs = 1
  H <- McH
  Variant = "ok"
  KeepHist = FALSE
INVARIANTS TypeOK MatchIffListed PrefixQueryExact MalformedRefused ResetIsTotal
POSTCONDITION TraceAccepted
CHECK_DEADLOCK FALSE
