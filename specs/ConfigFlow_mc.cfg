SPECIFICATION Spec
CONSTANTS
  Defect = "none"
  MaxChanges = 2
  FocusKeys = {}
INVARIANTS Reaches ZeroIsMeaningful GatedByOwnFlag PartitionExact OrderPreserved
PROPERTY NoCrossTalk
CHECK_DEADLOCK FALSE
