SPECIFICATION Spec
CONSTANTS
  Defect = "none"
  MaxChanges = 2
INVARIANTS Reaches ZeroIsMeaningful GatedByOwnFlag PartitionExact OrderPreserved
PROPERTY NoCrossTalk
CHECK_DEADLOCK FALSE
