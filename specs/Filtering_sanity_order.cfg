SPECIFICATION Spec
CONSTANTS
  Part = "safety"
  Variant = "adult_first"
INVARIANTS SafetyOrder
