SPECIFICATION Spec
CONSTANTS
  RosSet = {TRUE, FALSE}
  RndSet = {TRUE, FALSE}
  Joins = FALSE
  MaxTick = 8
  MaxRefr = 8
  MaxShut = 2
  CtxKinds = {"nodeadline", "open"}
  Defect = "none"
  KeepHist = TRUE
CONSTRAINT EmitHist
CHECK_DEADLOCK FALSE
