SPECIFICATION DumpSpec
CONSTANTS
  ZoneNames = {"UTC", "Asia/Kolkata", "Asia/Kathmandu", "Pacific/Kiritimati", "Etc/GMT+12", "America/Phoenix", "Europe/Berlin", "America/New_York", "Australia/Lord_Howe"}
  WeekNames = {"nil", "zero", "whole", "work", "late", "early", "point", "almost", "night", "sun", "mon", "sat", "notsun", "stairs"}
  Days = {13, 14, 15, 16, 17, 18, 19, 20, 21, 69, 70, 71, 91, 98, 99, 279, 280, 301, 302, 308}
  Minutes = {0, 1, 59, 60, 90, 150, 180, 239, 240, 539, 540, 1019, 1020, 1380, 1439}
  Secs = {0, 59}
  Bounds = {0, 1, 600, 1439, 1440, 1441, 65535}
  ElapsedNotWall = FALSE
  UTCWeekday = FALSE
  NoZone = FALSE
  ClosedEnd = FALSE
  OpenStart = FALSE
  ZeroIsWholeDay = FALSE
  NilIsWholeDay = FALSE
  LaxEnd = FALSE
  StrictOrder = FALSE
CHECK_DEADLOCK FALSE
