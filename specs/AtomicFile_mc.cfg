SPECIFICATION Spec
CONSTANTS
  Chunks = 3
  Direct = FALSE
  InitiallyAbsent = FALSE
INVARIANTS DiskAlwaysComplete DoneMeansNew
CHECK_DEADLOCK FALSE
