----------------------- MODULE TraceMetricsLedger -----------------------
(* Trace validation for EXT11 (b): every event delivered to the real metrics
   listeners (harness/internal/dnsserver/prometheus/ext11_test.go) is replayed
   through Deliver of MetricsLedger.tla.  The harness reads every series of the
   registry back after each event; the line carries the per-series DELTAS, the
   absolute values and the gauges.  The deltas must be exactly Effect(event),
   the absolute values exactly the ledger, the gauges exactly the model's.
   Events of the concurrent leg (conc = TRUE) are delivered by several
   goroutines at once: only the final Summary is compared.                   *)
EXTENDS MetricsLedger

VARIABLE l
Trace == ndJsonDeserialize("trace.ndjson")
tvars == <<vars, l>>
E == Trace[l]

Kinds == {"Request", "InvalidMsg", "Error", "Panic", "Quic", "RateLimited", "Allowlisted", "CacheHit", "CacheMiss",
          "CacheAdded", "Forward", "Status"}
ToSet(a) == {a[j] : j \in 1..Len(a)}
LedSet(f) == {M(key[1], key[2], f[key]) : key \in DOMAIN f}
EvOf == Ev(E.ev, E.s, E.p, E.nw, E.fam, E.qt, E.rc, E.rq, E.rs, E.dur, E.u, E.err, E.n)

TraceInit == Init /\ l = 1

TraceReset == /\ l <= Len(Trace) /\ E.ev = "Reset" /\ l' = l + 1
              /\ led' = Empty /\ gauge' = Empty /\ cnt' = Empty
              /\ lastAdded' = NoneN /\ lastStatus' = [u \in Ups |-> NoneN]
              /\ last' = NoEv /\ nev' = 0 /\ hist' = <<>>

TraceDeliver == /\ l <= Len(Trace) /\ E.ev \in Kinds /\ l' = l + 1
                /\ Deliver(EvOf)
                /\ \/ E.conc
                   \/ /\ ToSet(E.delta) = Effect(EvOf)
                      /\ ToSet(E.abs) = LedSet(led')
                      /\ ToSet(E.gauges) = LedSet(gauge')

TraceSummary == /\ l <= Len(Trace) /\ E.ev = "Summary" /\ l' = l + 1
                /\ ToSet(E.abs) = LedSet(led)
                /\ ToSet(E.gauges) = LedSet(gauge)
                /\ UNCHANGED vars

TraceNext == TraceReset \/ TraceDeliver \/ TraceSummary
TraceSpec == TraceInit /\ [][TraceNext]_tvars

\* (a Reset starts a new registry)
TraceNotARequest == [][last'.kind = "none" \/ NotAReqStep]_tvars
TraceOnlyOwnMetrics == [][last'.kind = "none" \/ OwnStep]_tvars

TraceAccepted ==
    LET d == TLCGet("stats").diameter IN
    IF d - 1 = Len(Trace) THEN TRUE ELSE Print(<<"STUCK", d, Len(Trace)>>, FALSE)
=============================================================================
