SPECIFICATION Spec
CONSTANTS
  MaxPats = 2
  Defect = "empty_is_all"
INVARIANTS EmptyRejected
CHECK_DEADLOCK FALSE
