SPECIFICATION Spec
CONSTANTS
  NS = {"a:", "b:", ""}
  Keys = {"k1", "k2", "k3"}
  Backings = {"map", "lru", "empty"}
  Caps = {1, 2, 3}
  MaxOps = 40
  GetSkipsPrefix = FALSE
  GetNoTouch = FALSE
  KeepHist = TRUE
CONSTRAINT EmitHist
CHECK_DEADLOCK FALSE
