SPECIFICATION Spec
CONSTANTS
  Defect = "none"
INVARIANTS TypeOK ImplWithinContract BlockedLeavesNoTrace AllowOverridesBlock ExceptionUnblocks UnblockedProcessedNormally AnonymousNotBilled
PROPERTIES UnblockedEventuallyAnswered BlockedStaysDropped
CHECK_DEADLOCK FALSE
