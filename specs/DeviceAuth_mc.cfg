SPECIFICATION Spec
CONSTANTS
  FullProduct = FALSE
  Defect = "none"
INVARIANTS TypeOK ContractNonEmpty ImplWithinContract RecognisedImpliesValidChannel RecognisedImpliesLiveMembership DoHOnlyNeverElsewhere DoHOnlyNeedsRightPassword BadPasswordNeverRecognised AuthFailureIsAnonymousDownstream DNSCryptAlwaysAnonymous PrecedenceRespected DownstreamOnlyRecognised
