---------------------------- MODULE TraceAccess ----------------------------
(* C10: per-line validation of what the real code did.

   Every line of trace.ndjson is one request (or one call at the unit level):

     level   "unit_global"   access.Global.IsBlockedIP / IsBlockedHost
             "unit_profile"  access.DefaultProfile.IsBlocked
             "stack"         a handler of dnssvc.NewHandlers (real ratelimitmw,
                             initial, preservice, mainmw, preupstream, cache)
     vec     the abstract vector (record of Access!Vectors) computed by the
             harness' abstraction function from the concrete input
     got     unit levels: the BOOLEAN the function returned;
             stack: TRUE iff nothing at all was observed (no answer, no error)
     eff     array over Access!Effects: what the recording fakes and the
             recording ResponseWriter saw for this request
     err     error text returned by the handler ("" if none); the DNS servers
             answer SERVFAIL when a handler returns an error, so it counts as
             an answer
     conc    the concrete input (not interpreted here; replay information)

   A line that does not conform is reported with PrintT(<<"NONCONF", l, r>>)
   and does not stop the run.                                               *)
EXTENDS Access, Json, Sequences

VARIABLE l
Trace == ndJsonDeserialize("trace.ndjson")
tvars == <<vars, l>>

SeqToSet(s) == {s[i] : i \in 1..Len(s)}

If(c, s) == IF c THEN {s} ELSE {}

Reasons(e) ==
    LET x == e.vec
        b == Blocked(x)
        E == SeqToSet(e.eff)
        answered == "written" \in E \/ e.err # ""
    IN
    IF x \notin Vectors THEN {"abstract vector is not in Access!Vectors"}
    ELSE IF e.level \in {"unit_global", "unit_profile"}
    THEN If(e.got # b, "IsBlocked result differs from the documented decision")
         \cup If(AllowPremise(x) /\ e.got, "an allowed subnet or ASN did not take precedence over a blocked one")
    ELSE If(~(E \subseteq Effects), "unknown effect recorded")
         \cup If(b /\ "written" \in E, "access-blocked request was answered")
         \cup If(b /\ e.err # "", "access-blocked request made the handler return an error (the server answers SERVFAIL)")
         \cup If(b /\ (E \ {"written"}) # {}, "access-blocked request reached a later stage")
         \cup If(~b /\ ~answered, "a request that no rule rejects got no response")
         \cup If(AllowPremise(x) /\ ~answered, "an allowed subnet or ASN did not take precedence over a blocked one")
         \cup If(e.got # (E = {} /\ e.err = ""), "inconsistent line: got must equal (eff = {} and no error)")
         \cup If(~x.prof /\ (E \cap {"billed", "logged"}) # {}, "request without a profile was billed or logged")

TraceInit == /\ v = [gip |-> FALSE, ghost |-> "none", prof |-> FALSE, anet |-> FALSE, bnet |-> FALSE,
                     aasn |-> FALSE, basn |-> FALSE, phost |-> "none"]
             /\ pc = "recv" /\ eff = {} /\ l = 1
TraceNext == /\ l <= Len(Trace) /\ l' = l + 1 /\ UNCHANGED vars
             /\ LET r == Reasons(Trace[l]) IN IF r = {} THEN TRUE ELSE PrintT(<<"NONCONF", l, r>>)
TraceSpec == TraceInit /\ [][TraceNext]_tvars
TraceAccepted == LET d == TLCGet("stats").diameter IN
    IF d - 1 = Len(Trace) THEN TRUE ELSE PrintT(<<"STUCK", d, Len(Trace)>>) /\ FALSE
=============================================================================
