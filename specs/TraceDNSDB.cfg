SPECIFICATION TraceSpec
CONSTANTS
  Keys = {"k1", "k2", "k3", "k4", "k5", "k6"}
  RowSets = {{"ra"}}
  Rec = {"p1", "p2", "p3"}
  Dmp = {"d1", "d2"}
  MaxSize = 3
  MaxRecords = 100000000
  MaxDumps = 100000000
  KeepHist = FALSE
  Variant = "code"
INVARIANTS Conservation LossOnlyInRace SizeBound GaugeIsSize
POSTCONDITION TraceAccepted
CHECK_DEADLOCK FALSE
