--------------------------- MODULE TraceQueryLog ---------------------------
(* C15 part A: per-line validation of requests sent through the real
   ratelimitmw -> mainmw chain with the real querylog.FileSystem and a
   recording billing fake behind it
   (harness/internal/dnssvc/internal/mainmw/c15_test.go).  Each line:
     a  the abstract vector,  q  the request's own facts,
     o  what was found in the JSONL file / billing recorder for this request.
   A second kind of line, ev = "orphan", reports a log line or billing record
   that belongs to no request that was sent.                                 *)
EXTENDS QueryLog, Json

VARIABLE l
Trace == ndJsonDeserialize("trace.ndjson")
tvars == <<vars, l>>

ToSet(s) == {s[i] : i \in 1..Len(s)}
Obs(e) == [logged |-> e.o.logged, billed |-> e.o.billed, entry |-> e.o.entry, keys |-> ToSet(e.o.keys),
           bill |-> e.o.bill]

Reasons(e) ==
    IF e.ev = "orphan" THEN {"a log line or billing record that belongs to no request"}
    ELSE LET o == Obs(e) IN
         (IF LoggedIffP(e.a, o) THEN {} ELSE {"LoggedIff"})
    \cup (IF BilledIffP(e.a, o) THEN {} ELSE {"BilledIff"})
    \cup (IF NothingForDroppedP(e.a, o) THEN {} ELSE {"NothingForDropped"})
    \cup (IF IPIffIPLogP(e.a, e.q, o) THEN {} ELSE {"IPIffIPLog"})
    \cup (IF EntryDescribesOwnRequestP(e.a, e.q, o) THEN {} ELSE {<<"EntryDescribesOwnRequest", WrongFields(e.a, e.q, o)>>})
    \cup (IF BillDescribesOwnRequestP(e.a, e.q, o) THEN {} ELSE {<<"BillDescribesOwnRequest", WrongBill(e.a, e.q, o)>>})
    \* and the observation is the one the implementation-shaped decision predicts
    \cup (IF e.a.fate = "undelivered" \/ (o.logged = Impl(e.a, e.q).logged /\ o.billed = Impl(e.a, e.q).billed)
          THEN {} ELSE {"differs from the modelled decision"})

TraceInit == /\ a = [attr |-> "anon", qlog |-> FALSE, iplog |-> FALSE, fate |-> "processed", outcome |-> "none",
                     proto |-> "dns", loc |-> FALSE]
             /\ q = [id |-> ""]
             /\ l = 1
TraceNext == /\ l <= Len(Trace) /\ l' = l + 1 /\ UNCHANGED vars
             /\ LET r == Reasons(Trace[l]) IN IF r = {} THEN TRUE ELSE PrintT(<<"NONCONF", l, r>>)
TraceSpec == TraceInit /\ [][TraceNext]_tvars
TraceAccepted == LET d == TLCGet("stats").diameter IN
    IF d - 1 = Len(Trace) THEN TRUE ELSE PrintT(<<"STUCK", d, Len(Trace)>>) /\ FALSE
=============================================================================
