----------------------- MODULE TraceConnLimitWiring -----------------------
(* C18, wiring level: one line per laboratory run of the listeners that
   dnssvc builds for a set of servers (plain DNS over TCP and DoT, bound to a
   socket address or through bind data with a listen configuration of its own)
   around ONE connlimiter.Limiter, with more stream connections opened than
   the stop threshold admits and every request held by a gate.

     SharedBound   the connections served at the same time, across all the
                   listeners, never exceed the stop threshold (ConnLimiter.tla:
                   counter <= Stop at every instant, for the one shared counter)
     AllServed     once the gate is opened every connection is served: the
                   ones kept waiting proceed when the others are gone          *)
EXTENDS Naturals, Sequences, TLC, Json

VARIABLE l
Trace == ndJsonDeserialize("trace.ndjson")
\* A second kind of line ("CloseWaiter"): a Close that starts while an Accept has found the counter full and
\* is about to wait.  CloseReleasesWaiters of ConnLimiter.tla: the accept returns (with the listener-closed
\* error), and so does the Close.
Reasons(e) ==
    IF e.ev = "CloseWaiter"
    THEN (IF e.fired /\ e.released /\ e.close_returned THEN {} ELSE {"CloseReleasesWaiters"})
    ELSE IF e.ev = "CloseRelease"
    \* a slot released AND the listener closed while its Accept was about to wait: the Accept returns and holds no
    \* slot (ConnLimiter.tla: a closed listener's Accept takes none), so another listener serves a new connection
    THEN (IF e.fired /\ e.released THEN {} ELSE {"CloseReleasesWaiters"})
         \cup (IF e.other_served THEN {} ELSE {"ClosedAcceptHoldsNoSlot"})
    ELSE (IF e.max_active <= e.stop THEN {} ELSE {"SharedBound"})
         \cup (IF e.served_all THEN {} ELSE {"AllServed"})
TraceInit == l = 1
TraceNext == /\ l <= Len(Trace) /\ l' = l + 1
             /\ LET r == Reasons(Trace[l]) IN IF r = {} THEN TRUE ELSE PrintT(<<"NONCONF", l, r>>)
TraceSpec == TraceInit /\ [][TraceNext]_l
TraceAccepted == LET d == TLCGet("stats").diameter IN
    IF d - 1 = Len(Trace) THEN TRUE ELSE PrintT(<<"STUCK", d, Len(Trace)>>) /\ FALSE
=============================================================================
