SPECIFICATION Spec
CONSTANTS
  Servers = {"adult", "safe"}
  MaxV = 2
  AnyConf = FALSE
  Defect = "silent_fail"
  KeepHist = FALSE
  Atomic = FALSE
VIEW view
INVARIANTS TypeOK
PROPERTIES RetNamesTheFailures
CHECK_DEADLOCK FALSE
