--------------------------- MODULE TracePipeline ---------------------------
(* Trace validation for the pipeline limit: handler Enter/Exit events recorded
   on a real ServerDNS (TCP and DoT) with MaxPipelineCount = k.               *)
EXTENDS Pipeline, Json

VARIABLES l, k
Trace == ndJsonDeserialize("trace.ndjson")
E == Trace[l]
tvars == <<vars, l, k>>
TraceInit == Init /\ l = 1 /\ k = 0
Step(e) == l <= Len(Trace) /\ E.ev = e /\ l' = l + 1
TReset == Step("Reset") /\ k' = E.k /\ sent' = 0 /\ rd' = 0 /\ active' = {} /\ done' = {}
TSend == Step("Send") /\ sent' = sent + E.n /\ UNCHANGED <<rd, active, done, k>>
\* the bound is the configured one of this segment, not the module constant
TEnter == /\ Step("Enter") /\ Cardinality(active) < k /\ E.q \notin active /\ E.q \notin done
          /\ active' = active \cup {E.q} /\ rd' = rd + 1 /\ UNCHANGED <<sent, done, k>>
TExit == Step("Exit") /\ E.q \in active /\ active' = active \ {E.q} /\ done' = done \cup {E.q}
         /\ UNCHANGED <<sent, rd, k>>
\* every query of the burst was answered exactly once with its own id
TEnd == /\ Step("End") /\ active = {} /\ E.dup = 0 /\ E.maxActive <= k
        /\ (E.strict => Cardinality(done) = sent /\ E.answered = sent)
        /\ E.answered <= sent
        /\ UNCHANGED <<vars, k>>
TraceNext == TReset \/ TSend \/ TEnter \/ TExit \/ TEnd
TraceSpec == TraceInit /\ [][TraceNext]_tvars
TraceBound == Cardinality(active) <= k \/ l = 1
TraceAccepted == LET d == TLCGet("stats").diameter IN
    IF d - 1 = Len(Trace) THEN TRUE ELSE PrintT(<<"STUCK", d, Len(Trace)>>) /\ FALSE
=============================================================================
