SPECIFICATION Spec
CONSTANTS
  MIN = 4
  MAX = 12
  ReqSizes = {0, 3, 4, 5, 8, 12}
  CfgMaxes = {0, 4, 6, 12}
  MaxAn = 14
  MaxNs = 2
  MaxEx = 1
  Defects = {"dcpartial"}
INVARIANTS TruncatedMeansEmptyAnswerAndTC
CHECK_DEADLOCK FALSE
