SPECIFICATION Spec
CONSTANTS
  Domains <- McDomains
  Alphabet = {"a", "B", "-", ".", "_", "c"}
  MaxName = 0
  MinId = 2
  MaxId = 3
  QTypes = {"A", "AAAA", "other"}
  Nodes = {"A"}
  Ids = {"x"}
  CacheExp = 2
  TTLs = {3}
  Caps = {}
  Ticks = {1, 2}
  MaxTime = 4
  MaxOps = 3
  WebCaseSensitive = FALSE
  WebSkipsSuffix = FALSE
  SharedKey = FALSE
  KeepOldLocal = FALSE
  NoLocalExpiry = FALSE
  NoNamespace = FALSE
  SplitDNS = TRUE
  KeepHist = FALSE
VIEW view
INVARIANTS FreshOnSameNode
CHECK_DEADLOCK FALSE
