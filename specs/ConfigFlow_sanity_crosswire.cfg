SPECIFICATION Spec
CONSTANTS
  Defect = "crosswire"
  MaxChanges = 1
INVARIANT Reaches
CHECK_DEADLOCK FALSE
