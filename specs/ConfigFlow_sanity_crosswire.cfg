SPECIFICATION Spec
CONSTANTS
  Defect = "crosswire"
  MaxChanges = 1
  FocusKeys = {}
INVARIANT Reaches
CHECK_DEADLOCK FALSE
