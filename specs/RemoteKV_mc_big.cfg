SPECIFICATION Spec
CONSTANTS
  NS = {"a:", "b:", ""}
  Keys = {"k1", "k2"}
  Backings = {"map", "lru"}
  Caps = {1, 2, 3}
  MaxOps = 7
  GetSkipsPrefix = FALSE
  GetNoTouch = FALSE
  KeepHist = FALSE
VIEW view
INVARIANTS NamespaceIsolation ReadYourWrite LRUExact CapBound EmptyNeverHits KeysPrefixed Accordance
CHECK_DEADLOCK FALSE
