\* 4 concurrent writers x 3 entries, every interleaving of Reset / Encode / AppendOnce
SPECIFICATION Spec
CONSTANTS
  Writers = {1, 2, 3, 4}
  MaxPerWriter = 3
  TwoWrites = FALSE
  SharedBuffer = FALSE
INVARIANTS FileIsWholeLines LinesIntact NoForeignLine OnePerLogged BufferPrivate
CHECK_DEADLOCK FALSE
