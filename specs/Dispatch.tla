------------------------------ MODULE Dispatch ------------------------------
(* C01.  Every accepted query gets exactly one matching answer on every
   transport; anything else gets the documented FORMERR / NOTIMP / drop
   treatment and can neither take a listener down nor elicit a response that
   carries another ID or question.

   CONTRACT (Allowed) -- written from the property statement and from the
   documentation, not from the control flow:
     * ServerBase.acceptMsg doc comments: a message with the response bit is
       ignored, an opcode other than QUERY / NOTIFY is "not implemented",
       a question count other than one, more than one answer (NOTIFY may carry
       one SOA, RFC 1996) or more than one authority record (IXFR may carry
       one SOA, RFC 1995) is a format error.
     * ServerBase.serveDNS: undecodable bytes are ignored "and let the
       connection hang as it may be used to amplify"; serveDNSMsgInternal: a
       handler error is answered with SERVFAIL.
     * each transport's "nothing was written" rule:
         UDP        nothing is sent                    (serveDNS comment)
         TCP, DoT   "close the connection in order to avoid hanging
                    connections"                       (serveTCPMessage)
         DoH        "indicate it via an internal server error" (serveDoH);
                    a request that cannot be converted is a 400
         DoQ        "Make sure that at least some response has been written":
                    SERVFAIL (serveQUICStream); undecodable or mis-framed
                    stream data is a protocol error, RFC 9250 section 4.3.3:
                    CONNECTION_CLOSE with DOQ_PROTOCOL_ERROR (2)
         DNSCrypt   "If there was no response from the handler, return
                    SERVFAIL" (dnsCryptHandler.ServeDNS); the DNSCrypt library
                    silently discards what it cannot decrypt or decode and
                    messages with QR=1 or QDCOUNT # 1 before the handler.
     * where the documentation is silent (which of two applicable rejections
       wins; what a client sees when the handler panics) every outcome is
       admitted that keeps the hard clauses: at most one response, never a
       foreign ID or question, the listener stays up.

   IMPLEMENTATION-SHAPED MACHINE -- a listener processes up to MaxInputs inputs,
   each through Recv -> Unpack -> Accept -> Handle -> Write, mirroring
   readUDPMsg / readTCPMsg / readQUICMsg / httpRequestToMsg, dns.Msg.Unpack,
   acceptMsg, Handler.ServeDNS and the transports' writers.  The last input
   of a behaviour is a valid query whose handler writes an answer.

   Defect selects a defective variant for the sanity configs. *)
EXTENDS Naturals, Sequences, FiniteSets, TLC

CONSTANTS Transports,   \* subset of AllTransports
          MaxInputs,    \* inputs per listener
          Defect,       \* "none" or the name of a seeded defect
          DCRecover     \* TRUE: a handler panic is recovered around dnsCryptHandler.ServeDNS as on the other transports

AllTransports == {"udp", "tcp", "dot", "doh-post", "doh-get", "doh-json", "doq", "dnscrypt-udp", "dnscrypt-tcp"}
Wires    == {"short", "undec", "dec"}      \* shorter than a header / undecodable (or, JSON: invalid parameters) / decodable
Ops      == {"QUERY", "NOTIFY", "OTHER"}
Cnt      == 0..2                           \* 2 stands for "two or more"
Handlers == {"writes", "nothing", "error", "neterror", "panic"}

Class(w, qr, op, qd, an, ns) == [wire |-> w, qr |-> qr, op |-> op, qd |-> qd, an |-> an, ns |-> ns]
\* header fields are meaningless for bytes that do not decode
Blank(w) == Class(w, FALSE, "QUERY", 0, 0, 0)
ValidQuery == Class("dec", FALSE, "QUERY", 1, 0, 0)
DecClasses == {Class("dec", qr, op, qd, an, ns) : qr \in BOOLEAN, op \in Ops, qd \in Cnt, an \in Cnt, ns \in Cnt}
Classes == DecClasses \cup {Blank("short"), Blank("undec")}

\* ---------------------------------------------------------------- outcomes
\* What a client can observe for one input.  Uniform records (TLC compares them).
Quiet(k) == [k |-> k, rc |-> "-", id |-> TRUE, q |-> TRUE]
Resp(rc) == [k |-> "resp", rc |-> rc, id |-> TRUE, q |-> TRUE]      \* rc: HANDLER = the handler's own answer
Drop     == Quiet("drop")        \* no reply, connection (if any) left alone
Close    == Quiet("close")       \* stream / connection closed without a reply
HTTP400  == Quiet("http400")
HTTP500  == Quiet("http500")
HTTPEmpty == Quiet("httpempty")  \* an HTTP reply without a DNS message and without an error status
QUICProto == Quiet("quicproto")  \* CONNECTION_CLOSE with DOQ_PROTOCOL_ERROR
None     == Quiet("none")        \* in-package lane "base": ServerBase.serveDNS wrote nothing
Escaped  == Quiet("escaped")     \* a panic left the per-request entry point (the process would die)
Kinds == {"resp", "drop", "close", "http400", "http500", "httpempty", "quicproto", "none", "escaped"}
Rcodes == {"HANDLER", "SERVFAIL", "FORMERR", "NOTIMP"}

IsDoH(t) == t \in {"doh-post", "doh-get", "doh-json"}
IsDC(t)  == t \in {"dnscrypt-udp", "dnscrypt-tcp"}

\* ---------------------------------------------------------------- contract
\* documented "nothing was written" treatment
NothingRule(t) ==
    CASE t = "udp"                -> {Drop}
      [] t \in {"tcp", "dot"}     -> {Close}
      [] IsDoH(t)                 -> {HTTP500}
      [] t = "doq"                -> {Resp("SERVFAIL")}
      [] t = "dnscrypt-udp"       -> {Resp("SERVFAIL")}
      [] t = "dnscrypt-tcp"       -> {Resp("SERVFAIL")}
      [] OTHER                    -> {None}

\* what the DNSCrypt library does with what it refuses to hand over
LibDiscard(t) == CASE t = "dnscrypt-udp" -> {Drop} [] t = "dnscrypt-tcp" -> {Close} [] OTHER -> {}

\* bytes that are not a DNS message
UndecRule(t, w) ==
    CASE t = "udp"            -> {Drop}
      [] t \in {"tcp", "dot"} -> {Close}
      [] IsDoH(t)             -> {HTTP400, HTTP500}           \* 400 for a request that cannot be converted (bad base64, invalid JSON
                                                              \* parameters), the "no response" 500 for bytes that do not decode (also
                                                              \* a JSON name that packs but exceeds 255 octets); the docs fix no more
      [] t = "doq"            -> {QUICProto, Close}
      [] IsDC(t)              -> LibDiscard(t)
      [] OTHER                -> {None}

\* every observation that is not a DNS response, per transport
Silent(t) ==
    CASE t = "udp"            -> {Drop}
      [] t \in {"tcp", "dot"} -> {Drop, Close}
      [] IsDoH(t)             -> {HTTP500, HTTPEmpty}
      [] t = "doq"            -> {Drop, Close, QUICProto}
      [] t = "dnscrypt-udp"   -> {Drop}
      [] t = "dnscrypt-tcp"   -> {Drop, Close}
      [] OTHER                -> {None, Escaped}   \* lane "base" (ServerBase.serveDNS): recovering is the caller's job

RejectReasons(c) ==
    (IF c.op = "OTHER" THEN {"NOTIMP"} ELSE {}) \cup
    (IF c.qd # 1 \/ c.an > 1 \/ c.ns > 1 THEN {"FORMERR"} ELSE {})

Acceptable(c) == c.wire = "dec" /\ ~c.qr /\ RejectReasons(c) = {}

\* the transport-independent core of the answer to an accepted query
CoreOf(h) == CASE h = "writes" -> "HANDLER" [] h \in {"error", "neterror"} -> "SERVFAIL" [] OTHER -> "-"

Allowed(t, c, h) ==
    IF c.wire # "dec" THEN UndecRule(t, c.wire)
    ELSE IF c.qr THEN NothingRule(t) \cup LibDiscard(t)
    ELSE IF RejectReasons(c) # {}
         THEN {Resp(r) : r \in RejectReasons(c)} \cup (IF c.qd # 1 THEN LibDiscard(t) ELSE {})
    ELSE CASE h = "writes"                -> {Resp("HANDLER")}
           [] h \in {"error", "neterror"} -> {Resp("SERVFAIL")}
           [] h = "nothing"               -> NothingRule(t)
           [] h = "panic"                 -> Silent(t) \cup {Resp("SERVFAIL")}

\* ------------------------------------------------------- the listener machine
VARIABLES t,        \* transport of this listener
          k,        \* index of the current input (1..MaxInputs)
          pc,       \* "Recv", "Unpack", "Accept", "Handle", "Write", "Done"
          cls,      \* class of the current input (header fields known after Unpack)
          h,        \* handler outcome of the current input ("-" if the handler was not reached)
          base,     \* what the shared code decided: "-", "none", "panic", or an rcode
          out,      \* what went on the wire for the current input (sequence of outcomes)
          up,       \* the listener is alive
          pending   \* requests in flight
vars == <<t, k, pc, cls, h, base, out, up, pending>>

Last == k = MaxInputs

Init == /\ t \in Transports /\ k = 1 /\ pc = "Recv" /\ cls = Blank("dec") /\ h = "-" /\ base = "-"
        /\ out = <<>> /\ up = TRUE /\ pending = 0

Finish(o) == /\ out' = Append(out, o) /\ pc' = "Done" /\ pending' = 0

\* Recv: the transport's framing (readUDPMsg, readTCPMsg, readQUICMsg, httpRequestToMsg, the DNSCrypt library)
Recv == /\ pc = "Recv" /\ up
        /\ \E w \in (IF Last THEN {"dec"} ELSE IF t = "doh-json" THEN {"undec", "dec"} ELSE Wires) :
             /\ cls' = Blank(w)
             /\ IF w = "short" /\ t = "udp" THEN Finish(Drop)                  \* readUDPMsg: n < DNSHeaderSize
                ELSE IF w # "dec" /\ t = "doq" THEN Finish(QUICProto)          \* readQUICMsg error -> closeQUICConn(DOQCodeProtocolError)
                ELSE IF w # "dec" /\ IsDC(t) THEN Finish(CHOOSE o \in LibDiscard(t) : TRUE)
                ELSE IF w # "dec" /\ t = "doh-json" THEN Finish(HTTP400)       \* httpRequestToMsgJSON error
                ELSE /\ pc' = "Unpack" /\ pending' = 1 /\ out' = out
        /\ UNCHANGED <<t, k, h, base, up>>

\* Unpack: dns.Msg.Unpack in ServerBase.serveDNS
Unpack == /\ pc = "Unpack"
          /\ IF cls.wire # "dec"
             THEN /\ base' = "none" /\ pc' = "Write" /\ cls' = cls
             ELSE /\ \E c \in (IF Last \/ t = "doh-json" THEN {ValidQuery} ELSE DecClasses) : cls' = c
                  /\ pc' = "Accept" /\ base' = base
          /\ UNCHANGED <<t, k, h, out, up, pending>>

\* Accept: ServerBase.acceptMsg (order: response bit, opcode, question, answer, authority)
Accept == /\ pc = "Accept"
          /\ IF IsDC(t) /\ (cls.qr \/ cls.qd # 1)                       \* dnscrypt.Server.serveDNS: ErrInvalidQuery
             THEN /\ out' = Append(out, CHOOSE o \in LibDiscard(t) : TRUE) /\ pc' = "Done" /\ pending' = 0 /\ base' = base
             ELSE /\ UNCHANGED <<out, pending>>
                  /\ IF cls.qr /\ Defect # "answer_qr" THEN base' = "none" /\ pc' = "Write"
                     ELSE IF cls.op = "OTHER"
                          THEN /\ base' = (IF Defect = "opcode_drop" THEN "none" ELSE "NOTIMP") /\ pc' = "Write"
                     ELSE IF cls.qd # 1 \/ cls.an > 1 \/ cls.ns > 1 THEN base' = "FORMERR" /\ pc' = "Write"
                     ELSE base' = base /\ pc' = "Handle"
          /\ UNCHANGED <<t, k, cls, h, up>>

\* Handle: Handler.ServeDNS and the SERVFAIL-on-error rule of serveDNSMsgInternal
Handle == /\ pc = "Handle"
          /\ \E hh \in (IF Last THEN {"writes"} ELSE Handlers) :
               /\ h' = hh
               /\ base' = CASE hh = "writes" -> "HANDLER"
                            [] hh = "nothing" -> "none"
                            [] hh \in {"error", "neterror"} -> (IF Defect = "silent_error" THEN "none" ELSE "SERVFAIL")
                            [] hh = "panic" -> "panic"
               /\ up' = (IF Defect = "kill_on_error" /\ hh = "error" /\ t = "udp" THEN FALSE ELSE up)
          /\ pc' = "Write"
          /\ UNCHANGED <<t, k, cls, out, pending>>

\* one response as the transport puts it on the wire
OnWire(rc) == IF Defect = "json_lower" /\ t = "doh-json" /\ rc = "HANDLER"
              THEN [Resp(rc) EXCEPT !.q = FALSE] ELSE Resp(rc)

\* Write: the transport's writer and its "nothing was written" rule
Write == /\ pc = "Write"
         /\ out' = out \o
              (CASE base = "none"  -> (CASE t = "udp" -> <<Drop>>
                                         [] t \in {"tcp", "dot"} -> <<Close>>                  \* serveTCPMessage: !written -> close
                                         [] IsDoH(t) -> <<HTTP500>>                            \* serveDoH: "No response"
                                         [] t = "doq" \/ IsDC(t) -> <<Resp("SERVFAIL")>>)      \* genErrorResponse(SERVFAIL)
                 [] base = "panic" -> (CASE t = "udp" -> <<Drop>>                              \* handlePanicAndRecover in serveUDPPacket
                                         [] t \in {"tcp", "dot"} -> <<Drop>>                   \* recovered in serveTCPMessage, connection kept
                                         [] IsDoH(t) -> <<HTTPEmpty>>                          \* recovered in ServeHTTP, nothing written
                                         [] t = "doq" -> <<Close>>                             \* recovered in serveQUICStreamAsync, stream closed
                                         [] IsDC(t) -> IF DCRecover THEN <<Drop>>              \* recovered: nothing sent, connection kept
                                                       ELSE <<Escaped>>)                       \* the panic leaves the library's goroutine
                 [] OTHER -> IF Defect = "double_write" /\ t = "doq" /\ base = "HANDLER"
                             THEN <<OnWire(base), Resp("SERVFAIL")>> ELSE <<OnWire(base)>>)
         /\ up' = (IF base = "panic" /\ IsDC(t) /\ ~DCRecover THEN FALSE ELSE up)
         /\ pc' = "Done" /\ pending' = 0
         /\ UNCHANGED <<t, k, cls, h, base>>

NextInput == /\ pc = "Done" /\ k < MaxInputs
             /\ k' = k + 1 /\ pc' = "Recv" /\ cls' = Blank("dec") /\ h' = "-" /\ base' = "-" /\ out' = <<>>
             /\ UNCHANGED <<t, up, pending>>

Next == Recv \/ Unpack \/ Accept \/ Handle \/ Write \/ NextInput
Spec == Init /\ [][Next]_vars

\* ---------------------------------------------------------------- properties
TypeOK == /\ t \in AllTransports /\ k \in 1..MaxInputs
          /\ pc \in {"Recv", "Unpack", "Accept", "Handle", "Write", "Done"}
          /\ cls \in Classes /\ h \in Handlers \cup {"-"} /\ up \in BOOLEAN /\ pending \in 0..1
          /\ \A i \in 1..Len(out) : out[i].k \in Kinds /\ out[i].rc \in Rcodes \cup {"-"}

Responses == {i \in 1..Len(out) : out[i].k = "resp"}
HH == IF h = "-" THEN "writes" ELSE h     \* Allowed ignores h unless the class is acceptable

\* the hard clauses
AtMostOneResponse == Cardinality(Responses) <= 1
EchoIDAndQuestion == \A i \in Responses : out[i].id /\ out[i].q
ListenerStaysUp == up

\* the implementation-shaped machine stays within the contract: exactly one
\* observable outcome per input, and an admitted one
ImplWithinContract == pc = "Done" => Len(out) = 1 /\ out[1] \in Allowed(t, cls, HH)

\* the documented treatment of what is not an acceptable query
RejectTreatment ==
    pc = "Done" /\ ~Acceptable(cls) =>
       /\ h = "-"                                                        \* the handler is never reached
       /\ \A i \in Responses : out[i].rc # "HANDLER"
       /\ (cls.wire # "dec" => Responses = {})                           \* undecodable: nothing / transport-level error
       /\ (cls.wire = "dec" /\ cls.qr => \A i \in Responses : out[i].rc = "SERVFAIL" /\ (t = "doq" \/ IsDC(t)))
       /\ (cls.wire = "dec" /\ ~cls.qr /\ ~(IsDC(t) /\ cls.qd # 1) =>
             /\ Responses # {}
             /\ \A i \in Responses : out[i].rc \in RejectReasons(cls))   \* NOTIMP for the opcode, FORMERR for the counts

\* for accepted queries the core of the outcome is the same function of the
\* handler's answer on all transports (CoreOf does not mention t)
TransportEquivalence ==
    pc = "Done" /\ Acceptable(cls) /\ h \in {"writes", "error", "neterror"} => out = <<Resp(CoreOf(h))>>

\* exactly one matching answer for an accepted query whose handler answers;
\* in particular after any two earlier inputs (the last input of a behaviour)
AcceptedAnswered == pc = "Done" /\ Acceptable(cls) /\ h = "writes" => out = <<Resp("HANDLER")>>
LastAnswered == pc = "Done" /\ Last => out = <<Resp("HANDLER")>>
PendingAtRest == pc \in {"Recv", "Done"} => pending = 0

\* the contract itself implies the hard clauses, whatever implementation is chosen
ContractSound ==
    \A c \in Classes, hh \in Handlers, tt \in AllTransports : \A o \in Allowed(tt, c, hh) :
        /\ (o.k = "resp" => o.id /\ o.q)
        /\ o # Escaped
        /\ (~Acceptable(c) => o.rc # "HANDLER")
        /\ (Acceptable(c) /\ hh = "writes" => o = Resp("HANDLER"))
ASSUME ContractSound      \* no variables: evaluated once by TLC
=============================================================================
