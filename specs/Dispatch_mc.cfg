SPECIFICATION Spec
CONSTANTS
  Transports = {"udp", "tcp", "dot", "doh-post", "doh-get", "doh-json", "doq", "dnscrypt-udp", "dnscrypt-tcp"}
  MaxInputs = 3
  Defect = "none"
  DCRecover = TRUE
INVARIANTS TypeOK AtMostOneResponse EchoIDAndQuestion ListenerStaysUp ImplWithinContract RejectTreatment
  TransportEquivalence AcceptedAnswered LastAnswered PendingAtRest
CHECK_DEADLOCK FALSE
