SPECIFICATION SpecServerFair
CONSTANTS
  Req = {1, 2}
  CtxKinds = {"nodeadline", "open"}
  MaxMisuse = 1
  DefectNoWait = FALSE
  DefectLateClose = FALSE
  DefectIgnoreDeadline = FALSE
  DefectDoubleNil = FALSE
INVARIANTS TypeOK ShutdownWaits DeadlineBounds NothingAfterStop MisuseErrors NoAcceptAfterBegin
PROPERTIES ShutdownReturnsByDeadline
CHECK_DEADLOCK FALSE
