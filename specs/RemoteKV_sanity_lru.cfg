SPECIFICATION Spec
CONSTANTS
  NS = {"a:"}
  Keys = {"k1", "k2", "k3"}
  Backings = {"lru"}
  Caps = {2}
  MaxOps = 5
  GetSkipsPrefix = FALSE
  GetNoTouch = TRUE
  KeepHist = FALSE
VIEW view
INVARIANTS LRUExact
CHECK_DEADLOCK FALSE
