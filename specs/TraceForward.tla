---------------------------- MODULE TraceForward ----------------------------
(* Trace validation for C17: the real forward.Handler with scripted upstreams
   under a virtual clock.  Events
     Reset{main, fall, backoff}        SetHealth{u, h}       Tick{d}
     RefreshStart   Probe{u, ok}   RefreshEnd{active}        (Handler.Refresh)
     Query{tried, by, rcode}           tried: upstreams that saw the query, in order
   Probes of upstreams in back-off are not observable (no exchange happens), so
   an observed Probe(u) must be preceded only by upstreams the model holds in
   back-off, and RefreshEnd must find all unprobed ones in back-off.            *)
EXTENDS Integers, Sequences, FiniteSets, TLC, Json

VARIABLES l, main, fall, backoff, health, fail, active, pc, acc
Trace == ndJsonDeserialize("trace.ndjson")
E == Trace[l]
vars == <<l, main, fall, backoff, health, fail, active, pc, acc>>
ToSet(a) == {a[j] : j \in 1..Len(a)}
Replies(h) == h \in {"up", "servfail"}
MainSet == ToSet(main)
InBackoff(u) == fail[u] >= 0 /\ fail[u] < backoff
Idx(u) == CHOOSE i \in 1..Len(main) : main[i] = u

Step(e) == l <= Len(Trace) /\ E.ev = e /\ l' = l + 1
Same(V) == UNCHANGED V

TReset == /\ Step("Reset") /\ main' = E.main /\ fall' = ToSet(E.fall) /\ backoff' = E.backoff
          /\ health' = [u \in ToSet(E.main) \cup ToSet(E.fall) |-> "up"]
          \* E.init = "alldown": the constructor ran the start-up health check and every main
          \* upstream failed it; without fallbacks that check must not demote anybody
          /\ LET demoted == E.init = "alldown" /\ Len(E.fall) > 0 IN
             /\ fail' = [u \in ToSet(E.main) |-> IF demoted THEN 0 ELSE -1]
             /\ active' = IF demoted THEN {} ELSE ToSet(E.main)
             /\ ToSet(E.active) = (IF demoted THEN {} ELSE ToSet(E.main))
          /\ pc' = 0 /\ acc' = {}
TSetHealth == /\ Step("SetHealth") /\ health' = [health EXCEPT ![E.u] = E.h]
              /\ Same(<<main, fall, backoff, fail, active, pc, acc>>)
TTick == /\ Step("Tick")
         /\ fail' = [u \in MainSet |-> IF fail[u] < 0 THEN fail[u] ELSE IF fail[u] + E.d > backoff THEN backoff ELSE fail[u] + E.d]
         /\ Same(<<main, fall, backoff, health, active, pc, acc>>)
TRefreshStart == /\ Step("RefreshStart") /\ pc = 0 /\ pc' = 1 /\ acc' = {}
                 /\ Same(<<main, fall, backoff, health, fail, active>>)
TProbe == /\ Step("Probe") /\ pc >= 1 /\ fall # {}
          /\ LET i == Idx(E.u) IN
             /\ i >= pc
             /\ \A j \in pc..(i - 1) : InBackoff(main[j])          \* silently skipped
             /\ ~InBackoff(E.u)                                    \* NotUsedUntilBackoff: no probe inside the back-off
             /\ E.ok = (health[E.u] = "up")
             /\ fail' = [fail EXCEPT ![E.u] = IF E.ok THEN -1 ELSE 0]
             /\ acc' = IF E.ok THEN acc \cup {E.u} ELSE acc
             /\ pc' = i + 1
          /\ Same(<<main, fall, backoff, health, active>>)
\* A probe of a silent upstream BLOCKS until its time-out: time passes (E.d ticks) while it is out, and the
\* failure is stamped with the clock reading taken when it has failed -- Probe and Tick in one step, the
\* stamp after the tick.  The guards are those of TProbe, in the state before the probe was sent.
TProbeBlocking ==
    /\ Step("ProbeBlocking") /\ pc >= 1 /\ fall # {} /\ ~E.ok
    /\ LET i == Idx(E.u) IN
       /\ i >= pc
       /\ \A j \in pc..(i - 1) : InBackoff(main[j])
       /\ ~InBackoff(E.u)
       /\ health[E.u] # "up"
       /\ fail' = [u \in MainSet |-> IF u = E.u THEN 0
                                     ELSE IF fail[u] < 0 THEN fail[u]
                                     ELSE IF fail[u] + E.d > backoff THEN backoff ELSE fail[u] + E.d]
       /\ pc' = i + 1
    /\ Same(<<main, fall, backoff, health, active, acc>>)
TRefreshEnd == /\ Step("RefreshEnd") /\ pc >= 1
               /\ IF fall = {}
                  THEN /\ pc = 1 /\ ToSet(E.active) = MainSet /\ active' = active   \* NoFallbacksNeverDemotes
                  ELSE /\ \A j \in pc..Len(main) : InBackoff(main[j])
                       /\ ToSet(E.active) = acc /\ active' = acc           \* exactly the upstreams probed OK
               /\ pc' = 0 /\ acc' = {}
               /\ Same(<<main, fall, backoff, health, fail>>)
TQuery == /\ Step("Query")
          /\ LET tr == E.tried n == Len(tr) IN
             /\ n <= 2                                                    \* a fallback is tried once
             /\ IF active = {} THEN (IF fall = {} THEN n = 0 ELSE n = 1 /\ tr[1] \in fall)
                ELSE n >= 1 /\ tr[1] \in active                           \* the chosen main upstream is an active one
             /\ IF n = 0 THEN E.by = "error"
                ELSE LET first == tr[1] h1 == health[first] IN
                     IF first \in fall THEN n = 1 /\ E.by = (IF Replies(h1) THEN first ELSE "error")
                     ELSE IF Replies(h1) THEN n = 1 /\ E.by = first       \* AnsweredByChosenMain
                     ELSE IF h1 = "down" /\ fall # {}
                          THEN n = 2 /\ tr[2] \in fall /\ E.by = (IF Replies(health[tr[2]]) THEN tr[2] ELSE "error")
                     ELSE IF h1 = "down" THEN n = 1 /\ E.by = "error"
                     ELSE \* a reply that does not match the query: rejected; a fallback may or may not be tried
                          \/ n = 1 /\ E.by = "error"
                          \/ n = 2 /\ tr[2] \in fall /\ E.by = (IF Replies(health[tr[2]]) THEN tr[2] ELSE "error")
             /\ (E.by = "error") = (E.rcode = -1)
             /\ (E.by # "error" => E.rcode = (IF health[E.by] = "servfail" THEN 2 ELSE 0))
          /\ Same(<<main, fall, backoff, health, fail, active, pc, acc>>)

\* Reply validation of the plain upstream client: E.udp / E.tcp are the reply
\* classes the fake upstream serves on each transport, E.got the class of what
\* Exchange handed to its caller ("error" when it reported an error).
\* "an upstream reply is accepted only if its ID, question name and type match"
ValidReply(c) == c \in {"valid", "validtc", "casename"}
TExchange == /\ Step("Exchange")
             /\ (E.got # "error" => ValidReply(E.got))                        \* nothing else is ever accepted
             /\ (E.got # "error" => E.got \in {E.udp, E.tcp})                  \* and it is a reply the upstream sent
             \* a complete valid reply on the first transport tried is accepted
             /\ (E.net \in {"udp", ""} /\ E.udp \in {"valid", "casename"} => E.got = E.udp)
             /\ (E.net = "tcp" /\ E.tcp \in {"valid", "casename", "validtc"} => E.got = E.tcp)
             \* a truncated UDP reply is retried over TCP when the network is not pinned to UDP
             /\ (E.net = "" /\ E.udp = "validtc" /\ E.tcp \in {"valid", "casename", "validtc"} => E.got = E.tcp)
             /\ Same(<<main, fall, backoff, health, fail, active, pc, acc>>)

TraceInit == /\ l = 1 /\ main = <<>> /\ fall = {} /\ backoff = 1 /\ health = <<>> /\ fail = <<>>
             /\ active = {} /\ pc = 0 /\ acc = {}
TraceNext == TReset \/ TSetHealth \/ TTick \/ TRefreshStart \/ TProbe \/ TProbeBlocking \/ TRefreshEnd \/ TQuery \/ TExchange
TraceSpec == TraceInit /\ [][TraceNext]_vars
\* outside a refresh exactly the upstreams whose last probe succeeded are active
ActiveIffProbedOK == (pc = 0 /\ fall # {} /\ l > 1) => active = {u \in MainSet : fail[u] = -1}
TraceAccepted == LET d == TLCGet("stats").diameter IN
    IF d - 1 = Len(Trace) THEN TRUE ELSE PrintT(<<"STUCK", d, Len(Trace)>>) /\ FALSE
=============================================================================
