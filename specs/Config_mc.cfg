SPECIFICATION Spec
CONSTANTS
  IntsValidated = TRUE
  PrefixBounded = TRUE
  EcsSizeChecked = TRUE
  MaxMut = 2
  TripleFields = {}
INVARIANTS BaselineHolds AcceptedImpliesSafe AcceptedImpliesValid DocImpliesSafe RejectedNamesProperty
CHECK_DEADLOCK FALSE
