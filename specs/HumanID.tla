------------------------------ MODULE HumanID ------------------------------
(* EXT10 (a): the identifier constructors of internal/agd as a character-level
   decision table: NewHumanID, NewHumanIDLower, HumanIDToLower,
   HumanIDParser.ParseNormalized (humanid.go), NewDeviceID, NewDeviceName
   (device.go), NewProfileID (profile.go).

   The CONTRACT (doc comments and constants of these files; the upstream table
   tests of humanid_test.go read as examples of it):
     - HumanID "is a more human-readable identifier of a device"; its length is
       MinHumanIDLen = 1 .. MaxHumanIDLen = 63 (netutil.MaxDomainLabelLen) BYTES,
       it is a host-name label (letters, digits, hyphens inside; a letter or a
       digit at both ends) and "max 2 consecutive hyphens are allowed".
       NewHumanID "converts a simple string into a HumanID and makes sure that
       it's valid": the string itself or an error.
     - HumanIDLower: "HumanID values that must be lowercase"; NewHumanIDLower
       "makes sure that it's valid and lowercased"; HumanIDToLower "returns a
       lowercase version of id".
     - ParseNormalized "normalizes and parses a HumanID from a string that may
       have issues, such as extra symbols that aren't supported.  The
       normalization is best-effort and may still fail, in which case id is empty
       and err is not nil": the result is a VALID HumanID or an error; a valid
       string is returned as it is; the input is first validated "against the
       upper DNS hostname-length limit" (1 .. 253 bytes); by the examples, every
       maximal run of unsupported material between two letters/digits becomes ONE
       hyphen (one or two hyphens alone are kept), material before the first and
       after the last letter/digit is dropped, the result is cut to 63 bytes and
       hyphens left at the end are trimmed; without any letter or digit:
       "cannot normalize".
     - DeviceID: MinDeviceIDLen = 1 .. MaxDeviceIDLen = 8 bytes, a host-name label.
     - ProfileID: at most MaxProfileIDLen = 8 bytes of "printable, non-whitespace
       ASCII characters".
     - DeviceName: at most MaxDeviceNameRuneLen = 128 RUNES, any characters.

   Strings are sequences of SYMBOLS, one per character; a symbol stands for its
   class: lower-case letter ("a" "b" "z"), upper-case letter ("A" "B" "Z"), digit
   ("7" "0" "9"), hyphen ("-"), other printable ASCII ("_" "." "!" "~" "/" and the
   neighbours of the letter and digit ranges "@" "[" "`" "{" ":"), ASCII
   that is not printable or is white space ("sp" "nl" "del"), and characters
   of two, three and four bytes of UTF-8 ("e2" "e3" "e4").  The harness maps
   symbols to characters and back.

   A row is pre \o fill^n \o post: short strings (n = 0, every string over the
   alphabet up to MaxLen) and long ones around the boundary lengths.

   Part 1 is the contract; its normaliser is written declaratively (pieces
   between letters/digits), unlike the code's three-state machine.  Part 2 is
   that machine, transcribed, with defect flags.  The invariants are the
   clauses of the contract on the machine's results and the algebraic laws of
   the contract itself; the trace spec (TraceHumanID) evaluates the same
   clauses on what the real code returned.                                     *)
EXTENDS Integers, Sequences, FiniteSets, TLC, Json
SX == INSTANCE SequencesExt

CONSTANTS Alphabet, MaxLen,          \* the short rows
          Pres, Fills, Ns, Posts,    \* the long rows
          \* defects of the implementation-shaped rules
          NoTripleCheck,   \* a valid id may contain three hyphens in a row
          EdgeHyphen,      \* a valid id may end with a hyphen
          Max64,           \* ids of 64 bytes are valid
          RuneLimit,       \* ParseNormalized limits the input to 253 runes, not bytes
          NoTrim,          \* hyphens left at the end by the cut are not trimmed
          NoCut,           \* the normalised string is not cut to 63 bytes
          NoRevalidate,    \* the normalised string is returned without validation
          GapKeepsHyphens, \* unsupported material next to hyphens leaves the hyphens in place
          LowerNoCase,     \* NewHumanIDLower does not look at the case
          NameBytes,       \* the device name is limited in bytes
          DevID9,          \* device ids of nine bytes are accepted
          ProfSpace        \* profile ids may contain white space

MaxHuman == 63
MaxHost == 253
MaxDevID == 8
MaxProfID == 8
MaxNameRunes == 128

Lowers == {"a", "b", "z"}
Uppers == {"A", "B", "Z"}
Digits == {"7", "0", "9"}
Puncts == {"_", ".", "!", "~", "/", "@", "[", "`", "{", ":"}
Blanks == {"sp", "nl", "del"}
Multis == {"e2", "e3", "e4"}
KnownSyms == Lowers \cup Uppers \cup Digits \cup {"-"} \cup Puncts \cup Blanks \cup Multis
IsAN(c) == c \in Lowers \cup Uppers \cup Digits
NBytes(c) == CASE c = "e2" -> 2 [] c = "e3" -> 3 [] c = "e4" -> 4 [] OTHER -> 1
Lower(c) == CASE c = "A" -> "a" [] c = "B" -> "b" [] c = "Z" -> "z" [] OTHER -> c

RECURSIVE SumBytes(_, _)
SumBytes(s, i) == IF i > Len(s) THEN 0 ELSE NBytes(s[i]) + SumBytes(s, i + 1)
Bytes(s) == SumBytes(s, 1)
Runes(s) == Len(s)
LowerStr(s) == [i \in 1..Len(s) |-> Lower(s[i])]
HasUpper(s) == \E i \in 1..Len(s) : s[i] \in Uppers
HasTriple(s) == \E i \in 1..Len(s) - 2 : s[i] = "-" /\ s[i + 1] = "-" /\ s[i + 2] = "-"
Rep(c, n) == [i \in 1..n |-> c]
Err == [ok |-> FALSE, out |-> <<>>]
Ok(s) == [ok |-> TRUE, out |-> s]

-----------------------------------------------------------------------------
\* PART 1: the contract
Label(s) == /\ Len(s) >= 1
            /\ \A i \in 1..Len(s) : IsAN(s[i]) \/ s[i] = "-"
            /\ IsAN(s[1]) /\ IsAN(s[Len(s)])
Valid(s) == Bytes(s) >= 1 /\ Bytes(s) <= MaxHuman /\ Label(s) /\ ~HasTriple(s)
ValidLower(s) == Valid(s) /\ ~HasUpper(s)
ValidDevID(s) == Bytes(s) >= 1 /\ Bytes(s) <= MaxDevID /\ Label(s)
ValidProfID(s) == Bytes(s) <= MaxProfID /\ \A i \in 1..Len(s) : IsAN(s[i]) \/ s[i] = "-" \/ s[i] \in Puncts
ValidName(s) == Runes(s) <= MaxNameRunes

HasAN(s) == \E i \in 1..Len(s) : IsAN(s[i])
\* the letters and digits in order, each preceded by what the material between it and the previous one
\* becomes: nothing, the one or two hyphens it consists of, or one hyphen for anything else.
\* g: the number of hyphens since the last letter/digit, -1 when something else was among them
RECURSIVE Pieces(_, _, _, _)
Pieces(s, i, started, g) ==
    IF i > Len(s) THEN <<>>
    ELSE IF IsAN(s[i])
         THEN (IF ~started \/ g = 0 THEN <<s[i]>>
               ELSE IF g = 1 THEN <<"-", s[i]>>
               ELSE IF g = 2 THEN <<"-", "-", s[i]>>
               ELSE <<"-", s[i]>>) \o Pieces(s, i + 1, TRUE, 0)
         ELSE Pieces(s, i + 1, started, IF s[i] = "-" /\ g >= 0 THEN g + 1 ELSE -1)
RECURSIVE TrimHyphens(_)
TrimHyphens(s) == IF s # <<>> /\ s[Len(s)] = "-" THEN TrimHyphens(SubSeq(s, 1, Len(s) - 1)) ELSE s
Cut(s) == SubSeq(s, 1, IF Len(s) < MaxHuman THEN Len(s) ELSE MaxHuman)
Norm(s) ==
    IF Valid(s) THEN Ok(s)
    ELSE IF Bytes(s) < 1 \/ Bytes(s) > MaxHost THEN Err
    ELSE IF ~HasAN(s) THEN Err
    ELSE Ok(TrimHyphens(Cut(Pieces(s, 1, FALSE, 0))))

\* the letters and digits of a string, in order
ANSeq(s) == SelectSeq(s, IsAN)
IsPrefix(p, s) == Len(p) <= Len(s) /\ SubSeq(s, 1, Len(p)) = p

\* the facts about a string the clauses are phrased over (computed once per row)
Facts(s) == [bytes |-> Bytes(s), runes |-> Runes(s), label |-> Label(s), triple |-> HasTriple(s), upper |-> HasUpper(s),
             hasan |-> HasAN(s), other |-> \E i \in 1..Len(s) : ~IsAN(s[i]) /\ s[i] # "-",
             blank |-> \E i \in 1..Len(s) : s[i] \in Blanks \cup Multis,
             edge |-> s # <<>> /\ (s[1] = "-" \/ s[Len(s)] = "-")]
FValid(f) == f.bytes >= 1 /\ f.bytes <= MaxHuman /\ f.label /\ ~f.triple
FValidDevID(f) == f.bytes >= 1 /\ f.bytes <= MaxDevID /\ f.label
FValidProfID(f) == f.bytes <= MaxProfID /\ ~f.blank
FValidName(f) == f.runes <= MaxNameRunes

\* the clauses: predicates of the input s, its facts f and a result r = [ok, out]
HClauses(s, f, r) ==
    (IF (f.bytes < 1 \/ f.bytes > MaxHuman) => ~r.ok THEN {} ELSE {"H.Length"})
    \cup (IF f.other => ~r.ok THEN {} ELSE {"H.Chars"})
    \cup (IF f.edge => ~r.ok THEN {} ELSE {"H.Edges"})
    \cup (IF f.triple => ~r.ok THEN {} ELSE {"H.Triple"})
    \cup (IF FValid(f) => (r.ok /\ r.out = s) THEN {} ELSE {"H.Accepts"})
    \cup (IF ~r.ok => r.out = <<>> THEN {} ELSE {"H.EmptyOnError"})
LClauses(s, f, r) ==
    (IF ~FValid(f) => ~r.ok THEN {} ELSE {"L.Valid"})
    \cup (IF f.upper => ~r.ok THEN {} ELSE {"L.Case"})
    \cup (IF (FValid(f) /\ ~f.upper) => (r.ok /\ r.out = s) THEN {} ELSE {"L.Accepts"})
\* HumanIDToLower of a valid id
TClauses(s, out) ==
    (IF out = LowerStr(s) THEN {} ELSE {"T.Lowercased"})
    \cup (IF ValidLower(out) THEN {} ELSE {"T.StillValid"})
\* nrm: Norm(s)
PClauses(s, f, nrm, r) ==
    (IF FValid(f) => (r.ok /\ r.out = s) THEN {} ELSE {"P.ValidUnchanged"})
    \cup (IF (~FValid(f) /\ (f.bytes < 1 \/ f.bytes > MaxHost)) => ~r.ok THEN {} ELSE {"P.Length"})
    \cup (IF r.ok => Valid(r.out) THEN {} ELSE {"P.ResultValid"})
    \cup (IF ~f.hasan => ~r.ok THEN {} ELSE {"P.NoLetterOrDigit"})
    \cup (IF (f.hasan /\ f.bytes <= MaxHost) => r.ok THEN {} ELSE {"P.Normalizable"})
    \cup (IF r.ok => IsPrefix(ANSeq(r.out), ANSeq(s)) THEN {} ELSE {"P.OnlyInputLettersInOrder"})
    \cup (IF ~r.ok => r.out = <<>> THEN {} ELSE {"P.EmptyOnError"})
    \cup (IF r = nrm THEN {} ELSE {"P.Contract"})
DClauses(f, ok) ==
    (IF (f.bytes < 1 \/ f.bytes > MaxDevID) => ~ok THEN {} ELSE {"D.Length"})
    \cup (IF ~f.label => ~ok THEN {} ELSE {"D.Label"})
    \cup (IF FValidDevID(f) => ok THEN {} ELSE {"D.Accepts"})
FClauses(f, ok) ==
    (IF f.bytes > MaxProfID => ~ok THEN {} ELSE {"F.Length"})
    \cup (IF f.blank => ~ok THEN {} ELSE {"F.Chars"})
    \cup (IF FValidProfID(f) => ok THEN {} ELSE {"F.Accepts"})
NClauses(f, ok) ==
    (IF f.runes > MaxNameRunes => ~ok THEN {} ELSE {"N.Length"})
    \cup (IF FValidName(f) => ok THEN {} ELSE {"N.Accepts"})

-----------------------------------------------------------------------------
\* PART 2: the implementation-shaped rules
IValid(s) ==
    /\ Bytes(s) >= 1 /\ Bytes(s) <= (IF Max64 THEN MaxHuman + 1 ELSE MaxHuman)
    /\ Len(s) >= 1 /\ \A i \in 1..Len(s) : IsAN(s[i]) \/ s[i] = "-"
    /\ IsAN(s[1]) /\ (IsAN(s[Len(s)]) \/ (EdgeHyphen /\ Len(s) > 1))
    /\ (NoTripleCheck \/ ~HasTriple(s))
INew(s) == IF IValid(s) THEN Ok(s) ELSE Err
INewLower(s) == IF IValid(s) /\ (LowerNoCase \/ ~HasUpper(s)) THEN Ok(s) ELSE Err

\* humanIDNormalizer: state, buffer, the two previous runes ("x": none / utf8.RuneError)
NStart == [st |-> "initial", buf |-> <<>>, p1 |-> "x", p2 |-> "x"]
NWrite(n, c) == [n EXCEPT !.buf = Append(@, c), !.p2 = n.p1, !.p1 = c]
NDrop(n, k) == [n EXCEPT !.buf = SubSeq(@, 1, Len(@) - k)]
NTruncateHyphens(n) ==
    IF n.p1 # "-" THEN n
    ELSE IF n.p2 = "-" THEN [NDrop(n, 2) EXCEPT !.p1 = "x", !.p2 = "x"]
    ELSE [NDrop(n, 1) EXCEPT !.p1 = "x"]
NNext(n, c) ==
    CASE n.st = "initial" -> IF IsAN(c) THEN [NWrite(n, c) EXCEPT !.st = "valid"] ELSE n
      [] n.st = "valid" ->
            IF c = "-"
            THEN IF n.p1 = "-" /\ n.p2 = "-"
                 THEN IF GapKeepsHyphens THEN [n EXCEPT !.st = "invalid"]
                      ELSE [NDrop(n, 2) EXCEPT !.p1 = "x", !.p2 = "x", !.st = "invalid"]
                 ELSE NWrite(n, c)
            ELSE IF ~IsAN(c) THEN [(IF GapKeepsHyphens THEN n ELSE NTruncateHyphens(n)) EXCEPT !.st = "invalid"]
            ELSE NWrite(n, c)
      [] n.st = "invalid" ->
            IF ~IsAN(c) THEN n
            ELSE [NWrite(IF n.p1 # "-" THEN NWrite(n, "-") ELSE n, c) EXCEPT !.st = "valid"]
RECURSIVE NRun(_, _, _)
NRun(n, s, i) == IF i > Len(s) THEN n ELSE NRun(NNext(n, s[i]), s, i + 1)
NResult(n) == LET b == IF NoCut THEN n.buf ELSE Cut(n.buf) IN IF NoTrim THEN b ELSE TrimHyphens(b)
IParse(s) ==
    IF IValid(s) THEN Ok(s)
    ELSE IF (IF RuneLimit THEN Runes(s) ELSE Bytes(s)) < 1 \/ (IF RuneLimit THEN Runes(s) ELSE Bytes(s)) > MaxHost THEN Err
    ELSE LET res == NResult(NRun(NStart, s, 1))
         IN IF res = <<>> \/ res = <<"-">> THEN Err
            ELSE IF NoRevalidate THEN Ok(res) ELSE INew(res)
IDevID(s) == Bytes(s) >= 1 /\ Bytes(s) <= (IF DevID9 THEN MaxDevID + 1 ELSE MaxDevID) /\ Label(s)
IProfID(s) == Bytes(s) <= MaxProfID
              /\ \A i \in 1..Len(s) : IsAN(s[i]) \/ s[i] = "-" \/ s[i] \in Puncts \/ (ProfSpace /\ s[i] = "sp")
IName(s) == (IF NameBytes THEN Bytes(s) ELSE Runes(s)) <= MaxNameRunes

-----------------------------------------------------------------------------
\* the table
ShortRows == {[pre |-> f, fill |-> "a", n |-> 0, post |-> <<>>] : f \in UNION {[1..k -> Alphabet] : k \in 0..MaxLen}}
LongRows == {[pre |-> a, fill |-> c, n |-> k, post |-> b] : a \in Pres, c \in Fills, k \in Ns, b \in Posts}
Rows == ShortRows \cup LongRows
Str(r) == r.pre \o Rep(r.fill, r.n) \o r.post

PresQuick == {<<>>, <<"a">>, <<"-">>, <<"_">>, <<"A", "-", "-">>}
PostsQuick == {<<>>, <<"9">>, <<"-">>, <<"-", "a">>, <<"-", "-", "a">>, <<"_", "a">>, <<"-", "a", "a">>, <<"sp">>}
FillsQuick == {"a", "B", "-", "_", "e2"}
PresBig == PresQuick \cup {<<"a", "e4", "-">>, <<"a", "-", "-", "-">>, <<"7", "sp">>}
PostsBig == PostsQuick \cup {<<"-", "-", "-", "a">>, <<"e3", "a">>, <<"del", "Z">>}
FillsBig == FillsQuick \cup {"e4", "."}

ASSUME "#" \notin KnownSyms
ASSUME Alphabet \subseteq KnownSyms /\ Fills \subseteq KnownSyms
ASSUME \A a \in Pres \cup Posts : \A i \in 1..Len(a) : a[i] \in KnownSyms

VARIABLE row
vars == <<row>>
\* the table is enumerated through bucket states (marked by "#") so that TLC's workers share the rows:
\* root -> one bucket per (fill, n) of the long rows and per first symbol of the short rows -> the rows
Root == [pre |-> <<"#">>, fill |-> "#", n |-> 0, post |-> <<>>]
LongBucket(c, k) == [pre |-> <<"#">>, fill |-> c, n |-> k, post |-> <<>>]
ShortBucket(x) == [pre |-> <<"#", x>>, fill |-> "a", n |-> 0, post |-> <<>>]
IsRow == row.pre = <<>> \/ row.pre[1] # "#"
TableInit == row = Root
TableNext ==
    \/ /\ row = Root
       /\ row' \in {LongBucket(c, k) : c \in Fills, k \in Ns} \cup {ShortBucket(x) : x \in Alphabet \cup {"#"}}
    \/ /\ ~IsRow /\ row # Root /\ Len(row.pre) = 1
       /\ row' \in {r \in LongRows : r.fill = row.fill /\ r.n = row.n}
    \/ /\ ~IsRow /\ Len(row.pre) = 2
       /\ row' \in {r \in ShortRows : IF row.pre[2] = "#" THEN r.pre = <<>> ELSE r.pre # <<>> /\ r.pre[1] = row.pre[2]}
TableSpec == TableInit /\ [][TableNext]_vars

\* the facts agree with the definitions of part 1
FactsAreTheContract == LET S == Str(row) f == Facts(S) IN
    IsRow => /\ FValid(f) = Valid(S) /\ FValidDevID(f) = ValidDevID(S) /\ FValidProfID(f) = ValidProfID(S)
             /\ FValidName(f) = ValidName(S) /\ (FValid(f) /\ ~f.upper) = ValidLower(S)
ImplMatchesContract == LET S == Str(row) IN
    IsRow => /\ INew(S) = (IF Valid(S) THEN Ok(S) ELSE Err)
             /\ INewLower(S) = (IF ValidLower(S) THEN Ok(S) ELSE Err)
             /\ IParse(S) = Norm(S)
             /\ IDevID(S) = ValidDevID(S) /\ IProfID(S) = ValidProfID(S) /\ IName(S) = ValidName(S)
HumanIDClauses == LET S == Str(row) IN IsRow => HClauses(S, Facts(S), INew(S)) = {}
LowerClauses == LET S == Str(row) IN IsRow => LClauses(S, Facts(S), INewLower(S)) = {}
ParseClauses == LET S == Str(row) IN IsRow => PClauses(S, Facts(S), Norm(S), IParse(S)) = {}
ParseResultValid == LET S == Str(row) r == IParse(S) IN IsRow => (r.ok => Valid(r.out))
DeviceIDClauses == LET S == Str(row) IN IsRow => DClauses(Facts(S), IDevID(S)) = {}
ProfileIDClauses == LET S == Str(row) IN IsRow => FClauses(Facts(S), IProfID(S)) = {}
DeviceNameClauses == LET S == Str(row) IN IsRow => NClauses(Facts(S), IName(S)) = {}
\* the laws of the contract itself
NormIsValidOrError == LET S == Str(row) n == Norm(S) IN IsRow => (n.ok => Valid(n.out))
NormIdempotent == LET S == Str(row) n == Norm(S) IN IsRow => (n.ok => Norm(n.out) = n)
ValidIsFixpoint == LET S == Str(row) IN (IsRow /\ Valid(S)) => (Norm(S) = Ok(S) /\ TrimHyphens(Cut(Pieces(S, 1, FALSE, 0))) = S)
ValidClosedUnderLower == LET S == Str(row) IN (IsRow /\ Valid(S)) => (ValidLower(LowerStr(S)) /\ TClauses(S, LowerStr(S)) = {})
NormCommutesWithLower == LET S == Str(row) n == Norm(S) IN IsRow => Norm(LowerStr(S)) = [ok |-> n.ok, out |-> LowerStr(n.out)]
ClausesAreComplete == LET S == Str(row) n == Norm(S) f == Facts(S) IN
    IsRow =>
    /\ \A r \in {Err, Ok(S), n, IParse(S)} : (PClauses(S, f, n, r) = {}) = (r = n)
    /\ \A b \in BOOLEAN : /\ (DClauses(f, b) = {}) = (b = ValidDevID(S))
                          /\ (FClauses(f, b) = {}) = (b = ValidProfID(S))
                          /\ (NClauses(f, b) = {}) = (b = ValidName(S))
    /\ \A r \in {Err, Ok(S)} : /\ (HClauses(S, f, r) = {}) = (r = (IF Valid(S) THEN Ok(S) ELSE Err))
                               /\ (LClauses(S, f, r) = {}) = (r = (IF ValidLower(S) THEN Ok(S) ELSE Err))

\* the rows as the harness reads them
RowOut(r) == [pre |-> r.pre, fill |-> r.fill, n |-> r.n, post |-> r.post]
DumpInit == row = [pre |-> <<>>, fill |-> "a", n |-> 0, post |-> <<>>]
            /\ ndJsonSerialize("humanid_rows.ndjson", SX!SetToSeq({RowOut(r) : r \in Rows}))
DumpSpec == DumpInit /\ [][TableNext]_vars
=============================================================================
