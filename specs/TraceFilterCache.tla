-------------------------- MODULE TraceFilterCache --------------------------
(* Per-event validation for C12.  Query events carry the abstracted result of
   the same filter query on the CACHED storage and on the PLAIN twin (no result
   cache can take effect there), for the request and for the response side.
   Transparent: both agree -- whoever populated the cache, and whatever list
   refreshes or custom-rule updates came before (NoStaleAfterRefresh is the
   special case "the twin always answers from the current lists").
   Gate events come from the interleaving harness: a request parked between
   compute and store while a refresh ran; `late` is what a fresh request got
   afterwards, `want` what the new list says.                                 *)
EXTENDS Naturals, Sequences, TLC, Json

VARIABLE l
Trace == ndJsonDeserialize("trace.ndjson")
Reasons(e) ==
    IF e.ev = "Query"
    THEN (IF e.cached = e.plain THEN {} ELSE {"request-side result differs from the cache-less twin"})
         \cup (IF e.cachedr = e.plainr THEN {} ELSE {"response-side result differs from the cache-less twin"})
    ELSE IF e.ev = "Gate"
    THEN (IF e.cached = e.plain THEN {} ELSE {"a result computed with the old list was served after the refresh had returned"})
    ELSE {}
TraceInit == l = 1
TraceNext == /\ l <= Len(Trace) /\ l' = l + 1
             /\ LET r == Reasons(Trace[l]) IN IF r = {} THEN TRUE ELSE PrintT(<<"NONCONF", l, r>>)
TraceSpec == TraceInit /\ [][TraceNext]_l
TraceAccepted == LET d == TLCGet("stats").diameter IN
    IF d - 1 = Len(Trace) THEN TRUE ELSE PrintT(<<"STUCK", d, Len(Trace)>>) /\ FALSE
=============================================================================
