SPECIFICATION Spec
CONSTANTS
  Callers = {"a", "b"}
  MaxConn = 2
  CapSet = {1}
  TmoSet = {1}
  MaxTime = 3
  MaxOps = 5
  Defect = "double_close"
  KeepHist = FALSE
VIEW view
INVARIANTS CloseOnce
CHECK_DEADLOCK FALSE
