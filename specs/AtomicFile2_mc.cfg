SPECIFICATION Spec
CONSTANTS
  W = {"a", "b"}
  SharedTmp = FALSE
INVARIANT DiskAlwaysComplete
CHECK_DEADLOCK FALSE
