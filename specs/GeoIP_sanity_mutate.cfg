SPECIFICATION Spec
CONSTANTS
  FilesSrc <- MCFiles
  MConfs <- MCConfsFail
  UseRegister = FALSE
  Refreshers = {"r1"}
  InvalidCountries = {"A1", "ZZZ"}
  InvalidContinents = {"ZZ"}
  Serial = FALSE
  Defect = "mutate"
  KeepHist = FALSE
  MaxPut = 3
  MaxRefresh = 2
  MaxData = 2
VIEW view
INVARIANTS LocationsAreValues
CHECK_DEADLOCK FALSE
