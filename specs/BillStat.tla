---------------------------- MODULE BillStat ----------------------------
(* C16.  Billing statistics recorder: internal/billstat/runtime.go.

   One action per critical section of RuntimeRecorder:
     Record(d)        r.mu region of Record
     RefreshReset(r)  r.mu region of resetRecords (the map is taken, an empty one installed)
     UploadOK(r)      Uploader.Upload returned nil      (nothing touches r.records)
     UploadFail(r)    Uploader.Upload returned an error; r.mu region of remergeRecords
   Between RefreshReset(r) and UploadOK/UploadFail(r) the refresh r is "in
   flight" and any other action may happen.

   Metadata (time, country, ASN, protocol of the most recent query) is
   abstracted to the serial number of the Record call that supplied it.      *)
EXTENDS Naturals, FiniteSets, Sequences, TLC, Json

CONSTANTS Dev,          \* device ids (strings)
          Ref,          \* refresh ids (strings): how many refreshes may be in flight
          MaxRecords,   \* bound on the number of Record calls
          MaxRefreshes, \* bound on the number of RefreshReset calls
          KeepHist,     \* TRUE only for behaviour generation
          RemergeKeepsNewest \* TRUE: remerge keeps the newer metadata (the repaired code);
                        \* FALSE: the pinned tree, which keeps the current entry's metadata

VARIABLES pending,      \* [Dev -> [n, meta]]  r.records (n = 0: no entry)
          inflight,     \* [Ref -> [busy, m]]  maps taken by running refreshes (m all-zero when idle)
          recorded,     \* ghost: number of Record calls per device
          delivered,    \* ghost: queries in successful uploads per device
          delivMeta,    \* ghost: metadata of the last successful upload per device
          lastMeta,     \* ghost: serial of the most recent Record per device
          clock,        \* serial number source
          nref,         \* number of RefreshReset so far
          pmax,         \* ghost: newest serial among the queries counted in pending[d]
          imax,         \* ghost: the same for each in-flight map
          hist          \* history of actions (behaviour generation only; hidden by VIEW)

vars == <<pending, inflight, recorded, delivered, delivMeta, lastMeta, clock, nref, pmax, imax, hist>>
view == <<pending, inflight, recorded, delivered, delivMeta, lastMeta, clock, nref, pmax, imax>>

Idle == [busy |-> FALSE, m |-> [d \in Dev |-> [n |-> 0, meta |-> 0]]]
Zero == [n |-> 0, meta |-> 0]
Empty == [d \in Dev |-> Zero]

Init == /\ pending = Empty
        /\ inflight = [r \in Ref |-> Idle]
        /\ recorded = [d \in Dev |-> 0]
        /\ delivered = [d \in Dev |-> 0]
        /\ delivMeta = [d \in Dev |-> 0]
        /\ lastMeta = [d \in Dev |-> 0]
        /\ clock = 0
        /\ nref = 0
        /\ pmax = [d \in Dev |-> 0]
        /\ imax = [r \in Ref |-> [d \in Dev |-> 0]]
        /\ hist = <<>>

Record(d) ==
    /\ clock < MaxRecords
    /\ clock' = clock + 1
    /\ pending' = [pending EXCEPT ![d] = [n |-> @.n + 1, meta |-> clock + 1]]
    /\ recorded' = [recorded EXCEPT ![d] = @ + 1]
    /\ lastMeta' = [lastMeta EXCEPT ![d] = clock + 1]
    /\ pmax' = [pmax EXCEPT ![d] = clock + 1]
    /\ hist' = (IF KeepHist THEN Append(hist, [a |-> "Record", d |-> d, r |-> ""]) ELSE hist)
    /\ UNCHANGED <<inflight, delivered, delivMeta, nref, imax>>

RefreshReset(r) ==
    /\ ~inflight[r].busy
    /\ nref < MaxRefreshes
    /\ nref' = nref + 1
    /\ inflight' = [inflight EXCEPT ![r] = [busy |-> TRUE, m |-> pending]]
    /\ pending' = Empty
    /\ imax' = [imax EXCEPT ![r] = pmax]
    /\ pmax' = [d \in Dev |-> 0]
    /\ hist' = (IF KeepHist THEN Append(hist, [a |-> "RefreshReset", d |-> "", r |-> r]) ELSE hist)
    /\ UNCHANGED <<recorded, delivered, delivMeta, lastMeta, clock>>

UploadOK(r) ==
    /\ inflight[r].busy
    /\ delivered' = [d \in Dev |-> delivered[d] + inflight[r].m[d].n]
    /\ delivMeta' = [d \in Dev |-> IF inflight[r].m[d].n > 0 THEN inflight[r].m[d].meta ELSE delivMeta[d]]
    /\ inflight' = [inflight EXCEPT ![r] = Idle]
    /\ hist' = (IF KeepHist THEN Append(hist, [a |-> "UploadOK", d |-> "", r |-> r]) ELSE hist)
    /\ imax' = [imax EXCEPT ![r] = [d \in Dev |-> 0]]
    /\ UNCHANGED <<pending, recorded, lastMeta, clock, nref, pmax>>

\* remergeRecords: a device absent from the current map gets the old record
\* back, a present one only gets the old count added (its metadata is newer).
Remerge(cur, old) ==
    [d \in Dev |-> IF old[d].n = 0 THEN cur[d]
                   ELSE IF cur[d].n = 0 THEN old[d]
                   ELSE [n |-> cur[d].n + old[d].n,
                         meta |-> IF RemergeKeepsNewest /\ old[d].meta > cur[d].meta
                                  THEN old[d].meta ELSE cur[d].meta]]

UploadFail(r) ==
    /\ inflight[r].busy
    /\ pending' = Remerge(pending, inflight[r].m)
    /\ inflight' = [inflight EXCEPT ![r] = Idle]
    /\ pmax' = [d \in Dev |-> IF imax[r][d] > pmax[d] THEN imax[r][d] ELSE pmax[d]]
    /\ imax' = [imax EXCEPT ![r] = [d \in Dev |-> 0]]
    /\ hist' = (IF KeepHist THEN Append(hist, [a |-> "UploadFail", d |-> "", r |-> r]) ELSE hist)
    /\ UNCHANGED <<recorded, delivered, delivMeta, lastMeta, clock, nref>>

Next == \/ \E d \in Dev : Record(d)
        \/ \E r \in Ref : RefreshReset(r) \/ UploadOK(r) \/ UploadFail(r)

Spec == Init /\ [][Next]_vars

-----------------------------------------------------------------------------
InflightSum(d) ==
    LET S == {r \in Ref : inflight[r].busy}
        RECURSIVE Sum(_)
        Sum(T) == IF T = {} THEN 0 ELSE LET x == CHOOSE x \in T : TRUE IN inflight[x].m[d].n + Sum(T \ {x})
    IN Sum(S)

TypeOK == /\ pending \in [Dev -> [n : Nat, meta : Nat]]
          /\ recorded \in [Dev -> Nat] /\ delivered \in [Dev -> Nat]

\* C16 first sentence, at every instant.
Conservation == \A d \in Dev : delivered[d] + pending[d].n + InflightSum(d) = recorded[d]

\* ... and at quiescence in the form the statement uses.
QuiescentConservation ==
    (\A r \in Ref : ~inflight[r].busy) => \A d \in Dev : delivered[d] + pending[d].n = recorded[d]

\* delivered only ever grows, and only by the uploaded map (no double count).
NoDoubleCount == [][\A d \in Dev : delivered'[d] >= delivered[d]]_vars

\* C16 last sentence.  Every batch (what is held for the next upload, and every
\* map handed to an upload) carries the metadata of the most recent of the
\* queries it counts.
BatchMetaLatest ==
    /\ \A d \in Dev : pending[d].n > 0 => pending[d].meta = pmax[d]
    /\ \A r \in Ref, d \in Dev : inflight[r].m[d].n > 0 => inflight[r].m[d].meta = imax[r][d]
\* ... and whatever is anywhere in the recorder never claims a metadata newer
\* than, or unrelated to, the device's queries.
MetaBounded == \A d \in Dev : pending[d].meta <= lastMeta[d] /\ delivMeta[d] <= lastMeta[d]
\* With at most one refresh in flight (the production RefreshWorker) the map
\* taken by a refresh carried the latest metadata at the moment it was taken;
\* stated as: pending non-empty => its metadata is the latest.
PendingMetaLatestStrict == \A d \in Dev : pending[d].n > 0 => pending[d].meta = lastMeta[d]

\* Behaviour generation: print the action history of every simulated state.
EmitHist == PrintT(<<"BEH", ToJson(hist)>>)
=============================================================================
