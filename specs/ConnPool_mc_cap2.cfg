SPECIFICATION Spec
CONSTANTS
  Callers = {"a", "b"}
  MaxConn = 3
  CapSet = {2}
  TmoSet = {1}
  MaxTime = 2
  MaxOps = 5
  Defect = "none"
  KeepHist = FALSE
VIEW view
INVARIANTS TypeOK Ledger QueuedAreMade NoDoubleHandout NoClosedHandout NoExpiredHandout StampOnGet CapacityBound CloseOnce ClosedForGood ClosedMeansErrClosed NoPanic
CHECK_DEADLOCK FALSE
