SPECIFICATION TraceSpec
CONSTANTS
  Defect = "none"
  MaxChanges = 0
  FocusKeys = {}
POSTCONDITION TraceAccepted
CHECK_DEADLOCK FALSE
