SPECIFICATION TraceSpec
CONSTANTS
  Defect = "none"
  MaxChanges = 0
POSTCONDITION TraceAccepted
CHECK_DEADLOCK FALSE
