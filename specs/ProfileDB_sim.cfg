SPECIFICATION Spec
CONSTANTS
  KeepHist = TRUE
  Prof = {"p1", "p2"}
  Dev = {"d1", "d2", "d3"}
  Linked = {"i1", "i2"}
  Ded = {"e1", "e2"}
  Human = {"h1", "h2"}
  MaxMut = 14
  MaxSync = 8
  MaxPending = 3
  CleanupChecksGen = TRUE
  HumanChecksProfile = TRUE
  HumanViaRecord = FALSE
CONSTRAINT EmitHist
CHECK_DEADLOCK FALSE
