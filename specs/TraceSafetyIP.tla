--------------------------- MODULE TraceSafetyIP ---------------------------
(* C02, secondary configuration: a hash-prefix safety filter (safe browsing,
   adult blocking, newly registered domains) whose replacement host is an IP
   ADDRESS instead of a block-page host name.  Then the filter builds the
   answer itself (hashprefix.Filter.respForFamily):
     A / AAAA of the address's family   the replacement address, profile's TTL
     A / AAAA of the other family       NODATA
     HTTPS                              "NODATA or other blocked response": the
                                        blocked answer in the shape of the
                                        requester's own blocking mode
     other qtypes                       not filtered
   The HTTPS row is the statement's clause "a blocked query is answered in the
   shape of the requester's own blocking mode": the expected shape is
   ShapeContract of Filtering.tla for (blocked, mode, HTTPS).
   Each line is one FilterRequest of the real filter.                        *)
EXTENDS Filtering, Json

VARIABLE l
Trace == ndJsonDeserialize("trace.ndjson")
If(c, s) == IF c THEN {s} ELSE {}
RcStr(n) == CASE n = 0 -> "NOERROR" [] n = 3 -> "NXDOMAIN" [] n = 5 -> "REFUSED" [] OTHER -> "other"
FamMatches(e) == (e.qt = "A" /\ e.fam = "4") \/ (e.qt = "AAAA" /\ e.fam = "6")
Reasons(e) ==
    LET o == e.res
        exp == ShapeContract([fk |-> "blocked", mode |-> e.mode, qt |-> "HTTPS", ups |-> "addr"])
    IN
    If(~e.listed /\ o.type # "none", "a host that is not listed was filtered")
    \cup If(e.listed /\ e.qt \notin {"A", "AAAA", "HTTPS"} /\ o.type # "none", "a question type the filter does not cover was filtered")
    \cup If(e.listed /\ e.qt \in {"A", "AAAA", "HTTPS"} /\ o.type # "modresp", "a listed host was not answered by the filter")
    \cup If(e.listed /\ e.qt \in {"A", "AAAA"} /\ FamMatches(e) /\ o.type = "modresp"
               /\ ~(o.rcode = 0 /\ o.nans = 1 /\ o.ansv = e.repl /\ o.anst = e.qt /\ o.attl = e.ttl),
            "the answer is not the replacement address with the profile's TTL")
    \cup If(e.listed /\ e.qt \in {"A", "AAAA"} /\ ~FamMatches(e) /\ o.type = "modresp" /\ ~(o.rcode = 0 /\ o.nans = 0),
            "a query for the other address family is not answered NODATA")
    \cup If(e.listed /\ e.qt = "HTTPS" /\ o.type = "modresp" /\ RcStr(o.rcode) # exp.rcode,
            "ShapeFollowsMode: the HTTPS answer's rcode is not the one of the requester's blocking mode")
    \cup If(e.listed /\ e.qt = "HTTPS" /\ o.type = "modresp" /\ o.nans # 0, "the blocked HTTPS answer carries records")
    \cup If(e.listed /\ e.qt = "HTTPS" /\ o.type = "modresp" /\ exp.soa = "required" /\ ~o.soa,
            "negative answer without the SOA for negative caching")
    \cup If(e.listed /\ e.qt = "HTTPS" /\ o.type = "modresp" /\ o.soa /\ o.soattl # e.ttl, "TTLIsProfiles: the SOA does not carry the profile's TTL")
TraceInit == v = DummyV /\ sv = DummyS /\ l = 1
TraceNext == /\ l <= Len(Trace) /\ l' = l + 1 /\ UNCHANGED vars
             /\ LET r == Reasons(Trace[l]) IN IF r = {} THEN TRUE ELSE PrintT(<<"NONCONF", l, r>>)
TraceSpec == TraceInit /\ [][TraceNext]_<<vars, l>>
TraceAccepted == LET d == TLCGet("stats").diameter IN
    IF d - 1 = Len(Trace) THEN TRUE ELSE PrintT(<<"STUCK", d, Len(Trace)>>) /\ FALSE
=============================================================================
