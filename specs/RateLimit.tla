----------------------------- MODULE RateLimit -----------------------------
(* C09.  internal/dnsserver/ratelimit (Backoff, RequestCounter), agd.DefaultRatelimiter
   and ratelimitmw.serveWithRatelimiting.

   Contract (sliding-window log).  Every bucket (a client subnet: the address
   masked to the family's key length; or a profile) keeps the times of its
   countable events.  At time t an event is decided as follows:
     any-refused  ANY query and refusal configured      -> drop, not counted
     allowlisted                                         -> pass, not counted
     backoff      the bucket's hit record is alive and holds >= B hits
                                                         -> drop, not counted
     otherwise    the event is counted; it is dropped iff at least L earlier
                  counted events lie within [t - I, t]; a dropped counted event
                  is a "hit": it is added to the live hit record, or starts a
                  new one that lives Dur.
   A passed query whose response is k size estimates large adds k more counted
   events (decided the same way, without output).
   The back-off clause is taken from the code (the property statement leaves
   its timing open): the hit record lives Dur from its creation.

   Implementation-shaped part: RequestCounter is a ring of the last L+1 event
   times; Backoff keeps one ring per subnet in an expiring map.  ForgetWindow =
   TRUE is the pinned tree: the map entry, and with it the ring, expires Per
   after its CREATION; FALSE is the repaired code, which keeps a ring alive
   while it is in use.                                                        *)
EXTENDS Naturals, Sequences, FiniteSets, TLC, Json

CONSTANTS Buckets, L, I, B, Dur, Per, MaxTime, MaxEvents, ForgetWindow, KeepHist

NoHit == [present |-> FALSE, created |-> 0, n |-> 0]
NoEntry == [present |-> FALSE, exp |-> 0, ring |-> <<>>]

\* ---- contract operators (also used by the trace spec with per-trace parameters)
Prune(log, t, ivl) == SelectSeq(log, LAMBDA x : t - x <= ivl)
HitAlive(h, t, dur) == h.present /\ t <= h.created + dur
InBackoff(h, t, p) == p.B > 0 /\ HitAlive(h, t, p.Dur) /\ h.n >= p.B
\* one counted event on bucket state b = [log, hit]; p = [L, I, B, Dur]
Counted(b, t, p) ==
    LET lg == Prune(b.log, t, p.I)
        drop == Len(lg) >= p.L
        hit == IF ~drop THEN b.hit
               ELSE IF HitAlive(b.hit, t, p.Dur) THEN [b.hit EXCEPT !.n = @ + 1]
               ELSE [present |-> TRUE, created |-> t, n |-> 1]
    IN [b |-> [log |-> Append(lg, t), hit |-> hit], drop |-> drop]
\* k more events in a row (the response-size events): each is counted unless the
\* bucket has meanwhile entered back-off
RECURSIVE CountedN(_, _, _, _)
CountedN(b, t, p, k) ==
    IF k = 0 THEN b
    ELSE CountedN(IF InBackoff(b.hit, t, p) THEN b ELSE Counted(b, t, p).b, t, p, k - 1)
\* a query of the given kind; returns the new bucket state and whether it is dropped
Decide(b, t, p, kind, extra) ==
    IF kind = "any" THEN [b |-> b, drop |-> TRUE, why |-> "any"]
    ELSE IF kind = "allow" THEN [b |-> b, drop |-> FALSE, why |-> "allow"]
    ELSE IF InBackoff(b.hit, t, p) THEN [b |-> b, drop |-> TRUE, why |-> "backoff"]
    ELSE LET c == Counted(b, t, p) IN
         IF c.drop THEN [b |-> c.b, drop |-> TRUE, why |-> "window"]
         ELSE [b |-> CountedN(c.b, t, p, extra), drop |-> FALSE, why |-> "pass"]

\* ---- implementation-shaped ring
RingPush(e, t) ==
    LET alive == e.present /\ t <= e.exp
        r0 == IF alive THEN e.ring ELSE <<>>
        life == IF ForgetWindow THEN Per ELSE (IF Per > 2 * I THEN Per ELSE 2 * I)
        exp == IF ~alive THEN t + life
               ELSE IF ~ForgetWindow /\ e.exp - t < I THEN t + life
               ELSE e.exp
        r1 == Append(r0, t)
        r2 == IF Len(r1) > L + 1 THEN Tail(r1) ELSE r1
        above == Len(r2) = L + 1 /\ t - r2[1] <= I
    IN [e |-> [present |-> TRUE, exp |-> exp, ring |-> r2], above |-> above]

VARIABLES now, bucket, entry, last, nev, hist
vars == <<now, bucket, entry, last, nev, hist>>
P == [L |-> L, I |-> I, B |-> B, Dur |-> Dur]

Init == /\ now = 0 /\ nev = 0 /\ hist = <<>>
        /\ bucket = [s \in Buckets |-> [log |-> <<>>, hit |-> NoHit]]
        /\ entry = [s \in Buckets |-> NoEntry]
        /\ last = [kind |-> "init"]

H(e) == hist' = IF KeepHist THEN Append(hist, e) ELSE hist

Tick(d) == /\ now + d <= MaxTime /\ now' = now + d
           /\ H([a |-> "Tick", d |-> d, s |-> "", kind |-> "", extra |-> 0])
           /\ UNCHANGED <<bucket, entry, last, nev>>

\* the implementation processes the same event: 1 + extra ring pushes unless
\* the contract did not count it
RECURSIVE PushN(_, _, _)
PushN(e, t, k) == IF k = 0 THEN e ELSE PushN(RingPush(e, t).e, t, k - 1)

Query(s, kind, extra) ==
    /\ nev < MaxEvents /\ nev' = nev + 1
    /\ LET d == Decide(bucket[s], now, P, kind, extra) IN
       /\ bucket' = [bucket EXCEPT ![s] = d.b]
       /\ IF d.why \in {"any", "allow", "backoff"}
          THEN /\ entry' = entry
               /\ last' = [kind |-> d.why, s |-> s, drop |-> d.drop, impl |-> d.drop]
          ELSE LET r == RingPush(entry[s], now) IN
               /\ entry' = [entry EXCEPT ![s] = IF r.above THEN r.e ELSE PushN(r.e, now, extra)]
               /\ last' = [kind |-> "counted", s |-> s, drop |-> d.drop, impl |-> r.above]
    /\ H([a |-> "Query", d |-> 0, s |-> s, kind |-> kind, extra |-> extra])
    /\ UNCHANGED now

Next == (\E d \in 1..3 : Tick(d)) \/ (\E s \in Buckets, kind \in {"q", "any", "allow"}, x \in 0..1 : Query(s, kind, x))
Spec == Init /\ [][Next]_vars

-----------------------------------------------------------------------------
\* no early drop, no late pass: the ring agrees with the sliding-window log
ExactWindow == last.kind = "counted" => last.impl = last.drop
AllowlistNeverDropped == last.kind = "allow" => ~last.drop
AnyAlwaysDropped == last.kind = "any" => last.drop
\* a flooding bucket does not change any other bucket
SubnetIsolation == [][\A s \in Buckets : (last'.kind # "init" /\ last'.s # s) => bucket'[s] = bucket[s] /\ entry'[s] = entry[s]]_vars
\* back-off only after B hits in a live record
BackoffSound == last.kind = "backoff" => bucket[last.s].hit.n >= B

EmitHist == PrintT(<<"BEH", ToJson(hist)>>)
=============================================================================
