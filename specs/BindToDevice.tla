---------------------------- MODULE BindToDevice ----------------------------
(* EXT4, first component.  internal/bindtodevice (Linux): one interface
   listener reads connections (TCP) and datagrams (UDP) from a socket bound to
   a device and hands each to the chanListener / chanPacketConn registered for
   the subnet that contains the ORIGINAL destination address.

   What a user relies on (doc/configuration.md "interface_listeners",
   "bind_interfaces"; doc comments of Manager.Add, Manager.ListenConfig,
   connIndex, interfaceListener.processConn, chanListener, chanPacketConn):

     * a listener id names one (interface, port) pair; `bind_interfaces`
       attaches subnets of that interface to servers; "In both slices a subnet
       with the largest prefix (the narrowest subnet) is sorted closer to the
       beginning" -- the narrowest registered subnet that contains the
       destination wins; the same subnet cannot be registered twice for one id;
       overlapping (nested) subnets are fine;
     * "If the connection doesn't have a connected channel-listener, it is
       closed"; a datagram for which there is no channel is dropped; nothing
       is ever handed to a listener whose subnet does not contain the
       destination, also not when the right one is closed;
     * channel_buffer_size is "the size of the buffers of the channels used to
       dispatch": at most that many undelivered items per channel, delivered in
       arrival order; a full channel makes the (single) read loop of that
       interface listener wait (nothing in the documents speaks of dropping);
     * net.Listener / net.PacketConn: Close releases a blocked Accept / Read
       with an error, a second Close is an error; what was already queued when
       the listener was closed can still be taken by ITS OWN Accept only;
     * a response written for a session leaves with the original destination
       as its source address.

   Addresses.  The concrete address space is abstracted to bit paths below a
   base network: a prefix is a path of 0..W bits; a destination is a path of
   0..W bits (a shorter path leaves the modelled paths after its last bit and
   is contained in exactly the prefixes that are prefixes of it) or Out (not
   even inside the base network).  The Go harness concretises every path bit
   by a chunk of 2..8 address bits (two fixed chunk values per level; any
   other value leaves the paths), fills the host part at random, and maps the
   whole thing below 127.0.0.0/8 (real loop-back sockets), 10.0.0.0/8 or
   2001:db8::/32 (fake connections).

   One action per call / per iteration of a read loop:
     AddOK/AddErr(id, ifn, port)     Manager.Add
     LCOK/LCErr(id, p, masked)       Manager.ListenConfig
     Start, Shutdown                 Manager.Start / Shutdown
     Dispatch(k, id, d)              one iteration of listenTCP (processConn) or
                                     listenUDP (readUDP) of interface listener id
                                     for an item with destination d
     Recv(k, id, p)                  chanListener.Accept / chanPacketConn.ReadFromSession
     Close(k, id, p)                 chanListener.Close / chanPacketConn.Close
     WriteBack(i)                    chanPacketConn.WriteToSession for session i

   The Go channels are explicit: q (buffer), parked (a receiver blocked on an
   empty open channel), hold (the read loop blocked in `ch <- x` on a full
   channel, holding the endpoint's mutex), cpend (a Close blocked on that
   mutex).

   Defect selects deliberately broken variants for the sanity configs:
     "first_match"         the index is walked in registration order
     "closed_fallthrough"  a closed listener's traffic goes to the next wider subnet
     "stray_default"       an unmatched destination goes to the first registered listener
     "refused_leaks"       a connection for a closed listener is neither delivered nor closed
     "wb_wildcard"         responses leave with the socket's own address
     "dup_subnet"          the same subnet can be registered twice                    *)
EXTENDS Integers, FiniteSets, Sequences, TLC, Json

CONSTANTS Ids,            \* interface-listener ids (strings)
          KnownIfaces,    \* interface names the system has; "eth0" owns prefix <<0>>, every other one the whole base
          UnknownIface,   \* a name the system does not have
          Ports,          \* abstract port numbers (0 = the zero port)
          W,              \* path length
          BufInit,        \* channel buffer size used by Init
          MaxReg,         \* bound on registration calls
          MaxItems,       \* bound on connections + datagrams
          Kinds,          \* subset of {"tcp", "udp"}
          Defect,
          KeepHist

VARIABLES ifl,        \* [Ids -> [ifn, port]]  (NoIfl = not added)
          lcorder,    \* sequence of <<id, prefix>> in registration order
          nreg,       \* registration calls so far
          started,    \* Manager.Start was called (no registration afterwards: "must not be called after Start")
          shut,       \* number of Manager.Shutdown calls (0..2)
          buf,        \* channel buffer size (fixed after Init / Reset)
          q,          \* [EP -> Seq(item number)]   channel buffers
          closed,     \* set of closed endpoints
          parked,     \* endpoints with a receiver blocked in Accept / ReadFromSession
          cpend,      \* endpoints with a Close blocked on the mutex
          hold,       \* [Ids \X Kinds -> item number or 0]  read loop blocked in send
          item,       \* sequence of records, one per connection / datagram
          wire,       \* last response written: [i, src]
          last,       \* outcome of the latest action
          hist

vars == <<ifl, lcorder, nreg, started, shut, buf, q, closed, parked, cpend, hold, item, wire, last, hist>>
view == <<ifl, lcorder, nreg, started, shut, buf, q, closed, parked, cpend, hold, item, wire>>

-----------------------------------------------------------------------------
(* Addresses. *)

RECURSIVE Paths(_)
Paths(n) == IF n = 0 THEN {<<>>}
            ELSE LET S == Paths(n - 1) IN S \cup {Append(s, b) : s \in {t \in S : Len(t) = n - 1}, b \in {0, 1}}
Prefixes == Paths(W)
Out == <<2>>
None == <<9>>
Dests == Prefixes \cup {Out}

IsPre(p, a) == Len(p) <= Len(a) /\ SubSeq(a, 1, Len(p)) = p
Contains(p, a) == a # Out /\ IsPre(p, a)

IfaceNets(ifn) == IF ifn = "eth0" THEN {<<0>>} ELSE {<<>>}
\* "it can accept addresses from subnet": an address range of the interface covers the whole subnet
InIface(ifn, p) == \E s \in IfaceNets(ifn) : IsPre(s, p)

EP == Ids \X Prefixes \X Kinds
NoEP == <<>>
NoIfl == [ifn |-> "", port |-> -1]

-----------------------------------------------------------------------------
(* Registration: the contract as sets of reasons for a refusal. *)

Added == {i \in Ids : ifl[i] # NoIfl}
LCS == {lcorder[j] : j \in 1..Len(lcorder)}
Reg(id) == {x[2] : x \in {y \in LCS : y[1] = id}}

\* Manager.Add does not look at the value of the port (configuration
\* validation refuses a zero port before the manager is built).
AddReasons(id, ifn, port) ==
    IF ifn \notin KnownIfaces THEN {"iface"}
    ELSE (IF id \in Added THEN {"dup_id"} ELSE {})
         \cup (IF \E j \in Added \ {id} : ifl[j].ifn = ifn /\ ifl[j].port = port THEN {"dup_addr"} ELSE {})

LCReasons(id, p, masked) ==
    IF id \notin Added THEN {"no_listener"}
    ELSE (IF ~masked THEN {"unmasked"} ELSE {})
         \cup (IF ~InIface(ifl[id].ifn, p) THEN {"not_in_iface"} ELSE {})
         \cup (IF <<id, p>> \in LCS /\ Defect # "dup_subnet" THEN {"dup"} ELSE {})

-----------------------------------------------------------------------------
(* Dispatch: the contract ... *)

Cands(id, d) == {p \in Reg(id) : Contains(p, d)}
Target(id, d) == IF Cands(id, d) = {} THEN None
                 ELSE CHOOSE p \in Cands(id, d) : \A p2 \in Cands(id, d) : Len(p2) <= Len(p)

(* ... and the shape of the code: connIndex keeps the channels sorted by
   descending prefix length and takes the first one that contains the address. *)
Min(S) == CHOOSE x \in S : \A y \in S : x <= y
FirstRegistered(id, Ok(_)) ==
    LET idx == {j \in 1..Len(lcorder) : lcorder[j][1] = id /\ Ok(lcorder[j][2])}
    IN IF idx = {} THEN None ELSE lcorder[Min(idx)][2]

ImplTarget(id, d, k) ==
    LET Ok(p) == Contains(p, d) /\ (Defect = "closed_fallthrough" => <<id, p, k>> \notin closed)
        Every(p) == TRUE
        C == {p \in Reg(id) : Ok(p)}
    IN IF Defect = "first_match" THEN FirstRegistered(id, Ok)
       ELSE IF C = {} THEN (IF Defect = "stray_default" THEN FirstRegistered(id, Every) ELSE None)
       ELSE LET L == CHOOSE n \in 0..W : (\E p \in C : Len(p) = n) /\ \A m \in (n + 1)..W : ~\E p \in C : Len(p) = m
            IN CHOOSE p \in C : Len(p) = L

-----------------------------------------------------------------------------
H(a, id, ifn, port, p, masked, k, d, i) ==
    hist' = IF KeepHist
            THEN Append(hist, [a |-> a, id |-> id, ifn |-> ifn, port |-> port, pfx |-> p, masked |-> masked,
                               k |-> k, dst |-> d, i |-> i, buf |-> buf])
            ELSE hist

L(a, res, why, woke) == [a |-> a, res |-> res, why |-> why, woke |-> woke]

Init == /\ ifl = [i \in Ids |-> NoIfl] /\ lcorder = <<>> /\ nreg = 0
        /\ started = FALSE /\ shut = 0 /\ buf = BufInit
        /\ q = [e \in EP |-> <<>>] /\ closed = {} /\ parked = {} /\ cpend = {}
        /\ hold = [x \in Ids \X Kinds |-> 0]
        /\ item = <<>> /\ wire = [i |-> 0, src |-> None]
        /\ last = L("Init", 0, {}, {}) /\ hist = <<>>

RegUnch == UNCHANGED <<started, shut, buf, q, closed, parked, cpend, hold, item, wire>>

AddOK(id, ifn, port) ==
    /\ ~started /\ nreg < MaxReg /\ AddReasons(id, ifn, port) = {}
    /\ ifl' = [ifl EXCEPT ![id] = [ifn |-> ifn, port |-> port]]
    /\ nreg' = nreg + 1 /\ last' = L("Add", 1, {}, {})
    /\ H("Add", id, ifn, port, <<>>, TRUE, "", <<>>, 0)
    /\ UNCHANGED lcorder /\ RegUnch

AddErr(id, ifn, port) ==
    /\ ~started /\ nreg < MaxReg /\ AddReasons(id, ifn, port) # {}
    /\ nreg' = nreg + 1 /\ last' = L("Add", 0, AddReasons(id, ifn, port), {})
    /\ H("Add", id, ifn, port, <<>>, TRUE, "", <<>>, 0)
    /\ UNCHANGED <<ifl, lcorder>> /\ RegUnch

LCOK(id, p, masked) ==
    /\ ~started /\ nreg < MaxReg /\ LCReasons(id, p, masked) = {}
    /\ lcorder' = Append(lcorder, <<id, p>>)
    /\ nreg' = nreg + 1 /\ last' = L("ListenConfig", 1, {}, {})
    /\ H("ListenConfig", id, "", 0, p, masked, "", <<>>, 0)
    /\ UNCHANGED ifl /\ RegUnch

LCErr(id, p, masked) ==
    /\ ~started /\ nreg < MaxReg /\ LCReasons(id, p, masked) # {}
    /\ nreg' = nreg + 1 /\ last' = L("ListenConfig", 0, LCReasons(id, p, masked), {})
    /\ H("ListenConfig", id, "", 0, p, masked, "", <<>>, 0)
    /\ UNCHANGED <<ifl, lcorder>> /\ RegUnch

Start ==
    /\ ~started /\ started' = TRUE /\ last' = L("Start", 1, {}, {})
    /\ H("Start", "", "", 0, <<>>, TRUE, "", <<>>, 0)
    /\ UNCHANGED <<ifl, lcorder, nreg, shut, buf, q, closed, parked, cpend, hold, item, wire>>

\* the second Shutdown reports net.ErrClosed (shut counts the calls; two are enough to see both answers)
Shutdown ==
    /\ started /\ shut < 2 /\ shut' = shut + 1 /\ last' = L("Shutdown", IF shut > 0 THEN 0 ELSE 1, {}, {})
    /\ H("Shutdown", "", "", 0, <<>>, TRUE, "", <<>>, 0)
    /\ UNCHANGED <<ifl, lcorder, nreg, started, buf, q, closed, parked, cpend, hold, item, wire>>

NewItem(k, id, d, ep, st, cl) == [kind |-> k, id |-> id, dst |-> d, ep |-> ep, st |-> st, cl |-> cl, ans |-> FALSE]

Dispatch(k, id, d) ==
    /\ started /\ shut = 0 /\ id \in Added /\ hold[<<id, k>>] = 0 /\ Len(item) < MaxItems
    /\ LET i == Len(item) + 1
           t == ImplTarget(id, d, k)
           ep == <<id, t, k>>
       IN IF t = None
          THEN \* no channel: a connection is closed, a datagram is dropped
               /\ item' = Append(item, NewItem(k, id, d, NoEP, IF k = "tcp" THEN "closed" ELSE "dropped", k = "tcp"))
               /\ last' = L("Dispatch", i, {}, {})
               /\ UNCHANGED <<q, parked, hold>>
          ELSE IF ep \in closed
          THEN \* the channel is closed: not delivered; a connection is closed as well
               /\ item' = Append(item, NewItem(k, id, d, ep, "refused", k = "tcp" /\ Defect # "refused_leaks"))
               /\ last' = L("Dispatch", i, {}, {})
               /\ UNCHANGED <<q, parked, hold>>
          ELSE IF ep \in parked
          THEN \* a receiver is waiting: it gets the item at once
               /\ item' = Append(item, NewItem(k, id, d, ep, "recvd", FALSE))
               /\ parked' = parked \ {ep}
               /\ last' = L("Dispatch", i, {}, {<<ep, i>>})
               /\ UNCHANGED <<q, hold>>
          ELSE IF Len(q[ep]) < buf
          THEN /\ item' = Append(item, NewItem(k, id, d, ep, "queued", FALSE))
               /\ q' = [q EXCEPT ![ep] = Append(@, i)]
               /\ last' = L("Dispatch", i, {}, {})
               /\ UNCHANGED <<parked, hold>>
          ELSE \* full channel: this read loop waits, holding the endpoint's mutex
               /\ item' = Append(item, NewItem(k, id, d, ep, "held", FALSE))
               /\ hold' = [hold EXCEPT ![<<id, k>>] = i]
               /\ last' = L("Dispatch", i, {}, {})
               /\ UNCHANGED <<q, parked>>
    /\ H("Dispatch", id, "", 0, <<>>, TRUE, k, d, Len(item) + 1)
    /\ UNCHANGED <<ifl, lcorder, nreg, started, shut, buf, closed, cpend, wire>>

Recv(k, id, p) ==
    LET ep == <<id, p, k>> IN
    /\ started /\ <<id, p>> \in LCS /\ ep \notin parked
    /\ IF q[ep] # <<>>
       THEN LET h == Head(q[ep])
                x == hold[<<id, k>>]
                rel == x # 0 /\ item[x].ep = ep       \* the waiting read loop gets its slot
            IN /\ q' = [q EXCEPT ![ep] = IF rel THEN Append(Tail(@), x) ELSE Tail(@)]
               /\ hold' = IF rel THEN [hold EXCEPT ![<<id, k>>] = 0] ELSE hold
               /\ item' = [j \in 1..Len(item) |->
                              IF j = h THEN [item[j] EXCEPT !.st = "recvd"]
                              ELSE IF rel /\ j = x THEN [item[j] EXCEPT !.st = "queued"]
                              ELSE item[j]]
               \* ... and a Close that waited for the mutex goes through
               /\ closed' = IF rel /\ ep \in cpend THEN closed \cup {ep} ELSE closed
               /\ cpend' = IF rel THEN cpend \ {ep} ELSE cpend
               /\ last' = L("Recv", h, {}, {})
               /\ UNCHANGED parked
       ELSE IF ep \in closed
       THEN /\ last' = L("Recv", -1, {}, {})
            /\ UNCHANGED <<q, hold, item, closed, cpend, parked>>
       ELSE /\ parked' = parked \cup {ep}
            /\ last' = L("Recv", 0, {}, {})
            /\ UNCHANGED <<q, hold, item, closed, cpend>>
    /\ H("Recv", id, "", 0, p, TRUE, k, <<>>, 0)
    /\ UNCHANGED <<ifl, lcorder, nreg, started, shut, buf, wire>>

Close(k, id, p) ==
    LET ep == <<id, p, k>> IN
    /\ started /\ <<id, p>> \in LCS /\ ep \notin cpend
    /\ IF ep \in closed
       THEN /\ last' = L("Close", 0, {}, {})
            /\ UNCHANGED <<closed, parked, cpend>>
       ELSE IF hold[<<id, k>>] # 0 /\ item[hold[<<id, k>>]].ep = ep
       THEN /\ cpend' = cpend \cup {ep}
            /\ last' = L("Close", 2, {}, {})
            /\ UNCHANGED <<closed, parked>>
       ELSE /\ closed' = closed \cup {ep}
            /\ parked' = parked \ {ep}
            /\ last' = L("Close", 1, {}, IF ep \in parked THEN {<<ep, -1>>} ELSE {})
            /\ UNCHANGED cpend
    /\ H("Close", id, "", 0, p, TRUE, k, <<>>, 0)
    /\ UNCHANGED <<ifl, lcorder, nreg, started, shut, buf, q, hold, item, wire>>

WriteBack(i) ==
    /\ started /\ shut = 0 /\ i \in 1..Len(item)
    /\ item[i].kind = "udp" /\ item[i].st = "recvd" /\ ~item[i].ans
    /\ item' = [item EXCEPT ![i].ans = TRUE]
    /\ wire' = [i |-> i, src |-> IF Defect = "wb_wildcard" THEN <<>> ELSE item[i].dst]
    /\ last' = L("WriteBack", i, {}, {})
    /\ H("WriteBack", "", "", 0, <<>>, TRUE, "udp", <<>>, i)
    /\ UNCHANGED <<ifl, lcorder, nreg, started, shut, buf, q, closed, parked, cpend, hold>>

Next == \/ \E id \in Ids, ifn \in KnownIfaces \cup {UnknownIface}, port \in Ports : AddOK(id, ifn, port) \/ AddErr(id, ifn, port)
        \/ \E id \in Ids, p \in Prefixes, m \in BOOLEAN : LCOK(id, p, m) \/ LCErr(id, p, m)
        \/ Start \/ Shutdown
        \/ \E k \in Kinds, id \in Ids : \/ \E d \in Dests : Dispatch(k, id, d)
                                         \/ \E p \in Prefixes : Recv(k, id, p) \/ Close(k, id, p)
        \/ \E i \in 1..MaxItems : WriteBack(i)

Spec == Init /\ [][Next]_vars

-----------------------------------------------------------------------------
(* Properties. *)

Items == 1..Len(item)
Range(s) == {s[j] : j \in 1..Len(s)}

TypeOK == /\ \A e \in EP : Len(q[e]) <= buf
          /\ closed \subseteq EP /\ parked \subseteq EP /\ cpend \subseteq EP
          /\ \A i \in Items : item[i].st \in {"closed", "dropped", "refused", "recvd", "queued", "held"}

\* registration
RegistrationSound ==
    /\ \A j1, j2 \in 1..Len(lcorder) : j1 # j2 => lcorder[j1] # lcorder[j2]
    /\ \A x \in LCS : x[1] \in Added /\ InIface(ifl[x[1]].ifn, x[2])
    /\ \A i, j \in Added : i # j => ~(ifl[i].ifn = ifl[j].ifn /\ ifl[i].port = ifl[j].port)
    /\ \A i \in Added : ifl[i].ifn \in KnownIfaces
DecisionConsistent ==
    last.a \in {"Add", "ListenConfig"} => ((last.res = 1) = (last.why = {}))

\* DispatchBySubnet: whatever was handed (or is about to be handed) to a
\* channel was handed to the channel of the narrowest registered subnet that
\* contains its destination -- never to another one.
DispatchBySubnet ==
    \A i \in Items : item[i].ep # NoEP =>
        /\ Target(item[i].id, item[i].dst) # None
        /\ item[i].ep = <<item[i].id, Target(item[i].id, item[i].dst), item[i].kind>>

\* destinations in no registered subnet are closed (TCP) / dropped (UDP)
NoStrayDelivery ==
    \A i \in Items : Target(item[i].id, item[i].dst) = None =>
        /\ item[i].ep = NoEP
        /\ item[i].st = (IF item[i].kind = "tcp" THEN "closed" ELSE "dropped")

\* every connection is delivered, waiting for delivery, or closed by the dispatcher
NoLeak ==
    \A i \in Items : item[i].kind = "tcp" =>
        (item[i].cl = (item[i].st \in {"closed", "refused"}))

\* channel contents: exactly the undelivered items of that endpoint, in arrival order
QueuesExact ==
    /\ \A e \in EP : /\ \A a, b \in 1..Len(q[e]) : a < b => q[e][a] < q[e][b]
                     /\ \A a \in 1..Len(q[e]) : q[e][a] \in Items /\ item[q[e][a]].ep = e /\ item[q[e][a]].st = "queued"
                     /\ (<<e[1], e[2]>> \notin LCS => q[e] = <<>>)
    /\ \A i \in Items : item[i].st = "queued" => i \in Range(q[item[i].ep])
HoldExact ==
    /\ \A x \in Ids \X Kinds : hold[x] # 0 =>
          /\ item[hold[x]].st = "held" /\ item[hold[x]].id = x[1] /\ item[hold[x]].kind = x[2]
          /\ Len(q[item[hold[x]].ep]) = buf /\ item[hold[x]].ep \notin closed
    /\ \A i \in Items : item[i].st = "held" => hold[<<item[i].id, item[i].kind>>] = i
    /\ \A e \in cpend : e \notin closed /\ hold[<<e[1], e[3]>>] # 0 /\ item[hold[<<e[1], e[3]>>]].ep = e

\* no receiver sleeps on a channel that has something for it, or that is closed
NoLostWakeup == \A e \in parked : q[e] = <<>> /\ e \notin closed

\* a closed endpoint never gets anything new: what it still holds was queued before the Close
ClosedGetsNothing == [][\A e \in closed : Len(q'[e]) <= Len(q[e])]_vars

\* a response leaves with the original destination as its source
WriteBackSource == wire.i # 0 => wire.src = item[wire.i].dst

EmitHist == PrintT(<<"BEH", ToJson(hist)>>)
=============================================================================
