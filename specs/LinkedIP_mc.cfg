SPECIFICATION Spec
CONSTANTS
  Methods = {"GET", "POST", "HEAD", "PUT", "DELETE", "OPTIONS"}
  Alphabet = {"linkip", "ddns", "status", "x", "", ".", ".."}
  MaxLen = 5
  RejectDotSegments = TRUE
INVARIANTS ImplWithinContract OnlyFourShapes StaysUnderPrefix OnlyGetPost NormClean
