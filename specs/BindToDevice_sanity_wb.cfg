SPECIFICATION Spec
CONSTANTS
  KeepHist = FALSE
  Ids = {"a"}
  KnownIfaces = {"eth1"}
  UnknownIface = "nx"
  Ports = {53}
  W = 1
  BufInit = 1
  MaxReg = 3
  MaxItems = 3
  Kinds = {"udp"}
  Defect = "wb_wildcard"
VIEW view
INVARIANTS WriteBackSource
CHECK_DEADLOCK FALSE
