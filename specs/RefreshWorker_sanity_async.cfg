SPECIFICATION Spec
CONSTANTS
  RosSet = {TRUE, FALSE}
  RndSet = {TRUE, FALSE}
  Joins = FALSE
  MaxTick = 3
  MaxRefr = 3
  MaxShut = 2
  CtxKinds = {"nodeadline", "open"}
  Defect = "async"
  KeepHist = FALSE
VIEW view
INVARIANTS NoOverlap
CHECK_DEADLOCK FALSE
