SPECIFICATION Spec
CONSTANTS
  RosSet = {TRUE, FALSE}
  RndSet = {TRUE, FALSE}
  Joins = FALSE
  MaxTick = 3
  MaxRefr = 3
  MaxShut = 2
  CtxKinds = {"nodeadline", "open"}
  Defect = "no_cancel"
  KeepHist = FALSE
VIEW view
INVARIANTS RefreshContextBounded
CHECK_DEADLOCK FALSE
