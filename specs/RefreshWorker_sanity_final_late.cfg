SPECIFICATION Spec
CONSTANTS
  RosSet = {TRUE, FALSE}
  RndSet = {TRUE, FALSE}
  Joins = FALSE
  MaxTick = 3
  MaxRefr = 3
  MaxShut = 2
  CtxKinds = {"nodeadline", "open"}
  Defect = "final_late"
  KeepHist = FALSE
VIEW view
INVARIANTS FinalBeforeStop
CHECK_DEADLOCK FALSE
