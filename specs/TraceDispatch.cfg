SPECIFICATION TraceSpec
CONSTANTS
  Transports = {"udp"}
  MaxInputs = 1
  Defect = "none"
  DCRecover = TRUE
POSTCONDITION TraceAccepted
CHECK_DEADLOCK FALSE
