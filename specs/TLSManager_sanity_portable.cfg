SPECIFICATION Spec
CONSTANTS
  Pairs = {"p1"}
  CertIds = {"A1"}
  BadContents = {}
  NTP = 1
  TicketContents = {1, 2}
  MaxCfg = 2
  MaxSess = 1
  SNIs = {}
  Defect = "rotate_clones"
  KeepHist = FALSE
  AllowRefreshFail = TRUE
  Atomic = FALSE
VIEW view
INVARIANTS SessionsPortable
PROPERTIES PairsOnlyGrow
CHECK_DEADLOCK FALSE
