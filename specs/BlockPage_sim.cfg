SPECIFICATION SimSpec
CONSTANTS
  Servers = {"adult", "general", "safe"}
  MaxV = 9
  AnyConf = TRUE
  Defect = "none"
  KeepHist = TRUE
  Atomic = TRUE
CONSTRAINT EmitHist
CHECK_DEADLOCK FALSE
