--------------------------- MODULE TraceSchedule ---------------------------
(* EXT10 (b): validation of what the real filter.ConfigSchedule.Contains and
   filter.DayInterval.Validate returned (harness/internal/filter/ext10_test.go)
   against the contract of Schedule.tla, one line of trace.ndjson per call:

     C{src, zone, week, ivs, t, off, ok, okloc, oknew, again, rep}
        ivs: the seven intervals of the week, <<-1, -1>> = nil; t: seconds since
        2023-12-31T00:00:00Z; off: the offset the Go runtime applies in the zone at
        t; ok: Contains(t in UTC); okloc: the same instant expressed in another
        location; oknew: a freshly built equal schedule; again: the first call
        repeated; rep: the line repeats the inputs of the previous line
     V{src, isnil, s, e, ok, range, again}

   Per line: every clause of the contract on the observed result (NONCONF with
   the names of the failed clauses), the laws "the verdict depends on the
   instant only" and "equal schedules give equal verdicts", determinism within
   the line and -- for rep lines -- across lines.  A line whose zone offset is
   not the one of the spec's zone table is reported as MODEL (the tz database
   differs from the table: no verdict).                                       *)
EXTENDS Schedule

VARIABLES l, prev
TraceFromDisk == ndJsonDeserialize("trace.ndjson")
Trace == TLCGet(3)
E == Trace[l]
tvars == <<row, l, prev>>

R(cond, msg) == IF cond THEN {} ELSE {msg}
Report(rs) == IF rs = {} THEN TRUE ELSE PrintT(<<"NONCONF", l, rs>>)
NoPrev == [ev |-> "-", zone |-> "", ivs |-> <<>>, t |-> 0, ok |-> FALSE]
SameAsPrev(e) == prev.ev = "C" /\ prev.zone = e.zone /\ prev.ivs = e.ivs /\ prev.t = e.t

WellFormedC(e) == /\ e.zone \in KnownZones /\ Len(e.ivs) = 7 /\ ValidWeek(e.ivs) /\ InYear(e.t)

TC == /\ l <= Len(Trace) /\ E.ev = "C"
      /\ IF ~WellFormedC(E) THEN PrintT(<<"MODEL", l, "row outside the table's domain">>)
         ELSE IF E.off # Off(Zone(E.zone), E.t)
         THEN PrintT(<<"MODEL", l, "zone offset differs", E.zone, E.t, E.off, Off(Zone(E.zone), E.t)>>)
         ELSE LET z == Zone(E.zone) IN
              Report(CClauses(z, E.ivs, E.t, E.ok)
                     \cup R(E.ok = Contains(z, E.ivs, E.t), "Contract")
                     \cup R(E.ok = Contains(z, E.ivs, E.t) \/ E.ok # ElapsedRule(z, E.ivs, E.t), "=ElapsedRule")
                     \cup R(E.okloc = E.ok, "InstantOnly")
                     \cup R(E.oknew = E.ok, "EqualSchedules")
                     \cup R(E.again = E.ok, "Deterministic")
                     \cup R(~E.rep \/ (SameAsPrev(E) /\ prev.ok = E.ok), "DeterministicAcrossLines"))
      /\ prev' = [ev |-> "C", zone |-> E.zone, ivs |-> E.ivs, t |-> E.t, ok |-> E.ok]
      /\ l' = l + 1 /\ UNCHANGED row

TV == /\ l <= Len(Trace) /\ E.ev = "V"
      /\ Report(VClauses(E.isnil, E.s, E.e, E.ok)
                \cup R(E.ok = ValidIv(E.isnil, E.s, E.e), "Contract")
                \cup R(E.ok \/ E.range, "ErrorIsOutOfRange")
                \cup R(E.again = E.ok, "Deterministic"))
      /\ prev' = [NoPrev EXCEPT !.ev = "V"]
      /\ l' = l + 1 /\ UNCHANGED row

TraceInit == TLCSet(3, TraceFromDisk) /\ row = NoRow /\ l = 1 /\ prev = NoPrev /\ TLCSet(1, 1)
TraceNext == (TC \/ TV) /\ TLCSet(1, l + 1)
TraceSpec == TraceInit /\ [][TraceNext]_tvars
TraceAccepted == IF TLCGet(1) = Len(Trace) + 1 THEN TRUE ELSE PrintT(<<"STUCK", TLCGet(1), Len(Trace)>>) /\ FALSE
=============================================================================
