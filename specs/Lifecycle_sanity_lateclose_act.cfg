SPECIFICATION Spec
CONSTANTS
  Req = {1, 2}
  CtxKinds = {"nodeadline", "open"}
  MaxMisuse = 2
  DefectNoWait = FALSE
  DefectLateClose = TRUE
  DefectIgnoreDeadline = FALSE
  DefectDoubleNil = FALSE
PROPERTIES AcceptOnlyWhileStarted
CHECK_DEADLOCK FALSE
