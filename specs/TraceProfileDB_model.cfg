SPECIFICATION TraceSpec
CONSTANTS
  KeepHist = FALSE
  Prof = {"p1", "p2"}
  Dev = {"d1", "d2", "d3"}
  Linked = {"i1", "i2"}
  Ded = {"e1", "e2"}
  Human = {"h1", "h2"}
  MaxMut = 1000000
  MaxSync = 1000000
  MaxPending = 1000
  CleanupChecksGen = TRUE
  HumanChecksProfile = TRUE
  HumanViaRecord = FALSE
INVARIANTS GhostAgrees ProbesCorrect RestorePreserves GhostConsistent ModelAgrees
POSTCONDITION TraceAccepted
CHECK_DEADLOCK FALSE
