SPECIFICATION FairSpec
CONSTANTS
  RosSet = {TRUE, FALSE}
  RndSet = {TRUE, FALSE}
  Joins = FALSE
  MaxTick = 2
  MaxRefr = 2
  MaxShut = 1
  CtxKinds = {"nodeadline", "open"}
  Defect = "no_close"
  KeepHist = FALSE
VIEW view
PROPERTIES LoopExits
CHECK_DEADLOCK FALSE
