SPECIFICATION Spec
CONSTANTS
  Defect = "crosswire"
  MaxChanges = 1
PROPERTY NoCrossTalk
CHECK_DEADLOCK FALSE
