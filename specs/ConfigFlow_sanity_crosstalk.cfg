SPECIFICATION Spec
CONSTANTS
  Defect = "crosswire"
  MaxChanges = 1
  FocusKeys = {}
PROPERTY NoCrossTalk
CHECK_DEADLOCK FALSE
