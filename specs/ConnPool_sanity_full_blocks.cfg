SPECIFICATION Spec
CONSTANTS
  Callers = {"a", "b"}
  MaxConn = 2
  CapSet = {1}
  TmoSet = {1}
  MaxTime = 3
  MaxOps = 5
  Defect = "full_blocks"
  KeepHist = FALSE
VIEW view
INVARIANTS CapacityBound
CHECK_DEADLOCK FALSE
