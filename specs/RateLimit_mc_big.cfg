SPECIFICATION Spec
CONSTANTS
  KeepHist = FALSE
  Buckets = {"s1", "s2"}
  L = 3
  I = 3
  B = 2
  Dur = 3
  Per = 2
  MaxTime = 10
  MaxEvents = 7
  ForgetWindow = FALSE
INVARIANTS ExactWindow AllowlistNeverDropped AnyAlwaysDropped BackoffSound
PROPERTY SubnetIsolation
CHECK_DEADLOCK FALSE
