----------------------------- MODULE FilterCache -----------------------------
(* C12.  A filter with a result cache: hashprefix.Filter, rulelist.Refreshable,
   safesearch.Filter, serviceblock / custom filters.

   The list has a version (bumped by every refresh); the verdict for the one
   host modelled here is a function of the version: Listed[v].  A result is
   [verdict, shape]: the shape is the requester's (blocking mode, TTL) when the
   filter builds the blocked answer itself.

   Request r:   Lookup   read the cache; a hit ends the request
                Compute  read the CURRENT list version, build the result for r
                Store    write it to the cache, end
   Refresh:     Swap     install version + 1
                Clear    empty the cache, end
   Locking = "rw": a request holds the read lock from Lookup to Store and a
   refresh the write lock from Swap to Clear (rulelist.Refreshable,
   safesearch).  Locking = "none": no common lock (hashprefix.Filter on the
   pinned tree: atomic pointer swap, then Clear).
   Reshape = TRUE: a cached result is re-shaped for the requester on a hit;
   FALSE: it is handed out as the first requester's answer (hashprefix on the
   pinned tree in IP mode).                                                   *)
EXTENDS Naturals, FiniteSets, Sequences, TLC

CONSTANTS Req,            \* requesters (each has its own shape)
          MaxVer,         \* refreshes allowed
          Listed,         \* [0..MaxVer -> BOOLEAN]
          Locking, Reshape,
          MaxRounds       \* requests each requester may issue

VARIABLES ver,            \* installed list version
          cache,          \* [present, verdict, shape, at]
          rpc, rtmp,      \* per requester: pc and the computed result
          rstart,         \* version installed when the request started (no refresh running)
          fpc,            \* refresh pc: "idle" | "swapped"
          served,         \* last completed request: [r, verdict, shape, hit, at, start]
          rounds
vars == <<ver, cache, rpc, rtmp, rstart, fpc, served, rounds>>

NoEntry == [present |-> FALSE, verdict |-> FALSE, shape |-> "", at |-> 0]
Verdict(v) == Listed[v]

Init == /\ ver = 0 /\ cache = NoEntry
        /\ rpc = [r \in Req |-> "idle"] /\ rtmp = [r \in Req |-> NoEntry]
        /\ rstart = [r \in Req |-> 0]
        /\ fpc = "idle" /\ served = [r |-> "", hit |-> FALSE, verdict |-> FALSE, shape |-> "", at |-> 0, start |-> 0, quiet |-> FALSE]
        /\ rounds = [r \in Req |-> 0]

ReadersActive == \E r \in Req : rpc[r] # "idle"
CanRead == Locking = "none" \/ fpc = "idle"
CanWrite == Locking = "none" \/ ~ReadersActive

Lookup(r) ==
    /\ rpc[r] = "idle" /\ rounds[r] < MaxRounds /\ CanRead
    /\ rounds' = [rounds EXCEPT ![r] = @ + 1]
    /\ rstart' = [rstart EXCEPT ![r] = ver]
    /\ IF cache.present
       THEN /\ served' = [r |-> r, hit |-> TRUE, verdict |-> cache.verdict,
                          shape |-> IF Reshape THEN r ELSE cache.shape,
                          at |-> cache.at, start |-> ver, quiet |-> fpc = "idle"]
            /\ UNCHANGED <<rpc, rtmp>>
       ELSE /\ rpc' = [rpc EXCEPT ![r] = "compute"] /\ UNCHANGED <<served, rtmp>>
    /\ UNCHANGED <<ver, cache, fpc>>

Compute(r) ==
    /\ rpc[r] = "compute"
    /\ rtmp' = [rtmp EXCEPT ![r] = [present |-> TRUE, verdict |-> Verdict(ver), shape |-> r, at |-> ver]]
    /\ rpc' = [rpc EXCEPT ![r] = "store"]
    /\ UNCHANGED <<ver, cache, rstart, fpc, served, rounds>>

Store(r) ==
    /\ rpc[r] = "store"
    /\ cache' = rtmp[r]
    /\ served' = [r |-> r, hit |-> FALSE, verdict |-> rtmp[r].verdict, shape |-> r, at |-> rtmp[r].at,
                  start |-> rstart[r], quiet |-> FALSE]
    /\ rpc' = [rpc EXCEPT ![r] = "idle"]
    /\ UNCHANGED <<ver, rtmp, rstart, fpc, rounds>>

Swap == /\ fpc = "idle" /\ ver < MaxVer /\ CanWrite
        /\ ver' = ver + 1 /\ fpc' = "swapped"
        /\ UNCHANGED <<cache, rpc, rtmp, rstart, served, rounds>>
Clear == /\ fpc = "swapped" /\ cache' = NoEntry /\ fpc' = "idle"
         /\ UNCHANGED <<ver, rpc, rtmp, rstart, served, rounds>>

Next == (\E r \in Req : Lookup(r) \/ Compute(r) \/ Store(r)) \/ Swap \/ Clear
Spec == Init /\ [][Next]_vars

-----------------------------------------------------------------------------
\* the cache is invisible: a served result is shaped for the one who asked
TransparentShape == served.r # "" => served.shape = served.r
\* no request that starts after a refresh has returned is answered from a
\* result computed with an older version
NoStaleAfterRefresh == served.r # "" /\ served.hit /\ served.quiet => served.at = served.start

Listed2 == (0 :> FALSE @@ 1 :> TRUE @@ 2 :> FALSE)
=============================================================================
