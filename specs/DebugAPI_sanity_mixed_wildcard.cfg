SPECIFICATION Spec
CONSTANTS
  MaxPats = 2
  Defect = "mixed_wildcard"
INVARIANTS WildcardOnlyAlone
CHECK_DEADLOCK FALSE
