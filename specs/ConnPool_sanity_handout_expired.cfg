SPECIFICATION Spec
CONSTANTS
  Callers = {"a", "b"}
  MaxConn = 2
  CapSet = {1}
  TmoSet = {1}
  MaxTime = 3
  MaxOps = 5
  Defect = "handout_expired"
  KeepHist = FALSE
VIEW view
INVARIANTS NoExpiredHandout
CHECK_DEADLOCK FALSE
