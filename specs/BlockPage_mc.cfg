SPECIFICATION Spec
CONSTANTS
  Servers = {"adult", "safe"}
  MaxV = 2
  AnyConf = TRUE
  Defect = "none"
  KeepHist = FALSE
  Atomic = FALSE
VIEW view
INVARIANTS TypeOK PairConsistent UnconfiguredUntouched
PROPERTIES FailedRefreshKeepsOld RefreshIsTotal RetNamesTheFailures SwapInstallsTheRead OnlyRefreshChangesPages
CHECK_DEADLOCK FALSE
