SPECIFICATION TraceSpec
CONSTANTS
  IntsValidated = TRUE
  PrefixBounded = TRUE
  EcsSizeChecked = TRUE
  MaxMut = 0
  TripleFields = {}
POSTCONDITION TraceAccepted
CHECK_DEADLOCK FALSE
