SPECIFICATION Spec
CONSTANTS
  KeepHist = TRUE
  Ids = {"a", "b"}
  KnownIfaces = {"eth0", "eth1"}
  UnknownIface = "nx"
  Ports = {0, 53, 54}
  W = 3
  BufInit = 1
  MaxReg = 7
  MaxItems = 12
  Kinds = {"tcp", "udp"}
  Defect = "none"
CONSTRAINT EmitHist
CHECK_DEADLOCK FALSE
