SPECIFICATION Spec
CONSTANTS
  Part = "small"
  Variant = "lists_before_custom"
INVARIANTS RewriteWinsOutright
