SPECIFICATION Spec
CONSTANTS
  Part = "rules"
  Variant = "lists_before_custom"
INVARIANTS RewriteWinsOutright
