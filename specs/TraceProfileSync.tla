-------------------------- MODULE TraceProfileSync --------------------------
(* C14, backend leg: what ProfileDB.tla ASSUMES of the storage, checked on the
   real pair backendpb.ProfileStorage + profiledb.Default against an in-process
   backend (harness/internal/backendpb/c14pb_test.go).  ProfileDB.tla lets a
   Sync(full) deliver all profiles and a Sync(FALSE) exactly the profiles that
   became dirty since the previous sync; with the real storage that is true only
   if the client keeps the chain of synchronisation times intact.

   One line per step of a history (Reset, Mutate, Sync, Lookup, Cleanup).

   SyncTimeChain          a Sync issues exactly one request; the request is a full
                          one (zero time) iff the schedule (the database's own
                          clock, owned by the harness) calls for a full sync; an
                          incremental request carries exactly the sync_time trailer
                          of the previous response -- also when that response
                          streamed no profile at all.  The chain is recomputed here
                          from the recorded times (prev), the server's own verdict
                          (req_time_is_prev_trailer) must agree.
   LookupsMatchReference  the probes of all four look-ups over the whole key
                          universe, taken after the step, equal the map-based
                          reference of the latest synchronised backend records
                          (found / device / profile / deleted flag / converted
                          settings): probes_bad is empty.                           *)
EXTENDS Integers, Sequences, TLC, Json

VARIABLES l, prev      \* prev: trailer (ms, relative) of the last response of this history; -1: none yet
Trace == ndJsonDeserialize("trace.ndjson")

ChainBroken(e) ==
    \/ e.nreq # 1
    \/ e.req_full # e.full_expected
    \/ /\ ~e.full_expected
       /\ \/ e.req_rel_ms # prev
          \/ ~e.req_time_is_prev_trailer
    \/ e.full_expected /\ e.req_rel_ms # -1

Reasons(e) ==
    (IF e.ev = "Sync" /\ ChainBroken(e) THEN {"SyncTimeChain"} ELSE {})
    \cup (IF Len(e.probes_bad) > 0 THEN {"LookupsMatchReference"} ELSE {})

TraceInit == l = 1 /\ prev = -1
TraceNext == /\ l <= Len(Trace) /\ l' = l + 1
             /\ LET e == Trace[l] IN
                /\ prev' = IF e.ev = "Reset" THEN -1
                           ELSE IF e.ev = "Sync" /\ e.nreq > 0 THEN e.trailer_rel_ms
                           ELSE prev
                /\ LET r == Reasons(e) IN IF r = {} THEN TRUE ELSE PrintT(<<"NONCONF", l, r>>)
TraceSpec == TraceInit /\ [][TraceNext]_<<l, prev>>
TraceAccepted == LET d == TLCGet("stats").diameter IN
    IF d - 1 = Len(Trace) THEN TRUE ELSE PrintT(<<"STUCK", d, Len(Trace)>>) /\ FALSE
=============================================================================
