SPECIFICATION Spec
CONSTANTS
  Servers = {"adult", "safe"}
  MaxV = 2
  AnyConf = FALSE
  Defect = "two_step"
  KeepHist = FALSE
  Atomic = FALSE
VIEW view
INVARIANTS PairConsistent
PROPERTIES OnlyRefreshChangesPages
CHECK_DEADLOCK FALSE
