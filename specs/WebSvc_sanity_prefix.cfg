SPECIFICATION Spec
CONSTANTS
  Listeners = {"web", "nilsvc", "safe", "adult", "general", "linkip"}
  Methods = {"GET", "HEAD", "POST", "PUT", "DELETE", "OPTIONS"}
  Paths = {"root", "robots", "dnscheck", "favicon", "octet", "html", "nohdr", "miss", "near"}
  Encs = {"none", "gzip", "multi", "q0", "other", "upper", "ident"}
  Defect = "dnscheck_prefix"
INVARIANTS DNSCheckDelegated
CHECK_DEADLOCK FALSE
