SPECIFICATION Spec
CONSTANTS
  Pairs = {"p1"}
  CertIds = {"A1"}
  BadContents = {}
  NTP = 2
  TicketContents = {1, 2, 9}
  MaxCfg = 2
  MaxSess = 0
  SNIs = {}
  Defect = "none"
  KeepHist = FALSE
  AllowRefreshFail = TRUE
  Atomic = FALSE
VIEW view
INVARIANTS TypeOK StoredNeverNil NoDuplicatePairs HandshakeSeesLoadedCert AllConfigsSameTickets KeysAreOneRead SessionsPortable
PROPERTIES PairsOnlyGrow FailedRefreshKeepsOld RefreshIsTotal FailedAddKeepsOld AddStoresTheFile RotationIsTotal FailedRotateKeepsOld
CHECK_DEADLOCK FALSE
