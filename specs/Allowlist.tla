----------------------------- MODULE Allowlist -----------------------------
(* EXT4, second component.  internal/consul.AllowlistUpdater periodically
   downloads the dynamic part of the rate-limit allow-list and hands it to
   ratelimit.DynamicAllowlist.Update; IsAllowed is called concurrently by the
   rate-limit middleware of every request.

   What a user relies on (doc/configuration.md `ratelimit.allowlist`: "`list`:
   the array of the allowed IPs or CIDRs", "`refresh_interval`: how often
   AdGuard DNS refreshes the dynamic part of its allowlist from the data
   received from CONSUL_ALLOWLIST_URL"; doc/externalhttp.md: "The
   CONSUL_ALLOWLIST_URL endpoint must respond with a 200 OK response code and
   a JSON document in the following format: [{"Address": "1.2.3.4"}]";
   DynamicAllowlist: "has a dynamic and a persistent list of IP networks",
   Update: "replaces the previous list of dynamic subnets with nets"):

     RefreshIsTotal         after a successful refresh the dynamic part is the
                            downloaded list exactly; removed entries are gone
     FailedRefreshKeepsOld  a response that is not a 200 with a well-formed
                            document changes nothing at all
     ReadersSeeOldOrNew     an IsAllowed that overlaps refreshes answers from
                            one of the lists in force during the call, never
                            from a mixture or an intermediate state
     PersistentKept         configured entries are never touched by a refresh

   U is a small universe of abstract client addresses (the harness realises
   each by several concrete IPv4 and IPv6 addresses; persistent entries are
   CIDRs around them, dynamic entries are the single addresses Consul serves).

   The endpoint's behaviour for one download is a `mode`:
     OK       "ok"       200, the documented document (extra Consul fields ignored)
     failing  "http500"  status 500 (whatever the body)
              "garbage"  200, not JSON
              "notarray" 200, a JSON object / string instead of the array
              "badaddr"  200, well-formed JSON, one Address is not an IP address
              "truncated" 200, the document stops in the middle of the array
              "reset"    the connection dies before a response
     the documents do not say ("lenient": either outcome is admitted, but it
     must be all or nothing)
              "null"     200, the JSON value null        (if taken: the empty list)
              "noaddr"   200, some records have no / an empty Address (if taken: the other ones)
              "trailing" 200, the array is followed by garbage (if taken: the array)

   Implementation shape: RefreshBegin (download + decode into a private slice),
   then RefreshApply (DynamicAllowlist.Update: one pointer store under the
   write lock) or RefreshFail; a reader is ReadCall, ReadPers (persistent list,
   immutable, no lock), ReadDyn (dynamic list under the read lock), ReadRet.

   Defect: "merge"          Update appends to the previous list
           "fail_clears"    a failed download empties the dynamic list
           "inplace"        Update empties the list and fills it again in two steps
           "drops_pers"     a refresh replaces the persistent entries as well        *)
EXTENDS Integers, FiniteSets, Sequences, TLC, Json

CONSTANTS U, Readers, MaxRefresh, MaxReads, ModesUsed, Defect, KeepHist

OKModes == {"ok"}
FailModes == {"http500", "garbage", "notarray", "badaddr", "truncated", "reset"}
LenientModes == {"null", "noaddr", "trailing"}
Modes == OKModes \cup FailModes \cup LenientModes
ASSUME ModesUsed \subseteq Modes

VARIABLES pers0, pers,   \* configured entries (pers0: as configured, ghost)
          dyn,           \* the dynamic list in force
          vers,          \* sequence of dynamic lists: vers[1] initial, vers[k+1] after the k-th refresh
          rf,            \* the refresh in progress
          nstart,        \* refreshes started
          rd,            \* [Readers -> reader state]
          nreads,
          lastr,         \* outcome of the last completed refresh
          lastread,      \* the last completed IsAllowed
          hist

vars == <<pers0, pers, dyn, vers, rf, nstart, rd, nreads, lastr, lastread, hist>>
view == <<pers0, pers, dyn, vers, rf, nstart, rd, nreads, lastr, lastread>>

Idle == [pc |-> "idle", ip |-> 0, v0 |-> 0, ans |-> FALSE]
NoRefresh == [pc |-> "idle", mode |-> "", list |-> {}]

H(a, m, s, r, ip) == hist' = IF KeepHist THEN Append(hist, [a |-> a, mode |-> m, list |-> s, r |-> r, ip |-> ip, pers |-> pers0])
                             ELSE hist

Init == /\ pers0 \in SUBSET U /\ pers = pers0
        /\ dyn = {} /\ vers = <<{}>>
        /\ rf = NoRefresh /\ nstart = 0
        /\ rd = [r \in Readers |-> Idle] /\ nreads = 0
        /\ lastr = [res |-> "", mode |-> "", list |-> {}, prev |-> {}]
        /\ lastread = [r |-> "", ip |-> 0, ans |-> FALSE, v0 |-> 0, v1 |-> 0]
        /\ hist = <<>>

\* what a document of this mode means if it is taken
Meaning(mode, list) == IF mode = "null" THEN {} ELSE list

RefreshBegin(mode, list) ==
    /\ rf.pc = "idle" /\ nstart < MaxRefresh
    /\ rf' = [pc |-> "loading", mode |-> mode, list |-> Meaning(mode, list)]
    /\ nstart' = nstart + 1
    /\ H("RefreshBegin", mode, list, "", 0)
    /\ UNCHANGED <<pers0, pers, dyn, vers, rd, nreads, lastr, lastread>>

Done(res, newdyn) ==
    /\ vers' = Append(vers, newdyn)
    /\ lastr' = [res |-> res, mode |-> rf.mode, list |-> rf.list, prev |-> dyn]
    /\ rf' = NoRefresh

RefreshApply ==
    /\ rf.pc = "loading" /\ rf.mode \in OKModes \cup LenientModes /\ Defect # "inplace"
    /\ dyn' = IF Defect = "merge" THEN dyn \cup rf.list ELSE rf.list
    /\ pers' = IF Defect = "drops_pers" THEN {} ELSE pers
    /\ Done("ok", dyn')
    /\ H("RefreshApply", "", {}, "", 0)
    /\ UNCHANGED <<pers0, nstart, rd, nreads, lastread>>

\* the defective two-step update
RefreshClear ==
    /\ rf.pc = "loading" /\ rf.mode \in OKModes \cup LenientModes /\ Defect = "inplace"
    /\ dyn' = {} /\ rf' = [rf EXCEPT !.pc = "cleared"]
    /\ H("RefreshClear", "", {}, "", 0)
    /\ UNCHANGED <<pers0, pers, vers, nstart, rd, nreads, lastr, lastread>>
RefreshFill ==
    /\ rf.pc = "cleared"
    /\ dyn' = rf.list
    /\ vers' = Append(vers, rf.list)
    /\ lastr' = [res |-> "ok", mode |-> rf.mode, list |-> rf.list, prev |-> vers[Len(vers)]]
    /\ rf' = NoRefresh
    /\ H("RefreshFill", "", {}, "", 0)
    /\ UNCHANGED <<pers0, pers, nstart, rd, nreads, lastread>>

RefreshFail ==
    /\ rf.pc = "loading" /\ rf.mode \in FailModes \cup LenientModes
    /\ dyn' = IF Defect = "fail_clears" THEN {} ELSE dyn
    /\ Done("err", dyn')
    /\ H("RefreshFail", "", {}, "", 0)
    /\ UNCHANGED <<pers0, pers, nstart, rd, nreads, lastread>>

ReadCall(r, ip) ==
    /\ rd[r].pc = "idle" /\ nreads < MaxReads
    /\ rd' = [rd EXCEPT ![r] = [pc |-> "called", ip |-> ip, v0 |-> Len(vers) - 1, ans |-> FALSE]]
    /\ nreads' = nreads + 1
    /\ H("ReadCall", "", {}, r, ip)
    /\ UNCHANGED <<pers0, pers, dyn, vers, rf, nstart, lastr, lastread>>

ReadPers(r) ==
    /\ rd[r].pc = "called"
    /\ rd' = [rd EXCEPT ![r] = IF rd[r].ip \in pers THEN [@ EXCEPT !.pc = "ret", !.ans = TRUE]
                                ELSE [@ EXCEPT !.pc = "dyn"]]
    /\ H("ReadPers", "", {}, r, 0)
    /\ UNCHANGED <<pers0, pers, dyn, vers, rf, nstart, nreads, lastr, lastread>>

ReadDyn(r) ==
    /\ rd[r].pc = "dyn"
    /\ rd' = [rd EXCEPT ![r] = [@ EXCEPT !.pc = "ret", !.ans = (rd[r].ip \in dyn)]]
    /\ H("ReadDyn", "", {}, r, 0)
    /\ UNCHANGED <<pers0, pers, dyn, vers, rf, nstart, nreads, lastr, lastread>>

ReadRet(r) ==
    /\ rd[r].pc = "ret"
    /\ lastread' = [r |-> r, ip |-> rd[r].ip, ans |-> rd[r].ans, v0 |-> rd[r].v0, v1 |-> nstart]
    /\ rd' = [rd EXCEPT ![r] = Idle]
    /\ H("ReadRet", "", {}, r, 0)
    /\ UNCHANGED <<pers0, pers, dyn, vers, rf, nstart, nreads, lastr>>

Next == \/ \E m \in ModesUsed, s \in SUBSET U : RefreshBegin(m, s)
        \/ RefreshApply \/ RefreshFail \/ RefreshClear \/ RefreshFill
        \/ \E r \in Readers : (\E ip \in U : ReadCall(r, ip)) \/ ReadPers(r) \/ ReadDyn(r) \/ ReadRet(r)

Spec == Init /\ [][Next]_vars

-----------------------------------------------------------------------------
Allowed(ip, d) == ip \in pers0 \/ ip \in d

TypeOK == /\ pers \subseteq U /\ dyn \subseteq U /\ Len(vers) >= 1
          /\ rf.pc \in {"idle", "loading", "cleared"}

Settled == rf.pc \in {"idle", "loading"}

RefreshIsTotal == (lastr.res = "ok" /\ Settled) => dyn = lastr.list
FailedRefreshKeepsOld == (lastr.res = "err" /\ Settled) => dyn = lastr.prev
ModeOutcome == /\ lastr.mode \in OKModes => lastr.res = "ok"
               /\ lastr.mode \in FailModes => lastr.res = "err"
PersistentKept == pers = pers0
VersionsExact == Settled => dyn = vers[Len(vers)]

\* the answer of a completed call is the answer of one of the lists in force
\* between its call (v0 refreshes completed) and its return (v1 started)
ReadOK(ip, ans, v0, v1) == \E v \in v0..v1 : v + 1 <= Len(vers) /\ ans = Allowed(ip, vers[v + 1])
ReadersSeeOldOrNew == lastread.r # "" => ReadOK(lastread.ip, lastread.ans, lastread.v0, lastread.v1)
PersistentAlwaysAllowed == (lastread.r # "" /\ lastread.ip \in pers0) => lastread.ans

EmitHist == PrintT(<<"BEH", ToJson(hist)>>)
=============================================================================
