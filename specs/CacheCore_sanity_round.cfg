SPECIFICATION Spec
CONSTANTS
  KeepHist = FALSE
  Keys = {"k1", "k2", "k3"}
  TTL <- TTL3
  Cacheable <- Cacheable3
  MaxTime = 16
  KeyCollide = FALSE
  RoundMode = "keep"
INVARIANTS HitEqualsFresh TTLBound NothingAfterExpiry OnlyCacheable
CHECK_DEADLOCK FALSE
