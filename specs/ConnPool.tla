------------------------------ MODULE ConnPool ------------------------------
(* EXT7, second component.  internal/dnsserver/pool: Pool, the net.Conn pool
   of the upstream client (forward.UpstreamPlain keeps its TCP connections in
   one).

   What the documentation says (doc comments of Pool, NewPool, Get, Put, Close,
   IdleTimeout, Conn.lastTimeUsed, ErrClosed):

     * NewPool: "maxCapacity configures the maximum number of idle connections
       in the pool.  If the pool is full, Put will close the connection
       instead of adding it to the pool."
     * Get "returns a free connection from the pool.  If there are no
       connections it will use the Factory method to create a new one."
     * IdleTimeout "is the maximum TTL of an idle connection in the pool.
       Connections that weren't used for more than the specified duration will
       be closed.  If set to 0, connections don't expire."  lastTimeUsed "is
       the last time when this connection was used, i.e. requested from the
       pool": the age of a connection counts from the moment it was last
       handed out (or created), not from the moment it was put back; a
       connection older than the time-out is closed, never handed out; one of
       exactly that age is still good ("more than").
     * Put "puts the connection back to the pool.  If the pool is closed, the
       connection will be simply closed instead."
     * Close "closes the Pool.  After that it cannot be used anymore, every
       method will return ErrClosed."  ErrClosed "indicates that the Pool is
       closed and cannot be used anymore."

   One action per step of the code (pool.go).  Get and Put read p.connsChan
   under the read lock and work on that snapshot afterwards, without the lock;
   Close holds the write lock from the check to `p.connsChan = nil`:

     GetSnap(c)       RLock; connsChan := p.connsChan; RUnlock           [56-58]
     GetTake(c)       the receive loop on the snapshot: expired connections
                      are closed and skipped, a good one is stamped and
                      returned; an empty open channel leads to the factory,
                      a closed one (nil received) to ErrClosed           [64-87]
     GetCreate(c,ok)  the factory returned (a new connection / an error) [147-155]
     PutSnap(c,x)     RLock; connsChan := p.connsChan; RUnlock           [94-96]
     PutSend(c)       snapshot nil: close x, ErrClosed; else the non-blocking
                      send: queued, or closed when the channel is full  [98-110]
     CloseLock(c)     Lock; already nil: ErrClosed; else close(p.connsChan) [116-124]
     CloseDrain(c)    the range loop closes what is queued; p.connsChan = nil;
                      Unlock                                            [125-135]
     Advance(d)       time passes

   The receive loop of GetTake is taken as one step (its iterations only
   remove connections from the channel, which no interleaving can undo).

   The contract has no room for the one interleaving in which the code breaks
   its word: PutSnap(c, x) with the pool open, then Close, then PutSend(c): the
   code sends on the channel that Close has closed (run-time panic, x neither
   queued nor closed).  The module says what the documents say -- "If the pool
   is closed, the connection will be simply closed instead" -- and has the
   code's behaviour as Defect = "put_close_race".

   Defect (sanity configurations):
     "put_close_race"   see above                                   -> NoPanic
     "handout_expired"  Get hands out an expired connection         -> NoExpiredHandout
     "expired_leak"     an expired connection is dropped, not closed -> Ledger
     "get_peeks"        Get leaves the connection in the channel    -> NoDoubleHandout
     "full_leak"        Put to a full pool drops the connection      -> Ledger
     "full_blocks"      capacity ignored (one more is queued)       -> CapacityBound
     "close_leaks"      Close forgets the queued connections        -> Ledger
     "put_after_close"  Put to a closed pool queues the connection  -> ClosedForGood
     "get_after_close"  Get of a closed pool creates a connection   -> ClosedMeansErrClosed
     "double_close"     Close closes a queued connection twice      -> CloseOnce
     "stamp_on_put"     Put stamps the connection, Get does not     -> StampOnGet             *)
EXTENDS Integers, Sequences, FiniteSets, TLC, Json

CONSTANTS Callers, MaxConn, CapSet, TmoSet, MaxTime, MaxOps, Defect, KeepHist

VARIABLES cap, tmo,  \* maxCapacity and IdleTimeout of this pool (0: connections do not expire)
          ch,        \* ids queued in the channel, oldest first
          chClosed,  \* close(p.connsChan) happened
          nilled,    \* p.connsChan = nil: the pool is closed for every later call
          conn,      \* [1..MaxConn -> [made, closed: BOOLEAN, nclose, last: Nat, owners: SUBSET Callers]]
          ncreated,
          now,
          pc,        \* [Callers -> "idle" | "get" | "create" | "put" | "closing"]
          snap,      \* [Callers -> "open" | "closed"]: what the call in progress read under RLock
          arg,       \* [Callers -> id being Put, 0 otherwise]
          late,      \* [Callers -> the call in progress began after a Close had returned]
          res,       \* [Callers -> result of the latest finished call]
          closeRet,  \* a Close call has returned nil
          badHandout,\* ghost: an expired connection was handed out
          badStamp,  \* ghost: a connection was handed out without being stamped
          lateOK,    \* ghost: a call that began after Close had returned did not answer ErrClosed
          nops, hist

vars == <<cap, tmo, ch, chClosed, nilled, conn, ncreated, now, pc, snap, arg, late, res, closeRet, badHandout, badStamp, lateOK, nops, hist>>
view == <<cap, tmo, ch, chClosed, nilled, conn, ncreated, now, pc, snap, arg, late, res, closeRet, badHandout, badStamp, lateOK, nops>>

Ids == 1..MaxConn
NoConn == [made |-> FALSE, closed |-> FALSE, nclose |-> 0, last |-> 0, owners |-> {}]
R(op, r, x) == [op |-> op, r |-> r, x |-> x]
NoRes == R("none", "none", 0)

H(a, c, x, ok, d) == hist' = IF KeepHist THEN Append(hist, [a |-> a, c |-> c, x |-> x, ok |-> ok, d |-> d]) ELSE hist

InCh(x) == \E i \in 1..Len(ch) : ch[i] = x
Expired(x) == tmo > 0 /\ now - conn[x].last > tmo
LockFree == \A c \in Callers : pc[c] # "closing"
Held(c) == {x \in Ids : c \in conn[x].owners}

Init == /\ cap \in CapSet /\ tmo \in TmoSet
        /\ ch = <<>> /\ chClosed = FALSE /\ nilled = FALSE
        /\ conn = [x \in Ids |-> NoConn] /\ ncreated = 0 /\ now = 0
        /\ pc = [c \in Callers |-> "idle"] /\ snap = [c \in Callers |-> "open"] /\ arg = [c \in Callers |-> 0]
        /\ late = [c \in Callers |-> FALSE] /\ res = [c \in Callers |-> NoRes]
        /\ closeRet = FALSE /\ badHandout = FALSE /\ badStamp = FALSE /\ lateOK = TRUE /\ nops = 0
        /\ hist = IF KeepHist THEN <<[a |-> "Init", c |-> "", x |-> cap, ok |-> TRUE, d |-> tmo]>> ELSE <<>>

Closed1(cn, S) == [x \in Ids |-> IF x \in S THEN [cn[x] EXCEPT !.closed = TRUE, !.nclose = @ + 1] ELSE cn[x]]

\* a call ends: its result, and the ghost for calls that began after Close had returned
Finish(c, op, r, x) ==
    /\ res' = [res EXCEPT ![c] = R(op, r, x)]
    /\ pc' = [pc EXCEPT ![c] = "idle"]
    /\ lateOK' = (lateOK /\ (late[c] => r = "errclosed"))

\* ---------------------------------------------------------------- Get
GetSnap(c) ==
    /\ pc[c] = "idle" /\ LockFree /\ nops < MaxOps
    /\ pc' = [pc EXCEPT ![c] = "get"]
    /\ snap' = [snap EXCEPT ![c] = IF nilled /\ Defect # "get_after_close" THEN "closed" ELSE "open"]
    /\ late' = [late EXCEPT ![c] = closeRet]
    /\ nops' = nops + 1
    /\ H("GetSnap", c, 0, TRUE, 0)
    /\ UNCHANGED <<cap, tmo, ch, chClosed, nilled, conn, ncreated, now, arg, res, closeRet, badHandout, badStamp, lateOK>>

\* the longest prefix of expired connections
RECURSIVE NExpired(_)
NExpired(s) == IF s = <<>> \/ ~Expired(Head(s)) \/ Defect = "handout_expired" THEN 0 ELSE 1 + NExpired(Tail(s))

GetTake(c) ==
    /\ pc[c] = "get"
    /\ IF snap[c] = "closed"
       THEN /\ Finish(c, "Get", "errclosed", 0)
            /\ UNCHANGED <<ch, conn, badHandout, badStamp>>
       ELSE LET k == NExpired(ch)
                gone == {ch[i] : i \in 1..k}
                rest == SubSeq(ch, k + 1, Len(ch))
                cn1 == IF Defect = "expired_leak" THEN conn ELSE Closed1(conn, gone)
            IN IF rest # <<>>
               THEN LET x == Head(rest) IN
                    /\ ch' = IF Defect = "get_peeks" THEN rest ELSE Tail(rest)
                    /\ conn' = [cn1 EXCEPT ![x].owners = @ \cup {c},
                                           ![x].last = IF Defect = "stamp_on_put" THEN @ ELSE now]
                    /\ badHandout' = (badHandout \/ Expired(x))
                    /\ badStamp' = (badStamp \/ conn'[x].last # now)
                    /\ Finish(c, "Get", "conn", x)
               ELSE /\ ch' = <<>> /\ conn' = cn1
                    /\ UNCHANGED <<badHandout, badStamp>>
                    /\ IF chClosed /\ Defect # "get_after_close"
                       THEN Finish(c, "Get", "errclosed", 0)
                       ELSE /\ pc' = [pc EXCEPT ![c] = "create"]
                            /\ UNCHANGED <<res, lateOK>>
    /\ H("GetTake", c, 0, TRUE, 0)
    /\ UNCHANGED <<cap, tmo, chClosed, nilled, ncreated, now, snap, arg, late, closeRet, nops>>

GetCreate(c, ok) ==
    /\ pc[c] = "create"
    /\ IF ok
       THEN /\ ncreated < MaxConn
            /\ ncreated' = ncreated + 1
            /\ conn' = [conn EXCEPT ![ncreated + 1] = [made |-> TRUE, closed |-> FALSE, nclose |-> 0, last |-> now,
                                                         owners |-> {c}]]
            /\ Finish(c, "Get", "conn", ncreated + 1)
       ELSE /\ Finish(c, "Get", "err", 0)
            /\ UNCHANGED <<conn, ncreated>>
    /\ H("GetCreate", c, 0, ok, 0)
    /\ UNCHANGED <<cap, tmo, ch, chClosed, nilled, now, snap, arg, late, closeRet, badHandout, badStamp, nops>>

\* ---------------------------------------------------------------- Put
PutSnap(c, x) ==
    /\ pc[c] = "idle" /\ LockFree /\ nops < MaxOps
    /\ x \in Held(c) /\ ~conn[x].closed
    /\ pc' = [pc EXCEPT ![c] = "put"] /\ arg' = [arg EXCEPT ![c] = x]
    /\ snap' = [snap EXCEPT ![c] = IF nilled THEN "closed" ELSE "open"]
    /\ late' = [late EXCEPT ![c] = closeRet]
    /\ nops' = nops + 1
    /\ H("PutSnap", c, x, TRUE, 0)
    /\ UNCHANGED <<cap, tmo, ch, chClosed, nilled, conn, ncreated, now, res, closeRet, badHandout, badStamp, lateOK>>

Release(cn, x, c) == [cn EXCEPT ![x].owners = @ \ {c}]

PutSend(c) ==
    LET x == arg[c] IN
    /\ pc[c] = "put"
    /\ IF snap[c] = "closed" /\ Defect # "put_after_close"
       THEN \* "If the pool is closed, the connection will be simply closed instead."
            /\ conn' = Closed1(Release(conn, x, c), {x})
            /\ Finish(c, "Put", "errclosed", x)
            /\ UNCHANGED ch
       ELSE IF chClosed /\ Defect # "put_after_close"
       THEN IF Defect = "put_close_race"
            THEN \* the code: send on a closed channel
                 /\ Finish(c, "Put", "panic", x)
                 /\ UNCHANGED <<ch, conn>>
            ELSE /\ conn' = Closed1(Release(conn, x, c), {x})
                 /\ Finish(c, "Put", "errclosed", x)
                 /\ UNCHANGED ch
       ELSE IF Len(ch) < cap \/ Defect = "full_blocks"
       THEN /\ ch' = Append(ch, x)
            /\ conn' = [Release(conn, x, c) EXCEPT ![x].last = IF Defect = "stamp_on_put" THEN now ELSE @]
            /\ Finish(c, "Put", "nil", x)
       ELSE \* "If the pool is full, Put will close the connection instead of adding it to the pool."
            /\ conn' = IF Defect = "full_leak" THEN Release(conn, x, c) ELSE Closed1(Release(conn, x, c), {x})
            /\ Finish(c, "Put", "nil", x)
            /\ UNCHANGED ch
    /\ arg' = [arg EXCEPT ![c] = 0]
    /\ H("PutSend", c, x, TRUE, 0)
    /\ UNCHANGED <<cap, tmo, chClosed, nilled, ncreated, now, snap, late, closeRet, badHandout, badStamp, nops>>

\* ---------------------------------------------------------------- Close
CloseLock(c) ==
    /\ pc[c] = "idle" /\ LockFree /\ nops < MaxOps
    /\ nops' = nops + 1
    /\ late' = [late EXCEPT ![c] = closeRet]
    /\ IF nilled
       THEN /\ res' = [res EXCEPT ![c] = R("Close", "errclosed", 0)]
            /\ lateOK' = lateOK
            /\ UNCHANGED <<pc, chClosed>>
       ELSE /\ chClosed' = TRUE
            /\ pc' = [pc EXCEPT ![c] = "closing"]
            /\ UNCHANGED <<res, lateOK>>
    /\ H("CloseLock", c, 0, TRUE, 0)
    /\ UNCHANGED <<cap, tmo, ch, nilled, conn, ncreated, now, snap, arg, closeRet, badHandout, badStamp>>

CloseDrain(c) ==
    /\ pc[c] = "closing"
    /\ LET S == {ch[i] : i \in 1..Len(ch)}
           cn1 == IF Defect = "close_leaks" THEN conn ELSE Closed1(conn, S)
       IN conn' = IF Defect = "double_close" THEN Closed1(cn1, S) ELSE cn1
    /\ ch' = <<>> /\ nilled' = TRUE /\ closeRet' = TRUE
    /\ res' = [res EXCEPT ![c] = R("Close", "nil", 0)]
    /\ pc' = [pc EXCEPT ![c] = "idle"]
    /\ H("CloseDrain", c, 0, TRUE, 0)
    /\ UNCHANGED <<cap, tmo, chClosed, ncreated, now, snap, arg, late, badHandout, badStamp, lateOK, nops>>

Advance(d) == /\ now + d <= MaxTime
              /\ now' = now + d
              /\ H("Advance", "", 0, TRUE, d)
              /\ UNCHANGED <<cap, tmo, ch, chClosed, nilled, conn, ncreated, pc, snap, arg, late, res, closeRet, badHandout, badStamp,
                             lateOK, nops>>

Next == \/ \E c \in Callers : \/ GetSnap(c) \/ GetTake(c) \/ \E ok \in BOOLEAN : GetCreate(c, ok)
                              \/ \E x \in Ids : PutSnap(c, x)
                              \/ PutSend(c) \/ CloseLock(c) \/ CloseDrain(c)
        \/ \E d \in 1..2 : Advance(d)

Spec == Init /\ [][Next]_vars

\* ---------------------------------------------------------------- properties
TypeOK == /\ cap \in Nat /\ tmo \in Nat
          /\ ch \in Seq(Ids) /\ chClosed \in BOOLEAN /\ nilled \in BOOLEAN
          /\ \A x \in Ids : /\ conn[x].made \in BOOLEAN /\ conn[x].closed \in BOOLEAN /\ conn[x].nclose \in 0..4
                            /\ conn[x].last \in 0..MaxTime /\ conn[x].owners \subseteq Callers
          /\ ncreated \in 0..MaxConn /\ now \in 0..MaxTime
          /\ \A c \in Callers : pc[c] \in {"idle", "get", "create", "put", "closing"} /\ snap[c] \in {"open", "closed"}
                                 /\ arg[c] \in 0..MaxConn
          /\ (nilled => chClosed) /\ (closeRet => nilled)
          /\ \A x \in Ids : conn[x].made = (x <= ncreated)

\* created = idle + in use + closed: every connection ever made is in exactly one of these places
Ledger == \A x \in Ids : conn[x].made =>
             LET idle == InCh(x)
                 inuse == conn[x].owners # {}
                 closed == conn[x].closed
             IN /\ (idle \/ inuse \/ closed)
                /\ ~(idle /\ closed)
                /\ Cardinality({i \in 1..Len(ch) : ch[i] = x}) <= 1
QueuedAreMade == \A i \in 1..Len(ch) : conn[ch[i]].made

\* no connection is handed to two callers at once, nor handed out while it is queued
NoDoubleHandout == \A x \in Ids : /\ Cardinality(conn[x].owners) <= 1
                                  /\ (conn[x].owners # {} => ~InCh(x))
\* a connection in a caller's hands was not closed by the pool (the pool closes what is given back or idle)
NoClosedHandout == \A x \in Ids : conn[x].owners # {} => ~conn[x].closed

NoExpiredHandout == ~badHandout
StampOnGet == ~badStamp
CapacityBound == Len(ch) <= cap
CloseOnce == \A x \in Ids : conn[x].nclose <= 1
\* after Close has returned nothing is idle any more, whatever calls were in flight
ClosedForGood == closeRet => ch = <<>>
\* "After that it cannot be used anymore, every method will return ErrClosed."
ClosedMeansErrClosed == lateOK
NoPanic == \A c \in Callers : res[c].r # "panic"

EmitHist == PrintT(<<"BEH", ToJson(hist)>>)
=============================================================================
