------------------------------- MODULE Access -------------------------------
(* C10.  Access-blocked clients and names are dropped silently and leave no
   trace.

   The decision is a function over abstract input classes.  It is written from
   the property statement and the documentation (doc/configuration.md "Access
   settings": `blocked_client_subnets` is a list of addresses / CIDRs to block,
   `blocked_question_domains` a list of domains or AdBlock rules, e.g.
   `||example.org^$dnstype=AAAA`; backend `AccessSettings`: allow-list and
   block-list of CIDRs and ASNs plus block-list domain rules per profile), NOT
   from the Go code:

     gip    the client address lies in a globally blocked subnet
     ghost  what the global name rules say about (question name, type):
              "none"   no blocking rule matches
              "block"  a blocking rule matches and no exception rule does
              "exc"    a blocking rule matches, but an exception (@@) rule
                       matches as well -- AdBlock semantics: the exception wins
     prof   the request belongs to a profile
     anet / bnet   client address in the profile's allowed / blocked subnets
     aasn / basn   client ASN known and in the profile's allowed / blocked ASNs
     phost  like ghost, for the profile's block-list domain rules

   A request then walks through the handler stack of dnssvc.NewHandlers:
   access check, filtering, cache look-up, upstream, DNSDB, response write,
   rule statistics / billing / query log.  `eff` collects what has happened to
   it so far.

   ImplBlocked mirrors the shape of the Go code (Middleware.isBlockedByAccess,
   DefaultProfile.IsBlocked / isBlockedByNets); `Defect` selects deliberately
   broken variants for the sanity configurations.                           *)
EXTENDS Naturals, FiniteSets, TLC

CONSTANT Defect
    \* "none"               the code as it is meant to be
    \* "blocked_asn_first"  profile check consults the blocked ASNs before the allow-lists
    \* "blocked_first"      profile check consults both block-lists before the allow-lists
    \* "exception_ignored"  an exception rule does not cancel a blocking rule
    \* "drop_bills"         the drop path still records billing
    \* "drop_refused"       the drop path answers REFUSED instead of staying silent

ASSUME Defect \in {"none", "blocked_asn_first", "blocked_first", "exception_ignored", "drop_bills", "drop_refused"}

HostClass == {"none", "block", "exc"}

Vectors == [gip : BOOLEAN, ghost : HostClass, prof : BOOLEAN,
            anet : BOOLEAN, bnet : BOOLEAN, aasn : BOOLEAN, basn : BOOLEAN, phost : HostClass]

Effects == {"written", "resolved", "filtered", "cached", "logged", "billed", "rulestat", "dnsdb"}

-----------------------------------------------------------------------------
(* The contract. *)

HostRejects(c) == c = "block"

NetsReject(v) == ~v.anet /\ ~v.aasn /\ (v.bnet \/ v.basn)

ProfileRejects(v) == NetsReject(v) \/ HostRejects(v.phost)

Blocked(v) == v.gip \/ HostRejects(v.ghost) \/ (v.prof /\ ProfileRejects(v))

\* "Within a profile an allowed subnet or ASN takes precedence over a blocked
\* one": the premise excludes everything else that may reject the request.
AllowPremise(v) == /\ v.prof /\ (v.anet \/ v.aasn)
                   /\ ~v.gip /\ v.ghost # "block" /\ v.phost # "block"

-----------------------------------------------------------------------------
(* The implementation-shaped decision. *)

ImplHost(c) == IF Defect = "exception_ignored" THEN c # "none" ELSE c = "block"

ImplNets(v) ==
    CASE Defect = "blocked_asn_first" ->
            IF v.basn THEN TRUE ELSE IF v.aasn \/ v.anet THEN FALSE ELSE v.bnet
      [] Defect = "blocked_first" ->
            IF v.basn \/ v.bnet THEN TRUE ELSE FALSE
      [] OTHER ->
            IF v.aasn \/ v.anet THEN FALSE ELSE v.basn \/ v.bnet

ImplProfile(v) == ImplNets(v) \/ ImplHost(v.phost)

ImplBlocked(v) ==
    IF v.gip THEN TRUE
    ELSE IF ImplHost(v.ghost) THEN TRUE
    ELSE IF ~v.prof THEN FALSE
    ELSE ImplProfile(v)

-----------------------------------------------------------------------------
(* The pipeline.  One behaviour per vector; the only non-determinism is the
   cache (hit or miss) and whether the profile has the query log enabled.   *)

VARIABLES v, pc, eff
vars == <<v, pc, eff>>

Stages == {"recv", "dropped", "filter", "cache", "resolve", "dnsdb", "write", "record", "done"}

TypeOK == v \in Vectors /\ pc \in Stages /\ eff \subseteq Effects

Init == v \in Vectors /\ pc = "recv" /\ eff = {}

AccessCheck ==
    /\ pc = "recv"
    /\ IF ImplBlocked(v)
       THEN /\ pc' = "dropped"
            /\ eff' = CASE Defect = "drop_bills" -> {"billed"}
                        [] Defect = "drop_refused" -> {"written"}
                        [] OTHER -> {}
       ELSE pc' = "filter" /\ eff' = eff
    /\ UNCHANGED v

Filter == pc = "filter" /\ pc' = "cache" /\ eff' = eff \cup {"filtered"} /\ UNCHANGED v

CacheHit == pc = "cache" /\ pc' = "dnsdb" /\ eff' = eff \cup {"cached"} /\ UNCHANGED v

CacheMiss == pc = "cache" /\ pc' = "resolve" /\ eff' = eff \cup {"cached"} /\ UNCHANGED v

Resolve == pc = "resolve" /\ pc' = "dnsdb" /\ eff' = eff \cup {"resolved"} /\ UNCHANGED v

DNSDB == pc = "dnsdb" /\ pc' = "write" /\ eff' = eff \cup {"dnsdb"} /\ UNCHANGED v

Write == pc = "write" /\ pc' = "record" /\ eff' = eff \cup {"written"} /\ UNCHANGED v

Record ==
    /\ pc = "record" /\ pc' = "done" /\ UNCHANGED v
    /\ \E qlog \in BOOLEAN :
          eff' = eff \cup {"rulestat"}
                     \cup (IF v.prof THEN {"billed"} ELSE {})
                     \cup (IF v.prof /\ qlog THEN {"logged"} ELSE {})

Next == AccessCheck \/ Filter \/ CacheHit \/ CacheMiss \/ Resolve \/ DNSDB \/ Write \/ Record

Spec == Init /\ [][Next]_vars /\ WF_vars(Next)

-----------------------------------------------------------------------------
(* Properties. *)

\* The Go-shaped decision is the documented one.
ImplWithinContract == ImplBlocked(v) = Blocked(v)

\* A request the contract rejects never has any effect: no answer, no later
\* stage, at no point of its processing.
BlockedLeavesNoTrace == Blocked(v) => eff = {}

\* Allow-lists win inside a profile: by the contract and in the behaviour.
AllowOverridesBlock == AllowPremise(v) => (~Blocked(v) /\ pc # "dropped")

\* A matching exception rule cancels the block it excepts.
ExceptionUnblocks == (~v.gip /\ v.ghost # "block" /\ (~v.prof \/ (~NetsReject(v) /\ v.phost # "block")))
                        => ~Blocked(v)

\* No rule rejects => never dropped, and a finished request was answered.
UnblockedProcessedNormally ==
    /\ ~Blocked(v) => pc # "dropped"
    /\ pc = "done" => {"written", "filtered", "rulestat"} \subseteq eff
    /\ (pc = "done" /\ v.prof) => "billed" \in eff

\* Only requests of a profile are billed or logged.
AnonymousNotBilled == ~v.prof => eff \cap {"billed", "logged"} = {}

\* ... and it is eventually answered.
UnblockedEventuallyAnswered == (~Blocked(v)) ~> (pc = "done" /\ "written" \in eff)

\* A blocked one stays where it was dropped.
BlockedStaysDropped == [](Blocked(v) => [](pc \in {"recv", "dropped"}))
=============================================================================
