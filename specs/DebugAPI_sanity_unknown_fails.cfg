SPECIFICATION Spec
CONSTANTS
  MaxPats = 2
  Defect = "unknown_fails"
INVARIANTS UnknownIgnored
CHECK_DEADLOCK FALSE
