SPECIFICATION Spec
CONSTANTS
  MaxPats = 2
  Defect = "cross_slash"
INVARIANTS GlobIsPathMatch
CHECK_DEADLOCK FALSE
