SPECIFICATION Spec
CONSTANTS
  Defect = "blocked_asn_first"
INVARIANTS AllowOverridesBlock
CHECK_DEADLOCK FALSE
