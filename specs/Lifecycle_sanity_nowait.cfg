SPECIFICATION Spec
CONSTANTS
  Req = {1, 2}
  CtxKinds = {"nodeadline", "open"}
  MaxMisuse = 2
  DefectNoWait = TRUE
  DefectLateClose = FALSE
  DefectIgnoreDeadline = FALSE
  DefectDoubleNil = FALSE
INVARIANTS ShutdownWaits
CHECK_DEADLOCK FALSE
