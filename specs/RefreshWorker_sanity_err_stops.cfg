SPECIFICATION Spec
CONSTANTS
  RosSet = {TRUE, FALSE}
  RndSet = {TRUE, FALSE}
  Joins = FALSE
  MaxTick = 3
  MaxRefr = 3
  MaxShut = 2
  CtxKinds = {"nodeadline", "open"}
  Defect = "err_stops"
  KeepHist = FALSE
VIEW view
INVARIANTS ErrorDoesNotStopLoop
CHECK_DEADLOCK FALSE
