--------------------------- MODULE RefreshWorker ---------------------------
(* EXT7, first component.  internal/agdservice/refresh.go: RefreshWorker, the
   service that calls Refresher.Refresh "every tick of the provided ticker".

   What the documentation says (doc comments of Refresher, RefreshWorker,
   RefreshWorkerConfig, Start, Shutdown, refreshInALoop, sleepRandom; golibs
   service.Interface):

     * "RefreshWorker ... updates its Refresher every tick of the provided
       ticker"; "refreshInALoop refreshes the entity every tick of w.tick
       until Shutdown is called".  One goroutine: the refreshes of one worker
       never overlap each other; a tick that arrives while a refresh runs
       waits in the ticker's channel (capacity one: further ticks are dropped,
       time.Ticker), so the next refresh begins right after the current one.
     * "The error returned by Refresh is only returned from Shutdown and only
       when RefreshOnShutdown is true.  In all other cases, the error is
       ignored": a failed periodic refresh does not end the loop.
     * Context "is used to provide a context for the Refresh method of
       Refresher.  NOTE: It is not used for the shutdown refresh": every
       periodic refresh runs with a context made by Context (carrying the
       worker's logger) and that context is cancelled when the refresh
       returns; the shutdown refresh runs with the context given to Shutdown.
     * RefreshOnShutdown "instructs the worker to call the Refresher's Refresh
       method before shutting down the worker": exactly one more refresh per
       Shutdown call iff configured, BEFORE the loop is stopped, and its error
       is what Shutdown returns (wrapped), nil otherwise.
     * RandomizeStart "instructs the worker to sleep before starting a
       refresh.  The duration of the sleep is a random duration of up to 10 %
       of Interval"; sleepRandom: "shouldRefresh shows if a refresh should be
       performed once the sleep is finished" -- a sleep cut short by Shutdown
       is not followed by a refresh.
     * service.Interface.Shutdown: "It is recommended that Shutdown returns
       only after the service has completely finished its termination.  If
       that cannot be done, the implementation of Shutdown must document
       that."  RefreshWorker.Shutdown documents nothing of the kind: the
       contract variant of this module (Joins = TRUE) lets Shutdown return
       only when the loop goroutine is gone; the variant Joins = FALSE is the
       code as written (Shutdown closes `done`, stops the ticker and returns).

   One action per step of the code (line numbers of refresh.go at the pinned
   commit in brackets):

     Start                 go w.refreshInALoop()                       [119]
     Tick                  (environment) the ticker fires: a value enters the
                           channel unless one is waiting there or the ticker
                           was stopped
     TakeTick              `case <-w.tick.C` of the loop's select      [161]
                           -> sleepRandom (RandomizeStart) or refresh
     TimerFire             (environment) the start-sleep timer fires
     SleepDone             `case <-timer.C` of sleepRandom             [200]
     SleepAbort            `case <-w.done` of sleepRandom              [198]
     RefreshBegin          w.context() returned, Refresher.Refresh is
                           entered                               [209-214]
     RefreshEnd(out)       Refresh returned (ok / err / its context expired),
                           deferred cancel                            [210]
     LoopExit              `case <-w.done` of the loop's select        [157]
     ShutdownCall(c)       Shutdown(ctx) entered
     FinalRefreshBegin     w.refr.Refresh(ctx) of Shutdown             [129]
     CtxExpire             (environment) the Shutdown context expires
     FinalRefreshEnd(out)  it returned
     CloseDone             close(w.done)                               [132]
     StopTicker            w.tick.Stop()                               [134]
     ShutdownRet           return err                                  [142]
     ShutdownPanic         a second Shutdown: close of a closed channel (the
                           documents are silent about a second call: the
                           module admits the panic and the quiet variant)

   Defect selects deliberately broken variants (sanity configurations):
     "async"          the refresh runs in its own goroutine       -> NoOverlap
     "err_stops"      a failed refresh ends the loop              -> ErrorDoesNotStopLoop
     "no_cancel"      the periodic context is never cancelled     -> RefreshContextBounded
     "bg_ctx"         periodic refresh with a foreign context     -> RefreshContextBounded
     "skip_final"     no refresh on shutdown although configured  -> FinalRefreshIffConfigured
     "final_always"   refresh on shutdown although not configured -> FinalRefreshIffConfigured
     "final_late"     the shutdown refresh runs after close(done) -> FinalBeforeStop
     "swallow_err"    Shutdown returns nil after a failed refresh -> ShutdownResult
     "abort_refreshes" an aborted start sleep is followed by a refresh -> NoRefreshOnceDoneSeen
     "no_close"       Shutdown does not close done                -> LoopExits (liveness)
     "final_bg"       the shutdown refresh ignores Shutdown's ctx -> ShutdownReturnsByDeadline *)
EXTENDS Naturals, Sequences, TLC, Json

CONSTANTS RosSet, RndSet,   \* configurations explored: subsets of BOOLEAN
          Joins,            \* TRUE: the contract of service.Interface; FALSE: the code
          MaxTick, MaxRefr, MaxShut,
          CtxKinds,         \* contexts handed to Shutdown: subset of {"nodeadline", "open"}
          Defect, KeepHist

VARIABLES ros, rnd,   \* RefreshOnShutdown, RandomizeStart of this worker
          loop,       \* "none" | "idle" | "sleep" | "ctx" | "refr" | "exited"
          pend,       \* a tick waits in the ticker's channel
          tfired,     \* the start-sleep timer has fired
          done,       \* close(w.done) happened
          tstop,      \* w.tick.Stop() happened
          running,    \* periodic Refresh calls in progress
          live,       \* contexts made by cfg.Context and not cancelled yet
          pctx,       \* context kind of the latest periodic refresh: "none" | "cfg" | "other"
          sd,         \* the Shutdown call in progress: "none" | "called" | "final" | "finaldone" | "closing" | "stopping"
          sdctx,      \* its context: "none" | "nodeadline" | "open" | "done"
          fctx,       \* context kind of the latest shutdown refresh: "none" | "shutdown" | "other"
          finerr,     \* the shutdown refresh of the call in progress failed
          nshut, nret, lastres,   \* Shutdown calls made / returned, the latest result "none" | "nil" | "err" | "panic"
          nfin,       \* shutdown refreshes begun
          nper,       \* periodic refreshes begun
          late,       \* ghost: periodic refreshes begun after a Shutdown call had returned
          ranAtRet,   \* ghost: a periodic refresh was in progress when a Shutdown call returned
          seenDone,   \* ghost: a refresh began although the loop had seen done (aborted sleep)
          nt,         \* ticks so far
          hist

cfgv == <<ros, rnd>>
loopv == <<loop, pend, tfired, running, live, pctx, nper, late, seenDone>>
sdv == <<sd, sdctx, fctx, finerr, nshut, nret, lastres, nfin, ranAtRet>>
vars == <<ros, rnd, loop, pend, tfired, done, tstop, running, live, pctx, sd, sdctx, fctx, finerr, nshut, nret,
          lastres, nfin, nper, late, ranAtRet, seenDone, nt, hist>>
view == <<ros, rnd, loop, pend, tfired, done, tstop, running, live, pctx, sd, sdctx, fctx, finerr, nshut, nret,
          lastres, nfin, nper, late, ranAtRet, seenDone, nt>>

H(a, p) == hist' = IF KeepHist THEN Append(hist, [a |-> a, p |-> p]) ELSE hist

CfgName(o, r) == IF o THEN (IF r THEN "11" ELSE "10") ELSE (IF r THEN "01" ELSE "00")

Init == /\ ros \in RosSet /\ rnd \in RndSet
        /\ loop = "none" /\ pend = FALSE /\ tfired = FALSE /\ done = FALSE /\ tstop = FALSE
        /\ running = 0 /\ live = 0 /\ pctx = "none"
        /\ sd = "none" /\ sdctx = "none" /\ fctx = "none" /\ finerr = FALSE
        /\ nshut = 0 /\ nret = 0 /\ lastres = "none" /\ nfin = 0 /\ nper = 0 /\ late = 0
        /\ ranAtRet = FALSE /\ seenDone = FALSE /\ nt = 0
        /\ hist = IF KeepHist THEN <<[a |-> "Init", p |-> CfgName(ros, rnd)]>> ELSE <<>>

\* ---------------------------------------------------------------- the loop goroutine
Start == /\ loop = "none"
         /\ loop' = "idle" /\ H("Start", "")
         /\ UNCHANGED <<cfgv, pend, tfired, done, tstop, running, live, pctx, nper, late, seenDone, sdv, nt>>

\* the ticker exists from NewRefreshWorker on: ticks can wait before Start
Tick == /\ nt < MaxTick
        /\ nt' = nt + 1
        /\ pend' = (pend \/ ~tstop)
        /\ H("Tick", "")
        /\ UNCHANGED <<cfgv, loop, tfired, done, tstop, running, live, pctx, nper, late, seenDone, sdv>>

\* Go's select picks at random among the ready cases: the tick can be taken
\* although done is closed as long as the ticker has not been stopped
TakeTick == /\ loop = "idle" /\ pend
            /\ pend' = FALSE
            /\ loop' = IF rnd THEN "sleep" ELSE "ctx"
            /\ tfired' = FALSE
            /\ H("TakeTick", "")
            /\ UNCHANGED <<cfgv, done, tstop, running, live, pctx, nper, late, seenDone, sdv, nt>>

TimerFire == /\ loop = "sleep" /\ ~tfired
             /\ tfired' = TRUE /\ H("TimerFire", "")
             /\ UNCHANGED <<cfgv, loop, pend, done, tstop, running, live, pctx, nper, late, seenDone, sdv, nt>>

SleepDone == /\ loop = "sleep" /\ tfired
             /\ loop' = "ctx" /\ H("SleepDone", "")
             /\ UNCHANGED <<cfgv, pend, tfired, done, tstop, running, live, pctx, nper, late, seenDone, sdv, nt>>

SleepAbort == /\ loop = "sleep" /\ done
              /\ loop' = IF Defect = "abort_refreshes" THEN "ctx" ELSE "idle"
              /\ seenDone' = (seenDone \/ Defect = "abort_refreshes")
              /\ H("SleepAbort", "")
              /\ UNCHANGED <<cfgv, pend, tfired, done, tstop, running, live, pctx, nper, late, sdv, nt>>

RefreshBegin == /\ loop = "ctx" /\ nper < MaxRefr
                /\ loop' = IF Defect = "async" THEN "idle" ELSE "refr"
                /\ running' = running + 1
                /\ live' = IF Defect = "bg_ctx" THEN live ELSE live + 1
                /\ pctx' = IF Defect = "bg_ctx" THEN "other" ELSE "cfg"
                /\ nper' = nper + 1
                /\ late' = IF nret > 0 THEN late + 1 ELSE late
                /\ H("RefreshBegin", "")
                /\ UNCHANGED <<cfgv, pend, tfired, done, tstop, seenDone, sdv, nt>>

RefreshEnd(out) == /\ running > 0 /\ (loop = "refr" \/ Defect = "async")
                   /\ running' = running - 1
                   /\ live' = IF Defect \in {"no_cancel", "bg_ctx"} THEN live ELSE live - 1
                   /\ loop' = IF Defect = "async" THEN loop
                              ELSE IF Defect = "err_stops" /\ out # "ok" THEN "exited" ELSE "idle"
                   /\ H("RefreshEnd", out)
                   /\ UNCHANGED <<cfgv, pend, tfired, done, tstop, pctx, nper, late, seenDone, sdv, nt>>

LoopExit == /\ loop = "idle" /\ done
            /\ loop' = "exited" /\ H("LoopExit", "")
            /\ UNCHANGED <<cfgv, pend, tfired, done, tstop, running, live, pctx, nper, late, seenDone, sdv, nt>>

\* ---------------------------------------------------------------- Shutdown
ShutdownCall(c) == /\ sd = "none" /\ nshut < MaxShut
                   /\ sd' = "called" /\ sdctx' = c /\ nshut' = nshut + 1 /\ finerr' = FALSE
                   /\ H("ShutdownCall", c)
                   /\ UNCHANGED <<cfgv, loopv, done, tstop, fctx, nret, lastres, nfin, ranAtRet, nt>>

WantsFinal == IF Defect = "skip_final" THEN FALSE ELSE IF Defect = "final_always" THEN TRUE ELSE ros

FinalRefreshBegin ==
    /\ WantsFinal /\ sd = "called"
    /\ sd' = "final" /\ nfin' = nfin + 1
    /\ fctx' = IF Defect = "final_bg" THEN "other" ELSE "shutdown"
    \* "final_late": the worker is stopped first
    /\ done' = (done \/ Defect = "final_late")
    /\ tstop' = (tstop \/ Defect = "final_late")
    /\ pend' = (pend /\ Defect # "final_late")
    /\ H("FinalRefreshBegin", "")
    /\ UNCHANGED <<cfgv, loop, tfired, running, live, pctx, nper, late, seenDone, sdctx, finerr, nshut, nret, lastres,
                   ranAtRet, nt>>

CtxExpire == /\ sdctx = "open" /\ sd # "none"
             /\ sdctx' = "done" /\ H("CtxExpire", "")
             /\ UNCHANGED <<cfgv, loopv, done, tstop, sd, fctx, finerr, nshut, nret, lastres, nfin, ranAtRet, nt>>

\* a refresher that honours its context returns once that context is done
FinalRefreshEnd(out) ==
    /\ sd = "final"
    /\ (out = "timeout" => sdctx = "done" /\ Defect # "final_bg")
    /\ sd' = "finaldone"
    /\ finerr' = (out # "ok")
    /\ H("FinalRefreshEnd", out)
    /\ UNCHANGED <<cfgv, loopv, done, tstop, sdctx, fctx, nshut, nret, lastres, nfin, ranAtRet, nt>>

CloseDone == /\ \/ sd = "called" /\ ~WantsFinal
                \/ sd = "finaldone"
             /\ sd' = "closing"
             /\ done' = (done \/ Defect # "no_close")
             /\ H("CloseDone", "")
             /\ UNCHANGED <<cfgv, loopv, tstop, sdctx, fctx, finerr, nshut, nret, lastres, nfin, ranAtRet, nt>>

\* (the quiet variant of) a second call goes the same way; the code panics here
ShutdownPanic == /\ \/ sd = "called" /\ ~WantsFinal
                    \/ sd = "finaldone"
                 /\ done /\ nret > 0
                 /\ sd' = "none" /\ nret' = nret + 1 /\ lastres' = "panic" /\ sdctx' = "none"
                 /\ H("ShutdownPanic", "")
                 /\ UNCHANGED <<cfgv, loopv, done, tstop, fctx, finerr, nshut, nfin, ranAtRet, nt>>

\* as of Go 1.23 no stale tick is received after Stop has returned
StopTicker == /\ sd = "closing"
              /\ sd' = "stopping" /\ tstop' = TRUE /\ pend' = FALSE
              /\ H("StopTicker", "")
              /\ UNCHANGED <<cfgv, loop, tfired, running, live, pctx, nper, late, seenDone, done, sdctx, fctx, finerr,
                             nshut, nret, lastres, nfin, ranAtRet, nt>>

ShutdownRet ==
    /\ sd = "stopping"
    /\ (Joins => loop \in {"none", "exited"} /\ running = 0)
    /\ sd' = "none" /\ nret' = nret + 1 /\ sdctx' = "none"
    /\ lastres' = IF finerr /\ Defect # "swallow_err" THEN "err" ELSE "nil"
    /\ ranAtRet' = (ranAtRet \/ running > 0)
    /\ H("ShutdownRet", "")
    /\ UNCHANGED <<cfgv, loopv, done, tstop, fctx, finerr, nshut, nfin, nt>>

Outs == {"ok", "err", "timeout"}

LoopNext == TakeTick \/ SleepDone \/ SleepAbort \/ RefreshBegin \/ LoopExit
ShutNext == FinalRefreshBegin \/ CloseDone \/ StopTicker \/ ShutdownRet \/ ShutdownPanic
Next == \/ Start \/ Tick \/ TimerFire \/ LoopNext \/ \E o \in Outs : RefreshEnd(o)
        \/ \E c \in CtxKinds : ShutdownCall(c)
        \/ CtxExpire \/ ShutNext \/ \E o \in Outs : FinalRefreshEnd(o)

Spec == Init /\ [][Next]_vars

\* the goroutines take their steps, time passes, refreshers return (a final
\* refresh only when its context ends it or by itself when no deadline is set)
Fair == /\ WF_vars(TakeTick) /\ WF_vars(SleepDone \/ SleepAbort) /\ WF_vars(RefreshBegin) /\ WF_vars(LoopExit)
        /\ WF_vars(TimerFire) /\ WF_vars(\E o \in Outs : RefreshEnd(o))
        /\ WF_vars(FinalRefreshBegin) /\ WF_vars(CloseDone \/ ShutdownPanic) /\ WF_vars(StopTicker) /\ WF_vars(ShutdownRet)
        /\ WF_vars(CtxExpire) /\ WF_vars(FinalRefreshEnd("timeout"))
FairSpec == Spec /\ Fair

\* ---------------------------------------------------------------- properties
TypeOK == /\ ros \in BOOLEAN /\ rnd \in BOOLEAN
          /\ loop \in {"none", "idle", "sleep", "ctx", "refr", "exited"}
          /\ pend \in BOOLEAN /\ tfired \in BOOLEAN /\ done \in BOOLEAN /\ tstop \in BOOLEAN
          /\ running \in 0..MaxRefr /\ live \in 0..MaxRefr /\ pctx \in {"none", "cfg", "other"}
          /\ sd \in {"none", "called", "final", "finaldone", "closing", "stopping"}
          /\ sdctx \in {"none", "nodeadline", "open", "done"}
          /\ fctx \in {"none", "shutdown", "other"}
          /\ nshut \in 0..MaxShut /\ nret \in 0..MaxShut /\ lastres \in {"none", "nil", "err", "panic"}
          /\ nfin \in 0..MaxShut /\ nper \in 0..MaxRefr /\ late \in 0..MaxRefr /\ nt \in 0..MaxTick
          /\ (tstop => done \/ Defect = "no_close") /\ (tstop => ~pend)

\* the refreshes of one worker never overlap each other
NoOverlap == running <= 1 /\ (loop = "refr" => running = 1)

\* a refresh on shutdown per call iff configured ...
FinalRefreshIffConfigured == nfin = IF ros THEN nshut - (IF sd = "called" THEN 1 ELSE 0) ELSE 0
\* ... and before the worker is stopped
FinalBeforeStop == sd = "final" /\ nshut = 1 => ~done /\ ~tstop

\* only Shutdown ends the loop
ErrorDoesNotStopLoop == loop = "exited" => done

\* a periodic refresh runs with a context from cfg.Context, cancelled when the refresh returns; the
\* shutdown refresh runs with Shutdown's context
RefreshContextBounded == /\ live = running
                         /\ pctx \in {"none", "cfg"}
                         /\ fctx \in {"none", "shutdown"}

\* what Shutdown returns
ShutdownResult == nret > 0 /\ sd = "none" /\ lastres # "panic" => (lastres = "err") = finerr
FirstShutdownQuiet == nret = 1 /\ nshut = 1 => lastres # "panic"

\* an aborted start sleep is not followed by a refresh
NoRefreshOnceDoneSeen == ~seenDone
\* no tick is taken from a stopped ticker
NoTakeAfterStop == [][loop = "idle" /\ loop' \in {"sleep", "ctx"} => ~tstop]_vars
\* the code (Joins = FALSE): at most the refresh whose tick was taken before the stop begins late
LateRefreshBounded == late <= 1

\* the contract of service.Interface (Joins = TRUE; broken by the code as written)
NoRefreshAfterShutdownReturn == late = 0
ShutdownWaitsForRefresh == ~ranAtRet

\* liveness: a waiting tick leads to a refresh unless the worker is shut down
\* or the bound of the model is reached
TickLeadsToRefresh ==
    \A n \in 0..(MaxRefr - 1) : (pend /\ nper = n /\ loop # "none") ~> (nper > n \/ done)
\* with a deadline Shutdown returns whatever the refreshers do
ShutdownReturnsByDeadline == \A n \in 0..(MaxShut - 1) : (sd = "called" /\ sdctx = "open" /\ nret = n) ~> (nret > n)
\* the loop goroutine ends after Shutdown (if the refresh in progress does)
LoopExits == (nret > 0 /\ loop # "none") ~> (loop = "exited" \/ nper = MaxRefr)

EmitHist == PrintT(<<"BEH", ToJson(hist)>>)
=============================================================================
