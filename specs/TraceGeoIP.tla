---------------------------- MODULE TraceGeoIP ----------------------------
(* Trace validation for EXT9.  One world = one real geoip.File with small real
   MaxMind databases on disk (written by the harness or shipped with the
   repository).  geoip_files.ndjson lists every database version of the run as
   an independent reader (maxminddb.Reader.Networks) sees it: line v is the
   constant Files[v].  trace.ndjson:

     Reset    hostcap, ipcap, tops, alltop: the configuration of the File
     Put      kind, v: the environment replaces a database file
     RStart   r, res ("gated": both goroutines stand in front of their Lock /
              "ret": Refresh returned), err, lerr, cerr
     RSwapLoc / RSwapCtry   the goroutine was let through its critical section
     RJoin    res ("gated": Refresh stands in front of the last Lock / "ret")
     RSwapDB  Refresh was let through the last critical section and returned
     Data     host, ip (octets), zero, zone, got, err, p: the identity of the
              returned pointer (numbered by first appearance), ha / hc: the
              networks that hold the address by the reference reader (verified
              here, not trusted)
     Subnet   l, lp (> 0: the pointer p of an earlier answer was handed in),
              fam, sn, err
     End
   every event: chg = earlier answers whose content is no longer what was
   returned (LocationsAreValues), obs = what the File holds after the step
   (versions in force, cache sizes, the four derived maps after refresh steps).

   State-changing events must be explained by the action of GeoIP.tla with the
   observed outcome, else the trace is stuck there (a WHY line says what the
   specification expected).  At the publication points of a refresh the trace
   specification admits the contract and the code's reading (Defect = "any");
   the invariants decide.  Subnet lines and the length of published prefixes are
   judged line by line (NONCONF), since they do not change the state.       *)
EXTENDS GeoIP

VARIABLE l
TraceFromDisk == ndJsonDeserialize("trace.ndjson")
TraceFiles == ndJsonDeserialize("geoip_files.ndjson")
Trace == TLCGet(3)
TConf == [id |-> "", hostcap |-> 0, ipcap |-> 1, tops |-> [c \in {} |-> 0], alltop |-> {}]
tvars == <<vars, l>>
E == Trace[l]
SetOf(s) == {s[j] : j \in 1..Len(s)}

Mark == TLCSet(1, IF l + 1 > TLCGet(1) THEN l + 1 ELSE TLCGet(1))
Consume(e) == l <= Len(Trace) /\ E.ev = e /\ l' = l + 1
Why(ok, what) == IF ok THEN TRUE ELSE PrintT(<<"WHY", l, what>>) /\ FALSE

Proj(m) == {[asn |-> e.k.asn, ctry |-> e.k.ctry, sub |-> e.k.sub, p |-> e.p] : e \in m}
ObsLight(o) == /\ Why(o.dba = dbA' /\ o.dbc = dbC', <<"databases in force", dbA', dbC', "observed", o.dba, o.dbc>>)
               /\ Why(o.iplen = Len(ipc') /\ o.hostlen = Len(hostc'),
                      <<"cache sizes", Len(ipc'), Len(hostc'), "observed", o.iplen, o.hostlen>>)
ObsMaps(o) == /\ Why(SetOf(o.loc4) = Proj(loc4'), <<"ipv4 location subnets", Proj(loc4'), "observed", o.loc4>>)
              /\ Why(SetOf(o.loc6) = Proj(loc6'), <<"ipv6 location subnets", Proj(loc6'), "observed", o.loc6>>)
              /\ Why(SetOf(o.c4) = Proj(c4'), <<"ipv4 country subnets", Proj(c4'), "observed", o.c4>>)
              /\ Why(SetOf(o.c6) = Proj(c6'), <<"ipv6 country subnets", Proj(c6'), "observed", o.c6>>)
ChgOK == Why(E.chg = <<>>, <<"LocationsAreValues: an answer returned earlier was changed", E.chg>>)

\* published prefixes that do not have the desired length (judged, not blocking)
LenReport == LET bad == {e \in Proj(loc4') \cup Proj(c4') : e.p.n # 24} \cup {e \in Proj(loc6') \cup Proj(c6') : e.p.n # 56}
             IN  IF bad = {} THEN TRUE ELSE PrintT(<<"NONCONF", l, <<"DesiredLength", bad>>>>)

TraceInit == LoadFiles /\ TLCSet(3, TraceFromDisk) /\ Fresh(TConf) /\ hist = <<>> /\ l = 1 /\ TLCSet(1, 1)

TopsOf(s) == [c \in {p[1] : p \in SetOf(s)} |-> (CHOOSE p \in SetOf(s) : p[1] = c)[2]]

TraceReset ==
    /\ Consume("Reset")
    /\ conf' = [id |-> E.world, hostcap |-> E.hostcap, ipcap |-> E.ipcap, tops |-> TopsOf(E.tops), alltop |-> SetOf(E.alltop)]
    /\ disk' = [A |-> E.disk[1], C |-> E.disk[2]] /\ dbA' = 0 /\ dbC' = 0
    /\ loc4' = {} /\ loc6' = {} /\ c4' = {} /\ c6' = {} /\ locTag' = <<0, 0>> /\ ctryTag' = 0
    /\ ipc' = <<>> /\ hostc' = <<>> /\ heap' = <<>> /\ rf' = [r \in Refreshers |-> IdleRf] /\ snaps' = {}
    /\ lastr' = NoR /\ lastd' = NoD /\ lasts' = NoS /\ nput' = 0 /\ nref' = 0 /\ hist' = hist
    /\ ObsLight(E.obs) /\ ObsMaps(E.obs) /\ Mark

TraceEnd == /\ Consume("End") /\ UNCHANGED vars /\ ChgOK /\ ObsLight(E.obs) /\ ObsMaps(E.obs) /\ Mark

TracePut == /\ Consume("Put") /\ PutFile(E.kind, E.v) /\ ChgOK /\ ObsLight(E.obs) /\ Mark

ScanErr(e) == e.lerr \/ e.cerr

\* Refresh returned from RStart: a load failure, or (a repaired File that publishes nothing after a failed scan)
\* the silent steps below followed by RJoin
\* a File that serialises its refreshes makes the second one wait: it has not started
TraceRStartBlocked ==
    /\ Consume("RStart") /\ E.res = "blocked" /\ Busy # {} /\ rf[E.r].pc = "idle" /\ UNCHANGED vars
    /\ ChgOK /\ ObsLight(E.obs) /\ ObsMaps(E.obs) /\ Mark
TraceRStart ==
    /\ Consume("RStart") /\ E.res # "blocked" /\ RStart(E.r)
    /\ IF E.res = "gated"
       THEN Why(rf'[E.r].pc = "built", <<"Refresh must fail while reading", lastr'.err>>)
       ELSE /\ ~ScanErr(E)
            /\ Why(rf'[E.r].pc = "idle" /\ lastr'.res = "err" /\ lastr'.err = E.err,
                   <<"Refresh returned", E.err, "expected", IF rf'[E.r].pc = "idle" THEN lastr'.err ELSE "both files are loadable">>)
    /\ ChgOK /\ ObsLight(E.obs) /\ ObsMaps(E.obs) /\ Mark
SilentRStart ==
    /\ l <= Len(Trace) /\ E.ev = "RStart" /\ E.res = "ret" /\ ScanErr(E) /\ rf[E.r].pc = "idle"
    /\ RStart(E.r) /\ rf'[E.r].pc = "built" /\ UNCHANGED l
SilentSwap ==
    /\ l <= Len(Trace) /\ E.ev = "RStart" /\ E.res = "ret" /\ ScanErr(E) /\ rf[E.r].pc = "built"
    /\ \/ RSwapLoc(E.r) /\ UNCHANGED <<loc4, loc6>>
       \/ RSwapCtry(E.r) /\ UNCHANGED <<c4, c6>>
    /\ UNCHANGED l
JoinOutcome ==
    IF E.res = "gated"
    THEN Why(rf'[E.r].pc = "joined", <<"Refresh must return the error of a failed scan", rf[E.r].lerr, rf[E.r].cerr>>)
    ELSE Why(rf'[E.r].pc = "idle" /\ E.lerr = rf[E.r].lerr /\ E.cerr = rf[E.r].cerr,
             <<"Refresh returned", E.err, E.lerr, E.cerr, "expected scan errors (location, country)", rf[E.r].lerr, rf[E.r].cerr>>)
SilentJoin ==
    /\ Consume("RStart") /\ E.res = "ret" /\ ScanErr(E) /\ rf[E.r].pc = "built" /\ RJoin(E.r) /\ JoinOutcome
    /\ ChgOK /\ ObsLight(E.obs) /\ ObsMaps(E.obs) /\ Mark

TraceRSwapLoc == /\ Consume("RSwapLoc") /\ RSwapLoc(E.r) /\ ChgOK /\ ObsLight(E.obs) /\ ObsMaps(E.obs) /\ LenReport /\ Mark
TraceRSwapCtry == /\ Consume("RSwapCtry") /\ RSwapCtry(E.r) /\ ChgOK /\ ObsLight(E.obs) /\ ObsMaps(E.obs) /\ LenReport /\ Mark
TraceRJoin == /\ Consume("RJoin") /\ RJoin(E.r) /\ JoinOutcome /\ ChgOK /\ ObsLight(E.obs) /\ ObsMaps(E.obs) /\ Mark
TraceRSwapDB == /\ Consume("RSwapDB") /\ RSwapDB(E.r)
                /\ Why(E.err = "", <<"Refresh returned an error after the swap", E.err>>)
                /\ Why(E.mids = <<>>, <<"ReadersSeeOneVersion: the swap takes more than one critical section; visible in between", E.mids>>)
                /\ ChgOK /\ ObsLight(E.obs) /\ ObsMaps(E.obs) /\ Mark

LocOf(g) == [ctry |-> g.ctry, cont |-> g.cont, sub |-> g.sub, asn |-> g.asn]

TraceData ==
    /\ Consume("Data")
    /\ IF E.zero THEN DataHost(E.host) ELSE DataIP(E.host, E.ip, E.ha, E.hc)
    /\ CASE lastd'.kind \in {"hit", "miss", "host"} ->
              Why(~E.got.nil /\ E.err = "" /\ E.p = lastd'.p /\ LocOf(E.got) = heap'[lastd'.p].orig,
                  <<"Data", lastd'.kind, "expected pointer", lastd'.p, heap'[lastd'.p].orig, "got pointer", E.p, E.got, E.err>>)
         [] lastd'.kind = "hostmiss" ->
              Why(E.got.nil /\ E.p = 0 /\ E.err = "", <<"Data: host not cached, expected nil", "got", E.p, E.got, E.err>>)
         [] OTHER ->
              Why(E.got.nil /\ E.err = lastd'.err, <<"Data: expected error", lastd'.err, "got", E.got, E.err>>)
    /\ ChgOK /\ ObsLight(E.obs) /\ Mark
    \* (observation, not judged) a hit whose answer is not what the databases say about the asked address itself:
    \* the documented granularity of the cache key (/24, /56)
    /\ IF lastd'.kind = "hit" /\ Lookup(dbA, dbC, Unmap(E.ip), E.ha, E.hc).loc # heap'[lastd'.p].orig
       THEN PrintT(<<"SHARED", l, heap'[lastd'.p].a>>) ELSE TRUE

SubnetReasons(e) ==
    LET ll == IF e.lp > 0 /\ e.lp <= Len(heap) THEN heap[e.lp].cur ELSE LocOf(e.l)
        loc == IF e.fam = 4 THEN loc4 ELSE loc6
        ctry == IF e.fam = 4 THEN c4 ELSE c6
        d == Decide(loc, ctry, conf.tops, ll, e.fam)
        dc == DecideCode(loc, ctry, conf.tops, ll, e.fam)
    IN  (IF e.sn \in {x.p : x \in d.set} THEN {}
         ELSE IF e.sn \in {x.p : x \in dc.set}
              THEN {<<"contract", IF d.step = "hack" THEN "MegafonHack" ELSE IF d.step = "top" THEN "TopASNOfCountry" ELSE d.step,
                      "documented", {x.p : x \in d.set}, "answered as file.go decides", dc.step>>}
              ELSE {<<"decision", d.step, "expected", {x.p : x \in d.set}>>})
        \cup (IF e.err # "" THEN {<<"error", e.err>>} ELSE {})
        \cup (IF e.lp > 0 /\ LocOf(e.l) # ll THEN {<<"the location behind the pointer is not what Data returned", ll>>} ELSE {})
        \cup (IF e.own # <<>> THEN {<<"SubnetByLocation wrote to the location it was given", e.own>>} ELSE {})

SubnetStep(e) == Decide(IF e.fam = 4 THEN loc4 ELSE loc6, IF e.fam = 4 THEN c4 ELSE c6, conf.tops,
                        IF e.lp > 0 /\ e.lp <= Len(heap) THEN heap[e.lp].cur ELSE LocOf(e.l), e.fam).step
TraceSubnet ==
    /\ Consume("Subnet") /\ UNCHANGED vars
    /\ ChgOK /\ ObsLight(E.obs) /\ Mark
    /\ LET r == SubnetReasons(E) IN IF r = {} THEN TRUE ELSE PrintT(<<"NONCONF", l, r>>)
    /\ PrintT(<<"STEP", l, SubnetStep(E)>>)

(* concurrent readers (no gates): every line is judged against the pairs of versions in force during the call *)
CReadReasons(e) ==
    LET ua == Unmap(e.ip)
        ok == \E pr \in SetOf(e.pairs) :
                 LET res == Lookup(pr[1], pr[2], ua, 0, 0)
                 IN  res.err = e.err /\ (IF res.err # "" THEN e.got.nil ELSE ~e.got.nil /\ res.loc = LocOf(e.got))
    IN  IF ok THEN {} ELSE {<<"ReadersSeeOneVersion: the answer is not the data of any pair of databases in force during the call",
                              {Lookup(pr[1], pr[2], ua, 0, 0) : pr \in SetOf(e.pairs)}>>}
CSubnetReasons(e) ==
    LET ll == LocOf(e.l)
        cands == UNION {UNION {
                   LET lm == BuildLoc(pl[1], pl[2], conf.alltop, e.fam)
                       cm == BuildCtry(pc[2], e.fam)
                   IN  {x.p : x \in Decide(lm, cm, conf.tops, ll, e.fam).set} \cup {x.p : x \in DecideCode(lm, cm, conf.tops, ll, e.fam).set}
                   : pc \in SetOf(e.pairs)} : pl \in SetOf(e.pairs)}
    IN  IF e.sn \in cands /\ e.err = "" THEN {} ELSE {<<"the subnet comes from none of the derived maps in force during the call", cands>>}
TraceCRead == /\ Consume("CRead") /\ UNCHANGED vars /\ Mark
              /\ LET r == CReadReasons(E) IN IF r = {} THEN TRUE ELSE PrintT(<<"NONCONF", l, r>>)
TraceCSubnet == /\ Consume("CSubnet") /\ UNCHANGED vars /\ Mark
                /\ LET r == CSubnetReasons(E) IN IF r = {} THEN TRUE ELSE PrintT(<<"NONCONF", l, r>>)
TraceCEnd == Consume("CEnd") /\ UNCHANGED vars /\ Mark
TraceProbe == Consume("Probe") /\ UNCHANGED vars /\ Mark

TraceNext == \/ TraceCRead \/ TraceCSubnet \/ TraceCEnd \/ TraceProbe
             \/ TraceReset \/ TraceEnd \/ TracePut \/ TraceRStart \/ TraceRStartBlocked \/ SilentRStart \/ SilentSwap \/ SilentJoin
             \/ TraceRSwapLoc \/ TraceRSwapCtry \/ TraceRJoin \/ TraceRSwapDB \/ TraceData \/ TraceSubnet
TraceSpec == TraceInit /\ [][TraceNext]_tvars

TraceAccepted ==
    IF TLCGet(1) = Len(Trace) + 1 THEN TRUE
    ELSE PrintT(<<"STUCK", TLCGet(1), Len(Trace)>>) /\ FALSE
=============================================================================
