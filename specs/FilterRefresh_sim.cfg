SPECIFICATION Spec
CONSTANTS
  Lists = {"ridx", "rl1", "rl2", "sidx", "ss", "hp"}
  Faults = {"ok", "refused", "timeout", "status", "empty", "oversize", "trunc", "cancel", "inv", "invown"}
  MaxRounds = 3
  CrashAnywhere = FALSE
  Defects = {}
  KeepHist = TRUE
CONSTRAINT EmitHist
CHECK_DEADLOCK FALSE
