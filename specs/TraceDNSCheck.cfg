SPECIFICATION TraceSpec
CONSTANTS
  Domains <- McDomains
  Alphabet = {"a"}
  MaxName = 0
  MinId = 4
  MaxId = 63
  QTypes = {"A"}
  Nodes = {"A", "B"}
  Ids = {"x"}
  CacheExp = 60
  TTLs = {30}
  Caps = {1}
  Ticks = {1}
  MaxTime = 100000000
  MaxOps = 100000000
  WebCaseSensitive = FALSE
  WebSkipsSuffix = FALSE
  SharedKey = FALSE
  KeepOldLocal = FALSE
  NoLocalExpiry = FALSE
  NoNamespace = FALSE
  SplitDNS = FALSE
  KeepHist = FALSE
POSTCONDITION TraceAccepted
CHECK_DEADLOCK FALSE
