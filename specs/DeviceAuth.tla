------------------------------ MODULE DeviceAuth ------------------------------
(* C03.  Device recognition (agd.DeviceFinder.Find + what ratelimitmw exposes as
   agd.RequestInfo.DeviceData) as a decision over abstract input classes.

   Three abstract devices:
     "dev"   the subject device; its database state is part of the vector
             (auth policy, profile live/deleted, attached/detached)
     "oth"   another device of another, live profile, no authentication
     "auto"  a device created on the fly by the automatic-devices feature for an
             extended human-readable id that names dev's profile
   Every identifier-carrying field says WHOSE identifier it carries, so that
   "only via its own identifier" and the channel precedence are expressible.

   Vector fields
     proto   DNS (plain UDP/TCP) | DoT | DoQ | DoH | DNSCrypt
     path    DoH URL path id:  none | dev | oth | unk (well-formed, not in the db)
                               | bad (malformed: 9 chars, bad chars, extra
                               segments) | human (ext. human id of dev in dev's
                               profile)
     ui      basic-auth userinfo: absent | user (dev's id, no password)
             | empty (dev's id, empty password) | wrong | right | unkuser
             (well-formed unknown user) | baduser (malformed user)
     sni     TLS server name: none | dev (id.domain) | devcase (ID.Domain)
             | nested (a.id.domain) | other (id.other.tld) | oth | unk | bad
             | human
     edns    EDNS CPE-ID option: none | dev | oth | unk | bad
     local   own | deddev | dedoth | dedunk   (dedicated = not the server's own)
     remote  linkdev | linkoth | other
     linked, bindif, dd   server settings (linked IP enabled, binds to
             interfaces, device domains configured)
     auth    off | on | dohonly         (dev's policy; bcrypt hash set when # off)
     live, att   dev's profile not deleted / dev still in its profile
     autodev dev's profile has automatic devices enabled

   Allowed(v) is the CONTRACT, written from the property statement, the godoc
   of agd.DeviceFinder / agd.DeviceResult* and doc/configuration.md
   (device_id_wildcards, linked_ip_enabled, bind_interfaces).  It is a set
   where these sources leave the choice open (a malformed identifier may be an
   error or anonymous; a failed policy may be reported as AuthFailure or plain
   anonymous; a dedicated address of a vanished device may be dropped or
   anonymous) -- none of the open choices recognises anybody.

   ImplFind(v) is the implementation-shaped decision (devicefinder.Default.Find
   over profiledb.Default after the syncs that produce the db state); Defect
   selects seeded faults for the sanity configurations. *)
EXTENDS Naturals, FiniteSets, TLC

CONSTANTS FullProduct,   \* TRUE: enumerate the complete unfactored product (thorough tier)
          Defect   \* "none" | "dohonly_any_proto" | "wrong_pw_ok"
                   \* | "empty_pw_as_absent" | "no_membership_recheck"
                   \* | "fallback_to_addrs"

Protos  == {"DNS", "DoT", "DoQ", "DoH", "DNSCrypt"}
Paths   == {"none", "dev", "oth", "unk", "bad", "human"}
UIs     == {"absent", "user", "empty", "wrong", "right", "unkuser", "baduser"}
SNIs    == {"none", "dev", "devcase", "nested", "other", "oth", "unk", "bad", "human"}
EDNSs   == {"none", "dev", "oth", "unk", "bad"}
Locals  == {"own", "deddev", "dedoth", "dedunk"}
Remotes == {"linkdev", "linkoth", "other"}
Auths   == {"off", "on", "dohonly"}

Vectors == [proto : Protos, path : Paths, ui : UIs, sni : SNIs, edns : EDNSs, local : Locals,
            remote : Remotes, linked : BOOLEAN, bindif : BOOLEAN, dd : BOOLEAN, auth : Auths,
            live : BOOLEAN, att : BOOLEAN, autodev : BOOLEAN]

-----------------------------------------------------------------------------
\* Results.
OK(d)    == [kind |-> "ok", dev |-> d]
Anon     == [kind |-> "anon", dev |-> "none"]
AuthFail == [kind |-> "authfail", dev |-> "none"]
Drop     == [kind |-> "drop", dev |-> "none"]
Err      == [kind |-> "error", dev |-> "none"]

\* What the stage after the middleware sees.
Downstream(r) ==
    IF r.kind = "ok" THEN [served |-> TRUE, dev |-> r.dev]
    ELSE IF r.kind \in {"anon", "authfail"} THEN [served |-> TRUE, dev |-> "none"]
    ELSE [served |-> FALSE, dev |-> "none"]

\* Database facts per abstract device.
AuthOf(v, d) == IF d = "dev" THEN v.auth ELSE "off"
Live(v, d)   == IF d = "oth" THEN TRUE ELSE v.live          \* dev and auto share dev's profile
Member(v, d) == IF d = "dev" THEN v.att ELSE TRUE           \* auto is created for its profile
ProfOf(d)    == IF d = "oth" THEN "poth" ELSE IF d \in {"dev", "auto"} THEN "pdev" ELSE "none"

\* Whose identifier a field value carries.
Ref(x) == CASE x \in {"dev", "devcase", "deddev", "linkdev"} -> "dev"
            [] x \in {"oth", "dedoth", "linkoth"} -> "oth"
            [] x \in {"unk", "dedunk"} -> "unk"
            [] x = "bad" -> "bad"
            [] x = "human" -> "human"
            [] OTHER -> "none"

\* Field value x names device d (a human id names dev, or the auto device
\* created for it).
Names(x, d) == \/ d \in {"dev", "oth"} /\ Ref(x) = d
               \/ d \in {"dev", "auto"} /\ Ref(x) = "human"

-----------------------------------------------------------------------------
\* CONTRACT

NoIdent == [via |-> "none", ref |-> "none"]

\* A server name identifies a device only under a configured device domain and
\* only as the single label in front of it (wildcard *.domain).
SNIIdent(v) == IF v.dd /\ Ref(v.sni) # "none" THEN [via |-> "sni", ref |-> Ref(v.sni)] ELSE NoIdent

\* The identifier the request carries through the channel valid for its
\* transport, by precedence: DoH userinfo, DoH path, TLS server name (encrypted
\* transports); EDNS CPE-ID, dedicated address, linked IP (plain DNS only).
Ident(v) ==
    CASE v.proto = "DoH" ->
           IF v.ui # "absent"
           THEN [via |-> "userinfo", ref |-> IF v.ui = "baduser" THEN "bad" ELSE IF v.ui = "unkuser" THEN "unk" ELSE "dev"]
           ELSE IF v.path # "none" THEN [via |-> "path", ref |-> Ref(v.path)]
           ELSE SNIIdent(v)
      [] v.proto \in {"DoT", "DoQ"} -> SNIIdent(v)
      [] v.proto = "DNS" ->
           IF v.edns # "none" THEN [via |-> "edns", ref |-> Ref(v.edns)]
           ELSE IF v.bindif /\ v.local # "own" THEN [via |-> "dedicated", ref |-> Ref(v.local)]
           ELSE IF v.linked /\ v.remote # "other" THEN [via |-> "linked", ref |-> Ref(v.remote)]
           ELSE NoIdent
      [] OTHER -> NoIdent

\* The device's authentication policy.
PolicyMet(v, d) ==
    CASE AuthOf(v, d) = "off" -> TRUE
      [] AuthOf(v, d) = "on" -> v.proto # "DoH" \/ v.ui \in {"absent", "right"}
      [] AuthOf(v, d) = "dohonly" -> v.proto = "DoH" /\ v.ui = "right"

Policy(v, d) == IF PolicyMet(v, d) THEN {OK(d)} ELSE {AuthFail, Anon}

Allowed(v) ==
    LET i == Ident(v) IN
    CASE i.ref = "none" -> {Anon}
      [] i.ref = "bad" -> {Err, Anon}
      [] i.ref = "unk" -> IF i.via = "dedicated" THEN {Drop} ELSE {Anon}
      [] i.ref = "human" ->
           IF ~v.live THEN {Anon}
           ELSE IF v.att THEN Policy(v, "dev")
           ELSE IF v.autodev THEN {OK("auto")} ELSE {Anon}
      [] OTHER ->   \* dev or oth
           IF Live(v, i.ref) /\ Member(v, i.ref) THEN Policy(v, i.ref)
           ELSE IF i.via = "dedicated" THEN {Drop, Anon} ELSE {Anon}

-----------------------------------------------------------------------------
\* IMPLEMENTATION-SHAPED DECISION (devicefinder.go, devicedata.go, device.go,
\* humanid.go; profiledb.go look-ups)

Empty   == [id |-> "", ext |-> FALSE, err |-> FALSE]
DataErr == [id |-> "", ext |-> FALSE, err |-> TRUE]

\* parseDeviceData on a path element / server-name label of class x, and
\* agd.NewDeviceID on an EDNS payload.
ParseData(x) ==
    CASE Ref(x) = "human" -> [id |-> "", ext |-> TRUE, err |-> FALSE]
      [] Ref(x) = "bad" -> DataErr
      [] Ref(x) \in {"dev", "oth", "unk"} -> [id |-> Ref(x), ext |-> FALSE, err |-> FALSE]
      [] OTHER -> Empty

\* deviceDataForDoH
ImplDoH(v) ==
    IF v.ui # "absent"
    THEN IF v.ui = "baduser" THEN DataErr
         ELSE [id |-> IF v.ui = "unkuser" THEN "unk" ELSE "dev", ext |-> FALSE, err |-> FALSE]
    ELSE ParseData(v.path)

\* deviceDataFromSrvReqInfo (matchDomain: immediate subdomains only)
ImplSrvReqInfo(v) ==
    LET d == IF v.proto = "DoH" THEN ImplDoH(v) ELSE Empty IN
    IF d # Empty THEN d
    ELSE IF ~v.dd THEN Empty
    ELSE IF v.sni \in {"none", "nested", "other"} THEN Empty ELSE ParseData(v.sni)

\* deviceData
ImplData(v) == IF v.proto \in {"DoT", "DoQ", "DoH"} THEN ImplSrvReqInfo(v) ELSE ParseData(v.edns)

\* profiledb results: [st |-> "found", dev, deleted] | [st |-> "notfound"]
NotFound == [st |-> "notfound", dev |-> "none", deleted |-> FALSE]
Found(d, del) == [st |-> "found", dev |-> d, deleted |-> del]

\* profileByDeviceID: the index entries of a detached device survive the sync;
\* the profile's DeviceIDs are re-inspected.  A deleted profile stays in the map
\* with Deleted = true.
ByDeviceID(v, id) ==
    CASE id = "oth" -> Found("oth", FALSE)
      [] id = "dev" -> IF ~v.att /\ Defect # "no_membership_recheck" THEN NotFound ELSE Found("dev", ~v.live)
      [] OTHER -> NotFound

\* deviceByExtID: ProfileByHumanID, then CreateAutoDevice on ErrDeviceNotFound.
ByExtID(v) ==
    LET r == ByDeviceID(v, "dev") IN
    IF r.st = "found" THEN r
    ELSE IF v.autodev THEN Found("auto", ~v.live) ELSE NotFound

\* authenticate
ImplAuth(v, d) ==
    LET a == AuthOf(v, d) IN
    IF a = "off" THEN OK(d)
    ELSE IF v.proto # "DoH"
         THEN IF a = "dohonly" /\ Defect # "dohonly_any_proto" THEN AuthFail ELSE OK(d)
    ELSE IF v.ui = "absent" \/ (v.ui = "empty" /\ Defect = "empty_pw_as_absent")
         THEN IF a = "dohonly" THEN AuthFail ELSE OK(d)
    ELSE IF v.ui = "user" THEN AuthFail
    ELSE IF v.ui = "right" \/ Defect = "wrong_pw_ok" THEN OK(d)
    ELSE AuthFail

\* findDevice's deleted check and authenticatedResult
Finish(v, r) == IF r.st # "found" \/ r.deleted THEN Anon ELSE ImplAuth(v, r.dev)

\* deviceByAddrs
ImplByAddrs(v) ==
    IF v.bindif /\ v.local # "own"
    THEN LET r == ByDeviceID(v, Ref(v.local)) IN
         IF r.st = "found" THEN Finish(v, r) ELSE Drop
    ELSE IF ~v.linked THEN Anon
    ELSE IF v.remote = "other" THEN Anon
    ELSE Finish(v, ByDeviceID(v, Ref(v.remote)))

ImplFind(v) ==
    IF v.proto = "DNSCrypt" THEN Anon
    ELSE LET d == ImplData(v) IN
         IF d.err THEN Err
         ELSE IF d.id # ""
              THEN LET r == ByDeviceID(v, d.id) IN
                   IF r.st # "found" /\ Defect = "fallback_to_addrs" /\ v.proto = "DNS"
                   THEN ImplByAddrs(v) ELSE Finish(v, r)
         ELSE IF d.ext THEN Finish(v, ByExtID(v))
         ELSE IF v.proto = "DNS" THEN ImplByAddrs(v)
         ELSE Anon

-----------------------------------------------------------------------------
\* PROPERTY CLAUSES, stated on a result r for a vector v independently of how
\* Allowed and ImplFind were written.

\* d's identifier is carried through a channel that is valid for the transport.
Carried(v, d) ==
    CASE v.proto = "DoH" ->
           \/ d = "dev" /\ v.ui \in {"user", "empty", "wrong", "right"}
           \/ Names(v.path, d)
           \/ v.dd /\ Names(v.sni, d)
      [] v.proto \in {"DoT", "DoQ"} -> v.dd /\ Names(v.sni, d)
      [] v.proto = "DNS" ->
           \/ Names(v.edns, d)
           \/ v.bindif /\ v.local # "own" /\ Names(v.local, d)
           \/ v.linked /\ Names(v.remote, d)
      [] OTHER -> FALSE

ClValidChannel(v, r)   == r.kind = "ok" => Carried(v, r.dev)
ClLiveMembership(v, r) == r.kind = "ok" => Live(v, r.dev) /\ Member(v, r.dev)
ClDoHOnlyElsewhere(v, r) == (r = OK("dev") /\ v.auth = "dohonly") => v.proto = "DoH"
ClDoHOnlyPassword(v, r)  == (r = OK("dev") /\ v.auth = "dohonly") => v.ui = "right"
\* wrong, empty or missing password presented for a device with authentication
\* enabled: nobody is recognised.
ClBadPassword(v, r) ==
    (v.proto = "DoH" /\ v.auth # "off" /\ v.ui \in {"user", "empty", "wrong"}) => r.kind # "ok"
ClAuthFailAnon(v, r) == r.kind = "authfail" => Downstream(r) = [served |-> TRUE, dev |-> "none"]
ClDNSCrypt(v, r) == v.proto = "DNSCrypt" => r = Anon
\* device id > human id > addresses: once a channel of higher precedence carries
\* an identifier, only the device it names can be recognised.
ClPrecedence(v, r) ==
    r.kind = "ok" =>
      /\ (v.proto = "DoH" /\ v.ui # "absent") => (r.dev = "dev" /\ v.ui \notin {"unkuser", "baduser"})
      /\ (v.proto = "DoH" /\ v.ui = "absent" /\ v.path # "none") => Names(v.path, r.dev)
      /\ (v.proto = "DNS" /\ v.edns # "none") => Names(v.edns, r.dev)
      /\ (v.proto = "DNS" /\ v.edns = "none" /\ v.bindif /\ v.local # "own") => Names(v.local, r.dev)

AllClauses(v, r) ==
    /\ ClValidChannel(v, r) /\ ClLiveMembership(v, r) /\ ClDoHOnlyElsewhere(v, r) /\ ClDoHOnlyPassword(v, r)
    /\ ClBadPassword(v, r) /\ ClAuthFailAnon(v, r) /\ ClDNSCrypt(v, r) /\ ClPrecedence(v, r)

-----------------------------------------------------------------------------
\* Exhaustive enumeration: one state per vector of the factored product (fields
\* the transport cannot carry or the decision provably ignores are reduced to
\* {neutral, decoy carrying dev's identifier}).
VARIABLES v,      \* the vector
          done    \* FALSE only in the seed states of the full product
vars == <<v, done>>

DBStates == [auth : Auths, live : BOOLEAN, att : BOOLEAN]

Mk(proto, path, ui, sni, edns, local, remote, linked, bindif, dd, db, autodev) ==
    [proto |-> proto, path |-> path, ui |-> ui, sni |-> sni, edns |-> edns, local |-> local, remote |-> remote,
     linked |-> linked, bindif |-> bindif, dd |-> dd, auth |-> db.auth, live |-> db.live, att |-> db.att,
     autodev |-> autodev]

AutoOK(path, sni, a) == a = FALSE \/ path = "human" \/ sni = "human"

\* Init enumerates the four per-transport products (written with \E so that TLC
\* generates the vectors one by one instead of building the set first).
InitPlain ==
    \E e \in EDNSs, lo \in Locals, re \in Remotes, li \in BOOLEAN, bi \in BOOLEAN, db \in DBStates :
        v = Mk("DNS", "none", "absent", "none", e, lo, re, li, bi, FALSE, db, FALSE)

InitTLS ==
    \E p \in {"DoT", "DoQ"}, s \in SNIs, e \in {"none", "dev"}, lo \in {"own", "deddev"},
       re \in {"linkdev", "other"}, li \in BOOLEAN, bi \in BOOLEAN, dd \in BOOLEAN, db \in DBStates,
       a \in BOOLEAN :
        /\ AutoOK("none", s, a)
        /\ v = Mk(p, "none", "absent", s, e, lo, re, li, bi, dd, db, a)

\* decoy = all address/EDNS channels carry dev's identifiers and are enabled
InitDoH ==
    \E pa \in Paths, u \in UIs, s \in SNIs, dec \in BOOLEAN, dd \in BOOLEAN, db \in DBStates, a \in BOOLEAN :
        /\ AutoOK(pa, s, a)
        /\ v = Mk("DoH", pa, u, s, IF dec THEN "dev" ELSE "none", IF dec THEN "deddev" ELSE "own",
                  IF dec THEN "linkdev" ELSE "other", dec, dec, dd, db, a)

InitCrypt ==
    \E e \in {"none", "dev"}, lo \in {"own", "deddev"}, re \in {"linkdev", "other"}, li \in BOOLEAN,
       bi \in BOOLEAN, db \in DBStates :
        v = Mk("DNSCrypt", "none", "absent", "none", e, lo, re, li, bi, FALSE, db, FALSE)

\* The complete product: Init fixes (proto, path, ui), one Next step fills in
\* the other fields, so that TLC's workers share the enumeration.
DB0 == [auth |-> "off", live |-> TRUE, att |-> TRUE]
InitFull ==
    /\ done = FALSE
    /\ \E p \in Protos, pa \in Paths, u \in UIs :
          v = Mk(p, pa, u, "none", "none", "own", "other", FALSE, FALSE, FALSE, DB0, FALSE)
NextFull ==
    /\ ~done /\ done' = TRUE
    /\ \E s \in SNIs, e \in EDNSs, lo \in Locals, re \in Remotes, li \in BOOLEAN, bi \in BOOLEAN,
          dd \in BOOLEAN, db \in DBStates, a \in BOOLEAN :
          /\ AutoOK(v.path, s, a)
          /\ v' = Mk(v.proto, v.path, v.ui, s, e, lo, re, li, bi, dd, db, a)

Init == IF FullProduct THEN InitFull
        ELSE done = TRUE /\ (InitPlain \/ InitTLS \/ InitDoH \/ InitCrypt)
Next == (FullProduct /\ NextFull) \/ (done /\ UNCHANGED vars)
Spec == Init /\ [][Next]_vars

R(w) == Allowed(w) \cup {ImplFind(w)}

TypeOK == v \in Vectors
ContractNonEmpty == Allowed(v) # {}
ImplWithinContract == ImplFind(v) \in Allowed(v)
RecognisedImpliesValidChannel   == \A r \in R(v) : ClValidChannel(v, r)
RecognisedImpliesLiveMembership == \A r \in R(v) : ClLiveMembership(v, r)
DoHOnlyNeverElsewhere           == \A r \in R(v) : ClDoHOnlyElsewhere(v, r)
DoHOnlyNeedsRightPassword       == \A r \in R(v) : ClDoHOnlyPassword(v, r)
BadPasswordNeverRecognised      == \A r \in R(v) : ClBadPassword(v, r)
AuthFailureIsAnonymousDownstream == \A r \in R(v) : ClAuthFailAnon(v, r)
DNSCryptAlwaysAnonymous         == \A r \in R(v) : ClDNSCrypt(v, r)
PrecedenceRespected             == \A r \in R(v) : ClPrecedence(v, r)
\* only a recognised device is exposed downstream, and nothing is served after
\* a drop or an error
DownstreamOnlyRecognised ==
    \A r \in R(v) : LET d == Downstream(r) IN
        /\ d.dev # "none" => (r.kind = "ok" /\ d.dev = r.dev)
        /\ r.kind \in {"drop", "error"} => ~d.served
=============================================================================
