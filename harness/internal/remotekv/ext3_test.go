//go:build verif

package remotekv

// EXT3 recorder on the real KeyNamespace, Cache (over a real agdcache.LRU) and
// Empty.  Operation sequences come from TLC's simulation of RemoteKV.tla
// (VERIF_IN) and from a seeded generator (more namespaces, nested namespaces,
// ids shaped like the DNS-check ones, capacities 1..4).  One event per call;
// TLC (TraceRemoteKV.tla) decides.

import (
	"context"
	"fmt"
	"math/rand"
	"os"
	"testing"

	"github.com/AdguardTeam/AdGuardDNS/internal/agdcache"
)

type ext3Event struct {
	Ev      string `json:"ev"`
	Seg     int    `json:"seg"`
	Backing string `json:"backing"`
	Cap     int    `json:"cap"`
	N       string `json:"n"`
	K       string `json:"k"`
	V       string `json:"v"`
	OK      bool   `json:"ok"`
	Err     bool   `json:"err"`
	Raw     string `json:"raw"`
	Src     string `json:"src"`
}

type ext3Step struct {
	A string `json:"a"`
	N string `json:"n"`
	K string `json:"k"`
	B string `json:"b"`
	C int    `json:"c"`
}

// ext3Map is the recording unbounded store.
type ext3Map struct {
	m   map[string][]byte
	raw string
}

func (s *ext3Map) Get(_ context.Context, key string) (val []byte, ok bool, err error) {
	s.raw = key
	val, ok = s.m[key]

	return val, ok, nil
}

func (s *ext3Map) Set(_ context.Context, key string, val []byte) (err error) {
	s.raw = key
	s.m[key] = val

	return nil
}

type ext3World struct {
	backing Interface
	rec     *ext3Map
	ns      map[string]Interface
}

func ext3NewWorld(backing string, capacity int) (w *ext3World) {
	w = &ext3World{ns: map[string]Interface{}}
	switch backing {
	case "map":
		w.rec = &ext3Map{m: map[string][]byte{}}
		w.backing = w.rec
	case "lru":
		w.backing = NewCache(&CacheConfig{
			Cache: agdcache.NewLRU[string, []byte](&agdcache.LRUConfig{Count: capacity}),
		})
	case "empty":
		w.backing = Empty{}
	default:
		panic(backing)
	}

	return w
}

// nested namespaces: the prefix "a:x:" is a KeyNamespace "x:" over a
// KeyNamespace "a:".
var ext3Nested = map[string][2]string{"a:x:": {"a:", "x:"}, "consul:check:": {"consul:", "check:"}}

func (w *ext3World) namespace(n string) (kv Interface) {
	if n == "" {
		return w.backing
	}
	if kv = w.ns[n]; kv != nil {
		return kv
	}
	if parts, ok := ext3Nested[n]; ok {
		kv = NewKeyNamespace(&KeyNamespaceConfig{KV: w.namespace(parts[0]), Prefix: parts[1]})
	} else {
		kv = NewKeyNamespace(&KeyNamespaceConfig{KV: w.backing, Prefix: n})
	}
	w.ns[n] = kv

	return kv
}

func (w *ext3World) do(out *vhOut, seg int, src, a, n, k string, serial *int) {
	ctx := context.Background()
	kv := w.namespace(n)
	if w.rec != nil {
		w.rec.raw = ""
	}
	e := ext3Event{Ev: a, Seg: seg, N: n, K: k, Src: src}
	switch a {
	case "Set":
		*serial++
		e.V = fmt.Sprintf("v%d", *serial)
		e.OK = true
		e.Err = kv.Set(ctx, k, []byte(e.V)) != nil
	case "Get":
		val, ok, err := kv.Get(ctx, k)
		e.V, e.OK, e.Err = string(val), ok, err != nil
	default:
		panic(a)
	}
	if w.rec != nil {
		e.Raw = w.rec.raw
	}
	out.Emit(e)
}

func TestVerifEXT3KV(t *testing.T) {
	out := vhOpen(t)
	seg := 0
	serial := 0
	if p := os.Getenv("VERIF_IN"); p != "" {
		var behs [][]ext3Step
		vhReadJSON(t, p, &behs)
		for _, b := range behs {
			if len(b) == 0 {
				continue
			}
			seg++
			out.Emit(ext3Event{Ev: "Reset", Seg: seg, Backing: b[0].B, Cap: b[0].C, Src: "tlc"})
			w := ext3NewWorld(b[0].B, b[0].C)
			for _, s := range b {
				w.do(out, seg, "tlc", s.A, s.N, s.K, &serial)
			}
		}
	}
	rng := rand.New(rand.NewSource(vhSeed()*7919 + 3))
	prefixes := []string{"", "a:", "b:", "a:x:", "cache:check:", "consul:check:", "redis-prefix:check:"}
	keys := []string{"k1", "k2", "k3", "abcd", "0123-abcd", "ABCD", "a-b-c-d", "check", "x"}
	nrand := vhEnvInt("VERIF_NRANDOM", 200)
	for i := 0; i < nrand; i++ {
		seg++
		backing := []string{"map", "lru", "lru", "empty"}[rng.Intn(4)]
		capacity := 1 + rng.Intn(4)
		out.Emit(ext3Event{Ev: "Reset", Seg: seg, Backing: backing, Cap: capacity, Src: "rand"})
		w := ext3NewWorld(backing, capacity)
		// a small working set per segment makes hits and evictions frequent
		np, nk := 1+rng.Intn(3), 1+rng.Intn(4)
		ps := rng.Perm(len(prefixes))[:np]
		ks := rng.Perm(len(keys))[:nk]
		n := 5 + rng.Intn(40)
		for j := 0; j < n; j++ {
			a := "Get"
			if rng.Intn(100) < 45 {
				a = "Set"
			}
			w.do(out, seg, "rand", a, prefixes[ps[rng.Intn(np)]], keys[ks[rng.Intn(nk)]], &serial)
		}
	}
}
