//go:build verif

package cmd

// EXT8 recorder: differential taint of the configuration glue.
//
// The distributed example configuration (config.dist.yaml, adapted to a
// laboratory of loopback servers and temporary files) and the environment are
// carried through the REAL glue: parseConfig, validate, the toInternal
// conversions and the builder steps of Main (everything except the steps that
// bind sockets), dnssvc.NewHandlers / dnssvc.New / dnssvc.NewListener.  The
// configuration object every component constructor receives is captured at the
// constructor's entry (build-time overlay, see tools/checks/ext8.py) and
// flattened by reflection to a map path -> value.
//
// For every leaf of the example (and every environment variable) one variant
// per value class (distinctive value, smallest value, zero, flipped switch,
// other enumeration value) changes ONLY that leaf; every list is shortened,
// extended and reordered; every switch is put in its other position together
// with each scalar of its object at a distinctive value (and a few pairs that
// select a consumer: check.kv.type with the variables of that store, ...).  The
// recorder emits which flattened paths differ from the run of the unchanged
// example; paths a builder step that failed only in the variant would have
// produced are "unobserved", never "changed".  TraceConfigFlow.tla judges each
// line against the documented data-flow relation of ConfigFlow.tla.
//
// Abstraction functions: ext8CanonLeaf (YAML scalar -> canonical text),
// ext8Flat.walk (internal value -> canonical text; durations as Go duration
// text, sizes as bytes, addresses / prefixes / URLs as text), the namers of
// ext8Run.capture (which constructor call is which instance).

import (
	"bytes"
	"context"
	"crypto/ecdsa"
	"crypto/elliptic"
	"crypto/rand"
	"crypto/sha1"
	"crypto/tls"
	"crypto/x509"
	"crypto/x509/pkix"
	"encoding/base64"
	"encoding/hex"
	"encoding/pem"
	"fmt"
	"log/slog"
	"math/big"
	"net"
	"net/http"
	"net/http/httptest"
	"net/netip"
	"net/url"
	"os"
	"path"
	"path/filepath"
	"reflect"
	"regexp"
	"sort"
	"strconv"
	"strings"
	"testing"
	"time"
	"unsafe"

	"github.com/AdguardTeam/AdGuardDNS/internal/access"
	"github.com/AdguardTeam/AdGuardDNS/internal/agd"
	"github.com/AdguardTeam/AdGuardDNS/internal/agdservice"
	"github.com/AdguardTeam/AdGuardDNS/internal/backendpb"
	"github.com/AdguardTeam/AdGuardDNS/internal/billstat"
	"github.com/AdguardTeam/AdGuardDNS/internal/bindtodevice"
	"github.com/AdguardTeam/AdGuardDNS/internal/connlimiter"
	"github.com/AdguardTeam/AdGuardDNS/internal/consul"
	"github.com/AdguardTeam/AdGuardDNS/internal/dnscheck"
	"github.com/AdguardTeam/AdGuardDNS/internal/dnsdb"
	"github.com/AdguardTeam/AdGuardDNS/internal/dnsmsg"
	"github.com/AdguardTeam/AdGuardDNS/internal/dnsserver"
	"github.com/AdguardTeam/AdGuardDNS/internal/dnsserver/forward"
	"github.com/AdguardTeam/AdGuardDNS/internal/dnsserver/ratelimit"
	"github.com/AdguardTeam/AdGuardDNS/internal/dnssvc"
	"github.com/AdguardTeam/AdGuardDNS/internal/filter/filterstorage"
	"github.com/AdguardTeam/AdGuardDNS/internal/filter/hashprefix"
	"github.com/AdguardTeam/AdGuardDNS/internal/geoip"
	"github.com/AdguardTeam/AdGuardDNS/internal/metrics"
	"github.com/AdguardTeam/AdGuardDNS/internal/profiledb"
	"github.com/AdguardTeam/AdGuardDNS/internal/querylog"
	"github.com/AdguardTeam/AdGuardDNS/internal/remotekv"
	"github.com/AdguardTeam/AdGuardDNS/internal/remotekv/consulkv"
	"github.com/AdguardTeam/AdGuardDNS/internal/remotekv/rediskv"
	"github.com/AdguardTeam/AdGuardDNS/internal/rulestat"
	"github.com/AdguardTeam/AdGuardDNS/internal/tlsconfig"
	"github.com/AdguardTeam/AdGuardDNS/internal/websvc"
	"github.com/AdguardTeam/golibs/logutil/slogutil"
	"github.com/AdguardTeam/golibs/netutil/urlutil"
	"github.com/AdguardTeam/golibs/timeutil"
	"github.com/c2h5oh/datasize"
	"github.com/miekg/dns"
	"github.com/prometheus/client_golang/prometheus"
	"google.golang.org/grpc"
	"google.golang.org/grpc/metadata"
	"gopkg.in/yaml.v2"
)

const ext8Absent = "<absent>"

// ---------------------------------------------------------------- logger

// ext8LogHandler discards everything and remembers the "prefix" attribute, by
// which the builder names the loggers (and so the instances) of its entities.
type ext8LogHandler struct{ prefix string }

func (h *ext8LogHandler) Enabled(context.Context, slog.Level) (ok bool)   { return false }
func (h *ext8LogHandler) Handle(context.Context, slog.Record) (err error) { return nil }
func (h *ext8LogHandler) WithGroup(string) (nh slog.Handler)              { return h }
func (h *ext8LogHandler) WithAttrs(as []slog.Attr) (nh slog.Handler) {
	c := *h
	for _, a := range as {
		if a.Key == slogutil.KeyPrefix {
			c.prefix = a.Value.String()
		}
	}
	return &c
}

func ext8LoggerPrefix(l *slog.Logger) (p string) {
	if l == nil {
		return "<nil>"
	}
	if h, ok := l.Handler().(*ext8LogHandler); ok {
		return h.prefix
	}
	return "?"
}

// ---------------------------------------------------------------- flattening

type ext8Flat struct {
	vals  map[string]string
	owner map[string]string
	step  string
	// runDir: the part of file names that differs from run to run
	runDir string
}

func newExt8Flat() (f *ext8Flat) {
	return &ext8Flat{vals: map[string]string{}, owner: map[string]string{}}
}

func (f *ext8Flat) put(p, v string) {
	if _, dup := f.vals[p]; dup {
		for n := 2; ; n++ {
			q := p + "~" + strconv.Itoa(n)
			if _, dup = f.vals[q]; !dup {
				p = q
				break
			}
		}
	}
	if f.runDir != "" {
		v = strings.ReplaceAll(v, f.runDir, "")
	}
	f.vals[p] = v
	f.owner[p] = f.step
}

// ext8Volatile are fields whose value differs between two runs of the same
// configuration.
var ext8Volatile = map[string]bool{"RandSeed": true, "CountryTopASNs": true, "AllTopASNs": true}

// ext8Descend reports whether the flattening enters values of struct type t.
func ext8Descend(t reflect.Type) (ok bool) {
	s := t.String()
	switch s {
	case "agd.ServerGroup", "agd.FilteringGroup", "agd.Server":
		// flattened once, from the builder's own fields
		return false
	case "netutil.HostPort", "websvc.BindData", "websvc.LinkedIPServer", "websvc.StaticFile",
		"agd.TCPConfig", "agd.UDPConfig", "agd.QUICConfig", "agd.DNSCryptConfig", "agd.TLSConfig",
		"agd.ServerBindData", "agdnet.PrefixNetAddr", "agd.DDR", "ratelimit.DynamicAllowlist",
		"cmd.ext8Args":
		return true
	}
	if !strings.Contains(t.PkgPath(), "AdguardTeam/AdGuardDNS") || strings.HasSuffix(t.PkgPath(), "/metrics") {
		return false
	}
	return strings.Contains(t.Name(), "Config")
}

func ext8Access(v reflect.Value) (a reflect.Value) {
	if v.CanInterface() || !v.CanAddr() {
		return v
	}
	return reflect.NewAt(v.Type(), unsafe.Pointer(v.UnsafeAddr())).Elem()
}

func ext8Addressable(v reflect.Value) (a reflect.Value) {
	if v.CanAddr() || !v.CanInterface() {
		return v
	}
	c := reflect.New(v.Type()).Elem()
	c.Set(v)
	return c
}

func ext8Bytes(b []byte) (s string) {
	if b == nil {
		return "<nil>"
	}
	h := sha1.Sum(b)
	return fmt.Sprintf("bytes:%d:%s", len(b), hex.EncodeToString(h[:6]))
}

func ext8TLS(c *tls.Config) (s string) {
	if c == nil {
		return "<nil>"
	}
	return fmt.Sprintf("tls(alpn=%s,keylog=%t)", strings.Join(c.NextProtos, "+"), c.KeyLogWriter != nil)
}

// special renders the values whose canonical text does not follow from their
// structure.
func ext8Special(v reflect.Value) (s string, ok bool) {
	if !v.CanInterface() {
		return "", false
	}
	switch x := v.Interface().(type) {
	case time.Duration:
		return x.String(), true
	case timeutil.Duration:
		return x.Duration.String(), true
	case datasize.ByteSize:
		return strconv.FormatUint(x.Bytes(), 10), true
	case netip.Addr:
		if !x.IsValid() {
			return "", true
		}
		return x.String(), true
	case netip.AddrPort:
		if !x.IsValid() {
			return "", true
		}
		return x.String(), true
	case netip.Prefix:
		if !x.IsValid() {
			return "", true
		}
		return x.String(), true
	case url.URL:
		return x.String(), true
	case *url.URL:
		if x == nil {
			return "<nil>", true
		}
		return x.String(), true
	case *urlutil.URL:
		if x == nil {
			return "<nil>", true
		}
		return x.URL.String(), true
	case *slog.Logger:
		return "logger:" + ext8LoggerPrefix(x), true
	case *tls.Config:
		return ext8TLS(x), true
	case []byte:
		return ext8Bytes(x), true
	case net.IP:
		return x.String(), true
	case time.Time:
		return "time", true
	case *dns.SVCB:
		if x == nil {
			return "<nil>", true
		}
		return x.String(), true
	case dnssvc.CacheType:
		if n, ok := map[dnssvc.CacheType]string{dnssvc.CacheTypeNone: "none", dnssvc.CacheTypeSimple: "simple",
			dnssvc.CacheTypeECS: "ecs"}[x]; ok {
			return n, true
		}
		return fmt.Sprint(uint8(x)), true
	}
	return "", false
}

// listenConfig records a netext.ListenConfig: limited or not, the innermost
// type and, for an interface listener, the prefix and port it serves.
func (f *ext8Flat) listenConfig(p string, e reflect.Value) {
	limited := false
	for e.Type().String() == "*connlimiter.ListenConfig" {
		limited = true
		in := ext8Access(e.Elem().FieldByName("listenConfig"))
		if in.IsNil() {
			break
		}
		e = in.Elem()
	}
	f.put(p+".limited", strconv.FormatBool(limited))
	f.put(p+".inner.(type)", e.Type().String())
	if e.Type().String() == "*bindtodevice.ListenConfig" && !e.IsNil() {
		f.walk(p+".inner.addr", e.Elem().FieldByName("addr"), 1)
	}
}

// ext8FindInt returns the first integer field called name found below v.
func ext8FindInt(v reflect.Value, name string, depth int) (s string) {
	for v.Kind() == reflect.Ptr || v.Kind() == reflect.Interface {
		if v.IsNil() {
			return "?"
		}
		v = v.Elem()
	}
	if v.Kind() != reflect.Struct || depth == 0 {
		return "?"
	}
	t := v.Type()
	for i := 0; i < t.NumField(); i++ {
		if t.Field(i).Name == name && v.Field(i).CanInt() {
			return strconv.FormatInt(v.Field(i).Int(), 10)
		}
	}
	for i := 0; i < t.NumField(); i++ {
		if r := ext8FindInt(v.Field(i), name, depth-1); r != "?" {
			return r
		}
	}
	return "?"
}

func (f *ext8Flat) walk(p string, v reflect.Value, depth int) {
	if !v.IsValid() {
		f.put(p, "<nil>")
		return
	}
	if depth > 12 {
		f.put(p, "<deep>")
		return
	}
	v = ext8Access(v)
	if s, ok := ext8Special(v); ok {
		f.put(p, s)
		return
	}
	if v.CanInterface() {
		switch x := v.Interface().(type) {
		case *forward.UpstreamPlainConfig:
			// "[scheme://]ip:port" is one leaf: network and address are recorded together
			if x == nil {
				f.put(p, "<nil>")
				return
			}
			nw := string(x.Network)
			if nw == "" {
				nw = "any"
			}
			f.put(p+".Endpoint", nw+"|"+x.Address.String())
			f.put(p+".Timeout", x.Timeout.String())
			return
		case websvc.StaticContent:
			f.put(p+".(type)", "websvc.StaticContent")
			f.put(p+".#len", strconv.Itoa(len(x)))
			for k, sf := range x {
				f.walk(p+"{"+k+"}", reflect.ValueOf(sf), depth+1)
			}
			return
		}
		if v.Type().String() == "*http.fileHandler" && !v.IsNil() {
			root := ext8Access(v.Elem().FieldByName("root"))
			if !root.IsNil() && root.Elem().Kind() == reflect.String {
				f.put(p+".root", root.Elem().String())
			}
			return
		}
		if strings.HasPrefix(v.Type().String(), "*agdcache.LRU[") {
			f.put(p+".count", ext8FindInt(v, "size", 5))
			return
		}
	}
	switch v.Kind() {
	case reflect.Bool:
		f.put(p, strconv.FormatBool(v.Bool()))
	case reflect.Int, reflect.Int8, reflect.Int16, reflect.Int32, reflect.Int64:
		f.put(p, strconv.FormatInt(v.Int(), 10))
	case reflect.Uint, reflect.Uint8, reflect.Uint16, reflect.Uint32, reflect.Uint64, reflect.Uintptr:
		f.put(p, strconv.FormatUint(v.Uint(), 10))
	case reflect.Float32, reflect.Float64:
		f.put(p, strconv.FormatFloat(v.Float(), 'g', -1, 64))
	case reflect.String:
		f.put(p, v.String())
	case reflect.Ptr:
		if v.IsNil() {
			f.put(p, "<nil>")
			return
		}
		et := v.Type().Elem()
		if et.Kind() == reflect.Struct && !ext8Descend(et) {
			f.put(p, "*"+et.String())
			return
		}
		f.walk(p, v.Elem(), depth+1)
	case reflect.Interface:
		if v.IsNil() {
			f.put(p, "<nil>")
			return
		}
		e := v.Elem()
		if strings.HasSuffix(p, ".ListenConfig") {
			// a listen configuration: whether the connection limiter wraps it, and what is inside
			f.listenConfig(p, e)
			return
		}
		f.put(p+".(type)", e.Type().String())
		et := e.Type()
		for et.Kind() == reflect.Ptr {
			et = et.Elem()
		}
		ts := e.Type().String()
		if (et.Kind() == reflect.Struct && ext8Descend(et)) || ts == "websvc.StaticContent" ||
			ts == "*http.fileHandler" || strings.HasPrefix(ts, "*agdcache.LRU[") {
			f.walk(p, ext8Addressable(e), depth+1)
		}
	case reflect.Struct:
		t := v.Type()
		if !ext8Descend(t) {
			f.put(p, t.String())
			return
		}
		for i := 0; i < t.NumField(); i++ {
			name := t.Field(i).Name
			if ext8Volatile[name] {
				continue
			}
			if t.Field(i).Anonymous {
				f.walk(p, v.Field(i), depth+1)
				continue
			}
			f.walk(p+"."+name, v.Field(i), depth+1)
		}
	case reflect.Slice, reflect.Array:
		if v.Kind() == reflect.Slice && v.IsNil() {
			f.put(p+".#len", "0")
			return
		}
		f.put(p+".#len", strconv.Itoa(v.Len()))
		for i := 0; i < v.Len(); i++ {
			f.walk(p+"["+strconv.Itoa(i)+"]", v.Index(i), depth+1)
		}
	case reflect.Map:
		f.put(p+".#len", strconv.Itoa(v.Len()))
		if !v.CanInterface() {
			return
		}
		keys := v.MapKeys()
		if kk := v.Type().Key().Kind(); kk == reflect.Struct || kk == reflect.Ptr || kk == reflect.Interface {
			return
		}
		sort.Slice(keys, func(i, j int) bool { return fmt.Sprint(keys[i]) < fmt.Sprint(keys[j]) })
		for _, k := range keys {
			f.walk(p+"{"+fmt.Sprint(k)+"}", ext8Addressable(v.MapIndex(k)), depth+1)
		}
	case reflect.Func:
		if v.IsNil() {
			f.put(p, "<nil>")
		} else {
			f.put(p, "func")
		}
	default:
		// channels, unsafe pointers: nothing to compare
	}
}

// ---------------------------------------------------------------- capture

// ext8Args carries the positional arguments of constructors that take no
// configuration structure.
type ext8Args struct {
	Domains  []string
	Subnets  []netip.Prefix
	Iface    string
	Port     uint16
	CtrlConf *bindtodevice.ControlConfig
}

type ext8Step struct {
	Name string `json:"name"`
	Err  string `json:"err"`
}

type ext8Run struct {
	b     *builder
	flat  *ext8Flat
	steps []ext8Step
	seen  map[string]int
	lsnrs map[string]int
	// timeouts: the measured time-outs of context constructors
	notes []string
}

var ext8Cur *ext8Run

// ext8MeasureTimeout returns the time-out of a context constructor: the
// deadline minus the time of the call lies between the two clock readings
// taken around the call; the time-outs used are whole milliseconds.
func ext8MeasureTimeout(cons func() (context.Context, context.CancelFunc)) (s string) {
	if cons == nil {
		return "<nil>"
	}
	for try := 0; try < 20; try++ {
		t0 := time.Now()
		ctx, cancel := cons()
		t1 := time.Now()
		dl, ok := ctx.Deadline()
		cancel()
		if !ok {
			return "none"
		}
		lo, hi := dl.Sub(t1), dl.Sub(t0)
		a := lo.Truncate(time.Millisecond)
		if a < lo {
			a += time.Millisecond
		}
		b := hi.Truncate(time.Millisecond)
		if a == b {
			return a.String()
		}
	}
	return "unmeasurable"
}

func (r *ext8Run) serverIndex(name string) (key string) {
	// "<server>/<proto>/<addr>" -> [group][server][bind]
	srv := name
	if i := strings.Index(name, "/"); i >= 0 {
		srv = name[:i]
	}
	n := r.lsnrs[srv]
	r.lsnrs[srv] = n + 1
	for gi, g := range r.b.conf.ServerGroups {
		for si, s := range g.Servers {
			if s.Name == srv {
				return fmt.Sprintf("[%d][%d][%d]", gi, si, n)
			}
		}
	}
	return "<" + name + ">"
}

// capture is called at the entry of every hooked constructor.
func (r *ext8Run) capture(site string, conf any) {
	v := reflect.ValueOf(conf)
	if v.Kind() == reflect.Ptr && v.IsNil() {
		r.flat.put(site, "<nil>")
		return
	}
	for v.Kind() == reflect.Ptr {
		v = v.Elem()
	}
	name := v.Type().String()
	key := ""
	switch c := conf.(type) {
	case *agdservice.RefreshWorkerConfig:
		key = "<" + ext8LoggerPrefix(c.Logger) + ">"
		r.flat.put(name+key+".Context.timeout", ext8MeasureTimeout(c.Context))
	case *hashprefix.FilterConfig:
		key = "<" + string(c.ID) + ">"
	case *dnsserver.ConfigDNS:
		key = r.serverIndex(c.Name)
	case *dnsserver.ConfigTLS:
		key = r.serverIndex(c.Name)
	case *dnsserver.ConfigQUIC:
		key = r.serverIndex(c.Name)
	case *dnsserver.ConfigHTTPS:
		key = r.serverIndex(c.Name)
	case *dnsserver.ConfigDNSCrypt:
		key = r.serverIndex(c.Name)
	case *ext8Args:
		name = site
		if site == "bindtodevice.Add" {
			key = "{" + c.Domains[0] + "}"
			c.Domains = nil
		}
	}
	id := name + key
	r.seen[id]++
	if n := r.seen[id]; n > 1 {
		id += "#" + strconv.Itoa(n)
	}
	r.flat.walk(id, v, 0)
}

func ext8InstallHooks() {
	c := func(site string, conf any) {
		if ext8Cur != nil {
			ext8Cur.capture(site, conf)
		}
	}
	geoip.VerifCapture = c
	hashprefix.VerifCapture = c
	filterstorage.VerifCapture = c
	access.VerifCapture = c
	bindtodevice.VerifCapture = c
	dnsmsg.VerifCapture = c
	tlsconfig.VerifCapture = c
	billstat.VerifCapture = c
	backendpb.VerifCapture = c
	profiledb.VerifCapture = c
	dnscheck.VerifCapture = c
	rulestat.VerifCapture = c
	consul.VerifCapture = c
	connlimiter.VerifCapture = c
	websvc.VerifCapture = c
	agdservice.VerifCapture = c
	agdservice.VerifNoStart = true
	dnsdb.VerifCapture = c
	dnssvc.VerifCapture = c
	querylog.VerifCapture = c
	remotekv.VerifCapture = c
	consulkv.VerifCapture = c
	rediskv.VerifCapture = c
	ratelimit.VerifCapture = c
	forward.VerifCapture = c
	dnsserver.VerifCapture = c
	access.VerifArgs = func(domains []string, subnets []netip.Prefix) {
		c("access.NewGlobal", &ext8Args{Domains: domains, Subnets: subnets})
	}
	bindtodevice.VerifArgs = func(id, iface string, port uint16, cc *bindtodevice.ControlConfig) {
		c("bindtodevice.Add", &ext8Args{Domains: []string{id}, Iface: iface, Port: port, CtrlConf: cc})
	}
}

// ---------------------------------------------------------------- laboratory

type ext8Lab struct {
	t       testing.TB
	dir     string
	httpURL string
	grpc    [2]string
	envBase map[string]string
	logger  *slog.Logger
	tree    map[any]any
	seq     int
}

type ext8Backend struct {
	backendpb.UnimplementedDNSServiceServer
}

func (s *ext8Backend) GetDNSProfiles(
	_ *backendpb.DNSProfilesRequest,
	srv grpc.ServerStreamingServer[backendpb.DNSProfile],
) (err error) {
	srv.SetTrailer(metadata.MD{"sync_time": []string{strconv.FormatInt(time.Now().UnixMilli(), 10)}})
	return nil
}

type ext8RLBackend struct {
	backendpb.UnimplementedRateLimitServiceServer
}

func (s *ext8RLBackend) GetRateLimitSettings(
	context.Context,
	*backendpb.RateLimitSettingsRequest,
) (resp *backendpb.RateLimitSettingsResponse, err error) {
	return &backendpb.RateLimitSettingsResponse{}, nil
}

func ext8WriteFile(t testing.TB, p string, b []byte) {
	if err := os.WriteFile(p, b, 0o600); err != nil {
		t.Fatal(err)
	}
}

func ext8WriteCert(t testing.TB, dir, name string) {
	key, err := ecdsa.GenerateKey(elliptic.P256(), rand.Reader)
	if err != nil {
		t.Fatal(err)
	}
	tmpl := &x509.Certificate{
		SerialNumber: big.NewInt(int64(len(name)) + 7),
		Subject:      pkix.Name{CommonName: name + ".verif.example"},
		DNSNames:     []string{name + ".verif.example"},
		NotBefore:    time.Now().Add(-time.Hour),
		NotAfter:     time.Now().Add(240 * time.Hour),
	}
	der, err := x509.CreateCertificate(rand.Reader, tmpl, tmpl, &key.PublicKey, key)
	if err != nil {
		t.Fatal(err)
	}
	kb, err := x509.MarshalECPrivateKey(key)
	if err != nil {
		t.Fatal(err)
	}
	ext8WriteFile(t, filepath.Join(dir, name+".crt"), pem.EncodeToMemory(&pem.Block{Type: "CERTIFICATE", Bytes: der}))
	ext8WriteFile(t, filepath.Join(dir, name+".key"), pem.EncodeToMemory(&pem.Block{Type: "EC PRIVATE KEY", Bytes: kb}))
}

const ext8DNSCryptYAML = `provider_name: '2.dnscrypt-cert.example.org'
public_key: 'F11DDBCC4817E543845FDDD4CB881849B64226F3DE397625669D87B919BC4FB0'
private_key: '5752095FFA56D963569951AFE70FE1690F378D13D8AD6F8054DFAA100907F8B6F11DDBCC4817E543845FDDD4CB881849B64226F3DE397625669D87B919BC4FB0'
resolver_secret: '9E46E79FEB3AB3D45F4EB3EA957DEAF5D9639A0179F1850AFABA7E58F87C74C4'
resolver_public: '9327C5E64783E19C339BD6B680A56DB85521CC6E4E0CA5DF5274E2D3CE026C6B'
es_version: 1
certificate_ttl: 8760h
`

func ext8NewLab(t *testing.T) (lab *ext8Lab) {
	dir := t.TempDir()
	lab = &ext8Lab{t: t, dir: dir, logger: slog.New(&ext8LogHandler{})}

	// files the example refers to
	for _, n := range []string{"cert", "cert2"} {
		ext8WriteCert(t, dir, n)
	}
	for i, n := range []string{"tls_key_1", "tls_key_2", "tls_key_3"} {
		ext8WriteFile(t, filepath.Join(dir, n), bytes.Repeat([]byte{byte(i + 1)}, 32))
	}
	ext8WriteFile(t, filepath.Join(dir, "dnscrypt.yml"), []byte(ext8DNSCryptYAML))
	ext8WriteFile(t, filepath.Join(dir, "dnscrypt2.yml"), []byte(strings.Replace(ext8DNSCryptYAML, "2.dnscrypt-cert.example.org", "2.dnscrypt-cert.verif.example", 1)))
	for _, n := range []string{"block_page_adult", "block_page_general", "block_page_sb", "error_404", "error_500",
		"alt_block_page", "alt_error_404", "alt_error_500"} {
		ext8WriteFile(t, filepath.Join(dir, n+".html"), []byte("<html>"+n+"</html>\n"))
	}
	if err := os.MkdirAll(filepath.Join(dir, "static"), 0o700); err != nil {
		t.Fatal(err)
	}
	if err := os.MkdirAll(filepath.Join(dir, "static2"), 0o700); err != nil {
		t.Fatal(err)
	}

	// one HTTP server for everything the builder downloads
	srv := httptest.NewServer(http.HandlerFunc(func(rw http.ResponseWriter, r *http.Request) {
		switch path.Base(r.URL.Path) {
		case "filters.json":
			base := "http://" + r.Host
			_, _ = fmt.Fprintf(rw, `{"filters":[{"filterKey":"adguard_dns_filter","downloadUrl":"%s/lists/adguard_dns_filter"},`+
				`{"filterKey":"verif_other_filter","downloadUrl":"%s/lists/verif_other_filter"}]}`, base, base)
		case "services.json":
			_, _ = rw.Write([]byte(`{"blocked_services":[{"id":"verifsvc","name":"svc","rules":["||svc.verif.example^"]}]}`))
		case "adguard_dns_filter", "verif_other_filter":
			_, _ = rw.Write([]byte("||blocked.verif.example^\n"))
		case "adult.txt", "sb.txt", "nrd.txt":
			_, _ = rw.Write([]byte("bad.verif.example\n"))
		case "gss.txt", "yss.txt":
			_, _ = rw.Write([]byte("|www.search.verif.example^$dnsrewrite=NOERROR;CNAME;safe.search.verif.example\n"))
		case "allow":
			_, _ = rw.Write([]byte("[]"))
		default:
			_, _ = rw.Write([]byte("{}"))
		}
	}))
	t.Cleanup(srv.Close)
	lab.httpURL = srv.URL

	gs := grpc.NewServer()
	backendpb.RegisterDNSServiceServer(gs, &ext8Backend{})
	backendpb.RegisterRateLimitServiceServer(gs, &ext8RLBackend{})
	for i := range lab.grpc {
		l, err := net.Listen("tcp", "127.0.0.1:0")
		if err != nil {
			t.Fatal(err)
		}
		lab.grpc[i] = l.Addr().String()
		go func() { _ = gs.Serve(l) }()
	}
	t.Cleanup(gs.Stop)

	repo := os.Getenv("VERIF_REPO")
	if repo == "" {
		repo = "/repo"
	}
	td := filepath.Join(repo, "internal", "geoip", "testdata")
	u := lab.httpURL
	lab.envBase = map[string]string{
		"CONFIG_PATH":                 filepath.Join(dir, "config.yaml"),
		"FILTER_INDEX_URL":            u + "/filters.json",
		"FILTER_CACHE_PATH":           filepath.Join(dir, "filters"),
		"ADULT_BLOCKING_URL":          u + "/adult.txt",
		"SAFE_BROWSING_URL":           u + "/sb.txt",
		"NEW_REG_DOMAINS_URL":         u + "/nrd.txt",
		"BLOCKED_SERVICE_INDEX_URL":   u + "/services.json",
		"GENERAL_SAFE_SEARCH_URL":     u + "/gss.txt",
		"YOUTUBE_SAFE_SEARCH_URL":     u + "/yss.txt",
		"LINKED_IP_TARGET_URL":        u + "/linkip",
		"RULESTAT_URL":                u + "/rulestat",
		"CONSUL_ALLOWLIST_URL":        u + "/allow",
		"CONSUL_DNSCHECK_KV_URL":      u + "/v1/kv/test",
		"CONSUL_DNSCHECK_SESSION_URL": u + "/v1/session/create",
		"BACKEND_RATELIMIT_URL":       "grpc://" + lab.grpc[0],
		"BACKEND_RATELIMIT_API_KEY":   "rlkey",
		"BILLSTAT_URL":                "grpc://" + lab.grpc[0],
		"BILLSTAT_API_KEY":            "bskey",
		"PROFILES_URL":                "grpc://" + lab.grpc[0],
		"PROFILES_API_KEY":            "prkey",
		"PROFILES_MAX_RESP_SIZE":      "64MB",
		"DNSCHECK_REMOTEKV_URL":       "grpc://" + lab.grpc[0],
		"DNSCHECK_REMOTEKV_API_KEY":   "kvkey",
		"DNSCHECK_CACHE_KV_SIZE":      "1000",
		"REDIS_ADDR":                  "127.0.0.1",
		"REDIS_PORT":                  "6379",
		"REDIS_KEY_PREFIX":            "agdns",
		"REDIS_MAX_ACTIVE":            "10",
		"REDIS_MAX_IDLE":              "3",
		"REDIS_IDLE_TIMEOUT":          "30s",
		"GEOIP_ASN_PATH":              filepath.Join(td, "GeoIP2-ISP-Test.mmdb"),
		"GEOIP_COUNTRY_PATH":          filepath.Join(td, "GeoIP2-Country-Test.mmdb"),
		"PROFILES_CACHE_PATH":         filepath.Join(dir, "profilecache.pb"),
		"QUERYLOG_PATH":               filepath.Join(dir, "querylog.jsonl"),
		"SSL_KEY_LOG_FILE":            "",
		"SENTRY_DSN":                  "stderr",
		"VERBOSE":                     "0",
		"LISTEN_ADDR":                 "127.0.0.1",
		"LISTEN_PORT":                 "8181",
		"LOG_TIMESTAMP":               "1",
		"ADULT_BLOCKING_ENABLED":      "1",
		"NEW_REG_DOMAINS_ENABLED":     "1",
		"SAFE_BROWSING_ENABLED":       "1",
		"BLOCKED_SERVICE_ENABLED":     "1",
		"GENERAL_SAFE_SEARCH_ENABLED": "1",
		"YOUTUBE_SAFE_SEARCH_ENABLED": "1",
		"WEB_STATIC_DIR_ENABLED":      "0",
		"WEB_STATIC_DIR":              filepath.Join(dir, "static"),
	}
	for k, v := range lab.envBase {
		t.Setenv(k, v)
	}
	lab.tree = lab.loadDist(repo)
	return lab
}

// loadDist parses config.dist.yaml into a generic tree and adapts it to the
// laboratory: files that exist, an interface that exists, upstreams on closed
// loopback ports (like the environment variables, this is deployment data).
func (lab *ext8Lab) loadDist(repo string) (tree map[any]any) {
	b, err := os.ReadFile(filepath.Join(repo, "config.dist.yaml"))
	if err != nil {
		lab.t.Fatal(err)
	}
	text := string(b)
	d := lab.dir
	repl := [][2]string{
		{"'tcp://1.1.1.1:53'", "'tcp://127.0.0.1:1'"}, {"'8.8.4.4:53'", "'127.0.0.1:1'"},
		{"address: '1.1.1.1:53'", "address: '127.0.0.2:1'"}, {"'8.8.8.8:53'\n", "'127.0.0.3:1'\n"},
		{"'./test/cert.crt'", "'" + d + "/cert.crt'"}, {"'./test/cert.key'", "'" + d + "/cert.key'"},
		{"'./test/tls_key_1'", "'" + d + "/tls_key_1'"}, {"'./test/tls_key_2'", "'" + d + "/tls_key_2'"},
		{"./test/dnscrypt.yml", d + "/dnscrypt.yml"},
		{"'./test/block_page_adult.html'", "'" + d + "/block_page_adult.html'"},
		{"'./test/block_page_general.html'", "'" + d + "/block_page_general.html'"},
		{"'./test/block_page_sb.html'", "'" + d + "/block_page_sb.html'"},
		{"'./test/error_404.html'", "'" + d + "/error_404.html'"},
		{"'./test/error_500.html'", "'" + d + "/error_500.html'"},
		{"interface: 'eth0'", "interface: 'lo'"},
	}
	for _, r := range repl {
		if !strings.Contains(text, r[0]) {
			lab.t.Fatalf("config.dist.yaml: %q not found", r[0])
		}
		text = strings.ReplaceAll(text, r[0], r[1])
	}
	tree = map[any]any{}
	if err = yaml.Unmarshal([]byte(text), &tree); err != nil {
		lab.t.Fatal(err)
	}
	return tree
}

// ---------------------------------------------------------------- YAML leaves

// ext8DataMaps are the mappings whose keys are data, not property names.
var ext8DataMaps = []*regexp.Regexp{
	regexp.MustCompile(`^server_groups\[\d+\]\.ddr\.(device|public)_records$`),
	regexp.MustCompile(`^interface_listeners\.list$`),
	regexp.MustCompile(`^web\.static_content$`),
	regexp.MustCompile(`^web\.static_content\{[^{}]*\}\.headers$`),
	regexp.MustCompile(`^additional_metrics_info$`),
}

func ext8IsDataMap(p string) (ok bool) {
	for _, re := range ext8DataMaps {
		if re.MatchString(p) {
			return true
		}
	}
	return false
}

type ext8Leaf struct {
	Path string
	Val  any
	Kind string
}

var (
	ext8DurRe  = regexp.MustCompile(`^\d+(ns|us|ms|s|m|h|d)$`)
	ext8SizeRe = regexp.MustCompile(`^\d+(B|KB|MB|GB|TB)$`)
	ext8IdxRe  = regexp.MustCompile(`\[\d+\]|\{[^{}]*\}`)
)

func ext8Pattern(p string) (pat string) {
	return ext8IdxRe.ReplaceAllStringFunc(p, func(s string) string {
		if s[0] == '[' {
			return "[*]"
		}
		return "{*}"
	})
}

// ext8KindOverride: leaves whose kind does not follow from the syntax of the
// distributed value.
var ext8KindOverride = map[string]string{
	"network.so_sndbuf":                    "size",
	"network.so_rcvbuf":                    "size",
	"cache.type":                           "enum",
	"ratelimit.allowlist.type":             "enum",
	"check.kv.type":                        "enum",
	"server_groups[*].servers[*].protocol": "enum",
	"ratelimit.ipv4.subnet_key_len":        "len4",
	"ratelimit.ipv6.subnet_key_len":        "len6",
	"server_groups[*].servers[*].dnscrypt.inline.es_version":    "enum",
	"web.static_content{*}.content":                             "b64",
	"server_groups[*].servers[*].dnscrypt.inline.provider_name": "str",
	"web.error_404":                                     "file",
	"web.error_500":                                     "file",
	"web.adult_blocking.block_page":                     "path",
	"web.general_blocking.block_page":                   "path",
	"web.safe_browsing.block_page":                      "path",
	"server_groups[*].servers[*].dnscrypt.config_path":  "dnscryptpath",
	"server_groups[*].tls.session_keys[*]":              "keypath",
	"upstream.servers[*].address":                       "upstream",
	"upstream.fallback.servers[*].address":              "upstream",
	"upstream.healthcheck.domain_template":              "str",
	"interface_listeners.list{*}.interface":             "iface",
	"server_groups[*].servers[*].bind_interfaces[*].id": "ifaceid",
	"server_groups[*].filtering_group":                  "ref",
	"filtering_groups[*].rule_lists.ids[*]":             "listid",
	"access.blocked_question_domains[*]":                "str",
	"server_groups[*].tls.device_id_wildcards[*]":       "wildcard",
	"ratelimit.allowlist.list[*]":                       "prefix",
	"access.blocked_client_subnets[*]":                  "prefix",
}

func ext8Kind(pat string, v any) (k string) {
	if o, ok := ext8KindOverride[pat]; ok {
		return o
	}
	if strings.HasSuffix(pat, ".certificate") {
		return "certpath"
	}
	if strings.HasSuffix(pat, ".key") {
		return "certkeypath"
	}
	if strings.Contains(pat, ".dnscrypt.inline.") && !strings.HasSuffix(pat, ".es_version") {
		return "opaque"
	}
	switch x := v.(type) {
	case bool:
		return "bool"
	case int:
		if strings.HasSuffix(pat, "_port") || strings.HasSuffix(pat, ".port") {
			return "port"
		}
		return "int"
	case string:
		switch {
		case ext8DurRe.MatchString(x):
			return "dur"
		case ext8SizeRe.MatchString(x):
			return "size"
		}
		if _, err := netip.ParseAddrPort(x); err == nil {
			return "addrport"
		}
		if _, err := netip.ParseAddr(x); err == nil {
			return "addr"
		}
		if _, err := netip.ParsePrefix(x); err == nil {
			return "prefix"
		}
		if strings.HasPrefix(x, "http://") || strings.HasPrefix(x, "https://") {
			return "url"
		}
		return "str"
	}
	return "other"
}

// ext8CanonLeaf is the canonical text of a YAML scalar of the given kind: the
// text ext8Flat.walk produces for an internal value that carries the same
// information.
func (lab *ext8Lab) canonLeaf(kind string, v any) (s string) {
	switch kind {
	case "bool", "int", "port", "len4", "len6":
		return fmt.Sprint(v)
	case "dur":
		var d timeutil.Duration
		if err := d.UnmarshalText([]byte(fmt.Sprint(v))); err != nil {
			return "unparsable:" + fmt.Sprint(v)
		}
		return d.Duration.String()
	case "size":
		var z datasize.ByteSize
		if err := z.UnmarshalText([]byte(fmt.Sprint(v))); err != nil {
			return "unparsable:" + fmt.Sprint(v)
		}
		return strconv.FormatUint(z.Bytes(), 10)
	case "prefix":
		x := fmt.Sprint(v)
		if a, err := netip.ParseAddr(x); err == nil {
			return netip.PrefixFrom(a, a.BitLen()).String()
		}
		if p, err := netip.ParsePrefix(x); err == nil {
			return p.String()
		}
		return "unparsable:" + x
	case "addr":
		if a, err := netip.ParseAddr(fmt.Sprint(v)); err == nil {
			return a.String()
		}
	case "file":
		b, err := os.ReadFile(fmt.Sprint(v))
		if err != nil {
			return "unreadable:" + fmt.Sprint(v)
		}
		return ext8Bytes(b)
	case "wildcard":
		return strings.TrimPrefix(fmt.Sprint(v), "*.")
	case "dnscryptpath":
		// the leaf names a file: what it carries is the provider name in it
		b, err := os.ReadFile(fmt.Sprint(v))
		if err != nil {
			return "unreadable:" + fmt.Sprint(v)
		}
		m := regexp.MustCompile(`provider_name: '([^']*)'`).FindSubmatch(b)
		if m == nil {
			return "unparsable:" + fmt.Sprint(v)
		}
		return string(m[1])
	case "b64":
		b, err := base64.StdEncoding.DecodeString(fmt.Sprint(v))
		if err != nil {
			return "unparsable:" + fmt.Sprint(v)
		}
		if len(b) == 0 {
			b = []byte{}
		}
		return ext8Bytes(b)
	case "upstream":
		// "[scheme://]ip:port" -> "<network>|<ip:port>"
		x := fmt.Sprint(v)
		nw := "any"
		if i := strings.Index(x, "://"); i >= 0 {
			nw, x = x[:i], x[i+3:]
		}
		return nw + "|" + x
	}
	return fmt.Sprint(v)
}

func (lab *ext8Lab) leaves(tree any) (res []ext8Leaf, lens map[string]int) {
	lens = map[string]int{}
	var walk func(p string, n any)
	walk = func(p string, n any) {
		switch x := n.(type) {
		case map[any]any:
			keys := make([]string, 0, len(x))
			for k := range x {
				keys = append(keys, fmt.Sprint(k))
			}
			sort.Strings(keys)
			data := ext8IsDataMap(p)
			if data {
				lens[p] = len(x)
			}
			for _, k := range keys {
				q := k
				if data {
					q = p + "{" + k + "}"
				} else if p != "" {
					q = p + "." + k
				}
				walk(q, x[k])
			}
		case []any:
			lens[p] = len(x)
			for i, e := range x {
				walk(p+"["+strconv.Itoa(i)+"]", e)
			}
		default:
			res = append(res, ext8Leaf{Path: p, Val: n, Kind: ext8Kind(ext8Pattern(p), n)})
		}
	}
	walk("", tree)
	return res, lens
}

func ext8Clone(n any) (c any) {
	switch x := n.(type) {
	case map[any]any:
		m := make(map[any]any, len(x))
		for k, v := range x {
			m[k] = ext8Clone(v)
		}
		return m
	case []any:
		l := make([]any, len(x))
		for i, v := range x {
			l[i] = ext8Clone(v)
		}
		return l
	}
	return n
}

var ext8SegRe = regexp.MustCompile(`^(?:\.?([^.\[\]{}]+)|\[(\d+)\]|\{([^{}]*)\})`)

// ext8Locate returns the container and key of the node at path p.
func ext8Locate(tree any, p string) (parent any, key any, ok bool) {
	cur := tree
	rest := p
	for rest != "" {
		m := ext8SegRe.FindStringSubmatch(rest)
		if m == nil {
			return nil, nil, false
		}
		rest = rest[len(m[0]):]
		var k any
		switch {
		case m[2] != "":
			k, _ = strconv.Atoi(m[2])
		case m[1] != "":
			k = m[1]
		default:
			k = m[3]
		}
		if rest == "" {
			return cur, k, true
		}
		switch x := cur.(type) {
		case map[any]any:
			cur, ok = x[k]
			if !ok {
				return nil, nil, false
			}
		case []any:
			i, isInt := k.(int)
			if !isInt || i >= len(x) {
				return nil, nil, false
			}
			cur = x[i]
		default:
			return nil, nil, false
		}
	}
	return nil, nil, false
}

func ext8Get(tree any, p string) (v any, ok bool) {
	parent, key, ok := ext8Locate(tree, p)
	if !ok {
		return nil, false
	}
	switch x := parent.(type) {
	case map[any]any:
		v, ok = x[key]
		return v, ok
	case []any:
		i := key.(int)
		if i < len(x) {
			return x[i], true
		}
	}
	return nil, false
}

func ext8Set(tree any, p string, v any) (ok bool) {
	parent, key, ok := ext8Locate(tree, p)
	if !ok {
		return false
	}
	switch x := parent.(type) {
	case map[any]any:
		x[key] = v
		return true
	case []any:
		i := key.(int)
		if i < len(x) {
			x[i] = v
			return true
		}
	}
	return false
}

// ---------------------------------------------------------------- the flow

func (r *ext8Run) do(name string, f func() error) {
	r.flat.step = name
	var err error
	func() {
		defer func() {
			if v := recover(); v != nil {
				err = fmt.Errorf("panic: %v", v)
			}
		}()
		err = f()
	}()
	s := ext8Step{Name: name}
	if err != nil {
		s.Err = err.Error()
		if len(s.Err) > 300 {
			s.Err = s.Err[:300]
		}
	}
	r.steps = append(r.steps, s)
}

// ext8BindProbes are the addresses the builder's bind set is probed with, in
// addition to the addresses of the configuration itself.
var ext8BindProbes = []string{"127.0.0.1", "127.9.9.9", "10.1.2.3", "192.0.2.200", "203.0.113.9", "2001:db8::9", "::1"}

// runFlow carries the parsed and validated configuration c and the environment
// envs through the builder, in the order of Main.
func (lab *ext8Lab) runFlow(c *configuration, envs *environment) (r *ext8Run) {
	ctx := context.Background()
	lab.seq++
	e := *envs
	runDir := "/run-" + strconv.Itoa(lab.seq)
	e.FilterCachePath = e.FilterCachePath + runDir
	_ = os.MkdirAll(e.FilterCachePath, 0o700)
	envs = &e

	oldReg, oldGath := prometheus.DefaultRegisterer, prometheus.DefaultGatherer
	reg := prometheus.NewRegistry()
	prometheus.DefaultRegisterer, prometheus.DefaultGatherer = reg, reg
	defer func() { prometheus.DefaultRegisterer, prometheus.DefaultGatherer = oldReg, oldGath }()

	b := newBuilder(&builderConfig{envs: envs, conf: c, baseLogger: lab.logger, plugins: nil, errColl: &c20ErrColl{}})
	b.promRegisterer = prometheus.NewRegistry()
	r = &ext8Run{b: b, flat: newExt8Flat(), seen: map[string]int{}, lsnrs: map[string]int{}}
	r.flat.runDir = runDir
	ext8Cur = r
	defer func() { ext8Cur = nil }()

	r.do("additionalInfo", func() error {
		metrics.SetAdditionalInfo(c.AdditionalMetricsInfo)
		mfs, err := reg.Gather()
		if err != nil {
			return err
		}
		for _, mf := range mfs {
			if !strings.HasSuffix(mf.GetName(), "_additional_info") {
				continue
			}
			for _, m := range mf.GetMetric() {
				for _, lp := range m.GetLabel() {
					r.flat.put("metrics.additional_info{"+lp.GetName()+"}", lp.GetValue())
				}
			}
		}
		return nil
	})
	r.do("initGeoIP", func() error {
		b.initGeoIP(ctx)
		return nil
	})
	// initHashPrefixFilters, with the three filters independent of each other
	r.do("initHashPrefixFilters", func() (err error) {
		b.filterMtrc, err = metrics.NewFilter(b.mtrcNamespace, b.promRegisterer)
		return err
	})
	matchers := map[string]*hashprefix.Storage{}
	maxSize := c.Filters.MaxSize
	r.do("initAdultBlocking", func() error { return b.initAdultBlocking(ctx, matchers, maxSize, envs.FilterCachePath) })
	r.do("initNewRegDomains", func() error { return b.initNewRegDomains(ctx, maxSize, envs.FilterCachePath) })
	r.do("initSafeBrowsing", func() error { return b.initSafeBrowsing(ctx, matchers, maxSize, envs.FilterCachePath) })
	b.hashMatcher = hashprefix.NewMatcher(matchers)
	r.do("initFilterStorage", func() error { return b.initFilterStorage(ctx) })
	r.do("initFilteringGroups", func() error { return b.initFilteringGroups(ctx) })
	r.do("initAccess", func() error { return b.initAccess(ctx) })
	r.do("initBindToDevice", func() error { return b.initBindToDevice(ctx) })
	r.do("initMsgConstructor", func() error { return b.initMsgConstructor(ctx) })
	r.do("initTLSManager", func() error { return b.initTLSManager(ctx) })
	r.do("initServerGroups", func() error {
		err := b.initServerGroups(ctx)
		if err != nil {
			return err
		}
		lab.flattenGroups(r)
		return nil
	})
	r.do("initTicketRotator", func() error { return b.initTicketRotator(ctx) })
	r.do("initGRPCMetrics", func() error { return b.initGRPCMetrics(ctx) })
	r.do("initBillStat", func() error {
		err := b.initBillStat(ctx)
		r.flat.put("builder.billStat.(type)", fmt.Sprintf("%T", b.billStat))
		return err
	})
	r.do("initProfileDB", func() error {
		err := b.initProfileDB(ctx)
		r.flat.put("builder.profileDB.(type)", fmt.Sprintf("%T", b.profileDB))
		return err
	})
	r.do("initDNSCheck", func() error {
		// plugins is nil in this harness: the plugin registry's methods accept a nil receiver
		return b.initDNSCheck(ctx)
	})
	r.do("initRuleStat", func() error {
		err := b.initRuleStat(ctx)
		r.flat.put("builder.ruleStat.(type)", fmt.Sprintf("%T", b.ruleStat))
		return err
	})
	r.do("initRateLimiter", func() error {
		err := b.initRateLimiter(ctx)
		r.flat.put("builder.connLimit", map[bool]string{true: "<nil>", false: "limiter"}[b.connLimit == nil])
		return err
	})
	r.do("initWeb", func() error {
		// builder.initWeb without Start: the conversion and the constructor
		webConf, err := c.Web.toInternal(ctx, b.env, b.dnsCheck, b.errColl, b.tlsManager)
		if err != nil {
			return fmt.Errorf("converting web configuration: %w", err)
		}
		b.webSvc = websvc.New(webConf)
		return nil
	})
	r.do("waitGeoIP", func() error { return b.waitGeoIP(ctx) })
	r.do("initDNS", func() error { return b.initDNS(ctx) })
	r.do("initHealthCheck", func() error { return b.initHealthCheck(ctx) })
	r.do("debugConf", func() error {
		dc := b.env.debugConf(b.dnsDB, b.baseLogger)
		r.flat.walk("debugsvc.Config", reflect.ValueOf(dc).Elem(), 0)
		return nil
	})
	return r
}

// flattenGroups records the server groups, the filtering groups and the bind
// set the builder has produced.
func (lab *ext8Lab) flattenGroups(r *ext8Run) {
	b := r.b
	for gi, g := range b.serverGroups {
		p := fmt.Sprintf("agd.ServerGroup[%d]", gi)
		r.flat.put(p+".Name", string(g.Name))
		r.flat.put(p+".FilteringGroup", string(g.FilteringGroup))
		r.flat.put(p+".ProfilesEnabled", strconv.FormatBool(g.ProfilesEnabled))
		r.flat.walk(p+".DeviceDomains", reflect.ValueOf(g.DeviceDomains), 0)
		if g.DDR != nil {
			r.flat.put(p+".DDR.Enabled", strconv.FormatBool(g.DDR.Enabled))
			ext8FlattenDDR(r.flat, p+".DDR.Device", "*.", g.DDR.DeviceTargets.Values(), g.DDR.DeviceRecordTemplates)
			ext8FlattenDDR(r.flat, p+".DDR.Public", "", g.DDR.PublicTargets.Values(), g.DDR.PublicRecordTemplates)
		}
		r.flat.put(p+".Servers.#len", strconv.Itoa(len(g.Servers)))
		for si, s := range g.Servers {
			sp := fmt.Sprintf("%s.Servers[%d]", p, si)
			r.flat.put(sp+".Name", string(s.Name))
			r.flat.put(sp+".Protocol", s.Protocol.String())
			r.flat.put(sp+".LinkedIPEnabled", strconv.FormatBool(s.LinkedIPEnabled))
			r.flat.put(sp+".ReadTimeout", s.ReadTimeout.String())
			r.flat.put(sp+".WriteTimeout", s.WriteTimeout.String())
			r.flat.walk(sp+".TCPConf", reflect.ValueOf(s.TCPConf), 0)
			r.flat.walk(sp+".UDPConf", reflect.ValueOf(s.UDPConf), 0)
			r.flat.walk(sp+".QUICConf", reflect.ValueOf(s.QUICConf), 0)
			r.flat.walk(sp+".TLS", reflect.ValueOf(s.TLS), 0)
			if s.DNSCrypt != nil {
				r.flat.put(sp+".DNSCrypt.ProviderName", s.DNSCrypt.ProviderName)
				if s.DNSCrypt.Cert != nil {
					r.flat.put(sp+".DNSCrypt.Cert.EsVersion", fmt.Sprint(s.DNSCrypt.Cert.EsVersion))
					r.flat.put(sp+".DNSCrypt.Cert.ResolverPk", hex.EncodeToString(s.DNSCrypt.Cert.ResolverPk[:]))
				}
			} else {
				r.flat.put(sp+".DNSCrypt", "<nil>")
			}
			bd := s.BindData()
			r.flat.put(sp+".bindData.#len", strconv.Itoa(len(bd)))
			for bi, d := range bd {
				bp := fmt.Sprintf("%s.bindData[%d]", sp, bi)
				if d.PrefixAddr != nil {
					r.flat.put(bp+".Prefix", d.PrefixAddr.Prefix.String())
					r.flat.put(bp+".Port", strconv.Itoa(int(d.PrefixAddr.Port)))
				} else {
					r.flat.put(bp+".AddrPort", d.AddrPort.String())
				}
				r.flat.put(bp+".ListenConfig.(type)", fmt.Sprintf("%T", d.ListenConfig))
			}
		}
	}
	// filtering groups, by their index in the configuration
	for fi, fc := range b.conf.FilteringGroups {
		g := b.filteringGroups[agd.FilteringGroupID(fc.ID)]
		p := fmt.Sprintf("agd.FilteringGroup[%d]", fi)
		if g == nil {
			r.flat.put(p, "<nil>")
			continue
		}
		r.flat.put(p+".ID", string(g.ID))
		r.flat.put(p+".BlockChromePrefetch", strconv.FormatBool(g.BlockChromePrefetch))
		r.flat.put(p+".BlockFirefoxCanary", strconv.FormatBool(g.BlockFirefoxCanary))
		r.flat.put(p+".BlockPrivateRelay", strconv.FormatBool(g.BlockPrivateRelay))
		r.flat.walk(p+".FilterConfig", reflect.ValueOf(g.FilterConfig), 0)
	}
	r.flat.put("builder.profilesEnabled", strconv.FormatBool(b.profilesEnabled))
	// the bind set, observed through its only operation: fixed probes, and one
	// probe per configured listening address / subnet, named by its position
	for _, a := range ext8BindProbes {
		r.flat.put("builder.bindSet.probe{"+a+"}", strconv.FormatBool(b.bindSet.Contains(netip.MustParseAddr(a))))
	}
	for gi, g := range b.conf.ServerGroups {
		for si, s := range g.Servers {
			for bi, a := range s.BindAddresses {
				r.flat.put(fmt.Sprintf("builder.bindSet.addr[%d][%d][%d]", gi, si, bi), strconv.FormatBool(b.bindSet.Contains(a.Addr())))
			}
			for ii, bif := range s.BindInterfaces {
				for ji, sn := range bif.Subnets {
					r.flat.put(fmt.Sprintf("builder.bindSet.subnet[%d][%d][%d][%d]", gi, si, ii, ji),
						strconv.FormatBool(b.bindSet.Contains(sn.Addr().Next())))
				}
			}
		}
	}
}

// ext8FlattenDDR records the DDR record templates by target and protocol.
func ext8FlattenDDR(f *ext8Flat, p, keyPrefix string, targets []string, tmpls []*dns.SVCB) {
	sort.Strings(targets)
	f.put(p+"Targets", strings.Join(targets, ","))
	f.put(p+"Templates.#len", strconv.Itoa(len(tmpls)))
	for _, rr := range tmpls {
		proto := "?"
		vals := map[string]string{}
		for _, kv := range rr.Value {
			switch x := kv.(type) {
			case *dns.SVCBAlpn:
				a := strings.Join(x.Alpn, "+")
				switch {
				case strings.Contains(a, "h2"):
					proto = "https"
				case a == "dot":
					proto = "tls"
				case strings.HasPrefix(a, "doq"):
					proto = "quic"
				default:
					proto = a
				}
			case *dns.SVCBPort:
				vals["port"] = strconv.Itoa(int(x.Port))
			case *dns.SVCBDoHPath:
				vals["dohpath"] = x.Template
			case *dns.SVCBIPv4Hint:
				vals["ipv4hint.#len"] = strconv.Itoa(len(x.Hint))
				for i, ip := range x.Hint {
					vals["ipv4hint["+strconv.Itoa(i)+"]"] = ip.String()
				}
			case *dns.SVCBIPv6Hint:
				vals["ipv6hint.#len"] = strconv.Itoa(len(x.Hint))
				for i, ip := range x.Hint {
					vals["ipv6hint["+strconv.Itoa(i)+"]"] = ip.String()
				}
			}
		}
		q := p + "{" + keyPrefix + strings.TrimSuffix(rr.Target, ".") + "}<" + proto + ">"
		f.put(q+".priority", strconv.Itoa(int(rr.Priority)))
		for k, v := range vals {
			f.put(q+"."+k, v)
		}
	}
}

// ---------------------------------------------------------------- one variant

type ext8Change struct {
	Old string `json:"old"`
	New string `json:"new"`
}

type ext8Event struct {
	Kind     string                `json:"kind"`
	ID       int                   `json:"id"`
	Src      string                `json:"src"`
	Leaf     string                `json:"leaf"`
	LeafKind string                `json:"leafkind"`
	Cls      string                `json:"cls"`
	Op       string                `json:"op"`
	Ctx      string                `json:"ctx"`
	Set      map[string]string     `json:"set"`
	Accepted bool                  `json:"accepted"`
	Stage    string                `json:"stage"`
	Err      string                `json:"err"`
	Changed  map[string]ext8Change `json:"changed"`
	Unobs    []string              `json:"unobserved"`
	Failed   []string              `json:"failed"`
	// base line only
	Leaves  map[string]string `json:"leaves,omitempty"`
	Kinds   map[string]string `json:"kinds,omitempty"`
	Targets map[string]string `json:"targets,omitempty"`
	Owners  map[string]string `json:"owners,omitempty"`
	Steps   []ext8Step        `json:"steps,omitempty"`
	Ms      int               `json:"ms"`
}

// evaluate writes the tree as the configuration file, runs the real parsing and
// validation and, when accepted, the flow.
func (lab *ext8Lab) evaluate(tree any, env map[string]string) (r *ext8Run, stage, errText string) {
	b, err := yaml.Marshal(tree)
	if err != nil {
		lab.t.Fatal(err)
	}
	ext8WriteFile(lab.t, lab.envBase["CONFIG_PATH"], b)
	for k, v := range env {
		lab.t.Setenv(k, v)
	}
	defer func() {
		for k := range env {
			lab.t.Setenv(k, lab.envBase[k])
		}
	}()
	stage = "env-parse"
	var c *configuration
	var envs *environment
	crash := c20Recover("validation", func() {
		envs, err = parseEnvironment()
		if err != nil {
			return
		}
		stage = "env-validate"
		if err = envs.validate(); err != nil {
			return
		}
		stage = "parse"
		c, err = parseConfig(envs.ConfPath)
		if err != nil {
			return
		}
		stage = "validate"
		if err = c.validate(); err != nil {
			return
		}
		stage = "env"
		if err = envs.validateFromValidConfig(c); err != nil {
			return
		}
		stage = "accepted"
	})
	if crash != "" {
		return nil, stage, crash
	}
	if err != nil {
		return nil, stage, err.Error()
	}
	return lab.runFlow(c, envs), stage, ""
}

func ext8FailedSteps(r *ext8Run) (m map[string]string) {
	m = map[string]string{}
	for _, s := range r.steps {
		if s.Err != "" {
			m[s.Name] = s.Err
		}
	}
	return m
}

// diff compares a variant run with the baseline run.  A path the baseline has
// and the variant lacks because its step failed in the variant (and not in
// the baseline) is unobserved, not changed; so is everything recorded by a
// later part of the same step.
func ext8Diff(base, r *ext8Run, ev *ext8Event) {
	bf, vf := ext8FailedSteps(base), ext8FailedSteps(r)
	// A step that fails in the variant but not in the baseline leaves the
	// builder in a state the later steps were not written for: what that step
	// and every later step recorded is unobserved in this variant.
	order := map[string]int{}
	for i, s := range base.steps {
		order[s.Name] = i
	}
	first := len(base.steps)
	for s, e := range vf {
		if _, ok := bf[s]; !ok {
			ev.Failed = append(ev.Failed, s+": "+e)
			if order[s] < first {
				first = order[s]
			}
		}
	}
	sort.Strings(ev.Failed)
	unobs := func(step string) bool { return order[step] >= first }
	for p, ov := range base.flat.vals {
		nv, ok := r.flat.vals[p]
		switch {
		case unobs(base.flat.owner[p]):
			ev.Unobs = append(ev.Unobs, p)
		case !ok:
			ev.Changed[p] = ext8Change{Old: ov, New: ext8Absent}
		case nv != ov:
			ev.Changed[p] = ext8Change{Old: ov, New: nv}
		}
	}
	for p, nv := range r.flat.vals {
		if _, ok := base.flat.vals[p]; !ok && !unobs(r.flat.owner[p]) {
			ev.Changed[p] = ext8Change{Old: ext8Absent, New: nv}
		}
	}
	sort.Strings(ev.Unobs)
}

// ---------------------------------------------------------------- variants

var ext8Primes = func() (ps []int) {
	for n := 1009; len(ps) < 600; n += 2 {
		ok := true
		for d := 3; d*d <= n; d += 2 {
			if n%d == 0 {
				ok = false
				break
			}
		}
		if ok {
			ps = append(ps, n)
		}
	}
	return ps
}()

type ext8Variant struct {
	Cls string
	Val any
}

// ext8FixedDistinct: leaves whose values are constrained by validation; the
// distinctive value is chosen by hand.
var ext8FixedDistinct = map[string]any{
	"ratelimit.connection_limit.resume": 797,
	"dns.max_udp_response_size":         "1231B",
	"ratelimit.ipv4.subnet_key_len":     23,
	"ratelimit.ipv6.subnet_key_len":     61,
}

// variants returns the values a leaf is moved to; k is the ordinal of the
// leaf, from which its distinctive value is derived.
func (lab *ext8Lab) variants(l ext8Leaf, k int) (vs []ext8Variant) {
	pat := ext8Pattern(l.Path)
	// the seed moves every distinctive value
	k += 3 * int(vhSeed()%37)
	d := lab.dir
	if v, ok := ext8FixedDistinct[pat]; ok {
		vs = append(vs, ext8Variant{"distinct", v})
	}
	add := func(cls string, v any) {
		for _, x := range vs {
			if x.Cls == cls {
				return
			}
		}
		if fmt.Sprint(v) != fmt.Sprint(l.Val) {
			vs = append(vs, ext8Variant{cls, v})
		}
	}
	switch l.Kind {
	case "bool":
		add("flip", !l.Val.(bool))
	case "int":
		add("distinct", ext8Primes[k])
		add("small", 1)
		add("zero", 0)
		if vhThorough() {
			add("distinct2", ext8Primes[k+150]+2)
		}
	case "len4", "len6":
		add("small", 1)
	case "port":
		add("distinct", 10000+ext8Primes[k])
		add("small", 1)
		add("zero", 0)
	case "dur":
		add("distinct", strconv.Itoa(101+k)+"s")
		add("zero", "0s")
		if vhThorough() {
			add("distinct2", strconv.Itoa(11+k)+"m")
			add("small", "1ms")
		}
	case "size":
		add("distinct", strconv.Itoa(100000+ext8Primes[k])+"B")
		add("small", "1B")
		add("zero", "0B")
		if vhThorough() && pat != "dns.max_udp_response_size" {
			add("distinct2", strconv.Itoa(1+k)+"MB")
		}
	case "enum":
		switch {
		case pat == "cache.type":
			add("distinct", map[string]string{"simple": "ecs", "ecs": "simple"}[fmt.Sprint(l.Val)])
		case pat == "ratelimit.allowlist.type":
			add("distinct", map[string]string{"consul": "backend", "backend": "consul"}[fmt.Sprint(l.Val)])
		case pat == "check.kv.type":
			for _, t := range []string{"backend", "consul", "redis", "cache"} {
				if t != fmt.Sprint(l.Val) {
					vs = append(vs, ext8Variant{"enum-" + t, t})
				}
			}
		case strings.HasSuffix(pat, ".protocol"):
			add("distinct", map[string]string{"tls": "https", "https": "quic", "quic": "tls"}[fmt.Sprint(l.Val)])
		case strings.HasSuffix(pat, ".es_version"):
			add("distinct", 2)
		}
	case "addrport":
		add("distinct", fmt.Sprintf("192.0.2.%d:%d", 1+k%250, 2000+k))
		if strings.Contains(pat, "bind_addresses") {
			add("family", fmt.Sprintf("[2001:db8::%x]:%d", 1+k, 2000+k))
		}
	case "addr":
		if strings.Contains(fmt.Sprint(l.Val), ":") {
			add("distinct", fmt.Sprintf("2001:db8::%x", 1+k))
		} else {
			add("distinct", fmt.Sprintf("192.0.2.%d", 1+k%250))
		}
	case "prefix":
		if strings.Contains(pat, "bind_interfaces") {
			// the subnet must belong to the interface (lo)
			add("distinct", fmt.Sprintf("127.%d.0.0/16", 1+k%250))
		} else {
			add("distinct", fmt.Sprintf("10.%d.0.0/16", 1+k%250))
		}
	case "url":
		add("distinct", fmt.Sprintf("https://vx%d.verif.example/", k))
	case "upstream":
		add("distinct", fmt.Sprintf("udp://127.0.1.%d:%d", 1+k%250, 3000+k))
	case "b64":
		add("distinct", base64.StdEncoding.EncodeToString([]byte(fmt.Sprintf("vx%d", k))))
	case "str", "wildcard":
		s := fmt.Sprint(l.Val)
		switch {
		case strings.HasSuffix(pat, ".provider_name"):
			add("distinct", fmt.Sprintf("2.dnscrypt-cert.vx%d.verif.example", k))
		case l.Kind == "wildcard":
			add("distinct", fmt.Sprintf("*.vx%d.verif.example", k))
		case strings.HasSuffix(pat, ".doh_path"):
			add("distinct", fmt.Sprintf("/vx%d{?dns}", k))
		case pat == "upstream.healthcheck.domain_template":
			add("distinct", fmt.Sprintf("${RANDOM}.vx%d.verif.example", k))
		case strings.Contains(s, "."):
			add("distinct", fmt.Sprintf("vx%d.verif.example", k))
		default:
			add("distinct", fmt.Sprintf("vx%d_%s", k, s))
		}
	case "listid":
		add("distinct", "verif_other_filter")
	case "file":
		add("distinct", filepath.Join(d, "alt_"+filepath.Base(fmt.Sprint(l.Val))))
	case "path":
		add("distinct", filepath.Join(d, "alt_block_page.html"))
	case "dnscryptpath":
		add("distinct", filepath.Join(d, "dnscrypt2.yml"))
	case "keypath":
		add("distinct", filepath.Join(d, "tls_key_3"))
	case "certpath":
		add("distinct", filepath.Join(d, "cert2.crt"))
	case "certkeypath":
		add("distinct", filepath.Join(d, "cert2.key"))
	}
	return vs
}

// ---------------------------------------------------------------- environment leaves

type ext8EnvVar struct {
	Name string
	Kind string
	Vals []ext8Variant
}

func (lab *ext8Lab) envVars() (vs []ext8EnvVar) {
	u := lab.httpURL
	g1 := "grpc://" + lab.grpc[1]
	d := lab.dir
	v := func(cls string, val string) ext8Variant { return ext8Variant{cls, val} }
	return []ext8EnvVar{
		{"ADULT_BLOCKING_URL", "url", []ext8Variant{v("distinct", u+"/vx/adult.txt")}},
		{"SAFE_BROWSING_URL", "url", []ext8Variant{v("distinct", u+"/vx/sb.txt")}},
		{"NEW_REG_DOMAINS_URL", "url", []ext8Variant{v("distinct", u+"/vx/nrd.txt")}},
		{"BLOCKED_SERVICE_INDEX_URL", "url", []ext8Variant{v("distinct", u+"/vx/services.json")}},
		{"FILTER_INDEX_URL", "url", []ext8Variant{v("distinct", u+"/vx/filters.json")}},
		{"GENERAL_SAFE_SEARCH_URL", "url", []ext8Variant{v("distinct", u+"/vx/gss.txt")}},
		{"YOUTUBE_SAFE_SEARCH_URL", "url", []ext8Variant{v("distinct", u+"/vx/yss.txt")}},
		{"LINKED_IP_TARGET_URL", "url", []ext8Variant{v("distinct", u+"/vx/linkip")}},
		{"RULESTAT_URL", "url", []ext8Variant{v("distinct", u+"/vx/rulestat"), v("unset", "")}},
		{"CONSUL_ALLOWLIST_URL", "url", []ext8Variant{v("distinct", u+"/vx/allow")}},
		{"CONSUL_DNSCHECK_KV_URL", "url", []ext8Variant{v("distinct", u+"/v1/kv/vx")}},
		{"CONSUL_DNSCHECK_SESSION_URL", "url", []ext8Variant{v("distinct", u+"/vx/session/create")}},
		{"BACKEND_RATELIMIT_URL", "url", []ext8Variant{v("distinct", g1)}},
		{"BILLSTAT_URL", "url", []ext8Variant{v("distinct", g1)}},
		{"PROFILES_URL", "url", []ext8Variant{v("distinct", g1)}},
		{"DNSCHECK_REMOTEKV_URL", "url", []ext8Variant{v("distinct", g1)}},
		{"BACKEND_RATELIMIT_API_KEY", "str", []ext8Variant{v("distinct", "vxrlkey")}},
		{"BILLSTAT_API_KEY", "str", []ext8Variant{v("distinct", "vxbskey")}},
		{"PROFILES_API_KEY", "str", []ext8Variant{v("distinct", "vxprkey")}},
		{"DNSCHECK_REMOTEKV_API_KEY", "str", []ext8Variant{v("distinct", "vxkvkey")}},
		{"FILTER_CACHE_PATH", "path", []ext8Variant{v("distinct", filepath.Join(d, "vxfilters"))}},
		{"GEOIP_ASN_PATH", "path", []ext8Variant{v("distinct", strings.Replace(lab.envBase["GEOIP_ASN_PATH"], "ISP", "City", 1))}},
		{"GEOIP_COUNTRY_PATH", "path", []ext8Variant{v("distinct", strings.Replace(lab.envBase["GEOIP_COUNTRY_PATH"], "Country", "City", 1))}},
		{"PROFILES_CACHE_PATH", "path", []ext8Variant{v("distinct", filepath.Join(d, "vxcache.pb")), v("none", "none")}},
		{"PROFILES_MAX_RESP_SIZE", "size", []ext8Variant{v("distinct", "104729B"), v("small", "1B")}},
		{"QUERYLOG_PATH", "path", []ext8Variant{v("distinct", filepath.Join(d, "vxquerylog.jsonl"))}},
		{"SSL_KEY_LOG_FILE", "path", []ext8Variant{v("distinct", filepath.Join(d, "vxkeys.log"))}},
		{"DNSCHECK_CACHE_KV_SIZE", "int", []ext8Variant{v("distinct", "1013"), v("small", "1")}},
		{"REDIS_ADDR", "str", []ext8Variant{v("distinct", "vxredis.verif.example")}},
		{"REDIS_PORT", "port", []ext8Variant{v("distinct", "16381")}},
		{"REDIS_KEY_PREFIX", "str", []ext8Variant{v("distinct", "vxprefix")}},
		{"REDIS_MAX_ACTIVE", "int", []ext8Variant{v("distinct", "1019"), v("zero", "0")}},
		{"REDIS_MAX_IDLE", "int", []ext8Variant{v("distinct", "1021"), v("zero", "0")}},
		{"REDIS_IDLE_TIMEOUT", "dur", []ext8Variant{v("distinct", "107s")}},
		{"LISTEN_ADDR", "addr", []ext8Variant{v("distinct", "127.0.0.77")}},
		{"LISTEN_PORT", "port", []ext8Variant{v("distinct", "18191")}},
		{"ADULT_BLOCKING_ENABLED", "bool", []ext8Variant{v("flip", "0")}},
		{"NEW_REG_DOMAINS_ENABLED", "bool", []ext8Variant{v("flip", "0")}},
		{"SAFE_BROWSING_ENABLED", "bool", []ext8Variant{v("flip", "0")}},
		{"BLOCKED_SERVICE_ENABLED", "bool", []ext8Variant{v("flip", "0")}},
		{"GENERAL_SAFE_SEARCH_ENABLED", "bool", []ext8Variant{v("flip", "0")}},
		{"YOUTUBE_SAFE_SEARCH_ENABLED", "bool", []ext8Variant{v("flip", "0")}},
		{"WEB_STATIC_DIR_ENABLED", "bool", []ext8Variant{v("flip", "1")}},
		{"WEB_STATIC_DIR", "path", []ext8Variant{v("distinct", filepath.Join(d, "static2"))}},
	}
}

func ext8CanonEnv(kind, v string) (s string) {
	switch kind {
	case "bool":
		return map[string]string{"0": "false", "1": "true"}[v]
	case "size":
		var z datasize.ByteSize
		if err := z.UnmarshalText([]byte(v)); err == nil {
			return strconv.FormatUint(z.Bytes(), 10)
		}
	case "dur":
		if d, err := time.ParseDuration(v); err == nil {
			return d.String()
		}
	}
	return v
}

// ---------------------------------------------------------------- the test

func TestVerifEXT8(t *testing.T) {
	out := vhOpen(t)
	ext8InstallHooks()
	lab := ext8NewLab(t)

	t0 := time.Now()
	base, stage, errText := lab.evaluate(lab.tree, nil)
	if base == nil {
		t.Fatalf("the distributed example is not accepted: %s: %s", stage, errText)
	}
	leaves, lens := lab.leaves(lab.tree)
	bev := &ext8Event{Kind: "base", Accepted: true, Stage: stage, Leaves: map[string]string{}, Kinds: map[string]string{},
		Targets: base.flat.vals, Owners: base.flat.owner, Steps: base.steps, Set: map[string]string{},
		Changed: map[string]ext8Change{}, Ms: int(time.Since(t0).Milliseconds())}
	for _, l := range leaves {
		bev.Leaves[l.Path] = lab.canonLeaf(l.Kind, l.Val)
		bev.Kinds[l.Path] = l.Kind
	}
	for p, n := range lens {
		bev.Leaves[p+".#len"] = strconv.Itoa(n)
		bev.Kinds[p+".#len"] = "len"
	}
	evs := lab.envVars()
	for _, ev := range evs {
		bev.Leaves["env."+ev.Name] = ext8CanonEnv(ev.Kind, lab.envBase[ev.Name])
		bev.Kinds["env."+ev.Name] = ev.Kind
	}
	// determinism: the same configuration must flatten to the same map
	again, _, _ := lab.evaluate(lab.tree, nil)
	chk := &ext8Event{Changed: map[string]ext8Change{}}
	ext8Diff(base, again, chk)
	if len(chk.Changed) > 0 || len(chk.Unobs) > 0 {
		t.Fatalf("two runs of the unchanged example differ: %v %v", chk.Changed, chk.Unobs)
	}
	out.Emit(bev)

	id := 0
	only := os.Getenv("VERIF_EXT8_ONLY") // debugging / replay: only leaves whose path contains this text
	classes := os.Getenv("VERIF_EXT8_CLASSES")
	emit := func(ev *ext8Event, tree any, env map[string]string) {
		id++
		ev.Kind, ev.ID = "var", id
		ev.Changed = map[string]ext8Change{}
		ts := time.Now()
		r, stage, errText := lab.evaluate(tree, env)
		ev.Stage, ev.Err = stage, errText
		if len(ev.Err) > 300 {
			ev.Err = ev.Err[:300]
		}
		if r != nil {
			ev.Accepted = true
			ext8Diff(base, r, ev)
		}
		if ev.Unobs == nil {
			ev.Unobs = []string{}
		}
		if ev.Failed == nil {
			ev.Failed = []string{}
		}
		ev.Ms = int(time.Since(ts).Milliseconds())
		out.Emit(ev)
	}
	want := func(p, cls string) bool {
		if only != "" && !strings.Contains(p, only) {
			return false
		}
		if classes != "" && !strings.Contains(","+classes+",", ","+cls+",") {
			return false
		}
		return true
	}

	// scalar leaves of the configuration file
	for k, l := range leaves {
		for _, v := range lab.variants(l, k) {
			if !want(l.Path, v.Cls) {
				continue
			}
			tree := ext8Clone(lab.tree)
			if !ext8Set(tree, l.Path, v.Val) {
				t.Fatalf("cannot set %s", l.Path)
			}
			ev := &ext8Event{Src: "yaml", Leaf: l.Path, LeafKind: l.Kind, Cls: v.Cls, Op: "set",
				Set: map[string]string{l.Path: lab.canonLeaf(l.Kind, v.Val)}}
			emit(ev, tree, nil)
		}
	}

	// lists: one element less, one element more, another order
	var lists []string
	for p := range lens {
		if _, isList := func() (any, bool) { v, _ := ext8Get(lab.tree, p); l, ok := v.([]any); return l, ok }(); isList {
			lists = append(lists, p)
		}
	}
	sort.Strings(lists)
	for li, p := range lists {
		v, _ := ext8Get(lab.tree, p)
		old := v.([]any)
		mk := func(op string, nl []any) {
			if !want(p, op) {
				return
			}
			tree := ext8Clone(lab.tree)
			ext8Set(tree, p, nl)
			nleaves, nlens := lab.leaves(tree)
			set := map[string]string{}
			newVals := map[string]string{}
			for _, l := range nleaves {
				if strings.HasPrefix(l.Path, p+"[") {
					newVals[l.Path] = lab.canonLeaf(l.Kind, l.Val)
				}
			}
			for q, n := range nlens {
				if q == p || strings.HasPrefix(q, p+"[") {
					newVals[q+".#len"] = strconv.Itoa(n)
				}
			}
			for q, ov := range bev.Leaves {
				if q == p+".#len" || strings.HasPrefix(q, p+"[") {
					nv, ok := newVals[q]
					if !ok {
						set[q] = ext8Absent
					} else if nv != ov {
						set[q] = nv
					}
				}
			}
			for q, nv := range newVals {
				if _, ok := bev.Leaves[q]; !ok {
					set[q] = nv
				}
			}
			ev := &ext8Event{Src: "yaml", Leaf: p, LeafKind: "list", Cls: op, Op: op, Set: set}
			emit(ev, tree, nil)
		}
		if len(old) >= 2 {
			mk("drop", ext8Clone(old[:len(old)-1]).([]any))
			sw := ext8Clone(old).([]any)
			sw[0], sw[len(sw)-1] = sw[len(sw)-1], sw[0]
			mk("swap", sw)
		}
		if ne := lab.newElement(p, old, li); ne != nil {
			mk("add", append(ext8Clone(old).([]any), ne))
		}
	}

	// environment variables
	for _, ev := range evs {
		for _, v := range ev.Vals {
			if !want("env."+ev.Name, v.Cls) {
				continue
			}
			e := &ext8Event{Src: "env", Leaf: "env." + ev.Name, LeafKind: ev.Kind, Cls: v.Cls, Op: "set",
				Set: map[string]string{"env." + ev.Name: ext8CanonEnv(ev.Kind, fmt.Sprint(v.Val))}}
			emit(e, lab.tree, map[string]string{ev.Name: fmt.Sprint(v.Val)})
		}
	}

	// pairs: a leaf varied while the switch that gates it (or selects its
	// consumer) is in the other position
	type ctxA struct {
		env  bool
		path string
		val  any
	}
	combos := []struct {
		ctx    []ctxA
		leaves []string
		cls    string
	}{
		{[]ctxA{{false, "upstream.healthcheck.enabled", false}}, []string{"upstream.healthcheck.timeout", "upstream.healthcheck.interval"}, "distinct"},
		{[]ctxA{{false, "cache.ttl_override.enabled", false}}, []string{"cache.ttl_override.min"}, "distinct"},
		{[]ctxA{{false, "dnsdb.enabled", false}}, []string{"dnsdb.max_size"}, "distinct"},
		{[]ctxA{{false, "ratelimit.connection_limit.enabled", false}}, []string{"ratelimit.connection_limit.stop", "ratelimit.connection_limit.resume"}, "distinct"},
		{[]ctxA{{false, "check.kv.type", "backend"}}, []string{"check.kv.ttl", "env.DNSCHECK_REMOTEKV_URL", "env.DNSCHECK_REMOTEKV_API_KEY"}, "distinct"},
		{[]ctxA{{false, "check.kv.type", "consul"}}, []string{"check.kv.ttl", "env.CONSUL_DNSCHECK_KV_URL", "env.CONSUL_DNSCHECK_SESSION_URL"}, "distinct"},
		{[]ctxA{{false, "check.kv.type", "redis"}}, []string{"check.kv.ttl", "env.REDIS_ADDR", "env.REDIS_PORT", "env.REDIS_KEY_PREFIX",
			"env.REDIS_MAX_ACTIVE", "env.REDIS_MAX_IDLE", "env.REDIS_IDLE_TIMEOUT"}, "distinct"},
		{[]ctxA{{false, "check.kv.type", "redis"}}, []string{"env.REDIS_MAX_ACTIVE", "env.REDIS_MAX_IDLE"}, "zero"},
		{[]ctxA{{false, "cache.type", "ecs"}}, []string{"cache.size"}, "zero"},
		{[]ctxA{{false, "server_groups[0].profiles_enabled", false}}, []string{"backend.timeout", "backend.refresh_interval",
			"ratelimit.response_size_estimate"}, "distinct"},
		{[]ctxA{{false, "ratelimit.allowlist.type", "backend"}}, []string{"env.BACKEND_RATELIMIT_URL", "env.BACKEND_RATELIMIT_API_KEY",
			"ratelimit.allowlist.refresh_interval"}, "distinct"},
		{[]ctxA{{false, "filters.sde_enabled", false}}, []string{"filters.ede_enabled"}, "flip"},
		{[]ctxA{{true, "WEB_STATIC_DIR_ENABLED", "1"}}, []string{"env.WEB_STATIC_DIR"}, "distinct"},
		{[]ctxA{{true, "ADULT_BLOCKING_ENABLED", "0"}}, []string{"adult_blocking.cache_ttl"}, "distinct"},
		{[]ctxA{{true, "GENERAL_SAFE_SEARCH_ENABLED", "0"}}, []string{"filters.safe_search_cache_size"}, "distinct"},
	}
	leafIdx := map[string]int{}
	for k, l := range leaves {
		leafIdx[l.Path] = k
	}
	// every switch of the file in its other position together with each scalar
	// of the same object at its distinctive value
	parent := func(p string) string {
		if i := strings.LastIndex(p, "."); i >= 0 {
			return p[:i]
		}
		return ""
	}
	for _, fl := range leaves {
		if fl.Kind != "bool" || !strings.HasSuffix(fl.Path, "enabled") {
			continue
		}
		var sibs []string
		for _, sl := range leaves {
			if sl.Path != fl.Path && parent(sl.Path) == parent(fl.Path) && sl.Kind != "bool" {
				sibs = append(sibs, sl.Path)
			}
		}
		if len(sibs) == 0 {
			continue
		}
		dup := false
		for _, cb := range combos {
			if len(cb.ctx) == 1 && cb.ctx[0].path == fl.Path {
				dup = true
			}
		}
		if !dup {
			combos = append(combos, struct {
				ctx    []ctxA
				leaves []string
				cls    string
			}{[]ctxA{{false, fl.Path, !fl.Val.(bool)}}, sibs, "distinct"})
		}
	}
	envIdx := map[string]int{}
	for k, e := range evs {
		envIdx[e.Name] = k
	}
	for _, cb := range combos {
		for _, lp := range cb.leaves {
			tree := ext8Clone(lab.tree)
			env := map[string]string{}
			set := map[string]string{}
			var ctxs []string
			for _, c := range cb.ctx {
				if c.env {
					ek := evs[envIdx[c.path]]
					env[c.path] = fmt.Sprint(c.val)
					set["env."+c.path] = ext8CanonEnv(ek.Kind, fmt.Sprint(c.val))
					ctxs = append(ctxs, "env."+c.path+"="+fmt.Sprint(c.val))
				} else {
					k, ok := leafIdx[c.path]
					if !ok || !ext8Set(tree, c.path, c.val) {
						t.Fatalf("combo: no leaf %s", c.path)
					}
					set[c.path] = lab.canonLeaf(leaves[k].Kind, c.val)
					ctxs = append(ctxs, c.path+"="+fmt.Sprint(c.val))
				}
			}
			ev := &ext8Event{Src: "combo", Leaf: lp, Cls: cb.cls, Op: "set", Ctx: strings.Join(ctxs, ","), Set: set}
			if !want(lp, cb.cls) {
				continue
			}
			found := false
			if strings.HasPrefix(lp, "env.") {
				ek := evs[envIdx[lp[4:]]]
				ev.LeafKind = ek.Kind
				for _, v := range ek.Vals {
					if v.Cls == cb.cls {
						env[ek.Name] = fmt.Sprint(v.Val)
						set[lp] = ext8CanonEnv(ek.Kind, fmt.Sprint(v.Val))
						found = true
					}
				}
			} else {
				k, ok := leafIdx[lp]
				if !ok {
					t.Fatalf("combo: no leaf %s", lp)
				}
				ev.LeafKind = leaves[k].Kind
				for _, v := range lab.variants(leaves[k], k) {
					if v.Cls == cb.cls {
						ext8Set(tree, lp, v.Val)
						set[lp] = lab.canonLeaf(leaves[k].Kind, v.Val)
						found = true
					}
				}
			}
			if !found {
				continue
			}
			emit(ev, tree, env)
		}
	}
}

// newElement returns an element to append to the list at p, or nil when the
// list's elements are not of a kind the recorder can invent.
func (lab *ext8Lab) newElement(p string, old []any, k int) (e any) {
	pat := ext8Pattern(p)
	switch pat {
	case "upstream.servers", "upstream.fallback.servers":
		return map[any]any{"address": fmt.Sprintf("tcp://127.0.2.%d:%d", 1+k, 4000+k), "timeout": strconv.Itoa(211+k) + "s"}
	case "check.domains":
		return fmt.Sprintf("vxadd%d.verif.example", k)
	case "check.ipv4":
		return fmt.Sprintf("198.51.100.%d", 1+k)
	case "check.ipv6":
		return fmt.Sprintf("2001:db8:1::%x", 1+k)
	case "ratelimit.allowlist.list", "access.blocked_client_subnets":
		return fmt.Sprintf("10.200.%d.0/24", 1+k)
	case "access.blocked_question_domains":
		return fmt.Sprintf("vxadd%d.verif.example", k)
	case "server_groups[*].servers[*].bind_addresses":
		return fmt.Sprintf("192.0.2.%d:%d", 200+k%50, 5000+k)
	case "server_groups[*].tls.device_id_wildcards":
		return fmt.Sprintf("*.vxadd%d.verif.example", k)
	case "server_groups[*].tls.session_keys":
		return filepath.Join(lab.dir, "tls_key_3")
	case "server_groups[*].ddr.device_records{*}.ipv4_hints", "server_groups[*].ddr.public_records{*}.ipv4_hints":
		return fmt.Sprintf("198.51.100.%d", 100+k)
	case "server_groups[*].ddr.device_records{*}.ipv6_hints", "server_groups[*].ddr.public_records{*}.ipv6_hints":
		return fmt.Sprintf("2001:db8:2::%x", 1+k)
	case "filtering_groups[*].rule_lists.ids":
		return "verif_other_filter"
	case "web.linked_ip.bind", "web.adult_blocking.bind", "web.general_blocking.bind", "web.safe_browsing.bind", "web.non_doh_bind":
		return map[any]any{"address": fmt.Sprintf("192.0.2.%d:%d", 150+k%50, 6000+k)}
	}
	return nil
}
